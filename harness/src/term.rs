//! Generic tree for cases and observations; text form shared with the OCaml driver.
use std::fmt::Write;

#[derive(Clone, Debug, PartialEq, Eq, Hash)]
pub enum Term {
    Str(String),
    Int(i128),
    List(Vec<Term>),
}

pub fn ts(s: &str) -> Term {
    Term::Str(s.to_string())
}
pub fn ti(i: i64) -> Term {
    Term::Int(i as i128)
}
pub fn tb(b: bool) -> Term {
    Term::Int(if b { 1 } else { 0 })
}
pub fn tl(v: Vec<Term>) -> Term {
    Term::List(v)
}
pub fn tag(name: &str, mut args: Vec<Term>) -> Term {
    let mut v = vec![ts(name)];
    v.append(&mut args);
    Term::List(v)
}
pub fn tstrs<S: AsRef<str>>(v: &[S]) -> Term {
    Term::List(v.iter().map(|s| ts(s.as_ref())).collect())
}

impl Term {
    pub fn as_str(&self) -> &str {
        match self {
            Term::Str(s) => s,
            _ => "",
        }
    }
    pub fn as_int(&self) -> i128 {
        match self {
            Term::Int(i) => *i,
            _ => 0,
        }
    }
    pub fn as_list(&self) -> &[Term] {
        match self {
            Term::List(l) => l,
            _ => &[],
        }
    }
    pub fn strs(&self) -> Vec<String> {
        self.as_list().iter().map(|t| t.as_str().to_string()).collect()
    }
    pub fn nth(&self, i: usize) -> &Term {
        &self.as_list()[i]
    }

    pub fn write(&self, out: &mut String) {
        match self {
            Term::Str(s) => {
                out.push('"');
                for c in s.chars() {
                    let i = c as u32;
                    if c == '"' {
                        out.push_str("\\\"");
                    } else if c == '\\' {
                        out.push_str("\\\\");
                    } else if i >= 32 && i < 127 {
                        out.push(c);
                    } else {
                        write!(out, "\\u{{{:x}}}", i).unwrap();
                    }
                }
                out.push('"');
            }
            Term::Int(i) => {
                write!(out, "#{}", i).unwrap();
            }
            Term::List(l) => {
                out.push('(');
                for (k, t) in l.iter().enumerate() {
                    if k > 0 {
                        out.push(' ');
                    }
                    t.write(out);
                }
                out.push(')');
            }
        }
    }

    pub fn to_text(&self) -> String {
        let mut s = String::new();
        self.write(&mut s);
        s
    }

    pub fn parse(text: &str) -> Result<Term, String> {
        let chars: Vec<char> = text.chars().collect();
        let mut pos = 0;
        let t = parse_at(&chars, &mut pos)?;
        Ok(t)
    }
}

fn parse_at(c: &[char], pos: &mut usize) -> Result<Term, String> {
    while *pos < c.len() && c[*pos] == ' ' {
        *pos += 1;
    }
    if *pos >= c.len() {
        return Err("eof".into());
    }
    match c[*pos] {
        '"' => {
            *pos += 1;
            let mut s = String::new();
            loop {
                if *pos >= c.len() {
                    return Err("unterminated string".into());
                }
                let ch = c[*pos];
                *pos += 1;
                if ch == '"' {
                    break;
                } else if ch == '\\' {
                    let e = c[*pos];
                    *pos += 1;
                    if e == 'u' {
                        *pos += 1; // {
                        let mut v: u32 = 0;
                        while c[*pos] != '}' {
                            v = v * 16 + c[*pos].to_digit(16).ok_or("bad hex")?;
                            *pos += 1;
                        }
                        *pos += 1;
                        s.push(std::char::from_u32(v).ok_or("bad scalar")?);
                    } else {
                        s.push(e);
                    }
                } else {
                    s.push(ch);
                }
            }
            Ok(Term::Str(s))
        }
        '#' => {
            *pos += 1;
            let start = *pos;
            if *pos < c.len() && c[*pos] == '-' {
                *pos += 1;
            }
            while *pos < c.len() && c[*pos].is_ascii_digit() {
                *pos += 1;
            }
            let txt: String = c[start..*pos].iter().collect();
            Ok(Term::Int(txt.parse::<i128>().map_err(|e| e.to_string())?))
        }
        '(' => {
            *pos += 1;
            let mut v = Vec::new();
            loop {
                while *pos < c.len() && c[*pos] == ' ' {
                    *pos += 1;
                }
                if *pos >= c.len() {
                    return Err("unterminated list".into());
                }
                if c[*pos] == ')' {
                    *pos += 1;
                    break;
                }
                v.push(parse_at(c, pos)?);
            }
            Ok(Term::List(v))
        }
        x => Err(format!("unexpected {:?} at {}", x, pos)),
    }
}
