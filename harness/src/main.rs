//! molt_harness — generates cases, runs the implementation (/repo/molt) on them in
//! crash-isolated workers and writes "case TAB impl_obs" lines for the OCaml driver.
mod props;
mod rng;
mod term;

use std::io::{BufRead, BufReader, Write};
use std::process::{Child, ChildStdin, Command, Stdio};
use std::sync::mpsc;
use std::time::Duration;
use term::*;

fn usage() -> ! {
    eprintln!("usage: molt_harness run <prop> <tier> <seed> <outfile> | worker <prop> | one <prop> <case>");
    std::process::exit(2);
}

fn run_one(prop: &str, case: &Term) -> Term {
    let r = std::panic::catch_unwind(|| props::run(prop, case));
    match r {
        Ok(t) => t,
        Err(e) => {
            let msg = if let Some(s) = e.downcast_ref::<&str>() {
                s.to_string()
            } else if let Some(s) = e.downcast_ref::<String>() {
                s.clone()
            } else {
                "?".to_string()
            };
            tag("PANIC", vec![ts(&msg)])
        }
    }
}

fn worker(prop: &str) {
    std::panic::set_hook(Box::new(|_| {}));
    let stdin = std::io::stdin();
    let stdout = std::io::stdout();
    for line in stdin.lock().lines() {
        let line = line.unwrap();
        if line.is_empty() {
            continue;
        }
        let case = Term::parse(&line).expect("bad case");
        let obs = run_one(prop, &case);
        let mut out = stdout.lock();
        writeln!(out, "{}", obs.to_text()).unwrap();
        out.flush().unwrap();
    }
}

struct Worker {
    child: Child,
    stdin: ChildStdin,
    rx: mpsc::Receiver<Option<String>>,
}

/// JSON string escaping for the family names printed in the statistics line
fn json_escape(s: &str) -> String {
    let mut o = String::new();
    for c in s.chars() {
        match c {
            '"' => o.push_str("\\\""),
            '\\' => o.push_str("\\\\"),
            '\n' => o.push_str("\\n"),
            '\t' => o.push_str("\\t"),
            c if (c as u32) < 0x20 => o.push_str(&format!("\\u{:04x}", c as u32)),
            c => o.push(c),
        }
    }
    o
}

fn spawn_worker(prop: &str) -> Worker {
    let exe = std::env::current_exe().unwrap();
    // the worker runs under an address-space cap (4 GiB): a runaway allocation in the code under
    // test ends that worker (reported as ABORT) instead of exhausting the machine
    let mut child = Command::new("/bin/sh")
        .arg("-c")
        .arg("ulimit -v 4194304 2>/dev/null; exec \"$0\" \"$@\"")
        .arg(exe)
        .arg("worker")
        .arg(prop)
        .env_clear()
        .stdin(Stdio::piped())
        .stdout(Stdio::piped())
        .stderr(Stdio::null())
        .spawn()
        .expect("spawn worker");
    let stdin = child.stdin.take().unwrap();
    let stdout = child.stdout.take().unwrap();
    let (tx, rx) = mpsc::channel();
    std::thread::spawn(move || {
        let rd = BufReader::new(stdout);
        for line in rd.lines() {
            match line {
                Ok(l) => {
                    if tx.send(Some(l)).is_err() {
                        return;
                    }
                }
                Err(_) => break,
            }
        }
        let _ = tx.send(None);
    });
    Worker { child, stdin, rx }
}

fn run_chunk(prop: &str, cases: &[Term], timeout_s: u64) -> Vec<Term> {
    let mut out = Vec::with_capacity(cases.len());
    let mut w = spawn_worker(prop);
    // a case that exceeds the watchdog is tried once more, alone, with three times the budget
    // (so that a loaded machine does not turn a slow case into an alarm); after a few confirmed
    // time-outs in this chunk the second chance is dropped to keep the run short
    let mut confirmed_timeouts = 0;
    for case in cases {
        let line = case.to_text();
        let ok = writeln!(w.stdin, "{}", line).and_then(|_| w.stdin.flush()).is_ok();
        let obs = if !ok {
            None
        } else {
            match w.rx.recv_timeout(Duration::from_secs(timeout_s)) {
                Ok(Some(l)) => Some(Term::parse(&l).unwrap_or_else(|e| tag("BADOBS", vec![ts(&e)]))),
                Ok(None) => None,
                Err(mpsc::RecvTimeoutError::Timeout) => {
                    let _ = w.child.kill();
                    let _ = w.child.wait();
                    w = spawn_worker(prop);
                    let mut second: Option<Term> = None;
                    if confirmed_timeouts < 3 {
                        let ok2 = writeln!(w.stdin, "{}", line).and_then(|_| w.stdin.flush()).is_ok();
                        if ok2 {
                            match w.rx.recv_timeout(Duration::from_secs(3 * timeout_s)) {
                                Ok(Some(l)) => second = Some(Term::parse(&l).unwrap_or_else(|e| tag("BADOBS", vec![ts(&e)]))),
                                Ok(None) => second = Some(tag("ABORT", vec![])),
                                _ => {}
                            }
                        }
                        if second.is_none() || second.as_ref().map(|t| t.nth(0).as_str() == "ABORT").unwrap_or(false) {
                            let _ = w.child.kill();
                            let _ = w.child.wait();
                            w = spawn_worker(prop);
                        }
                    }
                    match second {
                        Some(t) => out.push(t),
                        None => {
                            confirmed_timeouts += 1;
                            out.push(tag("TIMEOUT", vec![]));
                        }
                    }
                    continue;
                }
                Err(_) => None,
            }
        };
        match obs {
            Some(t) => out.push(t),
            None => {
                // the worker died on this case (abort, stack overflow, exit)
                let _ = w.child.kill();
                let _ = w.child.wait();
                w = spawn_worker(prop);
                out.push(tag("ABORT", vec![]));
            }
        }
    }
    drop(w.stdin);
    let _ = w.child.kill();
    let _ = w.child.wait();
    out
}

/// Dumps the Unicode classification and case tables of the Rust std this harness (and molt)
/// is built with, as a Coq file (coq/Gen/UnicodeTabs.v).
fn unicode_tables() {
    fn ranges(f: &dyn Fn(char) -> bool) -> Vec<(u32, u32)> {
        let mut out = Vec::new();
        let mut start: Option<u32> = None;
        for cp in 0..=0x110000u32 {
            let yes = std::char::from_u32(cp).map(|c| f(c)).unwrap_or(false);
            match (yes, start) {
                (true, None) => start = Some(cp),
                (false, Some(s)) => {
                    out.push((s, cp - 1));
                    start = None;
                }
                _ => {}
            }
        }
        out
    }
    fn show(name: &str, r: &[(u32, u32)]) {
        println!("Definition {} : list (N * N) := [", name);
        let items: Vec<String> = r.iter().map(|(a, b)| format!("({}, {})", a, b)).collect();
        for ch in items.chunks(8) {
            println!("  {}{}", ch.join("; "), if ch.as_ptr_range().end == items.as_ptr_range().end { "" } else { ";" });
        }
        println!("].");
    }
    println!("(* GENERATED by `molt_harness unicode` from Rust std's char methods - do not edit. *)");
    println!("From Coq Require Import List NArith.");
    println!("Import ListNotations.");
    println!("Local Open Scope N_scope.");
    show("alphanumeric_ranges", &ranges(&|c| c.is_alphanumeric()));
    show("alphabetic_ranges", &ranges(&|c| c.is_alphabetic()));
    show("whitespace_ranges", &ranges(&|c| c.is_whitespace()));
    // The two character classes behind str::to_lowercase's treatment of U+03A3 (Final_Sigma) are not
    // public; they are recovered from its behaviour: "cΣ" ends in a final sigma iff c is cased and not
    // case-ignorable, "AcΣ" iff c is case-ignorable or cased.
    let fin = |t: String| t.to_lowercase().ends_with('\u{3c2}');
    show("cased_not_ignorable_ranges", &ranges(&|c| fin(format!("{}\u{3a3}", c))));
    show("case_ignorable_ranges", &ranges(&|c| fin(format!("A{}\u{3a3}", c)) && !fin(format!("{}\u{3a3}", c))));
    let mut lower = Vec::new();
    let mut upper = Vec::new();
    for cp in 0..0x110000u32 {
        if let Some(c) = std::char::from_u32(cp) {
            let l: Vec<u32> = c.to_lowercase().map(|x| x as u32).collect();
            if l != vec![cp] {
                lower.push((cp, l));
            }
            let u: Vec<u32> = c.to_uppercase().map(|x| x as u32).collect();
            if u != vec![cp] {
                upper.push((cp, u));
            }
        }
    }
    for (name, tab) in [("lower_map", &lower), ("upper_map", &upper)] {
        println!("Definition {} : list (N * list N) := [", name);
        let items: Vec<String> = tab
            .iter()
            .map(|(a, b)| format!("({}, [{}])", a, b.iter().map(|x| x.to_string()).collect::<Vec<_>>().join("; ")))
            .collect();
        for (k, ch) in items.chunks(6).enumerate() {
            println!("  {}{}", ch.join("; "), if (k + 1) * 6 >= items.len() { "" } else { ";" });
        }
        println!("].");
    }
}

fn main() {
    let args: Vec<String> = std::env::args().collect();
    if args.len() < 3 {
        usage();
    }
    match args[1].as_str() {
        "worker" => worker(&args[2]),
        "unicode" => unicode_tables(),
        "c20run" => props::c20::c20run(&args[2]),
        "one" => {
            let case = Term::parse(&args[3]).expect("bad case");
            // run through a worker too, so aborts are observed
            let obs = run_chunk(&args[2], &[case], 20);
            println!("{}", obs[0].to_text());
        }
        "run" => {
            if args.len() < 6 {
                usage();
            }
            let prop = args[2].clone();
            let tier = args[3].clone();
            let seed: u64 = args[4].parse().expect("seed");
            let outfile = args[5].clone();
            let mut cases: Vec<Term> = Vec::new();
            // corpus first
            let root = std::env::var("VERIF_ROOT").unwrap_or_else(|_| "/verif".to_string());
            let corpus_dir = format!("{}/corpus/{}", root, prop);
            if let Ok(rd) = std::fs::read_dir(&corpus_dir) {
                let mut files: Vec<_> = rd.filter_map(|e| e.ok()).map(|e| e.path()).collect();
                files.sort();
                for f in files {
                    if let Ok(txt) = std::fs::read_to_string(&f) {
                        for l in txt.lines() {
                            if l.trim().is_empty() || l.starts_with(';') {
                                continue;
                            }
                            if let Ok(t) = Term::parse(l) {
                                cases.push(t);
                            }
                        }
                    }
                }
            }
            let ncorpus = cases.len();
            let (mut gen, families) = props::gen(&prop, &tier, seed);
            cases.append(&mut gen);
            let nthreads = 16.min(cases.len().max(1));
            let chunk = (cases.len() + nthreads - 1) / nthreads.max(1);
            let timeout_s = 10;
            let mut results: Vec<Vec<Term>> = Vec::new();
            std::thread::scope(|s| {
                let mut handles = Vec::new();
                for ch in cases.chunks(chunk.max(1)) {
                    let prop = prop.clone();
                    handles.push(s.spawn(move || run_chunk(&prop, ch, timeout_s)));
                }
                for h in handles {
                    results.push(h.join().unwrap());
                }
            });
            let mut f = std::io::BufWriter::new(std::fs::File::create(&outfile).expect("outfile"));
            let mut n = 0;
            for (ch, res) in cases.chunks(chunk.max(1)).zip(results.iter()) {
                for (c, o) in ch.iter().zip(res.iter()) {
                    writeln!(f, "{}\t{}", c.to_text(), o.to_text()).unwrap();
                    n += 1;
                }
            }
            f.flush().unwrap();
            // statistics for the evidence file
            let fam: Vec<String> = families
                .iter()
                .map(|(name, cnt, exh)| format!("{{\"family\":\"{}\",\"cases\":{},\"exhaustive\":{}}}", json_escape(name), cnt, exh))
                .collect();
            println!("{{\"cases\":{},\"corpus\":{},\"families\":[{}]}}", n, ncorpus, fam.join(","));
        }
        _ => usage(),
    }
}
