//! C08: a failed evaluation leaves no residue in the interpreter's control state.
use super::script::*;
use super::Gen;
use crate::rng::Rng;
use crate::term::*;

pub const LIMIT: i64 = 12;
pub const PRELUDE: &str = "proc pa2 {a b} {return $a$b}; set nonint abc; set arr(1) 1";

pub const FAULTS: [&str; 32] = [
    "set q \"unterminated",
    "rec [unclosed",
    "rec $arr(",
    "pa2 1",
    "pa2 1 2 3",
    "nosuchcmd",
    "expr {1/0}",
    "expr {1 +}",
    "expr {$nosuch}",
    "break",
    "continue",
    "return -code break",
    "return -code continue",
    "return -level 3 x",
    "return -code error e",
    "return -code 7 x",
    "error boom",
    "set arr 2",
    "incr nonint",
    "return r",
    "throw MYCODE msg",
    "rec fine",
    "proc rw {} {rw}; rw",
    "proc pb {a a(1)} {return $a}; pb 1 2",
    "proc po {{a 1} b} {return $a$b}; po x",
    "proc pe {args {b 1} a} {return $a}; pe 1 2",
    "proc po3 {a {b 2} c} {return $a}; po3 1 2",
    "proc pd {a {b 2}} {return $a}; pd",
    "proc pq [list a \\{] {return 1}; pq 1 2",
    "proc pr [list a {\"x\"y}] {return 1}; pr 1 2",
    "proc ps [list {a}b c] {return 1}; ps 1 2",
    "proc pt {p(x) p(y) {p none}} {return 1}; pt 1 2",
];

pub fn wrap(rng: &mut Rng, body: &str, k: &mut usize) -> String {
    *k += 1;
    let n = *k;
    match rng.below(9) {
        0 => format!("proc p{} {{}} {{{}}}; p{}", n, body, n),
        1 => format!("set w{} 0; while {{$w{} < 1}} {{incr w{}; {}}}", n, n, n, body),
        2 => format!("foreach i{} {{1}} {{{}}}", n, body),
        3 => format!("for {{set f{} 0}} {{$f{} < 1}} {{incr f{}}} {{{}}}", n, n, n, body),
        4 => format!("if 1 {{{}}}", body),
        5 => format!("catch {{{}}}", body),
        6 => format!("rec [{}]", body),
        7 => format!("set q{} \"a[{}]b\"", n, body),
        _ => format!("expr {{[{}] + 1}}", body),
    }
}

/// the probes run after the failing evaluations; their expected outcomes are fixed
pub fn probes() -> Vec<String> {
    let mut deep = "rec deep".to_string();
    for _ in 0..(LIMIT - 1) {
        deep = format!("if 1 {{{}}}", deep);
    }
    vec![
        "return v7".to_string(),
        "break".to_string(),
        "set g8 1; proc pg {} {global g8; return $g8}; pg".to_string(),
        deep,
    ]
}

pub fn gen(tier: &str, seed: u64) -> Gen {
    let mut rng = Rng::new(seed);
    let mut cases = Vec::new();
    let n = if tier == "thorough" { 150_000 } else { 2500 };
    for i in 0..n {
        let mut scripts: Vec<String> = vec![PRELUDE.to_string()];
        let nfail = 1 + rng.below(4);
        let mut k = 0;
        // some histories run with the global error variables turned into arrays, so that
        // recording the error at top level itself fails
        let hostile = if i % 5 == 3 { 1 + rng.below(3) } else { 0 };
        match hostile {
            1 => scripts.push("unset errorInfo; set errorInfo(x) 1".to_string()),
            2 => scripts.push("unset errorCode; set errorCode(x) 1".to_string()),
            3 => scripts.push("unset errorInfo; set errorInfo(x) 1; unset errorCode; set errorCode(x) 1".to_string()),
            _ => {}
        }
        for _ in 0..nfail {
            // every fault kind at every context depth is reached systematically first, then randomly
            let f = if i < FAULTS.len() * 4 { FAULTS[i % FAULTS.len()] } else { FAULTS[rng.below(FAULTS.len())] };
            let depth = if i < FAULTS.len() * 4 { i / FAULTS.len() } else { rng.below(4) };
            let mut s = f.to_string();
            for _ in 0..depth {
                s = wrap(&mut rng, &s, &mut k);
            }
            scripts.push(s);
        }
        match hostile {
            1 => scripts.push("unset errorInfo; set errorInfo {}".to_string()),
            2 => scripts.push("unset errorCode; set errorCode {}".to_string()),
            3 => scripts.push("unset errorInfo; set errorInfo {}; unset errorCode; set errorCode {}".to_string()),
            _ => {}
        }
        scripts.extend(probes());
        let refs: Vec<&str> = scripts.iter().map(|s| s.as_str()).collect();
        cases.push(case(LIMIT, &refs, &["g8"]));
    }
    (cases, vec![("1-4 failing evaluations (32 fault kinds under 0-3 nested contexts of 9 kinds; one history in five with errorInfo/errorCode turned into arrays meanwhile) followed by 4 probes".to_string(), n, false)])
}

pub fn run(case: &Term) -> Term {
    run_history(case)
}
