//! Shared generator helpers.
use crate::rng::Rng;

/// every string of length 0..=max over the alphabet
pub fn all_strings(alpha: &[&str], max: usize) -> Vec<String> {
    let mut out = vec![String::new()];
    let mut level = vec![String::new()];
    for _ in 0..max {
        let mut next = Vec::with_capacity(level.len() * alpha.len());
        for s in &level {
            for a in alpha {
                let mut t = s.clone();
                t.push_str(a);
                next.push(t);
            }
        }
        out.extend(next.iter().cloned());
        level = next;
    }
    out
}

pub fn random_string(rng: &mut Rng, alpha: &[&str], maxlen: usize) -> String {
    let n = rng.below(maxlen + 1);
    let mut s = String::new();
    for _ in 0..n {
        s.push_str(alpha[rng.below(alpha.len())]);
    }
    s
}

/// deterministic sample of k items (all if fewer)
pub fn sample<T: Clone>(rng: &mut Rng, v: &[T], k: usize) -> Vec<T> {
    if v.len() <= k {
        return v.to_vec();
    }
    let mut out = Vec::with_capacity(k);
    for _ in 0..k {
        out.push(v[rng.below(v.len())].clone());
    }
    out
}
