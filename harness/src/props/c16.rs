//! C16: the nesting limit is exact, fail-safe and recoverable.
use super::script::*;
use super::Gen;
use crate::rng::Rng;
use crate::term::*;

/// a nest with `d` nested bodies around `rec deep`; construct kinds 0..3
pub fn nest(kind: i64, d: usize, catch_each: bool) -> String {
    let mut s = "rec deep".to_string();
    for i in 0..d {
        s = match kind {
            0 => format!("catch {{{}}}", s),
            1 => format!("if 1 {{{}}}", s),
            2 => format!("foreach v{} 1 {{{}}}", i, s),
            _ => format!("for {{set u{} 0}} {{$u{} < 1}} {{incr u{}}} {{{}}}", i, i, i, s),
        };
        if catch_each && kind != 0 {
            s = format!("catch {{{}}}", s);
        }
    }
    s
}

pub const PROCS: &str = "proc down {n} {if {$n <= 0} {rec deep; return ok}; down [expr {$n - 1}]}\nproc ping {n} {if {$n <= 0} {rec deep; return ok}; pong [expr {$n - 1}]}\nproc pong {n} {ping $n}";

pub const HISTORIES: [&str; 5] = [
    "",
    "\ncatch {if 1 \"set x \\{\"}\ncatch {if 1 {if 1 \"set x \\{\"}}\ncatch {foreach i 1 {expr {[}}}\nset h ok",
    "\nproc inf {} {inf}\ncatch {inf}\ncatch {if 1 {inf}}\nset h ok",
    "\nproc wa {a} {}\ncatch {if 1 {wa}}\ncatch {wa 1 2}\nset h ok",
    "\nproc e1 {} {e2}\nproc e2 {} {error deep}\nunset -nocomplain errorCode\nset errorCode(x) 1\ncatch {e1}\ncatch {if 1 {e1}}\nunset errorCode\nset errorCode NONE\nset h ok",
];

pub fn gen(tier: &str, seed: u64) -> Gen {
    let mut rng = Rng::new(seed);
    let mut cases = Vec::new();
    let thorough = tier == "thorough";
    // (the model's run time grows with the cube of the depth: the thorough tier takes every limit
    // up to 64 and a sample above)
    let limits: Vec<i64> = if thorough { (1..=64).chain(vec![80, 100, 128, 150, 200].into_iter()).collect() } else { vec![1, 2, 3, 5, 8, 13, 21, 34, 50, 200] };
    for &n in &limits {
        for kind in 0..8i64 {
            // the quick tier visits the largest limit with two constructs only (the model run is
            // quadratic in the depth)
            if !thorough && n > 50 && kind != 1 && kind != 4 && kind != 7 {
                continue;
            }
            for &delta in &[-1i64, 0, 1, 7] {
                for &catch_each in &[false, true] {
                    // the number of levels the construct needs is computed by the oracle from
                    // (kind, d, catch_each); here d is chosen so that need = n + delta where possible
                    let target = if delta == 7 { 10 * n } else { n + delta };
                    if target < 1 {
                        continue;
                    }
                    let c = tl(vec![ti(n), ti(kind), ti(target), tb(catch_each), ti(rng.below(3) as i64 + 1), ti(rng.below(5) as i64)]);
                    cases.push(c);
                }
            }
        }
    }
    let n = cases.len();
    (cases, vec![(format!("{} limits x 8 constructs (the seventh has an innermost body that does not parse, the eighth recurses through a command substitution inside an expression) x depths N-1,N,N+1,10N x catch-at-each-level or not, repeated 1-3 times, after one of 5 histories of caught failures (none, unparsable bodies, runaway recursion, wrong argument counts, errors raised while errorCode is an array)", limits.len()), n, thorough)])
}

/// script needing exactly `target` nested evaluation levels (or the closest the construct allows)
pub fn script_for(kind: i64, target: i64, catch_each: bool) -> (String, i64) {
    if kind == 6 {
        // an `if` nest whose innermost body does not parse
        let d = (target - 1).max(0);
        let mut s = "set x \"abc".to_string();
        for _ in 0..d {
            s = format!("if 1 {{{}}}", s);
        }
        return (s, 1 + d);
    }
    match kind {
        0..=3 => {
            let per: i64 = if catch_each && kind != 0 { 2 } else { 1 };
            let d = ((target - 1) / per).max(0);
            (nest(kind, d as usize, catch_each), 1 + d * per)
        }
        7 => {
            // recursion through a command substitution inside an expression: as deep as `down`
            let k = (target - 3).max(0);
            (format!("proc sum {{n}} {{if {{$n <= 0}} {{rec deep; return 0}}; expr {{1 + [sum [expr {{$n - 1}}]]}}}}; sum {}", k), k + 3)
        }
        4 => {
            // down k: 1 (top) + (k+1) bodies + 1 (the if body at the bottom) = k + 3
            let k = (target - 3).max(0);
            (format!("down {}", k), k + 3)
        }
        _ => {
            // ping/pong alternate: ping k -> pong (k-1) -> ping (k-1) ...: 2k+1 bodies + top + if body
            let k = ((target - 3) / 2).max(0);
            (format!("ping {}", k), 2 * k + 3)
        }
    }
}

pub fn run(c: &Term) -> Term {
    let n = c.nth(0).as_int() as i64;
    let kind = c.nth(1).as_int() as i64;
    let target = c.nth(2).as_int() as i64;
    let catch_each = c.nth(3).as_int() == 1;
    let reps = c.nth(4).as_int() as usize;
    let (script, _need) = script_for(kind, target, catch_each);
    // earlier failures on the same interpreter (all caught): bodies that do not parse, runaway
    // recursion stopped by the limit, a procedure called with the wrong number of arguments
    let history = HISTORIES[c.nth(5).as_int() as usize];
    let mut scripts: Vec<String> = vec![format!("{}{}", PROCS, history)];
    for _ in 0..reps {
        scripts.push(script.clone());
        scripts.push(format!("catch {{{}}} msg; set msg", script));
    }
    // afterwards the full depth is available again: a nest needing exactly n levels succeeds
    let (full, _) = script_for(1, n, false);
    scripts.push(full);
    let refs: Vec<&str> = scripts.iter().map(|s| s.as_str()).collect();
    run_history(&case(0, &[], &[])).as_list().len(); // keep the helper linked
    let hist = tl(vec![ti(n), tstrs(&refs), tl(vec![])]);
    run_history_with_limit_after(&hist)
}
