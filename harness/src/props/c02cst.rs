//! C02: generator of concrete syntax trees (twin of coq/Spec/SpecGrammar.v).
//! Every function returns the tree as a Term together with the text it renders to; the Coq
//! oracle re-renders the tree and insists on the same text.
use crate::rng::Rng;
use crate::term::*;

pub const PRELUDE: &str = "set a 1; set l {p q r}; set r rec; set d \"\\$a \\[rec boom\\] \\\\n \\{\"; set e {}; set {a b} sp; set é ü; set b(1) x; set b(a) y; proc c args {rec c {*}$args}";
pub const PROBES: [&str; 9] = ["a", "l", "r", "d", "e", "n1", "n2", "a b", "é"];

pub struct G<'a> {
    pub rng: &'a mut Rng,
    /// scalar variables defined so far, in evaluation order
    pub defined: Vec<String>,
    pub a_changed: bool,
    pub l_changed: bool,
}

const BARE: [&str; 30] = [
    "a", "b", "x", "yz", "0", "19", "_", "-", ".", ",", ":", "+", "=", "/", "%", "@", "!", "~", "^", "&", "*", "?", "<", ">", "|", "'", "#", "é", "😀", "x#y",
];
const QUOTE_EXTRA: [&str; 10] = [" ", ";", "\n", "{", "}", "#", "]", "(", ")", "\t"];
const BRACE_TEXT: [&str; 14] = ["a", " ", "$a", "[rec no]", "\"", ";", "\n", "#", "x y", "é", "$a(1)", "]", "(", "\t"];

fn is_name_char(c: char) -> bool {
    c.is_ascii_alphanumeric() || c == '_' || c == 'é' || c == 'ü'
}

impl<'a> G<'a> {
    fn pick<'b>(&mut self, v: &[&'b str]) -> &'b str {
        v[self.rng.below(v.len())]
    }

    fn esc(&mut self) -> (Term, String) {
        let kind = self.rng.below(5) as i64;
        let arg: i64 = match kind {
            0 => *[97i64, 98, 102, 110, 114, 116, 118].get(self.rng.below(7)).unwrap(),
            1 => {
                let p = ['\\', '"', '$', '[', ']', '{', '}', ';', ' ', '#', '(', ')', '*', '~'];
                p[self.rng.below(p.len())] as i64
            }
            2 => [0x41i64, 0x7b, 0x20, 0xe9, 0x0a, 0x24, 0x5b, 0xff, 0x01][self.rng.below(9)],
            3 => [0x41i64, 0xe9, 0x20ac, 0x7d, 0xffff, 0x3b, 0x22, 0xd7ff, 0xe000][self.rng.below(9)],
            _ => [0o101i64, 0o7, 0o377, 0o40, 0o133, 0o44, 0o1][self.rng.below(7)],
        };
        let text = match kind {
            0 | 1 => format!("\\{}", char::from_u32(arg as u32).unwrap()),
            2 => format!("\\x{:02x}", arg),
            3 => format!("\\u{:04x}", arg),
            _ => format!("\\{:03o}", arg),
        };
        (tag("e", vec![ti(kind), ti(arg)]), text)
    }

    /// a segment list for a bare word (ctx 0), a quoted word (1) or an array index (2)
    fn segs(&mut self, ctx: usize, depth: usize) -> (Vec<Term>, String) {
        let n = 1 + self.rng.below(if ctx == 2 { 2 } else { 4 });
        let mut out = Vec::new();
        let mut text = String::new();
        let mut after_var = false;
        let mut i = 0;
        while i < n || (ctx != 1 && out.is_empty()) {
            i += 1;
            let choice = self.rng.below(if depth == 0 { 7 } else { 10 });
            match choice {
                0 | 1 | 2 => {
                    // literal
                    let mut s = String::new();
                    let k = 1 + self.rng.below(3);
                    for _ in 0..k {
                        let piece = if ctx == 1 && self.rng.chance(1, 3) { self.pick(&QUOTE_EXTRA) } else { self.pick(&BARE) };
                        s.push_str(piece);
                    }
                    if ctx == 2 {
                        s = s.replace('(', "").replace(')', "");
                    }
                    if s.is_empty() {
                        continue;
                    }
                    let c0 = s.chars().next().unwrap();
                    if after_var && (is_name_char(c0) || c0 == '(' || (c0 as u32) >= 128) {
                        continue;
                    }
                    // two adjacent literals would be decoded as one by neither side: fine, but keep
                    // the tree canonical by merging
                    if let Some(last) = out.last() {
                        let last: &Term = last;
                        if last.nth(0).as_str() == "l" {
                            let merged = format!("{}{}", last.nth(1).as_str(), s);
                            out.pop();
                            out.push(tag("l", vec![ts(&merged)]));
                            text.push_str(&s);
                            after_var = false;
                            continue;
                        }
                    }
                    out.push(tag("l", vec![ts(&s)]));
                    text.push_str(&s);
                    after_var = false;
                }
                3 => {
                    let (t, s) = self.esc();
                    out.push(t);
                    text.push_str(&s);
                    after_var = false;
                }
                4 | 5 => {
                    // $name of a defined scalar
                    let k = self.rng.below(self.defined.len());
                    let name = self.defined[k].clone();
                    if name.chars().all(is_name_char) {
                        out.push(tag("v", vec![ts(&name)]));
                        text.push_str(&format!("${}", name));
                        after_var = true;
                    } else {
                        out.push(tag("bv", vec![ts(&name)]));
                        text.push_str(&format!("${{{}}}", name));
                        after_var = false;
                    }
                }
                6 => {
                    let k = self.rng.below(self.defined.len());
                    let name = self.defined[k].clone();
                    out.push(tag("bv", vec![ts(&name)]));
                    text.push_str(&format!("${{{}}}", name));
                    after_var = false;
                }
                7 => {
                    // $b(index) with an index evaluating to 1 or a
                    let (idx, itext): (Vec<Term>, String) = match self.rng.below(5) {
                        0 => (vec![tag("l", vec![ts("1")])], "1".to_string()),
                        1 => (vec![tag("l", vec![ts("a")])], "a".to_string()),
                        2 if self.value_of("a") == Some("1".to_string()) => (vec![tag("v", vec![ts("a")])], "$a".to_string()),
                        3 => (vec![tag("e", vec![ti(2), ti(0x31)])], "\\x31".to_string()),
                        _ => {
                            let (c, ct) = self.nested_simple("1");
                            (vec![c], ct)
                        }
                    };
                    out.push(tag("ar", vec![ts("b"), tl(idx)]));
                    text.push_str(&format!("$b({})", itext));
                    after_var = false;
                }
                _ => {
                    let (c, ct) = self.nested(depth - 1);
                    out.push(c);
                    text.push_str(&ct);
                    after_var = false;
                }
            }
        }
        (out, text)
    }

    /// the current value of a scalar, when the generator knows it
    fn value_of(&self, name: &str) -> Option<String> {
        if name == "a" && !self.a_changed { Some("1".to_string()) } else { None }
    }

    /// `[rec <value>]`
    fn nested_simple(&mut self, value: &str) -> (Term, String) {
        let w0 = tag("W", vec![tl(vec![tag("l", vec![ts("rec")])])]);
        let w1 = tag("W", vec![tl(vec![tag("l", vec![ts(value)])])]);
        let item = tag("cmd", vec![ts(""), tl(vec![tl(vec![ts(""), w0]), tl(vec![ts(" "), w1])]), ts(""), ts("")]);
        (tag("c", vec![tl(vec![item])]), format!("[rec {}]", value))
    }

    /// `[script]`
    fn nested(&mut self, depth: usize) -> (Term, String) {
        let n = 1 + self.rng.below(2);
        let (items, text) = self.items(n, depth, true);
        (tag("c", vec![tl(items)]), format!("[{}]", text))
    }

    fn bsegs(&mut self, depth: usize) -> (Vec<Term>, String) {
        let n = self.rng.below(4);
        let mut out: Vec<Term> = Vec::new();
        let mut text = String::new();
        for _ in 0..n {
            match self.rng.below(if depth == 0 { 4 } else { 6 }) {
                0 | 1 => {
                    let s = self.pick(&BRACE_TEXT).to_string();
                    if let Some(last) = out.last() {
                        if last.nth(0).as_str() == "t" {
                            let merged = format!("{}{}", last.nth(1).as_str(), s);
                            out.pop();
                            out.push(tag("t", vec![ts(&merged)]));
                            text.push_str(&s);
                            continue;
                        }
                    }
                    out.push(tag("t", vec![ts(&s)]));
                    text.push_str(&s);
                }
                2 => {
                    let c = ['{', '}', '\\', 'n', 'x', ' ', '$'][self.rng.below(7)];
                    out.push(tag("e", vec![ti(c as i64)]));
                    text.push('\\');
                    text.push(c);
                }
                3 => {
                    out.push(tag("nl", vec![]));
                    text.push_str("\\\n");
                }
                _ => {
                    let (inner, it) = self.bsegs(depth - 1);
                    out.push(tag("n", vec![tl(inner)]));
                    text.push_str(&format!("{{{}}}", it));
                }
            }
        }
        (out, text)
    }

    /// an ordinary word
    fn word(&mut self, depth: usize) -> (Term, String) {
        match self.rng.below(6) {
            0 => {
                let (b, t) = self.bsegs(2);
                (tag("B", vec![tl(b)]), format!("{{{}}}", t))
            }
            1 | 2 => {
                let (s, t) = self.segs(1, depth);
                (tag("Q", vec![tl(s)]), format!("\"{}\"", t))
            }
            _ => {
                let (s, t) = self.segs(0, depth);
                (tag("W", vec![tl(s)]), t)
            }
        }
    }

    /// `{*}word` whose value is made of simple characters
    fn expand_word(&mut self) -> (Term, String) {
        let (w, t): (Term, String) = match self.rng.below(7) {
            0 => (tag("B", vec![tl(vec![tag("t", vec![ts("p q")])])]), "{p q}".to_string()),
            1 if !self.l_changed => (tag("W", vec![tl(vec![tag("v", vec![ts("l")])])]), "$l".to_string()),
            2 => {
                let (c, ct) = self.nested_simple("z");
                (tag("W", vec![tl(vec![c])]), ct)
            }
            3 => (tag("Q", vec![tl(vec![])]), "\"\"".to_string()),
            4 => (tag("B", vec![tl(vec![])]), "{}".to_string()),
            5 => (tag("Q", vec![tl(vec![tag("l", vec![ts("u  v")])])]), "\"u  v\"".to_string()),
            _ => (tag("W", vec![tl(vec![tag("l", vec![ts("w-1")])])]), "w-1".to_string()),
        };
        (tag("X", vec![w]), format!("{{*}}{}", t))
    }

    fn gap(&mut self) -> String {
        [" ", " ", " ", "  ", "\t", " \t "][self.rng.below(6)].to_string()
    }

    /// one command
    fn command(&mut self, depth: usize) -> (Vec<Term>, String) {
        let mut words: Vec<Term> = Vec::new();
        let mut text = String::new();
        let mut push = |words: &mut Vec<Term>, text: &mut String, g: String, w: (Term, String)| {
            words.push(tl(vec![ts(&g), w.0]));
            text.push_str(&g);
            text.push_str(&w.1);
        };
        if self.rng.chance(1, 5) {
            // set name value
            let name = ["a", "l", "n1", "n2", "e"][self.rng.below(5)];
            push(&mut words, &mut text, String::new(), (tag("W", vec![tl(vec![tag("l", vec![ts("set")])])]), "set".to_string()));
            let g = self.gap();
            push(&mut words, &mut text, g, (tag("W", vec![tl(vec![tag("l", vec![ts(name)])])]), name.to_string()));
            let g = self.gap();
            let w = self.word(depth);
            push(&mut words, &mut text, g, w);
            if name == "a" { self.a_changed = true; }
            if name == "l" { self.l_changed = true; }
            if !self.defined.iter().any(|d| d == name) {
                self.defined.push(name.to_string());
            }
        } else {
            let first: (Term, String) = match self.rng.below(8) {
                0 => (tag("B", vec![tl(vec![tag("t", vec![ts("rec")])])]), "{rec}".to_string()),
                1 => (tag("Q", vec![tl(vec![tag("l", vec![ts("rec")])])]), "\"rec\"".to_string()),
                2 => (tag("W", vec![tl(vec![tag("v", vec![ts("r")])])]), "$r".to_string()),
                3 => (tag("W", vec![tl(vec![tag("l", vec![ts("re")]), tag("e", vec![ti(2), ti(0x63)])])]), "re\\x63".to_string()),
                4 => (tag("W", vec![tl(vec![tag("l", vec![ts("c")])])]), "c".to_string()),
                _ => (tag("W", vec![tl(vec![tag("l", vec![ts("rec")])])]), "rec".to_string()),
            };
            push(&mut words, &mut text, String::new(), first);
            let n = self.rng.below(4);
            for _ in 0..n {
                let g = self.gap();
                let w = if self.rng.chance(1, 6) { self.expand_word() } else { self.word(depth) };
                push(&mut words, &mut text, g, w);
            }
        }
        (words, text)
    }

    /// n items of a script; nested = inside brackets
    pub fn items(&mut self, n: usize, depth: usize, nested: bool) -> (Vec<Term>, String) {
        let mut out = Vec::new();
        let mut text = String::new();
        let mut i = 0;
        while i < n {
            let last = i + 1 == n;
            let pre = ["", "", "", " ", "\n", " \n\t", "\t"][self.rng.below(7)].to_string();
            match self.rng.below(10) {
                0 => {
                    // comment
                    let body = ["", " a comment", " rec no; [rec no] $nosuch {", "# \"", " }"][self.rng.below(5)];
                    let term = if last && !nested && self.rng.chance(1, 2) { "" } else { "\n" };
                    out.push(tag("com", vec![ts(&pre), ts(body), ts(term)]));
                    text.push_str(&format!("{}#{}{}", pre, body, term));
                }
                1 => {
                    let term = if self.rng.chance(1, 2) { ";" } else { "\n" };
                    out.push(tag("emp", vec![ts(&pre), ts(term)]));
                    text.push_str(&format!("{}{}", pre, term));
                }
                _ => {
                    let (words, wtext) = self.command(depth);
                    let post = ["", "", " ", "\t "][self.rng.below(4)];
                    let term = if last && self.rng.chance(1, 2) { "" } else if self.rng.chance(1, 2) { ";" } else { "\n" };
                    out.push(tag("cmd", vec![ts(&pre), tl(words), ts(post), ts(term)]));
                    text.push_str(&format!("{}{}{}{}", pre, wtext, post, term));
                }
            }
            i += 1;
        }
        (out, text)
    }
}

impl<'a> G<'a> {
    pub fn new(rng: &'a mut Rng) -> Self {
        G { rng, defined: vec!["a".into(), "l".into(), "r".into(), "d".into(), "e".into(), "a b".into(), "é".into()], a_changed: false, l_changed: false }
    }
}

/// fault suffixes / prefixes: (kind, text, at_start)
pub const FAULTS: [(&str, bool); 9] = [
    ("rec {abc", false),
    ("rec \"abc", false),
    ("rec [rec a", false),
    ("rec {a}b", false),
    ("rec \"a\"b", false),
    ("rec ${a", false),
    ("rec $b(1", false),
    ("rec {a}b\n", true),
    ("rec \"a\"b;", true),
];
