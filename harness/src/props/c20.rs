//! C20: the test harness's verdicts are truthful.
use super::Gen;
use crate::rng::Rng;
use crate::term::*;
use molt::types::*;
use std::process::Command;

/// (script text, outcome kind, value)
const BODIES: [(&str, &str, &str); 16] = [
    ("expr {1+2}", "ok", "3"),
    ("set tv 5", "ok", "5"),
    ("info exists tv", "ok", "0"),
    ("set q {a b}", "ok", "a b"),
    ("", "ok", ""),
    ("error boom", "error", "boom"),
    ("nosuchcmd", "error", "invalid command name \"nosuchcmd\""),
    ("throw CODE {a msg}", "error", "a msg"),
    ("return foo", "return", "foo"),
    ("break", "break", ""),
    ("continue", "continue", ""),
    ("return -code 7 x", "return", "x"),
    ("return -code error rboom", "return", "rboom"),
    ("set sv", "setup", "1"),
    ("proc probecv {} {global cv; info exists cv}; probecv", "ok", "0"),
    ("info exists sv", "setupvar", "1"),
];

fn lst(parts: &[&str]) -> String {
    Value::from(parts.iter().map(|p| Value::from(*p)).collect::<Vec<Value>>()).as_str().to_string()
}

/// descriptor: (form body_index expect_code expect_value setup_kind cleanup_kind)
/// form: "simple" | "fancy" | "fancy2" (options in another order) | "badcode" | "missing" | "badopt" | "arity"
pub fn gen(tier: &str, seed: u64) -> Gen {
    let mut rng = Rng::new(seed);
    let mut cases = Vec::new();
    let n = if tier == "thorough" { 20_000 } else { 400 };
    let forms = ["simple", "simple", "fancy", "fancy", "fancy2", "badcode", "missing", "badopt", "arity"];
    for i in 0..n {
        let k = 1 + rng.below(6);
        let mut tests = Vec::new();
        for j in 0..k {
            let form = if i < forms.len() * BODIES.len() && j == 0 { forms[i % forms.len()] } else { { let m = if rng.chance(1, 6) { 9 } else { 5 }; forms[rng.below(m)] } };
            let b = if i < forms.len() * BODIES.len() && j == 0 { (i / forms.len()) % BODIES.len() } else { rng.below(BODIES.len()) };
            let (_, kind, val) = BODIES[b];
            // expectation: matching, wrong value, or wrong code
            let numeric = !val.is_empty() && val.chars().all(|c| c.is_ascii_digit());
            let (ecode, evalue) = match rng.below(if numeric { 6 } else { 4 }) {
                // a different spelling of the same number is a different expectation (values are strings)
                4 | 5 => ("-ok", [format!("00{}", val), format!("+{}", val), format!(" {}", val), format!("{} ", val), format!("0x{}", val), format!("{}.0", val), format!("-{}", val)][rng.below(7)].clone()),
                0 | 1 => (if kind == "error" { "-error" } else { "-ok" }, val.to_string()),
                2 => (if kind == "error" { "-error" } else { "-ok" }, format!("{}x", val)),
                _ => (if kind == "error" { "-ok" } else { "-error" }, val.to_string()),
            };
            tests.push(tl(vec![ts(form), ti(b as i64), ts(ecode), ts(&evalue), ti(rng.below(3) as i64), ti(rng.below(3) as i64)]));
        }
        cases.push(tl(vec![tl(tests.clone()), ts(&render(&tests))]));
    }
    (cases, vec![("test scripts of 1-6 tests: both syntaxes, 16 body kinds (ok, error, return, break, continue, custom code, dependence on this test's setup, isolation from earlier bodies, setups and cleanups), matching/mismatching expectations (incl. other spellings of the same number), malformed invocations, failing setup/cleanup".to_string(), n, false)])
}

fn helper(kind: i128, which: &str) -> String {
    match kind {
        0 => String::new(),
        1 => if which == "setup" { "set sv 1".to_string() } else { "set cv 1".to_string() },
        _ => format!("error {}failed", which),
    }
}

pub fn render(tests: &[Term]) -> String {
    let mut s = String::new();
    for (i, t) in tests.iter().enumerate() {
        let form = t.nth(0).as_str();
        let (body, _, _) = BODIES[t.nth(1).as_int() as usize];
        let ecode = t.nth(2).as_str();
        let evalue = t.nth(3).as_str();
        let name = format!("t-{}", i);
        let setup = helper(t.nth(4).as_int(), "setup");
        let cleanup = helper(t.nth(5).as_int(), "cleanup");
        let line = match form {
            "simple" => lst(&["test", &name, "d", body, ecode, evalue]),
            "fancy" => lst(&["test", &name, "d", "-setup", &setup, "-body", body, "-cleanup", &cleanup, ecode, evalue]),
            "fancy2" => lst(&["test", &name, "d", ecode, evalue, "-cleanup", &cleanup, "-body", body, "-setup", &setup]),
            "badcode" => lst(&["test", &name, "d", body, "-bogus", evalue]),
            "missing" => lst(&["test", &name, "d", "-body", body, ecode]),
            "badopt" => lst(&["test", &name, "d", "-body", body, "-nonsense", "x", ecode, evalue]),
            _ => lst(&["test", &name, "d", body, ecode]),
        };
        s.push_str(&line);
        s.push('\n');
    }
    s
}

pub fn run(case: &Term) -> Term {
    use std::sync::atomic::{AtomicUsize, Ordering};
    static N: AtomicUsize = AtomicUsize::new(0);
    let script = case.nth(1).as_str();
    let path = std::env::temp_dir().join(format!("molt_verif_c20_{}_{}.tcl", std::process::id(), N.fetch_add(1, Ordering::SeqCst)));
    std::fs::write(&path, script).expect("write test script");
    let exe = std::env::current_exe().unwrap();
    let out = Command::new(exe).arg("c20run").arg(&path).env_clear().output();
    let _ = std::fs::remove_file(&path);
    let out = match out {
        Ok(o) => o,
        Err(_) => return tag("SPAWN", vec![]),
    };
    let stdout = String::from_utf8_lossy(&out.stdout).to_string();
    let ok = out.status.code() == Some(0);
    if out.status.code().is_none() || (out.status.code() != Some(0) && out.status.code() != Some(1)) {
        return tag("PANIC", vec![ts(&String::from_utf8_lossy(&out.stderr))]);
    }
    // "N tests, P passed, F failed, E errors"
    for line in stdout.lines() {
        let w: Vec<&str> = line.split_whitespace().collect();
        if w.len() == 8 && w[1] == "tests," && w[3] == "passed," {
            let num = |s: &str| s.trim_end_matches(',').parse::<i64>().unwrap_or(-1);
            return tl(vec![ti(num(w[0])), ti(num(w[2])), ti(num(w[4])), ti(num(w[6])), tb(ok)]);
        }
    }
    tag("aborted", vec![tb(ok)])
}

pub fn c20run(path: &str) -> ! {
    let mut interp = molt::Interp::new();
    let r = molt::test_harness(&mut interp, &[path.to_string()]);
    std::process::exit(if r.is_ok() { 0 } else { 1 })
}
