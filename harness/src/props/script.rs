//! Running a history of scripts on a real molt interpreter and observing it.
//! Twin of coq/Check/ScriptObs.v.
use crate::term::*;
use molt::types::*;
use molt::Interp;

pub struct Recorder {
    pub calls: Vec<Vec<String>>,
}

fn cmd_rec(interp: &mut Interp, ctx: ContextID, argv: &[Value]) -> MoltResult {
    let r = interp.context::<Recorder>(ctx);
    r.calls.push(argv.iter().map(|v| v.as_str().to_string()).collect());
    if argv.is_empty() {
        Ok(Value::empty())
    } else {
        Ok(argv[argv.len() - 1].clone())
    }
}

fn cmd_ident(_interp: &mut Interp, _ctx: ContextID, argv: &[Value]) -> MoltResult {
    if argv.len() > 1 {
        Ok(Value::from(argv[1].as_str().to_string()))
    } else {
        Ok(Value::empty())
    }
}

pub fn rec_cmd() -> CommandFunc {
    cmd_rec
}

pub fn harness_interp(limit: i128) -> (Interp, ContextID) {
    let mut interp = Interp::new();
    let ctx = interp.save_context(Recorder { calls: Vec::new() });
    interp.add_context_command("rec", cmd_rec, ctx);
    interp.add_command("ident", cmd_ident);
    if limit != 0 {
        interp.set_recursion_limit(limit as usize);
    }
    (interp, ctx)
}

pub fn obs_result(r: &MoltResult) -> Term {
    match r {
        Ok(v) => tag("Ok", vec![ts(v.as_str())]),
        Err(e) => {
            let data = match e.error_data() {
                Some(d) => tl(vec![ts(d.error_code().as_str()), ts(d.error_info().as_str())]),
                None => tl(vec![]),
            };
            tag(
                "Err",
                vec![
                    Term::Int(e.code().as_int() as i128),
                    ts(e.value().as_str()),
                    Term::Int(e.level() as i128),
                    data,
                ],
            )
        }
    }
}

pub fn obs_var(interp: &Interp, name: &str) -> Term {
    if interp.array_exists(name) {
        let kv = interp.array_get(name);
        let mut items: Vec<String> = kv.chunks(2).map(|p| format!("{}={}", p[0].as_str(), p[1].as_str())).collect();
        items.sort();
        tag("array", vec![tstrs(&items)])
    } else {
        match interp.scalar(name) {
            Ok(v) => tag("scalar", vec![ts(v.as_str())]),
            Err(_) => tag("unset", vec![]),
        }
    }
}

/// case: (limit scripts probes) -> (outcomes trace vars scope_level)
pub fn run_history(case: &Term) -> Term {
    let limit = case.nth(0).as_int();
    let scripts = case.nth(1).strs();
    let probes = case.nth(2).strs();
    let (mut interp, ctx) = harness_interp(limit);
    let mut outs = Vec::new();
    for s in &scripts {
        let r = interp.eval(s);
        outs.push(obs_result(&r));
    }
    let calls: Vec<Term> = interp.context::<Recorder>(ctx).calls.iter().map(|c| tstrs(c)).collect();
    let vars: Vec<Term> = probes.iter().map(|p| obs_var(&interp, p)).collect();
    tl(vec![tl(outs), tl(calls), tl(vars), Term::Int(interp.scope_level() as i128)])
}

pub fn case(limit: i64, scripts: &[&str], probes: &[&str]) -> Term {
    tl(vec![ti(limit), tstrs(scripts), tstrs(probes)])
}

/// like run_history, but the first script (procedure definitions) runs under the default limit
/// and the configured limit applies from the second script on
pub fn run_history_with_limit_after(case: &Term) -> Term {
    let limit = case.nth(0).as_int();
    let scripts = case.nth(1).strs();
    let (mut interp, ctx) = harness_interp(0);
    let mut outs = Vec::new();
    for (i, s) in scripts.iter().enumerate() {
        if i == 1 {
            interp.set_recursion_limit(limit as usize);
        }
        let r = interp.eval(s);
        outs.push(obs_result(&r));
    }
    let calls: Vec<Term> = interp.context::<Recorder>(ctx).calls.iter().map(|c| tstrs(c)).collect();
    tl(vec![tl(outs), tl(calls), tl(vec![]), Term::Int(interp.scope_level() as i128)])
}


/// The same argument as computed data: a canonical integer becomes `[expr {N}]` (a value with an
/// integer representation and no string yet), the empty string `[list]`, a canonical list of two
/// or more plain words `[list w1 w2 ...]` (a list representation, no string yet).  None when the
/// argument has no such spelling.  Used to re-run a command with typed arguments: whatever a
/// command does with them, the outcome must be that of the same strings.
pub fn typed_word(arg: &str) -> Option<String> {
    if arg.is_empty() {
        return Some("[list]".to_string());
    }
    if let Ok(z) = arg.parse::<i64>() {
        if z.to_string() == arg && z != i64::MIN {
            return Some(format!("[expr {{{}}}]", z));
        }
    }
    let plain = |w: &str| !w.is_empty() && w.chars().all(|c| c.is_ascii_alphanumeric() || c == '_' || c == '.' || c == '-');
    let words: Vec<&str> = arg.split(' ').collect();
    if words.len() >= 2 && words.iter().all(|w| plain(w)) {
        return Some(format!("[list {}]", arg));
    }
    None
}

/// the script that invokes argv[0] with the arguments from position `from` on spelled as computed
/// data where possible; None if no argument has such a spelling
pub fn typed_call(argv: &[String], from: usize) -> Option<String> {
    let mut any = false;
    let mut parts: Vec<String> = Vec::new();
    for (i, a) in argv.iter().enumerate() {
        let w = if i >= from { typed_word(a) } else { None };
        match w {
            Some(t) => {
                any = true;
                parts.push(t);
            }
            None => parts.push(Value::from(vec![Value::from(a.as_str())]).as_str().to_string()),
        }
    }
    if any { Some(parts.join(" ")) } else { None }
}
