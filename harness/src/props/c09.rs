//! C09: control structures and procedures execute per their operational semantics.
//! A case is a structured PROGRAM TREE plus its rendering as Tcl text.  The oracle
//! (coq/Spec/SpecCtl.v) is a reference interpreter over the tree.
use super::script::*;
use super::Gen;
use crate::rng::Rng;
use crate::term::*;

// expressions: ("lit" z) ("var" v) ("bin" op a b) ("llen" v) ("lidx" v e)
fn lit(z: i64) -> Term { tag("lit", vec![ti(z)]) }
fn var(v: &str) -> Term { tag("var", vec![ts(v)]) }
fn bin(op: &str, a: Term, b: Term) -> Term { tag("bin", vec![ts(op), a, b]) }

struct G<'a> {
    rng: &'a mut Rng,
    counter: usize,
    procs: Vec<(String, usize)>, // name, arity
}

const IVARS: [&str; 4] = ["x", "y", "z", "w"];
const LVARS: [&str; 2] = ["l", "m"];

impl<'a> G<'a> {
    fn expr(&mut self, depth: usize) -> Term {
        if depth == 0 || self.rng.chance(2, 5) {
            return if self.rng.chance(1, 2) {
                lit(self.rng.below(7) as i64 - 2)
            } else {
                var(IVARS[self.rng.below(IVARS.len())])
            };
        }
        match self.rng.below(12) {
            0 => tag("llen", vec![ts(LVARS[self.rng.below(2)])]),
            1 => tag("lidx", vec![ts(LVARS[self.rng.below(2)]), self.expr(depth - 1)]),
            _ => {
                let ops = ["+", "-", "*", "<", "<=", "==", "!=", "&&", "||", "/", "%"];
                let op = ops[self.rng.below(ops.len())];
                bin(op, self.expr(depth - 1), self.expr(depth - 1))
            }
        }
    }

    /// a condition whose decided operand skips a sub-expression that itself contains a short
    /// circuit followed by something that must not be evaluated (a division by zero, an unset
    /// variable): the nesting of skipped operands
    fn nested_skip(&mut self) -> Term {
        let (op, l) = if self.rng.chance(1, 2) { ("||", lit(1)) } else { ("&&", lit(0)) };
        let inner = bin(["&&", "||"][self.rng.below(2)], self.expr(1), self.expr(1));
        let risky = match self.rng.below(3) {
            0 => bin("/", lit(1), lit(0)),
            1 => var("nosuch"),
            _ => bin("%", var(IVARS[self.rng.below(IVARS.len())]), lit(0)),
        };
        let mid = bin(["+", "<", "/", "||"][self.rng.below(4)], inner, risky);
        bin(op, l, mid)
    }

    fn block(&mut self, depth: usize, in_loop: bool, in_proc: bool) -> Term {
        let n = self.rng.below(4);
        let mut v = Vec::new();
        for _ in 0..n {
            v.push(self.stmt(depth, in_loop, in_proc));
        }
        tl(v)
    }

    fn stmt(&mut self, depth: usize, in_loop: bool, in_proc: bool) -> Term {
        let r = self.rng.below(if depth == 0 { 6 } else { 16 });
        match r {
            0 | 1 => tag("set", vec![ts(IVARS[self.rng.below(IVARS.len())]), self.expr(2)]),
            2 => {
                // now and then the target is a variable nobody has set yet (it starts from 0)
                let name = if self.rng.chance(1, 5) { "u" } else { IVARS[self.rng.below(IVARS.len())] };
                tag("incr", vec![ts(name), ti(self.rng.below(7) as i64 - 3)])
            }
            3 => {
                let k = 1 + self.rng.below(2);
                let args: Vec<Term> = (0..k).map(|_| self.expr(1)).collect();
                self.counter += 1;
                tag("rec", vec![ti(self.counter as i64), tl(args)])
            }
            // lappend only ever grows `l`, foreach over a variable only ever reads `m`: a loop that
            // appends to the list it iterates over would grow it geometrically with the nesting
            4 => tag("lappend", vec![ts("l"), self.expr(1)]),
            5 => {
                if in_loop && in_proc && self.rng.chance(1, 3) {
                    // a return from inside a loop of a procedure: it ends the loop and the call
                    tag("return", vec![self.expr(1)])
                } else if in_loop && self.rng.chance(1, 2) {
                    if self.rng.chance(1, 2) { tag("break", vec![]) } else { tag("continue", vec![]) }
                } else if in_proc && !in_loop && self.rng.chance(1, 6) {
                    // a stray break/continue: escaping the procedure body it becomes an error
                    if self.rng.chance(1, 2) { tag("break", vec![]) } else { tag("continue", vec![]) }
                } else if in_proc && self.rng.chance(1, 8) {
                    // a user-defined control command: takes effect in the caller as break / continue
                    if self.rng.chance(1, 2) { tag("retbreak", vec![]) } else { tag("retcont", vec![]) }
                } else if in_proc && self.rng.chance(1, 2) {
                    tag("return", vec![self.expr(1)])
                } else {
                    tag("set", vec![ts(IVARS[self.rng.below(IVARS.len())]), self.expr(1)])
                }
            }
            6 | 7 => {
                // if: 1-3 clauses, optional else, keyword style 0..3
                let nc = 1 + self.rng.below(3);
                let clauses: Vec<Term> =
                    (0..nc).map(|_| tl(vec![if self.rng.chance(1, 6) { self.nested_skip() } else { self.expr(2) }, self.block(depth - 1, in_loop, in_proc)])).collect();
                let els = if self.rng.chance(1, 2) { tl(vec![self.block(depth - 1, in_loop, in_proc)]) } else { tl(vec![]) };
                tag("if", vec![tl(clauses), els, ti(self.rng.below(4) as i64)])
            }
            8 => {
                // while {$c < K} { incr c; body }
                self.counter += 1;
                let c = format!("c{}", self.counter);
                let k = self.rng.below(4) as i64;
                // one loop in four tests through a command substitution: while {[incr c] <= K} body
                let kind = if self.rng.chance(1, 4) { "whilec" } else { "while" };
                tag(kind, vec![ts(&c), ti(k), self.block(depth - 1, true, in_proc)])
            }
            9 => {
                self.counter += 1;
                let c = format!("c{}", self.counter);
                let k = self.rng.below(4) as i64;
                tag("for", vec![ts(&c), ti(k), self.block(depth - 1, true, in_proc)])
            }
            10 | 11 => {
                // foreach over a literal list of ints, or over a list variable
                // now and then no loop variable at all (an error, whatever the list holds)
                let nv = if self.rng.chance(1, 12) { 0 } else { 1 + self.rng.below(3) };
                let vars: Vec<Term> = (0..nv).map(|i| ts(["a", "b", "z"][i])).collect();
                let src = if self.rng.chance(1, 3) {
                    tag("lvar", vec![ts("m")])
                } else {
                    let n = self.rng.below(6);
                    tag("llit", vec![tl((0..n).map(|_| ti(self.rng.below(9) as i64)).collect())])
                };
                tag("foreach", vec![tl(vars), src, self.block(depth - 1, true, in_proc)])
            }
            12 => tag("catch", vec![self.block(depth - 1, in_loop, in_proc)]),
            13 | 14 => {
                if self.procs.is_empty() {
                    tag("set", vec![ts("x"), self.expr(1)])
                } else {
                    let (name, ar) = self.procs[self.rng.below(self.procs.len())].clone();
                    let args: Vec<Term> = (0..ar).map(|_| self.expr(1)).collect();
                    tag("call", vec![ts(IVARS[self.rng.below(IVARS.len())]), ts(&name), tl(args)])
                }
            }
            _ => tag("setif", vec![ts(IVARS[self.rng.below(IVARS.len())]), self.expr(1), self.expr(1), self.expr(1)]),
        }
    }
}

// ---- rendering ----
fn rexpr(e: &Term) -> String {
    match e.nth(0).as_str() {
        "lit" => format!("{}", e.nth(1).as_int()),
        "var" => format!("${}", e.nth(1).as_str()),
        "llen" => format!("[llength ${}]", e.nth(1).as_str()),
        "lidx" => format!("[lindex ${} [expr {{{}}}]]", e.nth(1).as_str(), rexpr(e.nth(2))),
        _ => format!("({} {} {})", rexpr(e.nth(2)), e.nth(1).as_str(), rexpr(e.nth(3))),
    }
}

fn rblock(b: &Term, ind: usize) -> String {
    let mut s = String::new();
    for st in b.as_list() {
        s.push_str(&" ".repeat(ind));
        s.push_str(&rstmt(st, ind));
        s.push('\n');
    }
    s
}

fn braced(b: &Term, ind: usize) -> String {
    format!("{{\n{}{}}}", rblock(b, ind + 2), " ".repeat(ind))
}

fn rstmt(st: &Term, ind: usize) -> String {
    match st.nth(0).as_str() {
        "set" => format!("set {} [expr {{{}}}]", st.nth(1).as_str(), rexpr(st.nth(2))),
        "incr" => format!("incr {} {}", st.nth(1).as_str(), st.nth(2).as_int()),
        "rec" => {
            let args: Vec<String> = st.nth(2).as_list().iter().map(|e| format!("[expr {{{}}}]", rexpr(e))).collect();
            format!("rec t{} {}", st.nth(1).as_int(), args.join(" "))
        }
        "lappend" => format!("lappend {} [expr {{{}}}]", st.nth(1).as_str(), rexpr(st.nth(2))),
        "break" => "break".to_string(),
        "retbreak" => "return -code break".to_string(),
        "retcont" => "return -code continue".to_string(),
        "continue" => "continue".to_string(),
        "return" => format!("return [expr {{{}}}]", rexpr(st.nth(1))),
        "if" => {
            let style = st.nth(3).as_int();
            let mut s = String::new();
            for (i, cl) in st.nth(1).as_list().iter().enumerate() {
                if i == 0 { s.push_str("if "); } else { s.push_str(" elseif "); }
                s.push_str(&format!("{{{}}} ", rexpr(cl.nth(0))));
                if style & 1 == 1 { s.push_str("then "); }
                s.push_str(&braced(cl.nth(1), ind));
            }
            if let Some(e) = st.nth(2).as_list().get(0) {
                if style & 2 == 2 { s.push_str(" else "); } else { s.push(' '); }
                s.push_str(&braced(e, ind));
            }
            s
        }
        "while" => {
            let c = st.nth(1).as_str();
            format!("set {} 0; while {{${} < {}}} {{\n{}incr {}\n{}{}}}", c, c, st.nth(2).as_int(), " ".repeat(ind + 2), c,
                rblock(st.nth(3), ind + 2), " ".repeat(ind))
        }
        "whilec" => {
            let c = st.nth(1).as_str();
            format!("set {} 0; while {{[incr {}] <= {}}} {}", c, c, st.nth(2).as_int(), braced(st.nth(3), ind))
        }
        "for" => {
            let c = st.nth(1).as_str();
            format!("for {{set {} 0}} {{${} < {}}} {{incr {}}} {}", c, c, st.nth(2).as_int(), c, braced(st.nth(3), ind))
        }
        "foreach" => {
            let vars: Vec<String> = st.nth(1).strs();
            let src = st.nth(2);
            let l = if src.nth(0).as_str() == "lvar" {
                format!("${}", src.nth(1).as_str())
            } else {
                let items: Vec<String> = src.nth(1).as_list().iter().map(|t| format!("{}", t.as_int())).collect();
                format!("{{{}}}", items.join(" "))
            };
            format!("foreach {{{}}} {} {}", vars.join(" "), l, braced(st.nth(3), ind))
        }
        "catch" => format!("catch {}", braced(st.nth(1), ind)),
        "call" => {
            let args: Vec<String> = st.nth(3).as_list().iter().map(|e| format!("[expr {{{}}}]", rexpr(e))).collect();
            format!("set {} [{} {}]", st.nth(1).as_str(), st.nth(2).as_str(), args.join(" "))
        }
        "setif" => format!(
            "set {} [if {{{}}} {{expr {{{}}}}} else {{expr {{{}}}}}]",
            st.nth(1).as_str(), rexpr(st.nth(2)), rexpr(st.nth(3)), rexpr(st.nth(4))
        ),
        _ => "?".to_string(),
    }
}

const INIT: &str = "set x 1; set y 2; set z 0; set w -1; set l {}; set m {3 4}; set a {}; set b {}";

/// the case for a program given as procedures (name, parameters, body) and a main block
fn assemble(procs_in: &[(String, Vec<String>, Term)], main: &Term) -> Term {
    let mut procs = Vec::new();
    let mut text = String::new();
    for (name, params, body) in procs_in {
        // locals not bound by parameters get fixed initial values
        let mut init = String::new();
        for v in ["x", "y", "z", "w"].iter() {
            if !params.iter().any(|p| p == v) {
                init.push_str(&format!("  set {} 0\n", v));
            }
        }
        init.push_str("  set l {}\n  set m {}\n  set a {}\n  set b {}\n");
        text.push_str(&format!("proc {} {{{}}} {{\n{}{}}}\n", name, params.join(" "), init, rblock(body, 2)));
        procs.push(tl(vec![ts(name), tstrs(params), body.clone()]));
    }
    text.push_str(&rblock(main, 0));
    let tree = tl(vec![tl(procs), main.clone()]);
    tl(vec![
        ti(0),
        tstrs(&[INIT, &text]),
        tstrs(&["x", "y", "z", "w", "l", "m", "a", "b", "u"]),
        tree,
    ])
}

pub fn mk(rng: &mut Rng, depth: usize) -> Term {
    let mut g = G { rng, counter: 0, procs: Vec::new() };
    // procedures: params p0..pk, own locals initialised from the prelude of the body
    let np = g.rng.below(3);
    let mut procs: Vec<(String, Vec<String>, Term)> = Vec::new();
    for i in 0..np {
        let ar = g.rng.below(3);
        let name = format!("p{}", i);
        let body = g.block(depth, false, true);
        let params: Vec<String> = (0..ar).map(|k| ["x", "y"][k].to_string()).collect();
        procs.push((name.clone(), params, body));
        g.procs.push((name, ar));
    }
    let main = g.block(depth, false, false);
    assemble(&procs, &main)
}

/// every loop construct x every way of leaving it from inside a procedure (return, break,
/// continue, return -code break / continue), unconditionally and in one iteration only
fn directed() -> Vec<Term> {
    let mut out = Vec::new();
    let exits: Vec<Term> = vec![
        tag("return", vec![lit(9)]),
        tag("break", vec![]),
        tag("continue", vec![]),
        tag("retbreak", vec![]),
        tag("retcont", vec![]),
    ];
    for lk in 0..7 {
        for (ei, exit) in exits.iter().enumerate() {
            for conditional in &[false, true] {
                // user-defined control commands act on the CALLER's loop: they are called from a helper
                let helper = ei >= 3;
                let loopvar = if lk <= 2 { var("a") } else { var("c1") };
                let leave: Term = if helper { tag("call", vec![ts("w"), ts("p1"), tl(vec![])]) } else { exit.clone() };
                let guarded: Term = if *conditional {
                    tag("if", vec![tl(vec![tl(vec![bin("==", loopvar.clone(), lit(2)), tl(vec![leave])])]), tl(vec![]), ti(0)])
                } else {
                    leave
                };
                let body = tl(vec![tag("rec", vec![ti(1), tl(vec![loopvar.clone()])]), guarded, tag("rec", vec![ti(2), tl(vec![loopvar.clone()])])]);
                let lp = match lk {
                    0 => tag("foreach", vec![tl(vec![ts("a")]), tag("llit", vec![tl(vec![ti(1), ti(2), ti(3)])]), body]),
                    1 => tag("foreach", vec![tl(vec![ts("a"), ts("b")]), tag("llit", vec![tl(vec![ti(1), ti(5), ti(2), ti(6), ti(3)])]), body]),
                    2 => tag("foreach", vec![tl(vec![ts("a"), ts("b"), ts("z")]), tag("llit", vec![tl(vec![ti(1), ti(5), ti(7), ti(2)])]), body]),
                    3 => tag("while", vec![ts("c1"), ti(3), body]),
                    4 => tag("whilec", vec![ts("c1"), ti(3), body]),
                    5 => tag("for", vec![ts("c1"), ti(3), body]),
                    _ => tag("catch", vec![tl(vec![tag("while", vec![ts("c1"), ti(3), body])])]),
                };
                let p0 = tl(vec![lp, tag("rec", vec![ti(3), tl(vec![var("x")])]), tag("return", vec![lit(5)])]);
                let mut procs = vec![("p0".to_string(), Vec::<String>::new(), p0)];
                if helper {
                    procs.push(("p1".to_string(), Vec::<String>::new(), tl(vec![tag("rec", vec![ti(4), tl(vec![lit(0)])]), exit.clone()])));
                }
                let main = tl(vec![tag("call", vec![ts("y"), ts("p0"), tl(vec![])]), tag("rec", vec![ti(5), tl(vec![var("y")])])]);
                out.push(assemble(&procs, &main));
            }
        }
    }
    out
}

pub fn gen(tier: &str, seed: u64) -> Gen {
    let mut rng = Rng::new(seed);
    let mut cases = Vec::new();
    let n = if tier == "thorough" { 200_000 } else { 2000 };
    let dir = directed();
    let nd = dir.len();
    cases.extend(dir);
    for _ in 0..n {
        let d = 1 + rng.below(3);
        cases.push(mk(&mut rng, d));
    }
    (cases, vec![
        ("every loop construct (foreach with 1-3 variables, while, while through a command substitution, for, a loop under catch) x every way of leaving it from inside a procedure (return, break, continue, return -code break / continue from a helper), unconditionally and in one iteration only".to_string(), nd, true),
        ("random structured programs (set/incr/expr/if/while/for/foreach/catch/proc) to nesting depth 3".to_string(), n, false),
    ])
}

pub fn run(case: &Term) -> Term {
    run_history(case)
}
