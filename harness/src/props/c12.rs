//! C12: short-circuit operands are parsed but never executed.
//! Trees as in C03 with effectful leaves: ("rec" k value) records k and yields value,
//! ("unset" n) is an unset variable, ("badcmd") an unknown command, ("raw" text) malformed text.
use super::c03::*;
use super::script::*;
use super::Gen;
use crate::rng::Rng;
use crate::term::*;
use molt::types::*;

fn rec(k: &mut i64, val: &str) -> Term {
    *k += 1;
    tag("rec", vec![ti(*k), ts(val)])
}

fn qrec(k: &mut i64, val: &str) -> Term {
    *k += 1;
    tag("qrec", vec![ti(*k), ts(val)])
}

fn leaf(rng: &mut Rng, k: &mut i64) -> Term {
    match rng.below(14) {
        12 => qrec(k, ["0", "1", "7", "abc"][rng.below(4)]),
        13 => tag("qunset", vec![ti(rng.below(3) as i64)]),
        0 | 1 | 2 => rec(k, ["0", "1", "2", "7"][rng.below(4)]),
        3 => rec(k, ["0.0", "2.5", "abc", ""][rng.below(4)]),
        4 => tag("unset", vec![ti(rng.below(3) as i64)]),
        5 => tag("badcmd", vec![]),
        6 => strq("abc"),
        7 => flt("0.5"),
        8 => int(0),
        9 => int(1),
        10 => var("vi", "-3"),
        _ => int(rng.below(4) as i64),
    }
}

fn tree(rng: &mut Rng, depth: usize, k: &mut i64) -> Term {
    if depth == 0 || rng.chance(1, 5) {
        return leaf(rng, k);
    }
    match rng.below(12) {
        0 | 1 | 2 => {
            let a = tree(rng, depth - 1, k);
            let b = tree(rng, depth - 1, k);
            bin("&&", a, b)
        }
        3 | 4 | 5 => {
            let a = tree(rng, depth - 1, k);
            let b = tree(rng, depth - 1, k);
            bin("||", a, b)
        }
        6 | 7 => {
            let c = tree(rng, depth - 1, k);
            let a = tree(rng, depth - 1, k);
            let b = tree(rng, depth - 1, k);
            cond(c, a, b)
        }
        8 => {
            let a = tree(rng, depth - 1, k);
            un(["-", "!", "~", "+"][rng.below(4)], a)
        }
        9 => {
            let a = tree(rng, depth - 1, k);
            func(["abs", "double", "int", "round"][rng.below(4)], a)
        }
        _ => {
            let ops = ["+", "-", "*", "<", "==", "eq", "/", "&", "<<", "in"];
            let a = tree(rng, depth - 1, k);
            let b = tree(rng, depth - 1, k);
            bin(ops[rng.below(ops.len())], a, b)
        }
    }
}

fn mk(rng: &mut Rng, t: Term) -> Term {
    let mut vars = Vec::new();
    let text = render(rng, &t, &mut vars);
    vars.sort();
    vars.dedup();
    let vt: Vec<Term> = vars.iter().map(|(n, v)| tl(vec![ts(n), ts(v)])).collect();
    tl(vec![t, ts(&text), tl(vt)])
}

pub fn gen(tier: &str, seed: u64) -> Gen {
    let mut rng = Rng::new(seed);
    let mut cases = Vec::new();
    let mut fams = Vec::new();
    let thorough = tier == "thorough";
    // every short-circuit operator with every kind of skipped / evaluated operand
    let mut n = 0;
    for op in &["&&", "||"] {
        for lv in &["0", "1", "0.0", "2.5", "abc"] {
            for kind in 0..10 {
                let mut k = 0i64;
                let left = rec(&mut k, lv);
                let right = match kind {
                    8 => qrec(&mut k, "1"),
                    9 => bin("eq", tag("qunset", vec![ti(0)]), strq("x")),
                    0 => rec(&mut k, "1"),
                    1 => tag("unset", vec![ti(0)]),
                    2 => tag("badcmd", vec![]),
                    3 => bin("+", strq("abc"), rec(&mut k, "1")),
                    4 => func("abs", rec(&mut k, "x")),
                    5 => bin("/", int(1), int(0)),
                    6 => func("double", tag("unset", vec![ti(1)])),
                    _ => bin("&&", rec(&mut k, "1"), rec(&mut k, "0")),
                };
                cases.push(mk(&mut rng, bin(op, left, right)));
                n += 1;
            }
        }
    }
    for cv in &["0", "1", "2.5", "0.0", "abc"] {
        for kind in 0..7 {
            let mut k = 0i64;
            let c = rec(&mut k, cv);
            let mut branch = |k: &mut i64| match kind {
                5 => qrec(k, "5"),
                6 => tag("qunset", vec![ti(0)]),
                0 => rec(k, "5"),
                1 => tag("unset", vec![ti(0)]),
                2 => tag("badcmd", vec![]),
                3 => bin("*", strq("a"), rec(k, "2")),
                _ => func("round", tag("unset", vec![ti(2)])),
            };
            let a = branch(&mut k);
            let b = rec(&mut k, "6");
            cases.push(mk(&mut rng, cond(c.clone(), a, b)));
            let mut k2 = 1i64;
            let a2 = rec(&mut k2, "6");
            let b2 = branch(&mut k2);
            cases.push(mk(&mut rng, cond(c, a2, b2)));
            n += 2;
        }
    }
    fams.push(("&&, ||, ?: with every kind of skipped or evaluated operand (effectful, unset, failing, ill-typed, math function)".to_string(), n, true));
    // malformed text in a skipped operand: still an error of the whole expression
    let bad = ["[rec 9", "\"abc", "{abc", "$x(", "1 +", "(1", "abs(", "1 ? 2", "@", "[rec 9 \"x\"y]", "[rec 9 {x}y]", "[rec 9 {x]", "[rec 9 \"x]", "[rec 9 $x(]", "\"a\"b", "{a}b"];
    let mut m = 0;
    for b in &bad {
        for (op, lv) in &[("&&", "0"), ("||", "1")] {
            let mut k = 0i64;
            cases.push(mk(&mut rng, bin(op, rec(&mut k, lv), tag("raw", vec![ts(b)]))));
            m += 1;
        }
        let mut k = 0i64;
        cases.push(mk(&mut rng, cond(rec(&mut k, "1"), int(1), tag("raw", vec![ts(b)]))));
        m += 1;
    }
    fams.push(("syntax faults inside skipped operands".to_string(), m, true));
    let nrand = if thorough { 300_000 } else { 3000 };
    for _ in 0..nrand {
        let mut k = 0i64;
        let d = 1 + rng.below(4);
        let t = tree(&mut rng, d, &mut k);
        cases.push(mk(&mut rng, t));
    }
    fams.push(("random trees to depth 4 mixing short-circuit and other operators".to_string(), nrand, false));
    // deciding operands that are floats at and next to zero: only an exact zero (of either sign) is false
    let mut nz = 0;
    for fv in &["1e-20", "1e-300", "5e-324", "1e-16", "2.3e-16", "0.0", "0e5", "0.5", "Inf"] {
        for lit in 0..3 {
            for op in 0..3 {
                let mut k = 0i64;
                let c = match lit { 0 => flt(fv), 1 => rec(&mut k, fv), _ => un("-", flt(fv)) };
                let t = match op {
                    0 => bin("&&", c, rec(&mut k, "1")),
                    1 => bin("||", c, tag("unset", vec![ti(0)])),
                    _ => { let a = rec(&mut k, "5"); let b = rec(&mut k, "6"); cond(c, a, b) }
                };
                cases.push(mk(&mut rng, t));
                nz += 1;
            }
        }
    }
    fams.push(("&&, ||, ?: decided by floats at and next to zero (subnormal, below machine epsilon, negated, computed by a command)".to_string(), nz, true));
    (cases, fams)
}

pub fn run(case: &Term) -> Term {
    let (mut interp, ctx) = harness_interp(0);
    for kv in case.nth(2).as_list() {
        let _ = interp.set_scalar(kv.nth(0).as_str(), Value::from(kv.nth(1).as_str()));
    }
    let r = interp.expr(&Value::from(case.nth(1).as_str()));
    let calls: Vec<Term> = interp.context::<Recorder>(ctx).calls.iter().map(|c| ts(&c[1])).collect();
    let out = match r {
        Ok(v) => tag("Ok", vec![ts(v.as_str())]),
        Err(e) => tag("Err", vec![ts(e.value().as_str())]),
    };
    tl(vec![out, tl(calls)])
}
