//! C14: errors are reported faithfully and consistently on every channel.
//! case: (variant source frames script)
use super::script::*;
use super::Gen;
use crate::rng::Rng;
use crate::term::*;

/// (source text, expected message, expected error code, expected first line of the trace)
pub const SOURCES: [(&str, &str, &str, &str); 27] = [
    ("error boom", "boom", "NONE", "boom"),
    ("error {two words}", "two words", "NONE", "two words"),
    ("throw MYCODE thrown", "thrown", "MYCODE", "thrown"),
    ("throw {A B} {x y}", "x y", "A B", "x y"),
    ("set nosuch", "can't read \"nosuch\": no such variable", "NONE", "can't read \"nosuch\": no such variable"),
    ("nosuchcmd 1 2", "invalid command name \"nosuchcmd\"", "NONE", "invalid command name \"nosuchcmd\""),
    ("expr {1/0}", "divide by zero", "NONE", "divide by zero"),
    ("expr {1 +}", "syntax error in expression \"1 +\"", "NONE", "syntax error in expression \"1 +\""),
    ("set loc abc; incr loc", "expected integer but got \"abc\"", "NONE", "expected integer but got \"abc\""),
    ("pa2 1", "wrong # args: should be \"pa2 a b\"", "NONE", "wrong # args: should be \"pa2 a b\""),
    ("rce", "rmsg", "NONE", "rmsg"),
    ("rcei", "imsg", "ECODE", "given info"),
    ("rcec", "cmsg", "ONLYCODE", "cmsg"),
    ("rceo", "omsg", "OCODE", "omsg"),
    ("error \"two\\r\\nlines\"", "two\r\nlines", "NONE", "two\r"),
    ("error \"trail\\n\"", "trail\n", "NONE", "trail"),
    ("throw {C R} \"a\\r\\nb\\n\"", "a\r\nb\n", "C R", "a\r"),
    ("throw \"APP  TIMEOUT\" tmsg", "tmsg", "APP  TIMEOUT", "tmsg"),
    ("throw {{ARITH} {DIVZERO} \"two words\"} amsg", "amsg", "{ARITH} {DIVZERO} \"two words\"", "amsg"),
    ("throw \"a \\{b\" nmsg", "nmsg", "a {b", "nmsg"),
    ("error {}", "", "NONE", ""),
    ("throw EMPTYMSG {}", "", "EMPTYMSG", ""),
    ("rceb", "", "NONE", ""),
    ("error \"\\nsecond\"", "\nsecond", "NONE", ""),
    ("set x \"abc", "missing \"", "NONE", "missing \""),
    ("rec [rec a", "missing close-bracket", "NONE", "missing close-bracket"),
    // caught and re-raised with its options where a LOCAL variable is called errorInfo
    ("rcel", "lmsg", "LCODE", "lmsg"),
];

pub const PRELUDE: &str = "proc pa2 {a b} {}; set nonint abc; proc rce {} {return -code error rmsg}; proc rcei {} {return -code error -errorcode ECODE -errorinfo {given info} imsg}; proc rcec {} {return -code error -errorcode ONLYCODE cmsg}; proc rceo {} {return -errorcode OCODE -code error omsg}; proc rceb {} {return -code error}; proc rcel {} {set errorInfo mine; set errorCode mine; catch {throw LCODE lmsg} lr lo; return -code error -errorcode [dict get $lo -errorcode] -errorinfo [dict get $lo -errorinfo] $lr}";

const FRAMES: [&str; 5] = ["proc", "if", "foreach", "while", "rproc"];

fn wrap(kind: &str, k: usize, body: &str) -> String {
    match kind {
        "proc" => format!("proc q{k} {{}} {{{b}}}; q{k}", k = k, b = body),
        // a one-shot procedure: it removes itself while it runs; the error still passed through it
        "rproc" => format!("proc q{k} {{}} {{rename q{k} {{}}; {b}}}; q{k}", k = k, b = body),
        "if" => format!("if 1 {{{b}}}", b = body),
        "foreach" => format!("foreach i{k} 1 {{{b}}}", k = k, b = body),
        _ => format!("set w{k} 0; while {{$w{k} < 1}} {{incr w{k}; {b}}}", k = k, b = body),
    }
}

pub fn failing(src: usize, frames: &[&str]) -> String {
    let mut text = SOURCES[src].0.to_string();
    for (k, kind) in frames.iter().enumerate().rev() {
        text = wrap(kind, k, &text);
    }
    text
}

pub fn gen(tier: &str, seed: u64) -> Gen {
    let mut rng = Rng::new(seed);
    let mut cases = Vec::new();
    let thorough = tier == "thorough";
    let maxdepth = if thorough { 4 } else { 3 };
    let mut stacks: Vec<Vec<&str>> = vec![vec![]];
    let mut level: Vec<Vec<&str>> = vec![vec![]];
    for _ in 0..maxdepth {
        let mut next = Vec::new();
        for s in &level {
            for k in &FRAMES {
                let mut t = s.clone();
                t.push(*k);
                next.push(t);
            }
        }
        stacks.extend(next.iter().cloned());
        level = next;
    }
    let variants = ["host", "catch", "catchafter", "rethrow", "rethrow2", "rethrow3", "quiet"];
    let mut n = 0;
    for s in &stacks {
        for src in 0..SOURCES.len() {
            for v in &variants {
                if !thorough && s.len() == 3 && !rng.chance(1, 6) {
                    continue;
                }
                let (_, m, c, f) = SOURCES[src];
                cases.push(tl(vec![ts(v), tl(vec![ts(m), ts(c), ts(f), tb(src == 11 || src == 26)]), tstrs(s), ts(&failing(src, s))]));
                n += 1;
            }
        }
    }
    // long chains of procedures: every one of them is named in the trace
    let mut nd = 0;
    for depth in &[70usize, 100, 150] {
        let frames: Vec<&str> = vec!["proc"; *depth];
        for src in &[0usize, 2, 4, 11] {
            for v in &["host", "catch", "rethrow"] {
                let (_, m, c, f) = SOURCES[*src];
                cases.push(tl(vec![ts(v), tl(vec![ts(m), ts(c), ts(f), tb(*src == 11 || *src == 26)]), tstrs(&frames), ts(&failing(*src, &frames))]));
                nd += 1;
            }
        }
    }
    let n = n + nd;
    (cases, vec![(format!("27 error sources (incl. empty messages and bodies that do not parse) x every stack of proc/if/foreach/while/self-removing-proc frames of depth<={} x 7 observation variants (host, catch, catch after an earlier error, rethrow x3, quiet); plus chains of 70, 100 and 150 procedures", maxdepth), n, thorough)])
}

fn host_obs(interp: &mut molt::Interp, script: &str) -> Term {
    let r = interp.eval(script);
    let g = |interp: &molt::Interp, n: &str| match interp.scalar(n) {
        Ok(v) => ts(v.as_str()),
        Err(_) => ts("<unset>"),
    };
    tl(vec![obs_result(&r), g(interp, "errorCode"), g(interp, "errorInfo")])
}

pub fn run(case: &Term) -> Term {
    let (mut interp, ctx) = harness_interp(0);
    let _ = interp.eval(PRELUDE);
    let variant = case.nth(0).as_str().to_string();
    let f = case.nth(3).as_str().to_string();
    let out = match variant.as_str() {
        "host" => host_obs(&mut interp, &f),
        "catch" => host_obs(
            &mut interp,
            &format!("set c [catch {{{}}} r o]; rec caught $c $r [dict get $o -code] [dict get $o -errorcode] [dict get $o -errorinfo] $errorCode $errorInfo", f),
        ),
        // the same after an earlier, different error on the same interpreter
        "catchafter" => host_obs(
            &mut interp,
            &format!("catch {{error earlier}}; set c [catch {{{}}} r o]; rec caught $c $r [dict get $o -code] [dict get $o -errorcode] [dict get $o -errorinfo] $errorCode $errorInfo", f),
        ),
        "rethrow" => host_obs(
            &mut interp,
            &format!("catch {{{}}} r o; rec first [dict get $o -errorinfo]; return {{*}}$o $r", f),
        ),
        "rethrow3" => host_obs(
            &mut interp,
            &format!("catch {{{}}} r o; rec first [dict get $o -errorinfo]; proc again {{r o}} {{return -errorinfo [dict get $o -errorinfo] -errorcode [dict get $o -errorcode] -code error $r}}; catch {{again $r $o}} r2 o2; rec second $r2 [dict get $o2 -errorcode] [dict get $o2 -errorinfo]", f),
        ),
        "rethrow2" => host_obs(
            &mut interp,
            &format!("catch {{{}}} r o; rec first [dict get $o -errorinfo]; proc again {{r o}} {{return -code error -errorcode [dict get $o -errorcode] -errorinfo [dict get $o -errorinfo] $r}}; catch {{again $r $o}} r2 o2; rec second $r2 [dict get $o2 -errorcode] [dict get $o2 -errorinfo]", f),
        ),
        _ => {
            // quiet: after the failure, evaluations that raise no error leave the record alone
            let a = host_obs(&mut interp, &f);
            let b = host_obs(&mut interp, "set x 1; catch {break}; catch {return 5}; foreach i {1 2} {continue}; proc qq {} {return -code 7 z}; catch {qq}; catch {return -code error -errorcode LATER later}; catch {return -level 2 -code error -errorcode L2 -errorinfo {later info} l2}; expr {1 && 0}");
            tl(vec![a, b])
        }
    };
    let calls: Vec<Term> = interp.context::<Recorder>(ctx).calls.iter().map(|c| tstrs(&c[1..])).collect();
    tl(vec![out, tl(calls)])
}
