//! C15: dictionaries are insertion-ordered maps with value semantics.
//! A case is a sequence of dictionary operations (as a tree) over three variables.
use super::script::*;
use super::Gen;
use crate::rng::Rng;
use crate::term::*;
use molt::types::*;

const KEYS: [&str; 14] = ["a", "b", "a b", "{", "", "c", "}", "x}y", "a\x0bb", "k\\", "#", "}{", "\\ {", "#x"];
const VARS: [&str; 3] = ["d", "e", "f"];
const LITS: [&str; 8] = ["", "a 1", "a 1 a 2", "a", "a {b 1 c 2}", "a {b {c 3}} x y", "{a b} 1 { 2", "a  1   b 2"];

fn pick_path(rng: &mut Rng, maxlen: usize) -> Term {
    let n = 1 + rng.below(maxlen);
    tl((0..n).map(|_| ts(KEYS[rng.below(KEYS.len())])).collect())
}

/// an operation; half of the operations that build or change a dictionary are wrapped as
/// ("quiet" op): the script continues with `; string length {}`, so the value just produced is never
/// asked for its string and copies of it share whatever typed representation it has
pub fn op(rng: &mut Rng) -> Term {
    let o = op0(rng);
    let building = matches!(o.nth(0).as_str(), "create" | "set" | "unset" | "remove" | "copy");
    if building && rng.chance(1, 2) { tag("quiet", vec![o]) } else { o }
}

fn op0(rng: &mut Rng) -> Term {
    let v = VARS[rng.below(3)];
    let w = VARS[rng.below(3)];
    match rng.below(14) {
        12 => tag("drop", vec![ts(v)]),
        13 => {
            // a value built by `list` (typed data, no string yet), repeated keys likely
            let n = rng.below(4);
            let kv: Vec<Term> = (0..2 * n).map(|_| ts(KEYS[rng.below(KEYS.len())])).collect();
            tag("mklist", vec![ts(v), tl(kv)])
        }
        0 => {
            let n = rng.below(4);
            let kv: Vec<Term> = (0..2 * n).map(|_| ts(KEYS[rng.below(KEYS.len())])).collect();
            tag("create", vec![ts(v), tl(kv)])
        }
        1 | 2 | 3 => tag("set", vec![ts(v), pick_path(rng, 3), ts(KEYS[rng.below(KEYS.len())])]),
        4 | 5 => tag("unset", vec![ts(v), pick_path(rng, 3)]),
        6 => {
            // now and then with no key at all: still a dictionary operation on its argument
            let keys = if rng.chance(1, 4) { tl(vec![]) } else { pick_path(rng, 2) };
            tag("remove", vec![ts(v), ts(w), keys])
        }
        7 => tag("copy", vec![ts(v), ts(w)]),
        8 => tag("get", vec![ts(w), pick_path(rng, 3)]),
        9 => tag("exists", vec![ts(w), pick_path(rng, 3)]),
        10 => tag(["keys", "values", "size"][rng.below(3)], vec![ts(w)]),
        _ => tag("lit", vec![ts(v), ts(LITS[rng.below(LITS.len())])]),
    }
}

fn list_val(items: &[Value]) -> String {
    Value::from(items.to_vec()).as_str().to_string()
}

/// the Tcl command (as a list string, so that quoting is by construction right) for an operation
pub fn render(o: &Term) -> String {
    let v = |s: &str| Value::from(s);
    let path = |t: &Term| -> Vec<Value> { t.strs().iter().map(|s| Value::from(s.as_str())).collect() };
    match o.nth(0).as_str() {
        "quiet" => format!("{}; string length {{}}", render(o.nth(1))),
        "create" => {
            let mut inner = vec![v("dict"), v("create")];
            inner.extend(path(o.nth(2)));
            format!("set {} [{}]", o.nth(1).as_str(), list_val(&inner))
        }
        "set" => {
            let mut c = vec![v("dict"), v("set"), v(o.nth(1).as_str())];
            c.extend(path(o.nth(2)));
            c.push(v(o.nth(3).as_str()));
            list_val(&c)
        }
        "unset" => {
            let mut c = vec![v("dict"), v("unset"), v(o.nth(1).as_str())];
            c.extend(path(o.nth(2)));
            list_val(&c)
        }
        "remove" => {
            let keys: Vec<String> = path(o.nth(3)).iter().map(|k| list_val(&[k.clone()])).collect();
            format!("set {} [dict remove ${} {}]", o.nth(1).as_str(), o.nth(2).as_str(), keys.join(" "))
        }
        "copy" => format!("set {} ${}", o.nth(1).as_str(), o.nth(2).as_str()),
        "drop" => format!("unset {}", o.nth(1).as_str()),
        "mklist" => {
            let mut inner = vec![v("list")];
            inner.extend(path(o.nth(2)));
            // the script's own result is not the list, so that nothing asks for its string yet
            format!("set {} [{}]; string length {{}}", o.nth(1).as_str(), list_val(&inner))
        }
        "get" | "exists" => {
            let keys: Vec<String> = path(o.nth(2)).iter().map(|k| list_val(&[k.clone()])).collect();
            format!("dict {} ${} {}", o.nth(0).as_str(), o.nth(1).as_str(), keys.join(" "))
        }
        "keys" | "values" | "size" => format!("dict {} ${}", o.nth(0).as_str(), o.nth(1).as_str()),
        _ => list_val(&[v("set"), v(o.nth(1).as_str()), v(o.nth(2).as_str())]),
    }
}

pub fn mk(ops: Vec<Term>) -> Term {
    let mut scripts: Vec<String> = vec!["set d {}; set e {}; set f {}".to_string()];
    scripts.extend(ops.iter().map(|o| render(o)));
    let refs: Vec<&str> = scripts.iter().map(|s| s.as_str()).collect();
    tl(vec![ti(0), tstrs(&refs), tstrs(&VARS), tl(ops)])
}

pub fn gen(tier: &str, seed: u64) -> Gen {
    let mut rng = Rng::new(seed);
    let mut cases = Vec::new();
    let thorough = tier == "thorough";
    let n = if thorough { 150_000 } else { 3000 };
    for i in 0..n {
        let len = if i % 3 == 0 { 1 + rng.below(4) } else { 5 + rng.below(25) };
        let ops: Vec<Term> = (0..len).map(|_| op(&mut rng)).collect();
        cases.push(mk(ops));
    }
    (cases, vec![("random operation sequences (create/set/unset/remove/copy/get/exists/keys/values/size removal of the variable itself, values built by `list` with repeated keys, nested paths to depth 3, malformed literals; half of the building steps leave the value they produce without a string) of length 1-30 over 3 variables".to_string(), n, false)])
}

pub fn run(case: &Term) -> Term {
    run_history(case)
}
