//! C05: the string form of a list parses back to exactly the same list.
use super::util::*;
use super::Gen;
use crate::rng::Rng;
use crate::term::*;
use molt::types::Value;

pub const ALPHA: [&str; 14] = ["{", "}", "\"", "\\", " ", "\t", "\n", ";", "$", "[", "]", "#", "a", "*"];
const EXTRA: [&str; 10] = ["\u{a0}", "\u{2003}", "\u{3000}", "é", "😀", "\r", "\x0b", "\x0c", "x", "0"];

pub fn gen(tier: &str, seed: u64) -> Gen {
    let mut rng = Rng::new(seed);
    let mut cases = Vec::new();
    let mut fams = Vec::new();
    let thorough = tier == "thorough";

    // singles: every element of length <= 4 (thorough) / <= 3 (quick) over ALPHA
    let singles = all_strings(&ALPHA, if thorough { 4 } else { 3 });
    for s in &singles {
        cases.push(tl(vec![ts(s)]));
    }
    fams.push((format!("single element, length<={} over 14 symbols", if thorough { 4 } else { 3 }), singles.len(), true));

    // pairs of elements of length <= 2 (thorough) / sampled (quick)
    let short2 = all_strings(&ALPHA, 2);
    let mut npairs = 0;
    if thorough {
        for a in &short2 {
            for b in &short2 {
                cases.push(tl(vec![ts(a), ts(b)]));
                npairs += 1;
            }
        }
    } else {
        for _ in 0..1500 {
            cases.push(tl(vec![ts(&short2[rng.below(short2.len())]), ts(&short2[rng.below(short2.len())])]));
            npairs += 1;
        }
    }
    fams.push(("pairs of elements of length<=2".to_string(), npairs, thorough));

    // triples of elements of length <= 1
    let short1 = all_strings(&ALPHA, 1);
    let mut ntr = 0;
    for a in &short1 {
        for b in &short1 {
            for c in &short1 {
                if thorough || rng.chance(1, 4) {
                    cases.push(tl(vec![ts(a), ts(b), ts(c)]));
                    ntr += 1;
                }
            }
        }
    }
    fams.push(("triples of elements of length<=1".to_string(), ntr, thorough));

    // elements that are themselves lists with repeated items (dictionaries with a repeated key):
    // every string of length <= 7 over {a, *, blank}
    let dictish = all_strings(&["a", "*", " "], 7);
    let mut ndict = 0;
    for s in &dictish {
        if s.matches(' ').count() >= 3 {
            cases.push(tl(vec![ts(s), ts("a")]));
            ndict += 1;
        }
    }
    fams.push(("an element that is a list with repeated items (length<=7 over {a,*,blank}, at least 4 words), viewed as a dictionary in between".to_string(), ndict, true));

    // elements that read as numbers but are not canonically spelled (padded, signed, hex, with an
    // exponent): each is used as a number (as_int / as_float) before the list is formatted
    let numeric = [" 12 ", "3\n", "\t0x1F", " 1.5 ", "+7 ", "1e3 ", " -0", "007 ", " 0 ", "12", " 2.50\t"];
    let mut nnum = 0;
    for a in &numeric {
        for b in &["b", " 4 ", "{", ""] {
            cases.push(tl(vec![ts(a), ts(b)]));
            cases.push(tl(vec![ts(b), ts(a), ts(a)]));
            nnum += 2;
        }
    }
    fams.push(("elements that read as numbers without being canonically spelled, used as numbers before the list is formatted".to_string(), nnum, true));

    // random longer lists incl. Unicode blanks and nested lists
    let mut all: Vec<&str> = ALPHA.to_vec();
    all.extend(EXTRA.iter());
    let nrand = if thorough { 200_000 } else { 1500 };
    for _ in 0..nrand {
        let n = rng.below(6);
        let mut v = Vec::new();
        for _ in 0..n {
            if rng.chance(1, 5) {
                // nested: the string form of a random list
                let m = rng.below(4);
                let inner: Vec<Value> = (0..m).map(|_| Value::from(random_string(&mut rng, &all, 5))).collect();
                v.push(ts(Value::from(inner).as_str()));
            } else {
                v.push(ts(&random_string(&mut rng, &all, 8)));
            }
        }
        cases.push(tl(v));
    }
    fams.push(("random lists (0-5 elements, Unicode blanks, nested)".to_string(), nrand, false));
    (cases, fams)
}

pub fn list_result(v: &Value) -> Term {
    match v.as_list() {
        Ok(l) => tag("Ok", vec![tl(l.iter().map(|x| ts(x.as_str())).collect())]),
        Err(e) => tag("Err", vec![ts(e.value().as_str())]),
    }
}

pub fn run(case: &Term) -> Term {
    let elems: Vec<Value> = case.strs().iter().map(|s| Value::from(s.as_str())).collect();
    let mut formatted = Value::from(elems).as_str().to_string();
    // the same elements after each has been viewed as a list, a dictionary and a number (whatever a
    // value has cached, the string form of the list it is an element of is the same)
    let viewed: Vec<Value> = case.strs().iter().map(|s| Value::from(s.as_str())).collect();
    let mut stable = true;
    for v in &viewed {
        let l1 = list_result(v);
        let _ = v.as_dict();
        let l2 = list_result(v);
        let _ = v.as_int();
        let _ = v.as_float();
        let l3 = list_result(v);
        // the list view of an element is the same before and after its other views
        stable = stable && l1 == l2 && l2 == l3 && l1 == list_result(&Value::from(v.as_str()));
    }
    // the last view of each element alternates between integer, float and list, so that the list
    // is formatted from elements that currently hold each kind of representation
    for (i, v) in viewed.iter().enumerate() {
        match i % 3 {
            0 => { let _ = v.as_int(); }
            1 => { let _ = v.as_float(); }
            _ => { let _ = v.as_list(); }
        }
    }
    let formatted_viewed = Value::from(viewed).as_str().to_string();
    if !stable {
        formatted = format!("{}<<list view of an element changed after other views>>", formatted);
    }
    if formatted_viewed != formatted {
        formatted = format!("{}<<differs after views>>{}", formatted, formatted_viewed);
    }
    // the same sequence held as a dictionary (an even number of elements, distinct keys) has the
    // same string as the list
    let strs = case.strs();
    if strs.len() % 2 == 0 && !strs.is_empty() {
        let keys: Vec<&String> = strs.iter().step_by(2).collect();
        let distinct = (0..keys.len()).all(|i| (0..i).all(|j| keys[i] != keys[j]));
        if distinct {
            let plain = Value::from(strs.iter().map(|s| Value::from(s.as_str())).collect::<Vec<Value>>());
            let plain_str = plain.as_str().to_string();
            if let Ok(d) = Value::from(plain_str.as_str()).as_dict() {
                let ds = Value::from((*d).clone()).as_str().to_string();
                if ds != plain_str {
                    formatted = format!("{}<<as a dictionary>>{}", formatted, ds);
                }
            }
        }
    }
    let back = Value::from(formatted.as_str());
    let r = list_result(&back);
    let f2 = match back.as_list() {
        Ok(l) => Value::from((*l).clone()).as_str().to_string(),
        Err(_) => String::new(),
    };
    tl(vec![ts(&formatted), r, ts(&f2)])
}
