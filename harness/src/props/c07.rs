//! C07: variables live in the right scope and keep one shape.
//! A case is a tree of variable operations; ("call" globals ops) runs ops inside a procedure.
use super::script::*;
use super::Gen;
use crate::rng::Rng;
use crate::term::*;
use molt::types::*;

pub const NAMES: [&str; 4] = ["x", "y", "a", "é"];
const INDICES: [&str; 3] = ["1", "ü", ""];
const VALUES: [&str; 5] = ["1", "v w", "", "41", "é"];

fn nm(rng: &mut Rng) -> Term { ts(NAMES[rng.below(NAMES.len())]) }
fn idx(rng: &mut Rng) -> Term {
    // () = scalar access, (i) = element access
    if rng.chance(1, 2) { tl(vec![]) } else { tl(vec![ts(INDICES[rng.below(INDICES.len())])]) }
}
fn val(rng: &mut Rng) -> Term { ts(VALUES[rng.below(VALUES.len())]) }

pub fn op(rng: &mut Rng, depth: usize) -> Term {
    match rng.below(if depth < 2 { 22 } else { 20 }) {
        0 | 1 | 2 => tag("set", vec![nm(rng), idx(rng), val(rng)]),
        3 | 4 => tag("get", vec![nm(rng), idx(rng)]),
        5 | 6 => tag("unset", vec![nm(rng), idx(rng)]),
        7 => tag("incr", vec![nm(rng), idx(rng)]),
        8 => tag("append", vec![nm(rng), idx(rng), val(rng)]),
        9 => tag("lappend", vec![nm(rng), idx(rng), val(rng)]),
        10 => {
            let n = rng.below(3);
            let mut kv: Vec<Term> = (0..n).flat_map(|_| vec![ts(INDICES[rng.below(3)]), ts(VALUES[rng.below(5)])]).collect();
            // one list in five has an odd number of items: an error that must change nothing
            if rng.chance(1, 5) {
                kv.push(ts(INDICES[rng.below(3)]));
            }
            tag("aset", vec![nm(rng), tl(kv)])
        }
        11 => tag("aunset", vec![nm(rng), idx(rng)]),
        12 | 13 => tag("exists", vec![nm(rng), idx(rng)]),
        14 => tag("aexists", vec![nm(rng)]),
        15 => tag("asize", vec![nm(rng)]),
        16 => tag("anames", vec![nm(rng)]),
        17 => tag("aget", vec![nm(rng)]),
        18 => tag(["vars", "locals", "globals"][rng.below(3)], vec![]),
        19 => tag("global", vec![nm(rng)]),
        _ => {
            // bodies of 0-7 operations; half of them start by linking one or two names to globals, so
            // that reads, writes, removals and introspection through a link are common
            let k = rng.below(8);
            let mut ops: Vec<Term> = Vec::new();
            if rng.chance(1, 2) {
                ops.push(tag("global", vec![nm(rng)]));
                if rng.chance(1, 3) {
                    ops.push(tag("global", vec![nm(rng)]));
                }
            }
            ops.extend((0..k).map(|_| op(rng, depth + 1)));
            match rng.below(6) {
                0 => tag("errcall", vec![tl(ops)]),
                1 => tag("badcall", vec![tl(ops), ti(rng.below(2) as i64)]),
                _ => tag("call", vec![tl(ops)]),
            }
        }
    }
}

fn q(parts: &[&str]) -> String {
    Value::from(parts.iter().map(|p| Value::from(*p)).collect::<Vec<Value>>()).as_str().to_string()
}
fn varname(o: &Term) -> String {
    let n = o.nth(1).as_str();
    match o.nth(2).as_list().get(0) {
        Some(i) => format!("{}({})", n, i.as_str()),
        None => n.to_string(),
    }
}

/// the Tcl command of a leaf operation
fn command(o: &Term) -> String {
    let k = o.nth(0).as_str();
    match k {
        "set" => q(&["set", &varname(o), o.nth(3).as_str()]),
        "get" => q(&["set", &varname(o)]),
        "unset" => q(&["unset", &varname(o)]),
        "incr" => q(&["incr", &varname(o)]),
        "append" => q(&["append", &varname(o), o.nth(3).as_str()]),
        "lappend" => q(&["lappend", &varname(o), o.nth(3).as_str()]),
        "aset" => {
            let kv: Vec<Value> = o.nth(2).strs().iter().map(|s| Value::from(s.as_str())).collect();
            q(&["array", "set", o.nth(1).as_str(), Value::from(kv).as_str()])
        }
        "aunset" => match o.nth(2).as_list().get(0) {
            Some(i) => q(&["array", "unset", o.nth(1).as_str(), i.as_str()]),
            None => q(&["array", "unset", o.nth(1).as_str()]),
        },
        "exists" => q(&["info", "exists", &varname(o)]),
        "aexists" => q(&["array", "exists", o.nth(1).as_str()]),
        "asize" => q(&["array", "size", o.nth(1).as_str()]),
        "anames" => q(&["array", "names", o.nth(1).as_str()]),
        "aget" => q(&["array", "get", o.nth(1).as_str()]),
        "vars" | "locals" | "globals" => format!("info {}", k),
        "global" => q(&["global", o.nth(1).as_str()]),
        _ => "?".to_string(),
    }
}

/// renders a sequence; every leaf operation becomes `rec <tag> [catch {cmd} r] $r`
fn render(ops: &[Term], counter: &mut usize, procs: &mut String) -> String {
    let mut s = String::new();
    for o in ops {
        let kind0 = o.nth(0).as_str();
        if kind0 == "call" || kind0 == "errcall" || kind0 == "badcall" {
            *counter += 1;
            let name = format!("pr{}", counter);
            let body = render(o.nth(1).as_list(), counter, procs);
            match kind0 {
                "call" => {
                    procs.push_str(&format!("proc {} {{}} {{\n{}}}\n", name, body));
                    s.push_str(&format!("{}\n", name));
                }
                "errcall" => {
                    // the body ends in an error: the frame must vanish all the same
                    procs.push_str(&format!("proc {} {{}} {{\n{}error boom\n}}\n", name, body));
                    s.push_str(&format!("catch {{{}}}\n", name));
                }
                _ => {
                    // wrong number of arguments (one too many / one missing): the body never runs
                    if o.nth(2).as_int() == 0 {
                        procs.push_str(&format!("proc {} {{}} {{\n{}}}\n", name, body));
                        s.push_str(&format!("catch {{{} extra}}\n", name));
                    } else {
                        procs.push_str(&format!("proc {} {{needed}} {{\n{}}}\n", name, body));
                        s.push_str(&format!("catch {{{}}}\n", name));
                    }
                }
            }
        } else {
            *counter += 1;
            let kind = o.nth(0).as_str();
            let tagc = match kind {
                "anames" | "vars" | "locals" | "globals" => "L",
                "aget" => "P",
                _ => "S",
            };
            s.push_str(&format!("rec {}{} [catch {{{}}} r] $r\n", tagc, counter, command(o)));
        }
    }
    s
}

pub fn canon_calls(calls: &[Vec<String>]) -> Vec<Term> {
    calls
        .iter()
        .map(|c| {
            let mut c = c.clone();
            if c.len() == 4 && c[2] == "0" {
                let kind = c[1].chars().next().unwrap_or('S');
                if kind == 'L' || kind == 'P' {
                    if let Ok(l) = Value::from(c[3].as_str()).as_list() {
                        let mut items: Vec<String> = if kind == 'L' {
                            l.iter().map(|v| v.as_str().to_string()).filter(|n| NAMES.contains(&n.as_str())).collect()
                        } else {
                            l.chunks(2).map(|p| format!("{}={}", p[0].as_str(), p.get(1).map(|v| v.as_str()).unwrap_or(""))).collect()
                        };
                        items.sort();
                        c[3] = Value::from(items.iter().map(|s| Value::from(s.as_str())).collect::<Vec<Value>>()).as_str().to_string();
                    }
                }
            }
            tstrs(&c)
        })
        .collect()
}

pub fn mk(ops: Vec<Term>) -> Term {
    let mut counter = 0;
    let mut procs = String::new();
    let mut main = render(&ops, &mut counter, &mut procs);
    // the script's own result must not be a hash-ordered listing
    main.push_str("set r 0\n");
    tl(vec![tstrs(&[procs.as_str(), main.as_str()]), tl(ops)])
}

pub fn gen(tier: &str, seed: u64) -> Gen {
    let mut rng = Rng::new(seed);
    let mut cases = Vec::new();
    let thorough = tier == "thorough";
    let n = if thorough { 200_000 } else { 4000 };
    for i in 0..n {
        let len = if i % 4 == 0 { 1 + rng.below(4) } else { 4 + rng.below(36) };
        let ops: Vec<Term> = (0..len).map(|_| op(&mut rng, 0)).collect();
        cases.push(mk(ops));
    }
    (cases, vec![("random sequences (1-40) of variable operations over 4 names x 3 indices at call depth 0-2 (procedure bodies of 0-9 operations, half of them starting with `global`), calls returning normally, by error, or rejected for their argument count".to_string(), n, false)])
}

pub fn run(case: &Term) -> Term {
    let (mut interp, ctx) = harness_interp(0);
    let scripts = case.nth(0).strs();
    let mut outs = Vec::new();
    for s in &scripts {
        outs.push(obs_result(&interp.eval(s)));
    }
    let calls = canon_calls(&interp.context::<Recorder>(ctx).calls);
    // host-side accessors must agree with what the script saw
    let host: Vec<Term> = NAMES
        .iter()
        .map(|n| tl(vec![obs_var(&interp, n), tb(interp.var_exists(&Value::from(*n))), tb(interp.array_exists(n)), ti(interp.array_size(n) as i64)]))
        .collect();
    tl(vec![tl(outs), tl(calls), tl(host), Term::Int(interp.scope_level() as i128)])
}
