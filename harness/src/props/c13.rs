//! C13: cached representations are unobservable: everything is a string.
//! Each generated program is rendered twice: as written, and with every variable read and every
//! command substitution passed through the representation-stripping command `ident`.
use super::script::*;
use super::Gen;
use crate::rng::Rng;
use crate::term::*;
use molt::types::*;

const VARS: [&str; 5] = ["n", "m", "l", "d", "s"];

struct G<'a> {
    rng: &'a mut Rng,
    floats: bool,
    has_float: bool,
}

impl<'a> G<'a> {
    fn v(&mut self) -> &'static str { VARS[self.rng.below(VARS.len())] }

    /// a value expression: (plain, stripped)
    fn val(&mut self, depth: usize) -> (String, String) {
        if depth == 0 || self.rng.chance(1, 3) {
            return match self.rng.below(6) {
                0 => { let x = self.v(); (format!("${}", x), format!("[ident ${}]", x)) }
                1 => { let z = self.rng.below(20) as i64 - 5; (z.to_string(), z.to_string()) }
                2 => { let t = ["a", "{a b}", "{}", "0x10", "\" 7 \"", "true", "{1 2 3}", "{k v k2 v2}"][self.rng.below(8)]; (t.to_string(), t.to_string()) }
                3 if self.floats => { self.has_float = true; let t = ["5.0", "2.5", "1e3", "0.1", "-0.0"][self.rng.below(5)]; (t.to_string(), t.to_string()) }
                _ => { let x = self.v(); (format!("${}", x), format!("[ident ${}]", x)) }
            };
        }
        let (cp, cs) = match self.rng.below(11) {
            0 | 1 => { let (p, s) = self.expr(2); (format!("expr {{{}}}", p), format!("expr {{{}}}", s)) }
            2 => { let (a, sa) = self.val(depth - 1); let (b, sb) = self.val(depth - 1); (format!("list {} {}", a, b), format!("list {} {}", sa, sb)) }
            3 => { let (a, sa) = self.val(depth - 1); let i = self.rng.below(3); (format!("lindex {} {}", a, i), format!("lindex {} {}", sa, i)) }
            4 => { let (a, sa) = self.val(depth - 1); (format!("llength {}", a), format!("llength {}", sa)) }
            5 => { let (a, sa) = self.val(depth - 1); let (b, sb) = self.val(depth - 1); (format!("dict create k {} j {}", a, b), format!("dict create k {} j {}", sa, sb)) }
            6 => { let (a, sa) = self.val(depth - 1); let k = ["k", "j", "k2"][self.rng.below(3)]; (format!("dict get {} {}", a, k), format!("dict get {} {}", sa, k)) }
            7 => { let (a, sa) = self.val(depth - 1); (format!("string length {}", a), format!("string length {}", sa)) }
            8 => { let (a, sa) = self.val(depth - 1); let (b, sb) = self.val(depth - 1); (format!("string cat {} {}", a, b), format!("string cat {} {}", sa, sb)) }
            9 => { let (a, sa) = self.val(depth - 1); (format!("join {} -", a), format!("join {} -", sa)) }
            _ => { let (a, sa) = self.val(depth - 1); (format!("dict keys {}", a), format!("dict keys {}", sa)) }
        };
        (format!("[{}]", cp), format!("[ident [{}]]", cs))
    }

    /// an expression text: (plain, stripped)
    fn expr(&mut self, depth: usize) -> (String, String) {
        if depth == 0 || self.rng.chance(1, 3) {
            return match self.rng.below(4) {
                0 => { let z = self.rng.below(9) as i64 - 2; (z.to_string(), z.to_string()) }
                1 if self.floats => { self.has_float = true; let t = ["5.0", "2.5", "0.5"][self.rng.below(3)]; (t.to_string(), t.to_string()) }
                _ => { let x = self.v(); (format!("${}", x), format!("[ident ${}]", x)) }
            };
        }
        match self.rng.below(8) {
            0 if self.floats => { self.has_float = true; let (a, sa) = self.expr(depth - 1); (format!("double({})", a), format!("double({})", sa)) }
            1 => { let (a, sa) = self.expr(depth - 1); (format!("abs({})", a), format!("abs({})", sa)) }
            2 => { let (a, sa) = self.val(1); (a, sa) }
            _ => {
                let ops = ["+", "-", "*", "/", "<", "==", "eq", "&&", "||", "%"];
                let op = ops[self.rng.below(ops.len())];
                let (a, sa) = self.expr(depth - 1);
                let (b, sb) = self.expr(depth - 1);
                (format!("({} {} {})", a, op, b), format!("({} {} {})", sa, op, sb))
            }
        }
    }

    fn stmt(&mut self, depth: usize) -> (String, String) {
        match self.rng.below(10) {
            0 | 1 | 2 => { let x = self.v(); let (a, sa) = self.val(2); (format!("set {} {}", x, a), format!("set {} {}", x, sa)) }
            3 => { let x = self.v(); (format!("catch {{incr {}}}", x), format!("catch {{incr {}}}", x)) }
            4 => { let x = self.v(); let (a, sa) = self.val(1); (format!("catch {{lappend {} {}}}", x, a), format!("catch {{lappend {} {}}}", x, sa)) }
            5 => { let x = self.v(); let (a, sa) = self.val(1); (format!("catch {{dict set {} k {}}}", x, a), format!("catch {{dict set {} k {}}}", x, sa)) }
            6 => { let x = self.v(); let (a, sa) = self.val(1); (format!("catch {{append {} {}}}", x, a), format!("catch {{append {} {}}}", x, sa)) }
            7 if depth > 0 => {
                let (c, sc) = self.expr(1);
                let (a, sa) = self.stmt(depth - 1);
                let (b, sb) = self.stmt(depth - 1);
                (format!("catch {{if {{{}}} {{{}}} else {{{}}}}}", c, a, b), format!("catch {{if {{{}}} {{{}}} else {{{}}}}}", sc, sa, sb))
            }
            8 if depth > 0 => {
                // a script value evaluated twice: from the cached parse, and from fresh copies of its text
                let (a, sa) = self.stmt(depth - 1);
                (format!("set body {{{}}}; catch {{if 1 $body}}; catch {{if 1 $body}}", a),
                 format!("set body {{{}}}; catch {{if 1 [ident $body]}}; catch {{if 1 [ident $body]}}", sa))
            }
            _ => { let x = self.v(); let (a, sa) = self.expr(2); (format!("catch {{set {} [expr {{{}}}]}}", x, a), format!("catch {{set {} [ident [expr {{{}}}]]}}", x, sa)) }
        }
    }
}

const INIT: &str = "set n 5; set m 10; set l {1 2 3}; set d {k 1 j 2}; set s abc; set body {}";

pub fn gen(tier: &str, seed: u64) -> Gen {
    let mut rng = Rng::new(seed);
    let mut cases = Vec::new();
    let thorough = tier == "thorough";
    let n = if thorough { 150_000 } else { 3000 };
    let mut nf = 0;
    for i in 0..n {
        // a quarter of the programs may build floats (the documented lien); the rest are float-free
        let floats = i % 4 == 0;
        let mut g = G { rng: &mut rng, floats, has_float: false };
        let k = 1 + g.rng.below(8);
        let mut p = String::new();
        let mut s = String::new();
        for _ in 0..k {
            let (a, b) = g.stmt(2);
            p.push_str(&a);
            p.push('\n');
            s.push_str(&b);
            s.push('\n');
        }
        // the result: all variables, through a typed and an untyped consumer
        let tail = "list $n $m $l $d $s [catch {expr {$n + 0}} r] $r [catch {llength $l} r2] $r2 [catch {dict size $d} r3] $r3";
        p.push_str(tail);
        s.push_str(tail);
        let hf = g.has_float;
        if hf { nf += 1; }
        cases.push(tl(vec![tb(hf), ts(&p), ts(&s)]));
    }
    // directed: a float travelling through a variable, a list and a dict to an arithmetic consumer
    let fl = ["5.0", "2.5", "1e3", "-0.0", "7.0/2", "double(3)", "0.1+0.2", "1e300*1e300"];
    let mut nd = 0;
    for f in &fl {
        for (cp, cs) in &[
            ("expr {$n / 2}", "expr {[ident $n] / 2}"),
            ("expr {$n eq \"5\"}", "expr {[ident $n] eq \"5\"}"),
            ("expr {[lindex [list $n] 0] * 3}", "expr {[ident [lindex [ident [list [ident $n]]] 0]] * 3}"),
            ("expr {[dict get [dict create k $n] k] + 1}", "expr {[ident [dict get [ident [dict create k [ident $n]]] k]] + 1}"),
            ("string length $n", "string length [ident $n]"),
            ("incr m [expr {int($n)}]", "incr m [ident [expr {int([ident $n])}]]"),
        ] {
            let p = format!("set n [expr {{{}}}]\n{}", f, cp);
            let s2 = format!("set n [ident [expr {{{}}}]]\n{}", f, cs);
            cases.push(tl(vec![tb(true), ts(&p), ts(&s2)]));
            nd += 1;
        }
    }
    // one string seen through several typed views in sequence: the same Value (with whatever it
    // has cached so far) in the first form, a fresh copy for every view in the second
    let pool = [
        " 3 ", "0x10", "1 2", "a b c d", "{a} b", "set m $n; incr m", "1e2", "007", "+5", "true", " 12", "a\tb",
        "k v k w", "{1 2} {3 4}", "-0", "0.0", "1.50", "  ", "", "llength {a b}", "list a b", "9223372036854775807",
        "-9223372036854775808", "0b1", "Inf", "NaN", "yes", "off", "set n", "incr m; incr m", "return $n", "{",
        "a {b c} d e", "1 ", "\n2", "$n", "[incr m]", "x;y", "\"p }\" x", "\"{\" q", "a\\ b c", "{a}  {b}",
        "0XA", "0X1f", "+0x10", " 0x10 ", "1E2", "1e+2", ".5", "5.", "0o17", "1_000", "\\ {", "a\\ }", "}{", "x}y{z",
    ];
    let views: [(&str, &str); 17] = [
        ("incr m $s", "incr m [ident $s]"),
        ("expr {$s + 1}", "expr {[ident $s] + 1}"),
        ("expr {$s ? \"t\" : \"f\"}", "expr {[ident $s] ? \"t\" : \"f\"}"),
        ("llength $s", "llength [ident $s]"),
        ("lindex $s 0", "lindex [ident $s] 0"),
        ("dict size $s", "dict size [ident $s]"),
        ("if 1 $s", "if 1 [ident $s]"),
        ("foreach e $s {append d <$e>}", "foreach e [ident $s] {append d <$e>}"),
        ("string length $s", "string length [ident $s]"),
        ("proc q {} $s; q", "proc q {} [ident $s]; q"),
        ("list {*}$s", "list {*}[ident $s]"),
        ("string cat $s $s", "string cat [ident $s] [ident $s]"),
        ("set n $s; expr {$n * 2}", "set n [ident $s]; expr {[ident $n] * 2}"),
        ("dict get $s k", "dict get [ident $s] k"),
        ("expr $s", "expr [ident $s]"),
        ("list $s y", "list [ident $s] y"),
        ("set n $s; llength $n", "set n [ident $s]; llength [ident $n]"),
    ];
    let nv = if thorough { 60_000 } else { 2500 };
    for _ in 0..nv {
        // the value comes from a literal, or from a command that builds typed data with no string yet
        let builders = [
            "list k v k w", "list a 1 b 2 a 3", "list 1 2 3", "dict create a 1 b 2", "list {set m} {$n}", "list incr m",
            "string cat { 3} { }", "list {} {}", "list a {b c} d e", "expr {0x10}", "expr {7 - 4}", "list -0 +1",
            "list \"C:\\\\work\\\\\" src docs", "list \"a\\\\\" \"\\{\" k", "dict create \"k\\\\\" v", "list \"#\" \"a b\" \"\\{\"", "list \"a\\vb\" 1",
        ];
        let (mut p, mut s2) = if rng.chance(1, 3) {
            let b = builders[rng.below(builders.len())];
            (format!("set s [{}]\n", b), format!("set s [ident [{}]]\n", b))
        } else {
            let lit = pool[rng.below(pool.len())];
            let q = Value::from(vec![Value::from(lit)]);
            let t = format!("set s {}\n", q.as_str());
            (t.clone(), t)
        };
        let k = 2 + rng.below(4);
        for _ in 0..k {
            let (a, b) = views[rng.below(views.len())];
            p.push_str(&format!("lappend l [catch {{{}}} r] $r\n", a));
            s2.push_str(&format!("lappend l [catch {{{}}} r] $r\n", b));
        }
        p.push_str("list $n $m $l $d $s");
        s2.push_str("list $n $m $l $d $s");
        cases.push(tl(vec![tb(false), ts(&p), ts(&s2)]));
    }
    let n = n + nd;
    (cases, vec![(format!("{} sequences of 2-5 typed views (integer, boolean, list, dict, script, procedure body, expansion, string) of one string from a pool of {} ambiguous literals, on the shared value and on fresh copies", nv, pool.len()), nv, false), (format!("random programs over numbers, lists, dicts and strings, each rendered as written and with every read passed through `ident` ({} of them may build floats)", nf), n, false)])
}

pub fn run(case: &Term) -> Term {
    let mut outs = Vec::new();
    for k in 1..3 {
        let (mut interp, _) = harness_interp(0);
        let _ = interp.eval(INIT);
        let r = interp.eval(case.nth(k).as_str());
        let vars: Vec<Term> = ["n", "m", "l", "d", "s"].iter().map(|v| obs_var(&interp, v)).collect();
        let o = match r {
            Ok(v) => tag("Ok", vec![ts(v.as_str())]),
            Err(e) => tag("Err", vec![ts(e.value().as_str())]),
        };
        outs.push(tl(vec![o, tl(vars)]));
    }
    tl(outs)
}
