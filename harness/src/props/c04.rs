//! C04: a value's string is immutable and its typed views are faithful to it.
use super::util::*;
use super::Gen;
use crate::rng::Rng;
use crate::term::*;
use molt::types::*;
use std::collections::hash_map::DefaultHasher;
use std::hash::{Hash, Hasher};

const POOL: [&str; 41] = [
    "", "0", "1", "-1", "5", " 7 ", "0x1F", "+3", "--5", "9223372036854775807", "-9223372036854775808",
    "9223372036854775808", "1.5", "5.0", "1e3", ".5", "5.", "Inf", "-inf", "NaN", "true", "YES", "off", "no",
    "a b c", "a {b c} d", "k v k2 {v 2}", "{", "a\"b", "x(1)", "a 1 b 2 a 3", "k v k w", "0x10",
    "0x-5", "0x+ff", "+0x-10", "-0x-5", "0x", "+-5", "-0x8000000000000000", "0X1f",
];
const REQS: [&str; 8] = ["str", "int", "float", "bool", "list", "dict", "varname", "script"];

pub fn gen(tier: &str, seed: u64) -> Gen {
    let mut rng = Rng::new(seed);
    let mut cases = Vec::new();
    let mut fams = Vec::new();
    let thorough = tier == "thorough";
    // integers: boundaries +-2, powers of two and ten
    let mut ints: Vec<i64> = vec![0, 1, -1, i64::MAX, i64::MIN, i64::MAX - 1, i64::MIN + 1, i64::MAX - 2, i64::MIN + 2];
    for k in 0..63 {
        let p = 1i64 << k;
        ints.extend_from_slice(&[p, -p, p - 1, -(p - 1), p + 1]);
    }
    let mut t: i64 = 1;
    for _ in 0..18 {
        t *= 10;
        ints.extend_from_slice(&[t, -t, t - 1, t + 1]);
    }
    let nrand_int = if thorough { 100_000 } else { 500 };
    for _ in 0..nrand_int {
        ints.push(rng.next() as i64);
    }
    for z in &ints {
        cases.push(tag("int", vec![Term::Int(*z as i128)]));
    }
    fams.push(("i64 boundaries +-2, powers of two and ten, random".to_string(), ints.len(), false));
    // floats: special and random bit patterns
    let mut bits: Vec<u64> = vec![
        0, 0x8000000000000000, 0x3FF0000000000000, 0xBFF0000000000000, 0x7FF0000000000000, 0xFFF0000000000000,
        0x7FF8000000000000, 0x7FF0000000000001, 1, 0x000FFFFFFFFFFFFF, 0x0010000000000000, 0x7FEFFFFFFFFFFFFF,
        0x4014000000000000, 0x3FB999999999999A, 0x3FD5555555555555, 0x4340000000000000, 0x4340000000000001, 0x433FFFFFFFFFFFFF,
    ];
    for v in &[0.1f64, 0.2, 0.30000000000000004, 1e21, 1e-7, 123456789.125, 5e-324, 1.7976931348623157e308, 2.5, 1e15, 1e16, 1e17, 9007199254740993.0] {
        bits.push(v.to_bits());
        bits.push((-v).to_bits());
    }
    let nrand_f = if thorough { 20_000 } else { 1500 };
    for _ in 0..nrand_f {
        bits.push(rng.next());
        // also "human" floats
        let m = (rng.next() % 100000) as f64;
        let e = (rng.next() % 40) as i32 - 20;
        bits.push((m * 10f64.powi(e)).to_bits());
    }
    for b in &bits {
        cases.push(tag("flt", vec![Term::Int(*b as i128)]));
    }
    fams.push(("special and random f64 bit patterns".to_string(), bits.len(), false));
    cases.push(tag("bool", vec![tb(true)]));
    cases.push(tag("bool", vec![tb(false)]));
    // lists and dicts of arbitrary strings (nested through their string forms)
    let alpha = ["{", "}", "\"", "\\", " ", "\n", ";", "$", "[", "]", "#", "a", "é"];
    let nl = if thorough { 50_000 } else { 800 };
    for _ in 0..nl {
        let n = rng.below(5);
        let items: Vec<String> = (0..n).map(|_| random_string(&mut rng, &alpha, 5)).collect();
        cases.push(tag("list", vec![tstrs(&items)]));
        // dictionary with distinct keys
        let mut keys: Vec<String> = Vec::new();
        let mut kv: Vec<String> = Vec::new();
        for _ in 0..rng.below(4) {
            let k = random_string(&mut rng, &alpha, 3);
            if !keys.contains(&k) {
                keys.push(k.clone());
                kv.push(k);
                kv.push(random_string(&mut rng, &alpha, 4));
            }
        }
        cases.push(tag("dict", vec![tstrs(&kv)]));
    }
    fams.push(("lists and dictionaries of arbitrary strings".to_string(), 2 * nl, false));
    // conversion request sequences on a shared value and one clone
    let mut nreq = 0;
    let maxlen = if thorough { 4 } else { 2 };
    for s in &POOL {
        // all request sequences up to maxlen over 8 kinds x {value, clone}
        let mut level: Vec<Vec<(usize, bool)>> = vec![vec![]];
        for _ in 0..maxlen {
            let mut next = Vec::new();
            for l in &level {
                for r in 0..REQS.len() {
                    for c in &[false, true] {
                        let mut t = l.clone();
                        t.push((r, *c));
                        next.push(t);
                    }
                }
            }
            for l in &next {
                if thorough && l.len() == 4 && !rng.chance(1, 8) {
                    continue;
                }
                let reqs: Vec<Term> = l.iter().map(|(r, c)| tl(vec![ts(REQS[*r]), tb(*c)])).collect();
                cases.push(tag("req", vec![ts(s), tl(reqs)]));
                nreq += 1;
            }
            level = next;
        }
    }
    fams.push((format!("all conversion-request sequences of length<={} over 8 views on a value and its clone, {} strings (incl. dictionaries with repeated keys, signs inside hexadecimal literals)", maxlen, POOL.len()), nreq, !thorough));
    // values born from typed data whose string nobody has asked for yet: one typed view is requested
    // on a clone first, then the string must still be the string of the data
    let typed: Vec<Term> = vec![
        tag("i", vec![ti(5)]), tag("i", vec![ti(0)]), tag("i", vec![ti(42)]), tag("i", vec![ti(i64::MIN)]), tag("i", vec![ti(-1)]),
        tag("f", vec![ts("2.5")]), tag("f", vec![ts("0.5")]), tag("f", vec![ts("-1.25")]),
        tag("b", vec![ti(1)]), tag("b", vec![ti(0)]),
        tag("l", vec![tstrs(&["a", "b c"])]), tag("l", vec![tstrs(&["1"])]), tag("l", vec![tstrs(&["k", "v", "k", "w"])]), tag("l", vec![tl(vec![])]),
        tag("d", vec![tstrs(&["k", "v", "j", "w"])]), tag("d", vec![tstrs(&["1", "2"])]),
    ];
    let mut nt = 0;
    for t in &typed {
        for r1 in REQS.iter().skip(1) {
            cases.push(tag("reqt", vec![t.clone(), tstrs(&[r1])]));
            nt += 1;
            for r2 in REQS.iter().skip(1) {
                cases.push(tag("reqt", vec![t.clone(), tstrs(&[r1, r2])]));
                nt += 1;
            }
        }
    }
    fams.push(("16 values built from typed data (integers, floats, booleans, lists, dictionaries) x every sequence of 1-2 typed views requested before the string is first read".to_string(), nt, true));
    // equality and hashing
    let mut ne = 0;
    for a in &POOL {
        for b in &["5", "5.0", "1", "true", "a b c", ""] {
            cases.push(tag("eq", vec![ts(a), ts(b)]));
            ne += 1;
        }
    }
    for z in &[5i64, 0, -1] {
        cases.push(tag("eqint", vec![ti(*z), ts(&z.to_string())]));
        cases.push(tag("eqint", vec![ti(*z), ts(&format!(" {}", z))]));
        ne += 2;
    }
    // equality after every typed view has been requested on both sides: different spellings of
    // one number, one boolean, one list or one dictionary stay different values
    for (a, b) in &[("0x10", "16"), (" 7", "+7"), ("1", "1.0"), ("1.0", "1.00"), ("true", "1"), ("a b", "a  b"),
                    ("{a} b", "a b"), ("k v k w", "k w"), ("5", "5"), ("0x1F", "0x1f"), ("yes", "true"), ("1e3", "1000.0")] {
        cases.push(tag("eqv", vec![ts(a), ts(b)]));
        ne += 1;
    }
    fams.push(("equality / hash pairs, fresh and after all typed views were requested".to_string(), ne, true));
    (cases, fams)
}

fn h(v: &Value) -> u64 {
    let mut s = DefaultHasher::new();
    v.hash(&mut s);
    s.finish()
}

fn view(v: &Value, kind: &str) -> Term {
    match kind {
        "str" => tag("Ok", vec![ts(v.as_str())]),
        "int" => match v.as_int() { Ok(z) => tag("Ok", vec![Term::Int(z as i128)]), Err(e) => tag("Err", vec![ts(e.value().as_str())]) },
        "float" => match v.as_float() { Ok(f) => tag("Ok", vec![ts(&Value::from(f).to_string())]), Err(e) => tag("Err", vec![ts(e.value().as_str())]) },
        "bool" => match v.as_bool() { Ok(b) => tag("Ok", vec![tb(b)]), Err(e) => tag("Err", vec![ts(e.value().as_str())]) },
        "list" => match v.as_list() { Ok(l) => tag("Ok", vec![tl(l.iter().map(|x| ts(x.as_str())).collect())]), Err(e) => tag("Err", vec![ts(e.value().as_str())]) },
        "dict" => match v.as_dict() {
            Ok(d) => tag("Ok", vec![tl(d.iter().map(|(k, x)| tl(vec![ts(k.as_str()), ts(x.as_str())])).collect())]),
            Err(e) => tag("Err", vec![ts(e.value().as_str())]),
        },
        "varname" => {
            let n = v.as_var_name();
            match n.index() { Some(i) => tag("Ok", vec![tl(vec![ts(n.name()), ts(i)])]), None => tag("Ok", vec![tl(vec![ts(n.name())])]) }
        }
        _ => {
            // script view: whether it parses (as_script is crate-private; evaluate nothing)
            let mut interp = molt::Interp::empty();
            tag("Ok", vec![tb(interp.complete(v.as_str()))])
        }
    }
}

pub fn run(case: &Term) -> Term {
    match case.nth(0).as_str() {
        "int" => {
            let z = case.nth(1).as_int() as i64;
            let s = Value::from(z).as_str().to_string();
            let back = Value::from(s.as_str()).as_int();
            tl(vec![ts(&s), match back { Ok(b) => tag("Ok", vec![Term::Int(b as i128)]), Err(e) => tag("Err", vec![ts(e.value().as_str())]) }])
        }
        "flt" => {
            let f = f64::from_bits(case.nth(1).as_int() as u64);
            let s = Value::from(f).as_str().to_string();
            let back = Value::from(s.as_str()).as_float();
            let same = match back { Ok(b) => (b.is_nan() && f.is_nan()) || b.to_bits() == f.to_bits(), Err(_) => false };
            tl(vec![ts(&s), tb(same)])
        }
        "bool" => {
            let b = case.nth(1).as_int() == 1;
            let s = Value::from(b).as_str().to_string();
            let back = Value::from(s.as_str()).as_bool();
            tl(vec![ts(&s), match back { Ok(x) => tb(x), Err(_) => ts("err") }])
        }
        "list" => {
            let items: Vec<Value> = case.nth(1).strs().iter().map(|s| Value::from(s.as_str())).collect();
            let s = Value::from(items).as_str().to_string();
            tl(vec![ts(&s), view(&Value::from(s.as_str()), "list")])
        }
        "dict" => {
            let kv = case.nth(1).strs();
            let mut d = molt::dict::dict_new();
            for p in kv.chunks(2) {
                d.insert(Value::from(p[0].as_str()), Value::from(p[1].as_str()));
            }
            let s = Value::from(d).as_str().to_string();
            tl(vec![ts(&s), view(&Value::from(s.as_str()), "dict")])
        }
        "req" => {
            let v = Value::from(case.nth(1).as_str());
            let c = v.clone();
            let p0 = v.as_str().as_ptr() as usize;
            let s0 = v.as_str().to_string();
            let mut outs = Vec::new();
            let mut stable = true;
            for r in case.nth(2).as_list() {
                let target = if r.nth(1).as_int() == 1 { &c } else { &v };
                outs.push(view(target, r.nth(0).as_str()));
                stable = stable && v.as_str().as_ptr() as usize == p0 && v.as_str() == s0 && c.as_str() == s0;
            }
            tl(vec![tl(outs), tb(stable)])
        }
        "reqt" => {
            let build = |t: &Term| -> Value {
                match t.nth(0).as_str() {
                    "i" => Value::from(t.nth(1).as_int() as i64),
                    "f" => Value::from(t.nth(1).as_str().parse::<f64>().unwrap()),
                    "b" => Value::from(t.nth(1).as_int() == 1),
                    "l" => Value::from(t.nth(1).strs().iter().map(|x| Value::from(x.as_str())).collect::<Vec<Value>>()),
                    _ => {
                        let items: Vec<Value> = t.nth(1).strs().iter().map(|x| Value::from(x.as_str())).collect();
                        let mut d = molt::dict::dict_new();
                        for p in items.chunks(2) {
                            d.insert(p[0].clone(), p[1].clone());
                        }
                        Value::from(d)
                    }
                }
            };
            let v = build(case.nth(1));
            let c = v.clone();
            for r in case.nth(2).strs() {
                let _ = view(&c, r.as_str());
            }
            let fresh = build(case.nth(1));
            tl(vec![ts(v.as_str()), ts(fresh.as_str())])
        }
        "eqv" => {
            // compare fresh, then after each single typed view was requested on both sides, then
            // after all of them: every comparison must give the same answer as the fresh one
            let fresh = Value::from(case.nth(1).as_str()) == Value::from(case.nth(2).as_str());
            let mut same = true;
            let mut hash_eq = true;
            for k in 0..6 {
                let a = Value::from(case.nth(1).as_str());
                let b = Value::from(case.nth(2).as_str());
                for v in &[&a, &b] {
                    if k == 0 || k == 5 { let _ = v.as_int(); }
                    if k == 1 || k == 5 { let _ = v.as_float(); }
                    if k == 2 || k == 5 { let _ = v.as_bool(); }
                    if k == 3 || k == 5 { let _ = v.as_list(); }
                    if k == 4 || k == 5 { let _ = v.as_dict(); }
                }
                same = same && (a == b) == fresh;
                hash_eq = hash_eq && (h(&a) == h(&b)) == fresh;
            }
            tl(vec![tb(if same { fresh } else { !fresh }), tb(if hash_eq { fresh } else { !fresh })])
        }
        "eq" => {
            let a = Value::from(case.nth(1).as_str());
            let b = Value::from(case.nth(2).as_str());
            tl(vec![tb(a == b), tb(h(&a) == h(&b))])
        }
        _ => {
            let a = Value::from(case.nth(1).as_int() as i64);
            let b = Value::from(case.nth(2).as_str());
            tl(vec![tb(a == b), tb(h(&a) == h(&b))])
        }
    }
}
