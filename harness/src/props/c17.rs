//! C17: syntax errors are detected before anything runs, and `complete` agrees.
use super::c02::ALPHA;
use super::script::*;
use super::util::*;
use super::Gen;
use crate::rng::Rng;
use crate::term::*;
use molt::types::*;

const PREFIX: &str = "rec p1; set a 1; rec p2 $a\n";

pub fn gen(tier: &str, seed: u64) -> Gen {
    let mut rng = Rng::new(seed);
    let mut cases = Vec::new();
    let mut fams = Vec::new();
    let thorough = tier == "thorough";
    let all = all_strings(&ALPHA, if thorough { 5 } else { 3 });
    let mut n = 0;
    for s in &all {
        cases.push(ts(&format!("{}rec {}", PREFIX, s)));
        n += 1;
        if thorough || rng.chance(1, 2) {
            cases.push(ts(s));
            n += 1;
        }
    }
    fams.push((format!("effectful prefix followed by every string of length<={} over 15 syntax symbols", if thorough { 5 } else { 3 }), n, true));
    // valid structured scripts with one injected fault at a random position
    let bodies = [
        "proc f {x} {rec in $x; return [expr {$x + 1}]}\nrec r [f 1]\nif {$a} {rec t} else {rec e}\nforeach i {1 2} {rec i $i}\nset b \"q[rec s]\"\nrec $b(1) ${a}\n",
        "foreach w {1 2 3} {incr a; rec w $a}\ncatch {rec c; error x} m\nrec m $m\nrec {a b} \"c d\" [rec n [rec o]]\n",
    ];
    let faults = ["{", "}", "\"", "[", "]", "$a(", "${a", "{x}y", "\"x\"y", "\\", "[rec z", "{*}{"];
    let nrand = if thorough { 60_000 } else { 2500 };
    for _ in 0..nrand {
        let b = bodies[rng.below(bodies.len())];
        let chars: Vec<char> = b.chars().collect();
        let pos = rng.below(chars.len() + 1);
        let mut s: String = chars[..pos].iter().collect();
        if rng.chance(5, 6) {
            s.push_str(faults[rng.below(faults.len())]);
        }
        s.extend(chars[pos..].iter());
        cases.push(ts(&format!("{}{}", PREFIX, s)));
    }
    fams.push(("structured scripts with one syntax fault injected at a random position".to_string(), nrand, false));
    // comments with runs of backslashes before the newline (an even run ends the comment, an odd run
    // continues it), each followed by a line that is well formed or has a syntax fault
    let mut nc = 0;
    for run in 0..5 {
        for text in &["# note", "# C:\\dir", "#"] {
            for next in &["rec after", "set x {", "set y \"abc", "rec [rec q", "rec {a}b", "rec ok $a("] {
                for tail in &["", "\nrec last"] {
                    let script = format!("rec first\n{}{}\n{}{}", text, "\\".repeat(run), next, tail);
                    cases.push(ts(&format!("{}{}", PREFIX, script)));
                    cases.push(ts(&script));
                    nc += 2;
                }
            }
        }
    }
    fams.push(("comments ending in runs of 0-4 backslashes x a following well-formed or ill-formed line".to_string(), nc, true));
    // braces after runs of backslashes (an even run does not escape the brace), as a braced word
    // and bare: every string of length <= 6 over { } \ a
    let bs = all_strings(&["{", "}", "\\", "a"], if thorough { 7 } else { 6 });
    let mut nb = 0;
    for s in &bs {
        if s.contains('\\') && (s.contains('{') || s.contains('}')) {
            cases.push(ts(&format!("rec first\nrec {}", s)));
            nb += 1;
        }
    }
    fams.push(("every string of length<=6 over open brace, close brace, backslash and a letter (with a backslash and a brace) as the argument of the second command".to_string(), nb, true));
    // control characters in bare text (NUL included) before well-formed and ill-formed text
    let mut nz = 0;
    for ctl in &["\u{0}", "\u{1}", "\u{7f}", "\u{0}\u{0}"] {
        for (pre, post) in &[("rec a", "b\nrec c {"), ("rec a", " b\nrec \"c"), ("", "rec a [rec b"), ("rec a ", "\nrec {x}y"), ("rec a", "b; rec ok"), ("rec {a", "b}; rec c {")] {
            let script = format!("{}{}{}", pre, ctl, post);
            cases.push(ts(&format!("{}{}", PREFIX, script)));
            cases.push(ts(&script));
            nz += 2;
        }
    }
    fams.push(("control characters (NUL included) in bare and braced text, followed by well-formed or ill-formed text".to_string(), nz, true));
    (cases, fams)
}

fn snapshot(interp: &molt::Interp) -> Term {
    let mut names: Vec<String> = interp.vars_in_global_scope().iter().map(|v| v.as_str().to_string()).collect();
    names.sort();
    tl(names.iter().map(|n| tl(vec![ts(n), obs_var(interp, n)])).collect())
}

/// obs: (complete_host complete_info side_effect_free outcome trace same_after_typed_views)
pub fn run(case: &Term) -> Term {
    let s = case.as_str().to_string();
    let (mut interp, ctx) = harness_interp(0);
    let _ = interp.eval("set a 0; set k(1) v");
    let before = snapshot(&interp);
    let c1 = interp.complete(&s);
    let cmd = Value::from(vec![Value::from("info"), Value::from("complete"), Value::from(s.as_str())]);
    let c2 = match interp.eval_value(&Value::from(cmd.as_str())) {
        Ok(v) => ts(v.as_str()),
        Err(e) => tag("Err", vec![ts(e.value().as_str())]),
    };
    let after = snapshot(&interp);
    let ncalls = interp.context::<Recorder>(ctx).calls.len();
    let pure = before == after && ncalls == 0;
    let r = interp.eval(&s);
    let calls: Vec<Term> = interp.context::<Recorder>(ctx).calls.iter().map(|c| tstrs(c)).collect();
    // the same text held in a value that has been looked at as a list, a dictionary and a number
    // first: the evaluator must read the text, not whatever the value has cached
    let (mut interp2, ctx2) = harness_interp(0);
    let _ = interp2.eval("set a 0; set k(1) v");
    let v = Value::from(s.as_str());
    let _ = v.as_list();
    let _ = v.as_dict();
    let _ = v.as_int();
    let _ = v.as_list();
    let r2 = interp2.eval_value(&v);
    let calls2: Vec<Term> = interp2.context::<Recorder>(ctx2).calls.iter().map(|c| tstrs(c)).collect();
    let same = obs_result(&r2) == obs_result(&r) && calls2 == calls;
    tl(vec![tb(c1), c2, tb(pure), obs_result(&r), tl(calls), tb(same)])
}
