//! C06: exceptional returns propagate by the documented return/catch protocol.
//! case: (raise frames script); frames are listed outermost first.
use super::script::*;
use super::Gen;
use crate::rng::Rng;
use crate::term::*;

pub const KINDS: [&str; 7] = ["proc", "while", "for", "foreach", "catch", "if", "expr"];
pub const CODES: [&str; 12] = ["ok", "error", "return", "break", "continue", "5", "7", "0", "1", "2", "3", "4"];

fn raise_text(r: &Term) -> String {
    match r.nth(0).as_str() {
        "ret" => format!("return -code {} -level {} val", r.nth(1).as_str(), r.nth(2).as_int()),
        "plainret" => "return val".to_string(),
        "break" => "break".to_string(),
        "continue" => "continue".to_string(),
        _ => "error val".to_string(),
    }
}

fn wrap(kind: &str, k: usize, body: &str) -> String {
    match kind {
        "proc" => format!("proc p{k} {{}} {{rec in {k}; {b}; rec after {k}}}; p{k}", k = k, b = body),
        "while" => format!("set w{k} 0; while {{$w{k} < 2}} {{incr w{k}; rec iter {k} $w{k}; if {{$w{k} == 1}} {{{b}}}; rec after {k} $w{k}}}", k = k, b = body),
        "for" => format!("for {{set f{k} 1}} {{$f{k} <= 2}} {{incr f{k}}} {{rec iter {k} $f{k}; if {{$f{k} == 1}} {{{b}}}; rec after {k} $f{k}}}", k = k, b = body),
        "foreach" => format!("foreach e{k} {{1 2}} {{rec iter {k} $e{k}; if {{$e{k} == 1}} {{{b}}}; rec after {k} $e{k}}}", k = k, b = body),
        // the enclosed part runs as a command substitution inside an expression
        "expr" => format!("set q{k} [expr {{[{b}; rec after {k}] + 0}}]", k = k, b = body),
        "catch" => format!("set c{k} [catch {{{b}; rec after {k}}} r{k} o{k}]; rec caught {k} $c{k} $r{k} [dict get $o{k} -code] [dict get $o{k} -level]", k = k, b = body),
        _ => format!("if 1 {{{b}; rec after {k}}}", k = k, b = body),
    }
}

pub fn mk(raise: Term, frames: &[&str]) -> Term {
    // innermost frame has the highest index
    let mut text = raise_text(&raise);
    for (k, kind) in frames.iter().enumerate().rev() {
        text = wrap(kind, k, &text);
    }
    text.push_str("; rec end");
    tl(vec![raise, tstrs(frames), ts(&text)])
}

pub fn gen(tier: &str, seed: u64) -> Gen {
    let mut rng = Rng::new(seed);
    let mut cases = Vec::new();
    let thorough = tier == "thorough";
    let maxdepth = if thorough { 4 } else { 3 };
    let mut raises: Vec<Term> = Vec::new();
    for c in &CODES {
        for l in 0..4 {
            raises.push(tag("ret", vec![ts(c), ti(l)]));
        }
    }
    raises.push(tag("plainret", vec![]));
    raises.push(tag("break", vec![]));
    raises.push(tag("continue", vec![]));
    raises.push(tag("error", vec![]));
    // every frame stack up to maxdepth
    let mut stacks: Vec<Vec<&str>> = vec![vec![]];
    let mut level: Vec<Vec<&str>> = vec![vec![]];
    for _ in 0..maxdepth {
        let mut next = Vec::new();
        for s in &level {
            for k in &KINDS {
                let mut t = s.clone();
                t.push(*k);
                next.push(t);
            }
        }
        stacks.extend(next.iter().cloned());
        level = next;
    }
    let mut n = 0;
    for s in &stacks {
        for r in &raises {
            if thorough || s.len() < 3 || rng.chance(1, 4) {
                let mut c = mk(r.clone(), s);
                // one case in four runs after caught failures earlier in the same evaluation (a body
                // that does not parse, an unknown command, a wrong argument count): they leave no trace
                if rng.chance(1, 4) {
                    let pre = ["catch {if 1 \"set x \\{\"}; ", "catch {nosuchcmd}; catch {expr {1 +}}; ", "proc z9 {a} {}; catch {z9}; catch {z9 1 2}; "][rng.below(3)];
                    let parts = c.as_list().to_vec();
                    let text = format!("{}{}", pre, parts[2].as_str());
                    c = tl(vec![parts[0].clone(), parts[1].clone(), ts(&text)]);
                }
                // a numeric code may arrive as computed data (the result of catch or expr) rather than
                // as a literal: one case in three spells it that way
                if r.nth(0).as_str() == "ret" && rng.chance(1, 3) {
                    let code = r.nth(1).as_str();
                    let spelt = match code {
                        "0" => Some(["[catch {list}]", "[expr {0}]"][rng.below(2)]),
                        "1" => Some(["[catch {error x}]", "[expr {2 - 1}]"][rng.below(2)]),
                        "2" => Some(["[catch {return}]", "[expr {1 + 1}]"][rng.below(2)]),
                        "3" => Some(["[catch {break}]", "[expr {1 + 2}]"][rng.below(2)]),
                        "4" => Some(["[catch {continue}]", "[llength {a b c d}]"][rng.below(2)]),
                        "5" => Some("[expr {5}]"),
                        "7" => Some("[string length abcdefg]"),
                        _ => None,
                    };
                    // ... or as a literal that is not the canonical decimal spelling (hex, a sign, padding)
                    let respelt: Option<String> = if rng.chance(1, 2) { None } else {
                        match code.parse::<i64>() {
                            Ok(nv) => Some(match rng.below(4) { 0 => format!("0x{:x}", nv), 1 => format!("+{}", nv), 2 => format!("{{ {}}}", nv), _ => format!("\"{} \"", nv) }),
                            Err(_) => None,
                        }
                    };
                    let spelt: Option<&str> = match &respelt { Some(s) => Some(s.as_str()), None => spelt };
                    if let Some(sp) = spelt {
                        let parts = c.as_list().to_vec();
                        let text = parts[2].as_str().replace(&format!("return -code {} -level", code), &format!("return -code {} -level", sp));
                        c = tl(vec![parts[0].clone(), parts[1].clone(), ts(&text)]);
                    }
                }
                cases.push(c);
                n += 1;
            }
        }
    }
    (cases, vec![(format!("{} raising commands (12 codes - the five standard ones by name and by number, 5 and 7 - x levels 0-3, plain return/break/continue/error) x every stack of frames of depth<={} over proc/while/for/foreach/catch/if/expr (a command substitution inside an expression), a quarter of them after caught failures in the same evaluation, a third of the numeric codes computed by catch / expr or written in a non-canonical spelling (hex, sign, padding) instead of as plain decimal literals", raises.len(), maxdepth), n, thorough)])
}

pub fn run(case: &Term) -> Term {
    let (mut interp, ctx) = harness_interp(0);
    let r = interp.eval(case.nth(2).as_str());
    let calls: Vec<Term> = interp.context::<Recorder>(ctx).calls.iter().map(|c| tstrs(&c[1..])).collect();
    let out = match &r {
        Ok(v) => tag("Ok", vec![ts(v.as_str())]),
        Err(e) => tag("Err", vec![Term::Int(e.code().as_int() as i128), ts(e.value().as_str())]),
    };
    tl(vec![out, tl(calls)])
}
