//! C11: the string form of a list is safe to evaluate as a command.
use super::c05::ALPHA;
use super::script::*;
use super::util::*;
use super::Gen;
use crate::rng::Rng;
use crate::term::*;
use molt::types::*;

pub fn gen(tier: &str, seed: u64) -> Gen {
    let mut rng = Rng::new(seed);
    let mut cases = Vec::new();
    let mut fams = Vec::new();
    let thorough = tier == "thorough";
    let singles = all_strings(&ALPHA, if thorough { 4 } else { 2 });
    let mut n = 0;
    for s in &singles {
        if s.is_empty() {
            continue;
        }
        // the element as command name, and as single argument of a plain command name
        cases.push(tl(vec![tstrs(&[s.as_str()]), ti((n % 5) as i64)]));
        cases.push(tl(vec![tstrs(&["cmd", s.as_str()]), ti(((n + 1) % 5) as i64)]));
        n += 2;
    }
    fams.push((format!("every non-empty string of length<={} over 14 symbols as command name and as argument", if thorough { 4 } else { 2 }), n, true));
    let short = all_strings(&ALPHA, if thorough { 2 } else { 1 });
    let mut m = 0;
    for a in &short {
        for b in &short {
            if a.is_empty() {
                continue;
            }
            if thorough || rng.chance(1, 1) {
                cases.push(tl(vec![tstrs(&[a.as_str(), b.as_str()]), ti(rng.below(5) as i64)]));
                m += 1;
            }
        }
    }
    fams.push(("pairs (name, argument) of short elements".to_string(), m, true));
    let extra = ["\u{a0}", "\u{2003}", "é", "😀", "\r", "x", "0", "{*}", "#"];
    let mut all: Vec<&str> = ALPHA.to_vec();
    all.extend(extra.iter());
    let nrand = if thorough { 100_000 } else { 2000 };
    for _ in 0..nrand {
        let k = 1 + rng.below(4);
        let mut v: Vec<String> = Vec::new();
        for _ in 0..k {
            v.push(random_string(&mut rng, &all, 6));
        }
        if v[0].is_empty() {
            v[0] = "#".to_string();
        }
        cases.push(tl(vec![tstrs(&v), ti(rng.below(5) as i64)]));
    }
    fams.push(("random argument vectors (1-4 elements, Unicode, {*}, #)".to_string(), nrand, false));
    (cases, fams)
}

pub fn run(case: &Term) -> Term {
    let elems = case.nth(0).strs();
    let mode = case.nth(1).as_int();
    let mut interp = molt::Interp::new();
    let ctx = interp.save_context(Recorder { calls: Vec::new() });
    interp.add_context_command(&elems[0], rec_cmd(), ctx);
    let list = Value::from(elems.iter().map(|s| Value::from(s.as_str())).collect::<Vec<Value>>());
    let text = Value::from(list.as_str());
    let r = match mode {
        0 => interp.eval_value(&text),
        1 => {
            let def = Value::from(vec![Value::from("proc"), Value::from("q\u{1}"), Value::from(""), text.clone()]);
            match interp.eval_value(&Value::from(def.as_str())) {
                Ok(_) => interp.eval("q\u{1}"),
                e => e,
            }
        }
        2 => {
            let cmd = Value::from(vec![Value::from("foreach"), Value::from("i\u{1}"), Value::from("1"), text.clone()]);
            interp.eval_value(&Value::from(cmd.as_str()))
        }
        _ => {
            // re-assembled with `list` from parts held in variables
            for (i, e) in elems.iter().enumerate() {
                let _ = interp.set_scalar(&format!("p{}", i), Value::from(e.as_str()));
            }
            // mode 4: every part has been looked at as a list, a number and a dictionary before
            // the command is assembled (whatever the parts have cached, they are quoted by their text)
            if mode == 4 {
                for i in 0..elems.len() {
                    let _ = interp.eval(&format!("catch {{llength $p{}}}; catch {{incr zq9 $p{}}}; catch {{dict size $p{}}}; catch {{lindex $p{} 0}}", i, i, i, i));
                }
            }
            let parts: Vec<String> = (0..elems.len()).map(|i| format!("$p{}", i)).collect();
            interp.eval(&format!("if 1 [list {}]", parts.join(" ")))
        }
    };
    let calls: Vec<Term> = interp.context::<Recorder>(ctx).calls.iter().map(|c| tstrs(c)).collect();
    tl(vec![obs_result(&r), tl(calls)])
}
