//! Per-property case generators and implementation observers.
use crate::term::*;

pub mod c01;
pub mod c02;
pub mod c02cst;
pub mod c03;
pub mod c04;
pub mod c05;
pub mod c06;
pub mod c07;
pub mod c08;
pub mod c09;
pub mod c10;
pub mod c11;
pub mod c12;
pub mod c13;
pub mod c14;
pub mod c15;
pub mod c16;
pub mod c17;
pub mod c18;
pub mod c19;
pub mod c20;
pub mod script;
pub mod util;

/// (cases, [(family name, count, exhaustive)])
pub type Gen = (Vec<Term>, Vec<(String, usize, bool)>);

pub fn gen(prop: &str, tier: &str, seed: u64) -> Gen {
    match prop {
        "C01" => c01::gen(tier, seed),
        "C02" => c02::gen(tier, seed),
        "C03" => c03::gen(tier, seed),
        "C04" => c04::gen(tier, seed),
        "C05" => c05::gen(tier, seed),
        "C06" => c06::gen(tier, seed),
        "C07" => c07::gen(tier, seed),
        "C08" => c08::gen(tier, seed),
        "C09" => c09::gen(tier, seed),
        "C12" => c12::gen(tier, seed),
        "C13" => c13::gen(tier, seed),
        "C14" => c14::gen(tier, seed),
        "C15" => c15::gen(tier, seed),
        "C16" => c16::gen(tier, seed),
        "C10" => c10::gen(tier, seed),
        "C11" => c11::gen(tier, seed),
        "C17" => c17::gen(tier, seed),
        "C18" => c18::gen(tier, seed),
        "C19" => c19::gen(tier, seed),
        "C20" => c20::gen(tier, seed),
        _ => panic!("unknown property {}", prop),
    }
}

pub fn run(prop: &str, case: &Term) -> Term {
    match prop {
        "C01" => c01::run(case),
        "C02" => c02::run(case),
        "C03" => c03::run(case),
        "C04" => c04::run(case),
        "C05" => c05::run(case),
        "C06" => c06::run(case),
        "C07" => c07::run(case),
        "C08" => c08::run(case),
        "C09" => c09::run(case),
        "C12" => c12::run(case),
        "C13" => c13::run(case),
        "C14" => c14::run(case),
        "C15" => c15::run(case),
        "C16" => c16::run(case),
        "C10" => c10::run(case),
        "C11" => c11::run(case),
        "C17" => c17::run(case),
        "C18" => c18::run(case),
        "C19" => c19::run(case),
        "C20" => c20::run(case),
        _ => panic!("unknown property {}", prop),
    }
}
