//! Per-property case generators and implementation observers.
use crate::term::*;

pub mod c02;
pub mod c05;
pub mod script;
pub mod util;

/// (cases, [(family name, count, exhaustive)])
pub type Gen = (Vec<Term>, Vec<(String, usize, bool)>);

pub fn gen(prop: &str, tier: &str, seed: u64) -> Gen {
    match prop {
        "C02" => c02::gen(tier, seed),
        "C05" => c05::gen(tier, seed),
        _ => panic!("unknown property {}", prop),
    }
}

pub fn run(prop: &str, case: &Term) -> Term {
    match prop {
        "C02" => c02::run(case),
        "C05" => c05::run(case),
        _ => panic!("unknown property {}", prop),
    }
}
