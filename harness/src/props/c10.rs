//! C10: procedure arguments bind per the declared signature.
use super::script::*;
use super::Gen;
use crate::rng::Rng;
use crate::term::*;
use molt::types::*;

/// specifier kinds: ("req" name) ("opt" name default) ("args") ("empty") ("blank": white space only) ("long")
fn kinds() -> Vec<Term> {
    vec![
        tag("req", vec![ts("a")]),
        tag("req", vec![ts("b")]),
        tag("opt", vec![ts("c"), ts("1")]),
        tag("opt", vec![ts("x"), ts("d e")]),
        tag("req", vec![ts("a b")]),
        tag("args", vec![]),
        tag("opt", vec![ts("é"), ts("{")]),
        tag("opt", vec![ts("z"), ts("")]),
        tag("opt", vec![ts("args"), ts("")]),
        tag("empty", vec![]),
        tag("blank", vec![]),
        tag("long", vec![]),
        // names that look like array elements: still plain locals named by the whole string
        tag("req", vec![ts("a(1)")]),
        tag("opt", vec![ts("x(k)"), ts("dflt")]),
    ]
}

fn spec_value(k: &Term) -> Value {
    match k.nth(0).as_str() {
        "req" => Value::from(vec![Value::from(k.nth(1).as_str())]),
        "opt" => Value::from(vec![Value::from(k.nth(1).as_str()), Value::from(k.nth(2).as_str())]),
        "args" => Value::from("args"),
        "empty" => Value::from(""),
        "blank" => Value::from(" \t"),
        _ => Value::from("p q r"),
    }
}

fn name_of(k: &Term) -> Option<String> {
    match k.nth(0).as_str() {
        "req" | "opt" => Some(k.nth(1).as_str().to_string()),
        "args" => Some("args".to_string()),
        _ => None,
    }
}

pub fn gen(tier: &str, seed: u64) -> Gen {
    let mut rng = Rng::new(seed);
    let ks = kinds();
    let mut cases = Vec::new();
    let thorough = tier == "thorough";
    let argpool = ["1", "two words", "", "{", "$x", "[rec no]", "é", "a;b", "}{", "x}y{z", "a\\"];
    // all parameter lists of length <= 3 (quick) / 4 (thorough) x arities 0..n+2
    let maxlen = if thorough { 4 } else { 3 };
    let mut lists: Vec<Vec<usize>> = vec![vec![]];
    let mut level: Vec<Vec<usize>> = vec![vec![]];
    for _ in 0..maxlen {
        let mut next = Vec::new();
        for l in &level {
            for k in 0..ks.len() {
                let mut t = l.clone();
                t.push(k);
                next.push(t);
            }
        }
        lists.extend(next.iter().cloned());
        level = next;
    }
    let mut n = 0;
    for l in &lists {
        // skip duplicate parameter names: binding order makes them legal but uninformative
        for arity in 0..(l.len() + 3) {
            if !thorough && l.len() == 3 && !rng.chance(1, 3) {
                continue;
            }
            let args: Vec<Term> = (0..arity).map(|_| ts(argpool[rng.below(argpool.len())])).collect();
            cases.push(tl(vec![tl(l.iter().map(|&k| ks[k].clone()).collect()), tl(args)]));
            n += 1;
        }
    }
    (cases, vec![(format!("all parameter lists of length<={} over 14 specifier kinds (two of them named like array elements) x call arities 0..n+2", maxlen), n, thorough)])
}

pub fn run(case: &Term) -> Term {
    let (mut interp, ctx) = harness_interp(0);
    let kinds = case.nth(0).as_list();
    let specs: Vec<Value> = kinds.iter().map(spec_value).collect();
    // the body reports every declared parameter
    let mut body = String::new();
    let mut seen: Vec<String> = Vec::new();
    let elem_like = |n: &str| n.contains('(') && n.ends_with(')');
    for k in kinds {
        if let Some(nm) = name_of(k) {
            if !seen.contains(&nm) {
                if !elem_like(&nm) {
                    let q = Value::from(vec![Value::from(nm.as_str())]);
                    body.push_str(&format!("rec {} [set {}]\n", q.as_str(), q.as_str()));
                }
                seen.push(nm);
            }
        }
    }
    // parameters named like array elements cannot be read back by any command: count the locals
    if seen.iter().any(|n| elem_like(n)) {
        body.push_str("rec locals [llength [info locals]]\n");
    }
    body.push_str("return done");
    let def = Value::from(vec![Value::from("proc"), Value::from("p"), Value::from(specs), Value::from(body.as_str())]);
    let rdef = interp.eval_value(&Value::from(def.as_str()));
    let mut call = vec![Value::from("p")];
    call.extend(case.nth(1).strs().iter().map(|s| Value::from(s.as_str())));
    let rcall = interp.eval_value(&Value::from(Value::from(call).as_str()));
    let level = interp.scope_level();
    let calls: Vec<Term> = interp.context::<Recorder>(ctx).calls.iter().map(|c| tstrs(c)).collect();
    // the same call with its integer, empty and list arguments passed as computed data must bind
    // the same strings
    let mut argv: Vec<String> = vec!["p".to_string()];
    argv.extend(case.nth(1).strs());
    if let Some(t) = typed_call(&argv, 1) {
        let (mut interp2, ctx2) = harness_interp(0);
        let _ = interp2.eval_value(&Value::from(def.as_str()));
        let rcall2 = interp2.eval(&t);
        let calls2: Vec<Term> = interp2.context::<Recorder>(ctx2).calls.iter().map(|c| tstrs(c)).collect();
        if obs_result(&rcall2) != obs_result(&rcall) || calls2 != calls {
            return tag("TYPED-ARGUMENTS-DIFFER", vec![obs_result(&rcall), ts(&t), obs_result(&rcall2), tl(calls2)]);
        }
    }
    // introspection
    let iargs = obs_result(&interp.eval("info args p"));
    let ibody = obs_result(&interp.eval("info body p"));
    let mut idefs = Vec::new();
    for nm in &seen {
        let c = Value::from(vec![Value::from("info"), Value::from("default"), Value::from("p"), Value::from(nm.as_str()), Value::from("dv")]);
        let r = interp.eval_value(&Value::from(c.as_str()));
        idefs.push(tl(vec![obs_result(&r), obs_var(&interp, "dv")]));
    }
    let leftover = obs_result(&interp.eval("info vars"));
    let _ = leftover;
    // a wrong-arity call, then the procedure is renamed and called again: the message must name
    // the command as it is called now
    let _ = interp.eval("p w 2 3 4 5 6 7 8");
    let _ = interp.eval("rename p q9");
    let r8 = obs_result(&interp.eval("q9 w 2 3 4 5 6 7 8"));
    let r0 = obs_result(&interp.eval("q9"));
    tl(vec![obs_result(&rdef), obs_result(&rcall), tl(calls), Term::Int(level as i128), iargs, ibody, tl(idefs), tl(vec![r8, r0])])
}
