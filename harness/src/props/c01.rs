//! C01: evaluation is total — no script, expression or conversion can crash the host.
use super::script::*;
use super::util::*;
use super::Gen;
use crate::rng::Rng;
use crate::term::*;
use molt::types::*;

pub const SYNTAX: [&str; 18] = ["{", "}", "[", "]", "\"", "\\", "$", "(", ")", ";", "#", "*", " ", "\n", "a", "1", "x", "-"];

pub const HOSTILE: [&str; 58] = [
    "catch {return -level -1 x} r o; set o", "catch {return -level 18446744073709551616 -code 7 x} r o; list $r $o",
    "a\u{a0}b", "\u{2003}", "x\u{85}", "\u{3000}1", "set x\u{a0}1", "a\u{2028}b",
    "", " ", "a", "0", "1", "-1", "9223372036854775807", "-9223372036854775808", "9223372036854775808", "0x", "0x10",
    "--5", "+-5", "1e", ".", "1.5", "Inf", "NaN", "\\777", "\\x", "\\u12345", "\"", "\"a", "{", "}", "{a", "a}", "{a}b",
    "$a(", "${a", "[", "]", "é", "İstanbul", "😀", "a b", "a\nb", "#", "{*}", "\\",
    "a(\u{e9}", "total(\u{20ac}", "x(\u{e9})", "a(\u{e9})b", "${a(\u{e9}}", "$a(\u{e9}", "\u{e9}(\u{e9}", "a(\u{a0}", "a(1)\u{1f600}", "(\u{e9}",
];

/// nesting constructs for the depth ladder
pub const DEEP: [&str; 9] = ["open-bracket", "bracket", "quoted-bracket", "brace", "open-brace", "paren", "open-paren", "array-index", "unary"];

/// the text for a (construct, depth) pair; twin of coq/Check/C01.v deep_text
pub fn deep_text(which: &str, d: usize) -> (String, &'static str) {
    match which {
        "open-bracket" => (format!("rec {}", "[".repeat(d)), "eval"),
        "bracket" => (format!("rec {}rec x{}", "[rec ".repeat(d), "]".repeat(d)), "eval"),
        "quoted-bracket" => (format!("rec {}x{}", "\"[rec ".repeat(d), "]\"".repeat(d)), "eval"),
        "brace" => (format!("rec {}x{}", "{".repeat(d), "}".repeat(d)), "eval"),
        "open-brace" => (format!("llength {{{}}}", "{".repeat(d)), "eval"),
        "paren" => (format!("{}1{}", "(".repeat(d), ")".repeat(d)), "expr"),
        "open-paren" => ("(".repeat(d), "expr"),
        "array-index" => (format!("rec {}1{}", "$b(".repeat(d), ")".repeat(d)), "eval"),
        _ => (format!("{}1", "-".repeat(d)), "expr"),
    }
}

/// entry points: (kind, text)
pub fn entry(kind: &str, text: &str) -> Term {
    tl(vec![ts(kind), ts(text)])
}

pub fn gen(tier: &str, seed: u64) -> Gen {
    let mut rng = Rng::new(seed);
    let mut cases = Vec::new();
    let mut fams = Vec::new();
    let thorough = tier == "thorough";
    let kinds = ["eval", "expr", "complete", "int", "float", "bool", "list", "dict", "varname"];
    let all = all_strings(&SYNTAX, if thorough { 4 } else { 2 });
    let mut n = 0;
    for k in &kinds {
        for s in &all {
            cases.push(entry(k, s));
            n += 1;
        }
    }
    fams.push((format!("all strings of length<={} over 18 syntax symbols at 9 entry points", if thorough { 4 } else { 2 }), n, true));
    if !thorough {
        // a sample of length-3/4 strings
        let all4 = all_strings(&SYNTAX, 4);
        for _ in 0..1500 {
            let s = &all4[rng.below(all4.len())];
            cases.push(entry(kinds[rng.below(kinds.len())], s));
        }
        fams.push(("sample of strings of length<=4".to_string(), 1500, false));
    }
    // hostile pool at each entry point
    let mut m = 0;
    for k in &kinds {
        for s in &HOSTILE {
            cases.push(entry(k, s));
            m += 1;
        }
    }
    fams.push(("hostile string pool at 9 entry points".to_string(), m, true));
    // every built-in command / subcommand with argument vectors from the hostile pool
    let cmds: Vec<Vec<&str>> = vec![
        vec!["append"], vec!["array", "exists"], vec!["array", "get"], vec!["array", "names"], vec!["array", "set"],
        vec!["array", "size"], vec!["array", "unset"], vec!["array"], vec!["assert_eq"], vec!["break"], vec!["catch"],
        vec!["continue"], vec!["dict", "create"], vec!["dict", "exists"], vec!["dict", "get"], vec!["dict", "keys"],
        vec!["dict", "remove"], vec!["dict", "set"], vec!["dict", "size"], vec!["dict", "unset"], vec!["dict", "values"],
        vec!["dict"], vec!["error"], vec!["expr"], vec!["for"], vec!["foreach"], vec!["global"], vec!["if"], vec!["incr"],
        vec!["info", "args"], vec!["info", "body"], vec!["info", "cmdtype"], vec!["info", "complete"],
        vec!["info", "default"], vec!["info", "exists"], vec!["info"], vec!["join"], vec!["lappend"], vec!["lindex"],
        vec!["list"], vec!["llength"], vec!["proc"], vec!["rename"], vec!["return"], vec!["set"], vec!["string", "cat"],
        vec!["string", "compare"], vec!["string", "equal"], vec!["string", "first"], vec!["string", "last"],
        vec!["string", "length"], vec!["string", "map"], vec!["string", "range"], vec!["string", "tolower"],
        vec!["string", "toupper"], vec!["string", "trim"], vec!["string", "trimleft"], vec!["string", "trimright"],
        vec!["string"], vec!["throw"], vec!["unset"], vec!["while"],
    ];
    let per = if thorough { 2000 } else { 40 };
    let mut k = 0;
    for c in &cmds {
        for _ in 0..per {
            let nargs = rng.below(6);
            let mut v: Vec<Term> = c.iter().map(|s| ts(s)).collect();
            for _ in 0..nargs {
                v.push(ts(HOSTILE[rng.below(HOSTILE.len())]));
            }
            // a loop whose hostile condition happens to be true and whose body happens to succeed
            // would be a user-written endless loop (excluded by the property): loop bodies break
            if c[0] == "while" && v.len() == 3 {
                v[2] = ts("break");
            }
            if c[0] == "for" && v.len() == 5 {
                v[4] = ts("break");
            }
            cases.push(tl(vec![ts("cmd"), tl(v)]));
            k += 1;
        }
    }
    fams.push(("built-in commands and subcommands with hostile argument vectors".to_string(), k, false));
    // deeply nested input: every nesting construct of the grammar at a ladder of depths
    // (the model's script reader is quadratic in the depth, so bracket nests stop earlier)
    let mut dn = 0;
    let mut all_depths: Vec<i64> = Vec::new();
    for which in DEEP.iter() {
        let brackets = which.contains("bracket");
        let depths: Vec<i64> = match (thorough, brackets) {
            (false, true) => vec![10, 100, 1000, 10_000],
            (true, true) => vec![10, 100, 1000, 3000, 10_000, 30_000],
            (false, false) => vec![10, 100, 1000, 10_000, 100_000],
            (true, false) => vec![10, 100, 1000, 3000, 10_000, 30_000, 100_000, 200_000],
        };
        for &d in &depths {
            cases.push(tl(vec![ts("deep"), ts(which), ti(d)]));
            dn += 1;
            if !all_depths.contains(&d) { all_depths.push(d); }
        }
    }
    fams.push((format!("deep nesting: {} constructs x depths {:?} (bracket nests to 10000 / 30000)", DEEP.len(), all_depths), dn, true));
    // structured, mostly valid inputs borrowed from the other properties' generators: expression
    // trees with skipped operands (C12) and every operator (C03), scripts rendered from syntax
    // trees (C02), string/list commands with non-ASCII operands and index extremes (C19)
    let take = if thorough { 40_000 } else { 1500 };
    let mut sn = 0;
    for (gen12, tag12) in [(super::c12::gen(tier, seed ^ 0x12), "C12"), (super::c03::gen(tier, seed ^ 0x03), "C03")].iter() {
        // besides the random sample, the whole of C03's closing families (divisions by computed
        // zeros, the i64 extremes against -1, 0, 1, 2): the operand pairs whose arithmetic overflows
        let tail: Vec<Term> = if *tag12 == "C03" { gen12.0.iter().rev().take(700).cloned().collect() } else { Vec::new() };
        for c in sample(&mut rng, &gen12.0, take).into_iter().chain(tail.into_iter()) {
            let mut script = String::new();
            for v in c.nth(2).as_list() {
                script.push_str(&Value::from(vec![Value::from("set"), Value::from(v.nth(0).as_str()), Value::from(v.nth(1).as_str())]).as_str());
                script.push('\n');
            }
            script.push_str(&format!("expr {{{}}}", c.nth(1).as_str()));
            cases.push(entry("eval", &script));
            sn += 1;
        }
    }
    let g02 = super::c02::gen(tier, seed ^ 0x02);
    for c in sample(&mut rng, &g02.0, take) {
        let scripts = c.nth(1).strs();
        cases.push(entry("eval", &scripts.join("\n")));
        sn += 1;
    }
    let g19 = super::c19::gen(tier, seed ^ 0x19);
    for c in sample(&mut rng, &g19.0, 2 * take) {
        if c.nth(0).as_str() == "cmd" {
            cases.push(c.clone());
            sn += 1;
        }
    }
    fams.push(("structured inputs from the generators of C02 (syntax trees), C03/C12 (expression trees, skipped operands), C19 (string and list commands)".to_string(), sn, false));
    // arguments that are freshly computed typed values (list, float, boolean, dictionary, integer)
    // whose string nobody has asked for yet, in every argument position that converts its argument
    let templates = [
        "incr v X", "lindex {a b c} X", "string range abcdef X 3", "string range abcdef 1 X", "string first b abc X",
        "string last b abc X", "string compare -length X a b", "string equal -length X a b", "return -level X v",
        "return -code X v", "if X {set r 1}", "expr {X + 1}", "expr {X ? 1 : 2}", "expr {X in {a b}}", "while X break",
        "foreach i X {}", "llength X", "dict size X", "dict get X a", "join X ,", "lappend l {*}X", "set a(X) 1",
        "global X", "proc X {} {}", "rename X {}", "info exists X", "array set arr X", "string map X abc", "unset X",
        "dict set d X 1", "string length X", "catch X", "error X", "throw X X",
    ];
    let builders = ["[list 5]", "[list a b]", "[expr {2.5}]", "[expr {1.0}]", "[expr {1==1}]", "[dict create a 1]", "[string equal a a]", "[list]", "[expr {7}]", "[llength {a b}]"];
    let mut tn = 0;
    for t in &templates {
        for b in &builders {
            cases.push(entry("eval", &t.replace("X", b)));
            tn += 1;
        }
    }
    fams.push((format!("{} command templates x {} freshly computed typed arguments", templates.len(), builders.len()), tn, true));
    // `time` is outside the model (its result is a duration); it must still return for small counts
    let mut ti_n = 0;
    for body in &["set x 1", "error e", "break", "", "incr a", "nosuchcmd", "{"] {
        for count in &["", "0", "1", "2", "-1", "x", "00", " 0 ", "1.0", "9223372036854775808"] {
            let script = if count.is_empty() { Value::from(vec![Value::from("time"), Value::from(*body)]) } else { Value::from(vec![Value::from("time"), Value::from(*body), Value::from(*count)]) };
            cases.push(entry("implonly", script.as_str()));
            ti_n += 1;
        }
    }
    fams.push(("`time` (outside the model) with 7 bodies x 10 small or malformed counts: implementation only".to_string(), ti_n, true));
    // histories: earlier scripts (failing ones included) then a hostile call on the same interpreter
    let hist_pool = [
        "proc f {} {f}; catch {f}", "catch {if 1 \"set x \\{\"}", "set errorInfo(x) 1", "unset -nocomplain errorInfo", "rename set _s; rename _s set",
        "proc p {a b} {}; catch {p 1}", "array set a {1 2 3 4}", "catch {return -code 9 -level 5 x}", "set a(1) 2", "proc if {args} {return no}",
        "rename expr {}", "proc unknown {args} {return u}", "catch {error e}", "global g", "set b 2; unset b",
    ];
    let hn = if thorough { 20_000 } else { 600 };
    for _ in 0..hn {
        let k = 1 + rng.below(3);
        let mut scripts: Vec<Term> = (0..k).map(|_| ts(hist_pool[rng.below(hist_pool.len())])).collect();
        scripts.push(ts(HOSTILE[rng.below(HOSTILE.len())]));
        let kind = ["eval", "expr"][rng.below(2)];
        cases.push(tl(vec![ts("hist"), ts(kind), tl(scripts)]));
    }
    fams.push(("1-3 earlier scripts from a pool of 15 state-changing or failing ones, then a hostile eval/expr".to_string(), hn, false));
    // variable histories (the operation trees of C07: set/unset/incr/append/array operations on
    // scalars and elements, `global` links, procedure calls ending normally or in an error), then
    // every name is read, written and listed once more on the same interpreter
    let vn = if thorough { 30_000 } else { 1200 };
    for _ in 0..vn {
        let len = 2 + rng.below(12);
        let ops: Vec<Term> = (0..len).map(|_| super::c07::op(&mut rng, 0)).collect();
        let c = super::c07::mk(ops);
        let mut scripts: Vec<Term> = c.nth(0).as_list().to_vec();
        scripts.push(ts("catch {set x}; catch {set y}; catch {set a}; catch {set \u{e9}}; catch {incr y}; catch {append x z}; catch {array get a}; catch {lappend a 1}; catch {array size y}; catch {unset x}; catch {array unset a}; info exists x"));
        cases.push(tl(vec![ts("hist"), ts("eval"), tl(scripts)]));
    }
    fams.push(("variable histories (2-13 operations of C07's generator: scalars, elements, arrays, `global` links, procedure calls) followed by a read, write and listing of every name".to_string(), vn, false));
    (cases, fams)
}

fn outcome<T>(r: Result<T, Exception>, f: &dyn Fn(&T) -> Term) -> Term {
    match r {
        Ok(v) => tag("Ok", vec![f(&v)]),
        Err(e) => tag("Err", vec![ts(e.value().as_str())]),
    }
}

pub fn run(case: &Term) -> Term {
    let kind = case.nth(0).as_str().to_string();
    if kind == "cmd" {
        // one command invocation, arguments passed as a list value
        let (mut interp, _) = harness_interp(0);
        let _ = interp.eval("set a 1; set b(1) x; proc p {x {y 2} args} {return $x$y$args}");
        let argv: Vec<Value> = case.nth(1).strs().iter().map(|s| Value::from(s.as_str())).collect();
        let script = Value::from(argv);
        let r = interp.eval_value(&script);
        return obs_result(&r);
    }
    if kind == "hist" {
        let (mut interp, _) = harness_interp(0);
        let _ = interp.eval("set a 1; set b(1) x");
        let scripts = case.nth(2).strs();
        let mut last = tag("none", vec![]);
        for (i, s) in scripts.iter().enumerate() {
            last = if i + 1 == scripts.len() && case.nth(1).as_str() == "expr" {
                obs_result(&interp.expr(&Value::from(s.as_str())))
            } else {
                obs_result(&interp.eval(s))
            };
        }
        return last;
    }
    let (text, kind) = if kind == "deep" {
        let (t, k) = deep_text(case.nth(1).as_str(), case.nth(2).as_int() as usize);
        (t, k.to_string())
    } else {
        (case.nth(1).as_str().to_string(), kind)
    };
    let (mut interp, _) = harness_interp(0);
    let _ = interp.eval("set a 1; set b(1) x");
    match kind.as_str() {
        "implonly" => match interp.eval(&text) {
            Ok(_) => tag("Ok", vec![ts("returned")]),
            Err(_) => tag("Err", vec![ts("returned")]),
        },
        "eval" => obs_result(&interp.eval(&text)),
        "expr" => obs_result(&interp.expr(&Value::from(text.as_str()))),
        "complete" => tb(interp.complete(&text)),
        "int" => outcome(Value::from(text.as_str()).as_int(), &|z| Term::Int(*z as i128)),
        "float" => outcome(Value::from(text.as_str()).as_float(), &|f| ts(&Value::from(*f).to_string())),
        "bool" => outcome(Value::from(text.as_str()).as_bool(), &|b| tb(*b)),
        "list" => outcome(Value::from(text.as_str()).as_list(), &|l| tl(l.iter().map(|v| ts(v.as_str())).collect())),
        "dict" => outcome(Value::from(text.as_str()).as_dict(), &|d| {
            tl(d.iter().map(|(k, v)| tl(vec![ts(k.as_str()), ts(v.as_str())])).collect())
        }),
        "varname" => {
            let v = Value::from(text.as_str());
            let n = v.as_var_name();
            match n.index() {
                Some(i) => tl(vec![ts(n.name()), ts(i)]),
                None => tl(vec![ts(n.name())]),
            }
        }
        _ => tag("?", vec![]),
    }
}
