//! C02: scripts are split into commands and words, and substituted, per Tcl's grammar.
use super::script::*;
use super::util::*;
use super::Gen;
use crate::rng::Rng;
use crate::term::*;

/// the syntactically significant alphabet: `c` is a command name (the recorder), `v` a variable
pub const ALPHA: [&str; 15] = ["{", "}", "[", "]", "\"", "\\", "$", "(", ")", ";", "#", "*", " ", "\n", "a"];

const PRELUDE: &str = "set a 1; set b(1) x; set b(a) y; proc c args {rec c {*}$args}";

pub fn mk(script: &str) -> Term {
    case(0, &[PRELUDE, script], &["a", "b"])
}

pub fn gen(tier: &str, seed: u64) -> Gen {
    let mut rng = Rng::new(seed);
    let mut cases = Vec::new();
    let mut fams = Vec::new();
    let thorough = tier == "thorough";
    let maxlen = if thorough { 5 } else { 3 };
    // every string over the alphabet, used as the argument text of a recorder call and as a script
    let all = all_strings(&ALPHA, maxlen);
    let mut n = 0;
    for s in &all {
        cases.push(mk(&format!("rec {}", s)));
        cases.push(mk(s));
        n += 2;
    }
    fams.push((format!("all strings of length<={} over 15 syntax symbols, as script and as recorder arguments", maxlen), n, true));
    // random longer scripts
    let words = [
        "rec", "$a", "${a}", "$b(1)", "$b($a)", "$b(a)", "[rec x]", "[rec $a]", "{a b}", "{a {b} c}", "\"q $a\"",
        "\"[rec y] z\"", "a\\ b", "\\$a", "\\n", "\\x41", "{*}{1 2}", "{*}$a", "{*}[rec p q]", "{*}", "é", "$é", ";", "\n", "# c\n",
        "\\\n", "a$a", "$a$a", "x[rec i]y", "\"a\\\"b\"", "{\\{}", "{a\\\nb}", "$", "$(", "$a(", "${a", "{", "}", "\"", "[", "]", "\t",
        "\u{a0}", "c", "c 1 2",
    ];
    let nrand = if thorough { 100_000 } else { 3000 };
    for _ in 0..nrand {
        let k = 1 + rng.below(8);
        let mut s = String::new();
        for i in 0..k {
            if i > 0 && !rng.chance(1, 6) {
                s.push(' ');
            }
            s.push_str(words[rng.below(words.len())]);
        }
        cases.push(mk(&s));
    }
    fams.push(("random scripts over word forms (substitutions, expansion, quoting, comments, faults)".to_string(), nrand, false));
    (cases, fams)
}

pub fn run(case: &Term) -> Term {
    run_history(case)
}
