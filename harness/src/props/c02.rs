//! C02: scripts are split into commands and words, and substituted, per Tcl's grammar.
use super::script::*;
use super::util::*;
use super::Gen;
use crate::rng::Rng;
use crate::term::*;

/// the syntactically significant alphabet: `c` is a command name (the recorder), `v` a variable
pub const ALPHA: [&str; 15] = ["{", "}", "[", "]", "\"", "\\", "$", "(", ")", ";", "#", "*", " ", "\n", "a"];

const PRELUDE: &str = "set a 1; set e {}; set b(1) x; set b(a) y; set b(\u{e9}) z; set gr\u{f6}\u{df}e 42; set na\u{ef}ve yes; proc c args {rec c {*}$args}";

pub fn mk(script: &str) -> Term {
    case(0, &[PRELUDE, script], &["a", "b"])
}

pub fn gen(tier: &str, seed: u64) -> Gen {
    let mut rng = Rng::new(seed);
    let mut cases = Vec::new();
    let mut fams = Vec::new();
    let thorough = tier == "thorough";
    let maxlen = if thorough { 5 } else { 3 };
    // every string over the alphabet, used as the argument text of a recorder call and as a script
    let all = all_strings(&ALPHA, maxlen);
    let mut n = 0;
    for s in &all {
        cases.push(mk(&format!("rec {}", s)));
        cases.push(mk(s));
        n += 2;
    }
    fams.push((format!("all strings of length<={} over 15 syntax symbols, as script and as recorder arguments", maxlen), n, true));
    // random longer scripts
    let words = [
        "rec", "$a", "${a}", "$b(1)", "$b($a)", "$b(a)", "[rec x]", "[rec $a]", "{a b}", "{a {b} c}", "\"q $a\"",
        "\"[rec y] z\"", "a\\ b", "\\$a", "\\n", "\\x41", "{*}{1 2}", "{*}$a", "{*}[rec p q]", "{*}", "é", "$é", ";", "\n", "# c\n",
        "\\\n", "a$a", "$a$a", "x[rec i]y", "\"a\\\"b\"", "{\\{}", "{a\\\nb}", "$", "$(", "$a(", "${a", "{", "}", "\"", "[", "]", "\t",
        "\u{a0}", "c", "c 1 2", "{*}{}", "{*}$e", "{*}[rec]",
    ];
    // every word form of the pool, and a list of edge spellings, in three fixed contexts
    // (deterministic: these are in every run)
    let edges = [
        "# a\\", "# a\\\\", "# a\\\\\\", "# C:\\dir\\\\", "#\\", "# x \\\n y", "\\ud800", "a\\uDFFFz", "\\U00110000", "\\UFFFFFFFF!",
        "\\xg", "\\u12", "\\x4", "\\U1F600", "\\400", "\\8", "$gr\u{f6}\u{df}e", "$na\u{ef}ve", "$x\u{663}", "${a(\u{e9})}", "$b(\u{e9})", "$\u{e9}t\u{e9}",
        "${b(1)}", "${b(a)}", "$b(1)(2)", "$a$", "$a(", "a$b(1)c", "{*}$b(1)", "{*}{a}b", "\"a\"b", "{a}{b}", "a;b", "a#b", "#a;b",
        "{*}{} {*}$e", "[{*}{}]", "{*}$e;{*}{}\n{*}{ }", "{a\\\\\nb}", "{a\\\\\\\nb}", "{C:\\\\\n  rec in}", "\"a\\\\\nb\"",
    ];
    let mut nd = 0;
    for w in words.iter().chain(edges.iter()) {
        cases.push(mk(&format!("rec before\n{}\nrec after", w)));
        cases.push(mk(&format!("rec {} tail; rec after", w)));
        cases.push(mk(&format!("rec \"q{}\" tail\nrec after [rec in {}]", w, w)));
        nd += 3;
    }
    fams.push((format!("{} word forms and edge spellings (comments ending in runs of backslashes, invalid \\u escapes, non-ASCII variable names) x 3 fixed contexts", words.len() + edges.len()), nd, true));
    let nrand = if thorough { 100_000 } else { 3000 };
    for _ in 0..nrand {
        let k = 1 + rng.below(8);
        let mut s = String::new();
        for i in 0..k {
            if i > 0 && !rng.chance(1, 6) {
                s.push(' ');
            }
            s.push_str(words[rng.below(words.len())]);
        }
        cases.push(mk(&s));
    }
    fams.push(("random scripts over word forms (substitutions, expansion, quoting, comments, faults)".to_string(), nrand, false));
    // scripts generated from concrete syntax trees: the oracle computes the expected commands,
    // arguments, variables and result from the tree alone (Spec/SpecGrammar.v)
    let ncst = if thorough { 120_000 } else { 4000 };
    let mut nfault = 0;
    for i in 0..ncst {
        let mut g = super::c02cst::G::new(&mut rng);
        let n = 1 + g.rng.below(5);
        let (mut items, mut text) = g.items(n, 2, false);
        let fault = if i % 5 == 4 { 1 + g.rng.below(super::c02cst::FAULTS.len()) } else { 0 };
        if fault > 0 {
            nfault += 1;
            if !(text.ends_with(';') || text.ends_with('\n')) {
                // give the last item a terminator, so that the injected text starts a command
                let last = items.pop().unwrap();
                let mut parts: Vec<Term> = last.as_list().to_vec();
                let k = parts.len() - 1;
                parts[k] = ts("\n");
                items.push(tl(parts));
                text.push('\n');
            }
            let (ft, at_start) = super::c02cst::FAULTS[fault - 1];
            text = if at_start { format!("{}{}", ft, text) } else { format!("{}{}", text, ft) };
        }
        cases.push(tl(vec![ti(0), tstrs(&[super::c02cst::PRELUDE, text.as_str()]), tstrs(&super::c02cst::PROBES), tl(items), ti(fault as i64)]));
    }
    fams.push((format!("scripts rendered from random concrete syntax trees (every word form, substitutions nested to depth 2, separators, comments, empty commands, expansion; {} with one of 9 injected syntax faults)", nfault), ncst, false));
    // the same script text evaluated from a value that list and dictionary commands have looked at
    // before (whatever such a value has cached, substitution and command splitting follow its text)
    let nview = if thorough { 20_000 } else { 1500 };
    let directed = [
        "rec $a [rec x]", "rec hello; rec $a\nrec [rec q] \"s $a\"", "rec {a b} $b(1)", "rec a;rec b", "rec \\$a \\[x\\]", "rec {*}{p q} r",
        "rec x $e y", "rec \"q [rec i] r\"", "rec a {b c} d e", "rec k v k w", "# c d", "rec a\n# b c\nrec d",
        " 5 ", "\t7\n", " 0x10", "+3 ", "1e2 ", " 2.50",
    ];
    for i in 0..nview {
        let s = if i < directed.len() { directed[i].to_string() } else {
            let k = 1 + rng.below(6);
            let mut s = String::new();
            for j in 0..k {
                if j > 0 { s.push(' '); }
                s.push_str(words[rng.below(words.len())]);
            }
            s
        };
        let q = molt::types::Value::from(vec![molt::types::Value::from(s.as_str())]);
        let views = ["catch {llength $s}", "catch {dict size $s}", "catch {lindex $s 0}", "catch {foreach x $s {}}", "catch {incr s 0}", "string length $s",
            "catch {incr n0 $s}", "catch {string range abcdef $s 4}", "catch {expr {$s + 1}}", "catch {lindex {a b c d e f g h} $s}"];
        let mut pre = format!("{}; set s {}", PRELUDE, q.as_str());
        for _ in 0..(1 + rng.below(3)) {
            pre.push_str("; ");
            pre.push_str(views[rng.below(views.len())]);
        }
        cases.push(case(0, &[pre.as_str(), "if 1 $s", "rec again {*}$s \"$s\" $s; if 1 $s"], &["a", "b"]));
    }
    // deterministic: every padded number after every view that reads it as a number without
    // changing the variable
    let mut npad = 0;
    for pn in &[" 5 ", "\t7\n", " 0x10", "+3 ", "1e2 ", " 2.50", "5", " -0 "] {
        for view in &["catch {incr n0 $s}", "catch {string range abcdef $s 4}", "catch {expr {$s + 1}}", "catch {lindex {a b c d e f g h} $s}", "catch {string first a abc $s}"] {
            let q = molt::types::Value::from(vec![molt::types::Value::from(*pn)]);
            let pre = format!("{}; set s {}; {}", PRELUDE, q.as_str(), view);
            cases.push(case(0, &[pre.as_str(), "rec spliced {*}$s", "rec again {*}$s \"$s\" $s; llength $s"], &["a", "b"]));
            npad += 1;
        }
    }
    fams.push(("numbers written with padding, a sign, a radix prefix or an exponent: used as a number, then expanded with {*} and substituted".to_string(), npad, true));
    fams.push(("script values (and padded numbers) evaluated, expanded with {*} and substituted after list / dictionary / integer / index views of the same value (1-3 views)".to_string(), nview, false));
    (cases, fams)
}

pub fn run(case: &Term) -> Term {
    run_history(case)
}
