//! C18: the command table and command contexts stay consistent.
use super::Gen;
use crate::rng::Rng;
use crate::term::*;
use molt::types::*;
use molt::Interp;
use std::cell::Cell;
use std::rc::Rc;

const NAMES: [&str; 3] = ["na", "nb", "n c"];

struct CtxData {
    id: i64,
    dropped: Rc<Cell<bool>>,
}
impl Drop for CtxData {
    fn drop(&mut self) {
        self.dropped.set(true);
    }
}

fn dummy0(_: &mut Interp, _: ContextID, _: &[Value]) -> MoltResult { Ok(Value::from(10)) }
fn dummy1(_: &mut Interp, _: ContextID, _: &[Value]) -> MoltResult { Ok(Value::from(11)) }
fn dummy2(_: &mut Interp, _: ContextID, _: &[Value]) -> MoltResult { Ok(Value::from(12)) }
fn ctx_probe(interp: &mut Interp, ctx: ContextID, _: &[Value]) -> MoltResult {
    let d = interp.context::<CtxData>(ctx);
    Ok(Value::from(100 + d.id))
}

/// all concrete operations: ("add" name tag) ("addctx" name ctx) ("proc" name) ("procd" / "procn" name: one body and
/// parameter name, with and without a default) ("badproc" name: rejected definition)
/// ("selfdef" name: a procedure redefining itself, called twice in a row) ("rename" a b) ("remove" name)
pub fn all_ops() -> Vec<Term> {
    let mut v = Vec::new();
    for (i, n) in NAMES.iter().enumerate() {
        v.push(tag("add", vec![ts(n), ti(10 + i as i64)]));
        for c in 1..=2 {
            v.push(tag("addctx", vec![ts(n), ti(c)]));
        }
        v.push(tag("proc", vec![ts(n)]));
        v.push(tag("procd", vec![ts(n)]));
        v.push(tag("procn", vec![ts(n)]));
        v.push(tag("badproc", vec![ts(n)]));
        v.push(tag("selfdef", vec![ts(n)]));
        v.push(tag("remove", vec![ts(n)]));
        for m in NAMES.iter() {
            v.push(tag("rename", vec![ts(n), ts(m)]));
        }
    }
    v
}

pub fn gen(tier: &str, seed: u64) -> Gen {
    let mut rng = Rng::new(seed);
    let ops = all_ops();
    let mut cases = Vec::new();
    let mut fams = Vec::new();
    let thorough = tier == "thorough";
    let maxlen = if thorough { 4 } else { 3 };
    // all sequences up to maxlen
    let mut level: Vec<Vec<usize>> = vec![vec![]];
    let mut n = 0;
    for _ in 0..maxlen {
        let mut next = Vec::new();
        for s in &level {
            for k in 0..ops.len() {
                let mut t = s.clone();
                t.push(k);
                next.push(t);
            }
        }
        for s in &next {
            cases.push(tl(s.iter().map(|&k| ops[k].clone()).collect()));
            n += 1;
        }
        level = next;
    }
    fams.push((format!("all sequences of length<={} over {} concrete operations (3 names, 2 contexts)", maxlen, ops.len()), n, true));
    let nrand = if thorough { 60_000 } else { 1500 };
    for _ in 0..nrand {
        let len = 4 + rng.below(37);
        cases.push(tl((0..len).map(|_| ops[rng.below(ops.len())].clone()).collect()));
    }
    fams.push(("random sequences of length 4-40".to_string(), nrand, false));
    (cases, fams)
}

fn list_cmd(parts: &[&str]) -> String {
    Value::from(parts.iter().map(|p| Value::from(*p)).collect::<Vec<Value>>()).as_str().to_string()
}

fn observe(interp: &mut Interp, flags: &[Rc<Cell<bool>>]) -> Term {
    let mut per_name = Vec::new();
    for n in NAMES.iter() {
        let call = match interp.eval(&list_cmd(&[n])) {
            Ok(v) => tag("Ok", vec![ts(v.as_str())]),
            Err(_) => tag("Err", vec![]),
        };
        let ty = match interp.eval(&list_cmd(&["info", "cmdtype", n])) {
            Ok(v) => ts(v.as_str()),
            Err(_) => ts("none"),
        };
        per_name.push(tl(vec![call, ty]));
    }
    let listing = |interp: &mut Interp, what: &str| -> Term {
        let v = interp.eval(&format!("info {}", what)).unwrap();
        let l = v.as_list().unwrap();
        let mut names: Vec<String> = l.iter().map(|x| x.as_str().to_string()).filter(|x| NAMES.contains(&x.as_str())).collect();
        names.sort();
        tstrs(&names)
    };
    let cmds = listing(interp, "commands");
    let procs = listing(interp, "procs");
    let dropped: Vec<Term> = flags.iter().map(|f| tb(f.get())).collect();
    tl(vec![tl(per_name), cmds, procs, tl(dropped)])
}

pub fn run(case: &Term) -> Term {
    let mut interp = Interp::new();
    let flags: Vec<Rc<Cell<bool>>> = vec![Rc::new(Cell::new(false)), Rc::new(Cell::new(false))];
    let ids: Vec<ContextID> = (0..2)
        .map(|i| interp.save_context(CtxData { id: i as i64 + 1, dropped: flags[i].clone() }))
        .collect();
    let mut out = Vec::new();
    let mut extra: Option<Term> = None;
    for o in case.as_list() {
        match o.nth(0).as_str() {
            "add" => {
                let f: CommandFunc = match o.nth(2).as_int() {
                    10 => dummy0,
                    11 => dummy1,
                    _ => dummy2,
                };
                interp.add_command(o.nth(1).as_str(), f);
            }
            "addctx" => {
                let c = o.nth(2).as_int() as usize - 1;
                // registering with a context that was already dropped is outside the API contract
                if !flags[c].get() {
                    interp.add_context_command(o.nth(1).as_str(), ctx_probe, ids[c]);
                }
            }
            "proc" => {
                let _ = interp.eval(&list_cmd(&["proc", o.nth(1).as_str(), "", "return P"]));
            }
            "procd" => {
                let _ = interp.eval(&list_cmd(&["proc", o.nth(1).as_str(), "{x D}", "return $x"]));
            }
            "procn" => {
                let _ = interp.eval(&list_cmd(&["proc", o.nth(1).as_str(), "x", "return $x"]));
            }
            "badproc" => {
                let _ = interp.eval(&list_cmd(&["proc", o.nth(1).as_str(), "{}", "return P"]));
            }
            "selfdef" => {
                let n = list_cmd(&[o.nth(1).as_str()]);
                let _ = interp.eval(&list_cmd(&["proc", o.nth(1).as_str(), "", &format!("proc {} {{}} {{return P}}; return Q", n)]));
                extra = Some(match interp.eval(&format!("{}; {}", n, n)) {
                    Ok(v) => ts(v.as_str()),
                    Err(_) => ts("<error>"),
                });
            }
            "rename" => {
                let _ = interp.eval(&list_cmd(&["rename", o.nth(1).as_str(), o.nth(2).as_str()]));
            }
            _ => {
                let _ = interp.eval(&list_cmd(&["rename", o.nth(1).as_str(), ""]));
            }
        }
        let mut ob = observe(&mut interp, &flags);
        if let Some(e) = extra.take() {
            let mut parts = ob.as_list().to_vec();
            parts.push(e);
            ob = tl(parts);
        }
        out.push(ob);
    }
    tl(out)
}
