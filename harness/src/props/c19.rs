//! C19: string and list utilities index by character and clamp as documented.
use super::script::*;
use super::util::*;
use super::Gen;
use crate::rng::Rng;
use crate::term::*;
use molt::types::*;

pub const CHARS: [&str; 8] = ["a", "b", "é", "€", "😀", "İ", "ß", "A"];
pub const INDICES: [i64; 17] = [
    i64::MIN, -2147483648, -2, -1, 0, 1, 2, 3, 4, 5, 6, 2147483648, i64::MAX, 7, 100, -100, 9223372036854775806,
];

fn cmd(parts: Vec<String>) -> Term {
    tl(vec![ts("cmd"), tstrs(&parts)])
}
fn s(x: &str) -> String { x.to_string() }

pub fn gen(tier: &str, seed: u64) -> Gen {
    let mut rng = Rng::new(seed);
    let mut cases = Vec::new();
    let mut fams = Vec::new();
    let thorough = tier == "thorough";
    let strs = all_strings(&CHARS, if thorough { 4 } else { 3 });
    let short = all_strings(&CHARS[..4], 2);
    let idx = |rng: &mut Rng| INDICES[rng.below(INDICES.len())].to_string();
    let pick = |rng: &mut Rng, v: &Vec<String>| v[rng.below(v.len())].clone();
    // exhaustive: range/length over all strings x all index pairs (sampled in quick)
    let mut n = 0;
    for st in &strs {
        cases.push(cmd(vec![s("string"), s("length"), st.clone()]));
        n += 1;
        for &a in &INDICES {
            for &b in &INDICES {
                if thorough && st.chars().count() <= 3 || rng.chance(1, 40) {
                    cases.push(cmd(vec![s("string"), s("range"), st.clone(), a.to_string(), b.to_string()]));
                    n += 1;
                }
            }
        }
    }
    fams.push(("string length / range over strings of mixed-width characters x index pairs (incl. i64 extremes)".to_string(), n, thorough));
    // first/last: every haystack, every character of it as the needle, every start / last index
    let mut nf = 0;
    for st in &strs {
        let cs: Vec<char> = st.chars().collect();
        if cs.len() < 2 { continue; }
        let mut seen: Vec<char> = Vec::new();
        for &c in &cs {
            if seen.contains(&c) { continue; }
            seen.push(c);
            for i in 0..=cs.len() {
                if !thorough && !rng.chance(1, 2) { continue; }
                cases.push(cmd(vec![s("string"), s("first"), c.to_string(), st.clone(), i.to_string()]));
                cases.push(cmd(vec![s("string"), s("last"), c.to_string(), st.clone(), i.to_string()]));
                nf += 2;
            }
        }
    }
    fams.push(("string first / last: every mixed-width haystack x each of its characters as needle x every start / last index".to_string(), nf, thorough));
    // integer operands just outside the i64 range (they are errors, never wrapped values), and
    // characters whose lower- or upper-case form is longer than they are, at the end of the string
    let mut nx = 0;
    for big in &["9223372036854775808", "18446744073709551615", "0xFFFFFFFFFFFFFFFF", "-9223372036854775809", "0x8000000000000000", "18446744073709551616", "-0xFFFFFFFFFFFFFFFF"] {
        cases.push(cmd(vec![s("string"), s("range"), s("abcdef"), s("0"), s(big)]));
        cases.push(cmd(vec![s("string"), s("range"), s("abcdef"), s(big), s("3")]));
        cases.push(cmd(vec![s("lindex"), s("a b c"), s(big)]));
        cases.push(cmd(vec![s("string"), s("first"), s("c"), s("abcabc"), s(big)]));
        cases.push(cmd(vec![s("string"), s("last"), s("c"), s("abcabc"), s(big)]));
        cases.push(cmd(vec![s("string"), s("equal"), s("-length"), s(big), s("abc"), s("abd")]));
        cases.push(tl(vec![ts("var"), tl(vec![ts("5")]), tstrs(&[s("incr"), s("v"), s(big)])]));
        cases.push(tl(vec![ts("var"), tl(vec![ts(big)]), tstrs(&[s("incr"), s("v")])]));
        nx += 8;
    }
    let odd = ["\u{130}", "i\u{307}", "\u{23a}", "\u{2c65}", "\u{df}", "SS", "\u{149}", "\u{1f0}", "A", "a"];
    for k in &odd {
        for tail in &odd {
            for pre in &["", "ab", "\u{e9}"] {
                let st = format!("{}{}", pre, tail);
                let kv = Value::from(vec![Value::from(*k), Value::from("x")]).as_str().to_string();
                cases.push(cmd(vec![s("string"), s("map"), s("-nocase"), kv.clone(), st.clone()]));
                cases.push(cmd(vec![s("string"), s("map"), kv, st.clone()]));
                cases.push(cmd(vec![s("string"), s("equal"), s("-nocase"), s(k), st.clone()]));
                nx += 3;
            }
        }
    }
    fams.push(("integer operands just outside the i64 range in every index position; string map / equal -nocase over characters whose case forms differ in length, at the end of the string".to_string(), nx, true));
    // U+03A3: its lower-case form depends on its context (final sigma) in str::to_lowercase
    let sig = ["\u{3a3}", "a", "'", " ", "\u{391}", "\u{301}"];
    let sig_strs: Vec<String> = all_strings(&sig, if thorough { 5 } else { 4 }).into_iter().filter(|x| x.contains('\u{3a3}')).collect();
    let sig_keys = ["\u{3a3}", "a\u{3a3}", "\u{391}\u{3a3}", "\u{3a3}a", "\u{3c3}", "\u{3c2}", "a\u{3c2}", "\u{3a3}'", "\u{3a3}\u{3a3}"];
    let mut ns = 0;
    for st in &sig_strs {
        cases.push(cmd(vec![s("string"), s("tolower"), st.clone()]));
        cases.push(cmd(vec![s("string"), s("toupper"), st.clone()]));
        ns += 2;
        for k in &sig_keys {
            let kv = Value::from(vec![Value::from(*k), Value::from("x")]).as_str().to_string();
            cases.push(cmd(vec![s("string"), s("map"), s("-nocase"), kv, st.clone()]));
            cases.push(cmd(vec![s("string"), s("equal"), s("-nocase"), s(k), st.clone()]));
            cases.push(cmd(vec![s("string"), s("compare"), s("-nocase"), st.clone(), s(k)]));
            ns += 3;
        }
    }
    fams.push(("capital sigma (lower-cased by context: final sigma after a cased letter, case-ignorable characters skipped) in tolower / toupper / map -nocase / equal -nocase / compare -nocase: every string with a sigma over 6 characters x 9 keys".to_string(), ns, thorough));
    let per = if thorough { 60_000 } else { 1200 };
    let mut m = 0;
    for _ in 0..per {
        let hay = pick(&mut rng, &strs);
        let needle = if rng.chance(1, 3) { pick(&mut rng, &short) } else {
            // a substring of hay, so that matches occur
            let cs: Vec<char> = hay.chars().collect();
            if cs.is_empty() { String::new() } else {
                let i = rng.below(cs.len()); let j = i + rng.below(cs.len() - i + 1);
                cs[i..j].iter().collect()
            }
        };
        for sub in &["first", "last"] {
            cases.push(cmd(vec![s("string"), s(sub), needle.clone(), hay.clone()]));
            cases.push(cmd(vec![s("string"), s(sub), needle.clone(), hay.clone(), idx(&mut rng)]));
            m += 2;
        }
        // compare / equal with options
        let a = pick(&mut rng, &strs);
        let b = if rng.chance(1, 2) { a.clone() } else { pick(&mut rng, &strs) };
        for sub in &["compare", "equal"] {
            let mut v = vec![s("string"), s(sub)];
            if rng.chance(1, 3) { v.push(s("-nocase")); }
            if rng.chance(1, 2) { v.push(s("-length")); v.push(idx(&mut rng)); }
            v.push(a.clone()); v.push(b.clone());
            cases.push(cmd(v));
            m += 1;
        }
        // trim family, case mapping, cat
        let padded = format!("{}{}{}", [" ", "\t\n", "\u{a0}", ""][rng.below(4)], pick(&mut rng, &strs), [" ", "\u{2003} ", "", "\r"][rng.below(4)]);
        for sub in &["trim", "trimleft", "trimright", "tolower", "toupper"] {
            cases.push(cmd(vec![s("string"), s(sub), padded.clone()]));
            m += 1;
        }
        cases.push(cmd(vec![s("string"), s("cat"), pick(&mut rng, &strs), pick(&mut rng, &short)]));
        // map
        let nk = rng.below(3);
        let mut kv: Vec<Value> = Vec::new();
        for _ in 0..nk { kv.push(Value::from(pick(&mut rng, &short))); kv.push(Value::from(pick(&mut rng, &short))); }
        let mut v = vec![s("string"), s("map")];
        if rng.chance(1, 3) { v.push(s("-nocase")); }
        v.push(Value::from(kv).as_str().to_string());
        v.push(pick(&mut rng, &strs));
        cases.push(cmd(v));
        m += 2;
        // list utilities
        let l: Vec<Value> = (0..rng.below(4)).map(|_| {
            if rng.chance(1, 3) { Value::from((0..rng.below(3)).map(|_| Value::from(pick(&mut rng, &short))).collect::<Vec<Value>>()) }
            else { Value::from(pick(&mut rng, &short)) } }).collect();
        let ls = Value::from(l).as_str().to_string();
        cases.push(cmd(vec![s("llength"), ls.clone()]));
        cases.push(cmd(vec![s("lindex"), ls.clone(), idx(&mut rng)]));
        cases.push(cmd(vec![s("lindex"), ls.clone(), (rng.below(4) as i64 - 1).to_string(), (rng.below(3) as i64 - 1).to_string()]));
        cases.push(cmd(vec![s("lindex"), ls.clone(), format!("{} {}", rng.below(3), rng.below(3))]));
        cases.push(cmd(vec![s("lindex"), ls.clone(), s("x")]));
        // index paths mixing in-range, out-of-range and non-integer operands in every order
        {
            let pool = ["0", "1", "-1", "7", "x", "1.5", ""];
            let k = 2 + rng.below(2);
            let path: Vec<String> = (0..k).map(|_| pool[rng.below(pool.len())].to_string()).collect();
            let mut c = vec![s("lindex"), ls.clone()];
            if rng.chance(1, 2) {
                c.extend(path.iter().cloned());
            } else {
                c.push(Value::from(path.iter().map(|p| Value::from(p.as_str())).collect::<Vec<Value>>()).as_str().to_string());
            }
            cases.push(cmd(c));
        }
        cases.push(cmd(vec![s("join"), ls.clone(), pick(&mut rng, &short)]));
        cases.push(cmd(vec![s("join"), ls.clone()]));
        m += 7;
        // variable-updating utilities: ("var" init-or-unset cmd args...)
        let init = if rng.chance(1, 4) { None } else { Some(if rng.chance(1, 2) { ls.clone() } else { INDICES[rng.below(INDICES.len())].to_string() }) };
        let which = rng.below(4);
        let args: Vec<String> = match which {
            0 => vec![s("lappend"), s("v"), pick(&mut rng, &short), pick(&mut rng, &short)],
            1 => vec![s("append"), s("v"), pick(&mut rng, &short), pick(&mut rng, &short)],
            2 => vec![s("incr"), s("v")],
            _ => vec![s("incr"), s("v"), if rng.chance(1, 5) { s("x") } else { idx(&mut rng) }],
        };
        cases.push(tl(vec![ts("var"), match &init { Some(i) => tl(vec![ts(i)]), None => tl(vec![]) }, tstrs(&args)]));
        m += 1;
    }
    fams.push(("first/last/compare/equal/trim*/tolower/toupper/cat/map, lindex/llength/join, lappend/append/incr with random operands".to_string(), m, false));
    (cases, fams)
}

pub fn run(case: &Term) -> Term {
    let (mut interp, _) = harness_interp(0);
    let kind = case.nth(0).as_str().to_string();
    if kind == "cmd" {
        let argv: Vec<Value> = case.nth(1).strs().iter().map(|x| Value::from(x.as_str())).collect();
        let r = interp.eval_value(&Value::from(Value::from(argv).as_str()));
        let out = match r {
            Ok(v) => tag("Ok", vec![ts(v.as_str())]),
            Err(e) => tag("Err", vec![ts(e.value().as_str())]),
        };
        // the same command with its integer and list arguments passed as computed data (an integer
        // or list representation with no string yet) must give the same outcome
        if let Some(t) = typed_call(&case.nth(1).strs(), 1) {
            let (mut interp2, _) = harness_interp(0);
            let out2 = match interp2.eval(&t) {
                Ok(v) => tag("Ok", vec![ts(v.as_str())]),
                Err(e) => tag("Err", vec![ts(e.value().as_str())]),
            };
            if out2 != out {
                return tag("TYPED-ARGUMENTS-DIFFER", vec![out, ts(&t), out2]);
            }
        }
        return out;
    }
    if let Some(i) = case.nth(1).as_list().get(0) {
        let _ = interp.set_scalar("v", Value::from(i.as_str()));
    }
    let argv: Vec<Value> = case.nth(2).strs().iter().map(|x| Value::from(x.as_str())).collect();
    let r = interp.eval_value(&Value::from(Value::from(argv).as_str()));
    let out = match r {
        Ok(v) => tag("Ok", vec![ts(v.as_str())]),
        Err(e) => tag("Err", vec![ts(e.value().as_str())]),
    };
    if let Some(t) = typed_call(&case.nth(2).strs(), 2) {
        let (mut interp2, _) = harness_interp(0);
        if let Some(i) = case.nth(1).as_list().get(0) {
            let _ = interp2.set_scalar("v", Value::from(i.as_str()));
        }
        let out2 = match interp2.eval(&t) {
            Ok(v) => tag("Ok", vec![ts(v.as_str())]),
            Err(e) => tag("Err", vec![ts(e.value().as_str())]),
        };
        if out2 != out || obs_var(&interp2, "v") != obs_var(&interp, "v") {
            return tag("TYPED-ARGUMENTS-DIFFER", vec![out, ts(&t), out2]);
        }
    }
    tl(vec![out, obs_var(&interp, "v")])
}
