//! C03: expressions evaluate per the documented operator grammar and numeric rules.
//! A case is an expression TREE plus one rendering of it as text (C precedence, redundant
//! parentheses and spacing chosen by the generator).  The oracle evaluates the tree.
use super::script::*;
use super::Gen;
use crate::rng::Rng;
use crate::term::*;
use molt::types::*;

// ---- trees ----
pub fn int(z: i64) -> Term { tag("int", vec![ti(z)]) }
pub fn flt(s: &str) -> Term { tag("flt", vec![ts(s)]) }
pub fn strq(s: &str) -> Term { tag("str", vec![ts(s)]) }       // "quoted"
fn strb(s: &str) -> Term { tag("brc", vec![ts(s)]) }       // {braced}
fn boolw(s: &str) -> Term { tag("bool", vec![ts(s)]) }
pub fn var(name: &str, val: &str) -> Term { tag("var", vec![ts(name), ts(val)]) }
fn cmd(val: &str) -> Term { tag("cmd", vec![ts(val)]) }
pub fn un(op: &str, a: Term) -> Term { tag("un", vec![ts(op), a]) }
pub fn bin(op: &str, a: Term, b: Term) -> Term { tag("bin", vec![ts(op), a, b]) }
pub fn cond(c: Term, a: Term, b: Term) -> Term { tag("cond", vec![c, a, b]) }
pub fn func(name: &str, a: Term) -> Term { tag("fn", vec![ts(name), a]) }

pub const BINOPS: [&str; 24] = [
    "*", "/", "%", "+", "-", "<<", ">>", "<", ">", "<=", ">=", "==", "!=", "eq", "ne", "in", "ni", "&", "^", "|", "&&", "||",
    "?", ":",
];
const UNOPS: [&str; 4] = ["-", "+", "!", "~"];

/// C / Tcl precedence of a binary operator (documented grammar; independent of expr.rs)
fn prec(op: &str) -> i32 {
    match op {
        "*" | "/" | "%" => 14,
        "+" | "-" => 13,
        "<<" | ">>" => 12,
        "<" | ">" | "<=" | ">=" => 11,
        "==" | "!=" => 10,
        "eq" | "ne" => 9,
        "in" | "ni" => 8,
        "&" => 7,
        "^" => 6,
        "|" => 5,
        "&&" => 4,
        "||" => 3,
        _ => 0,
    }
}

fn node_prec(t: &Term) -> i32 {
    match t.nth(0).as_str() {
        "un" => 15,
        "bin" => prec(t.nth(1).as_str()),
        "cond" => 2,
        _ => 100,
    }
}

fn pad(rng: &mut Rng) -> &'static str {
    match rng.below(6) {
        0 => " ",
        1 => "  ",
        2 => "\t",
        _ => "",
    }
}

fn wrap(rng: &mut Rng, s: String, need: bool) -> String {
    let mut out = s;
    if need {
        out = format!("({}{}{})", pad(rng), out, pad(rng));
    }
    // redundant parentheses
    while rng.chance(1, 8) {
        out = format!("({}{}{})", pad(rng), out, pad(rng));
    }
    out
}

/// render with C precedence; `vars` collects (name, value) to preset
pub fn render(rng: &mut Rng, t: &Term, vars: &mut Vec<(String, String)>) -> String {
    match t.nth(0).as_str() {
        "int" => format!("{}", t.nth(1).as_int()),
        "flt" => t.nth(1).as_str().to_string(),
        "str" => format!("\"{}\"{}", t.nth(1).as_str(), pad(rng)),
        "brc" => format!("{{{}}}{}", t.nth(1).as_str(), pad(rng)),
        "bool" => format!(" {} ", t.nth(1).as_str()),
        "var" => {
            vars.push((t.nth(1).as_str().to_string(), t.nth(2).as_str().to_string()));
            if rng.chance(1, 3) { format!("${{{}}}", t.nth(1).as_str()) } else { format!("${} ", t.nth(1).as_str()) }
        }
        "cmd" => format!("[ident {}]", Value::from(vec![Value::from(t.nth(1).as_str())]).as_str()),
        "rec" => {
            // the recorder yields its last argument; one call in three carries extra words that are
            // well formed but unusual (a quote or an open brace inside a word, a nested command, a
            // backslash-escaped brace), so that a skipped script is still read by the script grammar
            let extra = if rng.chance(1, 3) {
                ["x{y ", "6\"w ", "a\"b\"c ", "{p q} ", "\"r s\" ", "\\{ ", "[ident z] ", "x}y ", "{a\\}b} ", "$vq ", "{*}{u v} "][rng.below(11)]
            } else {
                ""
            };
            if extra == "$vq " {
                vars.push(("vq".to_string(), "1".to_string()));
            }
            format!("[rec k{} {}{}]", t.nth(1).as_int(), extra, Value::from(vec![Value::from(t.nth(2).as_str())]).as_str())
        }
        "qrec" => format!("\"[rec k{} {}]\"{}", t.nth(1).as_int(), Value::from(vec![Value::from(t.nth(2).as_str())]).as_str(), pad(rng)),
        "qunset" => format!("\"$nosuch{}\"{}", t.nth(1).as_int(), pad(rng)),
        "unset" => format!("$nosuch{} ", t.nth(1).as_int()),
        "badcmd" => "[nosuchcmd 1]".to_string(),
        "raw" => t.nth(1).as_str().to_string(),
        "un" => {
            let a = t.nth(2);
            let s = render(rng, a, vars);
            let need = node_prec(a) < 15;
            format!("{}{}{}", t.nth(1).as_str(), pad(rng), wrap(rng, s, need))
        }
        "bin" => {
            let op = t.nth(1).as_str();
            let p = prec(op);
            let (a, b) = (t.nth(2), t.nth(3));
            let sa = render(rng, a, vars);
            let sb = render(rng, b, vars);
            let la = wrap(rng, sa, node_prec(a) < p);
            let lb = wrap(rng, sb, node_prec(b) <= p);
            let word = op.chars().all(|c| c.is_alphabetic());
            if word {
                format!("{} {} {}", la, op, lb)
            } else {
                format!("{}{}{}{}{}", la, pad(rng), op, pad(rng), lb)
            }
        }
        "cond" => {
            let (c, a, b) = (t.nth(1), t.nth(2), t.nth(3));
            let sc = render(rng, c, vars);
            let sa = render(rng, a, vars);
            let sb = render(rng, b, vars);
            let lc = wrap(rng, sc, node_prec(c) <= 2);
            let la = wrap(rng, sa, false);
            let lb = wrap(rng, sb, false);
            format!("{}{}?{}{}{}:{}{}", lc, pad(rng), pad(rng), la, pad(rng), pad(rng), lb)
        }
        "fn" => {
            let s = render(rng, t.nth(2), vars);
            format!("{}{}({}{}{})", t.nth(1).as_str(), pad(rng), pad(rng), s, pad(rng))
        }
        _ => "?".to_string(),
    }
}

fn operands() -> Vec<Term> {
    vec![
        int(0), int(1), int(2), int(7), int(63), int(64), int(9223372036854775807), flt("0.5"), flt("2.0"), flt("1e3"),
        strq("a"), strq("b"), strb("a b"), boolw("true"), boolw("off"),
        var("vi", "-3"), var("vm", "-9223372036854775808"), var("vf", "2.5"), var("vs", "abc"), var("vl", "a b c"),
        var("vz", "0"), cmd("5"), cmd("x y"), cmd(" 12 "), var("vx", "0x1F"), var("vn", "-0.0"),
        // neighbouring integers that no f64 tells apart
        int(9223372036854775806), int(9007199254740993), int(9007199254740992), var("vm1", "-9223372036854775807"),
        // exponent spellings and halves (rounding away from zero, both signs)
        // list operands whose elements are spelled with escapes or braces, a malformed list, and
        // strings that look like integers beyond i64
        var("vle", "a\\ b c"), var("vlb", "{a b} c"), var("vbad", "{"), var("vbig", "9223372036854775808"), var("vhex", "0xFFFFFFFFFFFFFFFF"),
        flt(".5"), flt(".5e1"), flt("5."), flt("Inf"),
        flt("1E3"), var("ve", "1.5E2"), strq("1E2"), flt("2.5"), flt("1.5"), var("vh", "-2.5"), var("vh2", "-0.5"),
    ]
}

fn random_tree(rng: &mut Rng, depth: usize, ops: &[Term]) -> Term {
    if depth == 0 || rng.chance(1, 4) {
        return ops[rng.below(ops.len())].clone();
    }
    match rng.below(10) {
        0 => un(UNOPS[rng.below(4)], random_tree(rng, depth - 1, ops)),
        1 => cond(random_tree(rng, depth - 1, ops), random_tree(rng, depth - 1, ops), random_tree(rng, depth - 1, ops)),
        2 => func(["abs", "double", "int", "round"][rng.below(4)], random_tree(rng, depth - 1, ops)),
        _ => bin(BINOPS[rng.below(22)], random_tree(rng, depth - 1, ops), random_tree(rng, depth - 1, ops)),
    }
}

fn mk(rng: &mut Rng, t: Term) -> Term {
    let mut vars = Vec::new();
    let text = render(rng, &t, &mut vars);
    vars.sort();
    vars.dedup();
    let vt: Vec<Term> = vars.iter().map(|(n, v)| tl(vec![ts(n), ts(v)])).collect();
    tl(vec![t, ts(&text), tl(vt)])
}

pub fn gen(tier: &str, seed: u64) -> Gen {
    let mut rng = Rng::new(seed);
    let mut cases = Vec::new();
    let mut fams = Vec::new();
    let thorough = tier == "thorough";
    let ops = operands();
    let small: Vec<Term> = vec![int(0), int(1), int(2), int(7), flt("0.5"), strq("a"), var("vi", "-3"), boolw("true")];
    let allops: Vec<&str> = BINOPS[..22].to_vec();
    // every ordered pair of binary operators, both tree shapes, over distinguishing operands
    let mut n = 0;
    for o1 in &allops {
        for o2 in &allops {
            let reps = if thorough { 12 } else { 1 };
            for _ in 0..reps {
                let a = small[rng.below(small.len())].clone();
                let b = small[rng.below(small.len())].clone();
                let c = small[rng.below(small.len())].clone();
                cases.push(mk(&mut rng, bin(o2, bin(o1, a.clone(), b.clone()), c.clone())));
                cases.push(mk(&mut rng, bin(o1, a, bin(o2, b, c))));
                n += 2;
            }
        }
    }
    fams.push(("all ordered pairs of binary operators, both association shapes".to_string(), n, true));
    // unary x binary, cond x binary
    let mut m = 0;
    for u in &UNOPS {
        for o in &allops {
            for _ in 0..(if thorough { 6 } else { 1 }) {
                let a = small[rng.below(small.len())].clone();
                let b = small[rng.below(small.len())].clone();
                cases.push(mk(&mut rng, bin(o, un(u, a.clone()), b.clone())));
                cases.push(mk(&mut rng, un(u, bin(o, a.clone(), b.clone()))));
                cases.push(mk(&mut rng, bin(o, a, un(u, b))));
                m += 3;
            }
        }
    }
    for o in &allops {
        let a = small[rng.below(small.len())].clone();
        let b = small[rng.below(small.len())].clone();
        let c = small[rng.below(small.len())].clone();
        let d = small[rng.below(small.len())].clone();
        cases.push(mk(&mut rng, cond(bin(o, a.clone(), b.clone()), c.clone(), d.clone())));
        cases.push(mk(&mut rng, cond(a.clone(), bin(o, b.clone(), c.clone()), d.clone())));
        cases.push(mk(&mut rng, cond(a.clone(), b.clone(), bin(o, c.clone(), d.clone()))));
        cases.push(mk(&mut rng, cond(a.clone(), b.clone(), cond(c.clone(), d.clone(), a.clone()))));
        cases.push(mk(&mut rng, cond(cond(a.clone(), b.clone(), c.clone()), d.clone(), a.clone())));
        m += 5;
    }
    fams.push(("unary and ?: against every binary operator".to_string(), m, true));
    // all binary operators over all ordered operand pairs (numeric rules)
    let mut k = 0;
    for o in &allops {
        for a in &ops {
            for b in &ops {
                if thorough || rng.chance(1, 6) {
                    cases.push(mk(&mut rng, bin(o, a.clone(), b.clone())));
                    k += 1;
                }
            }
        }
    }
    for u in &UNOPS {
        for a in &ops {
            cases.push(mk(&mut rng, un(u, a.clone())));
            k += 1;
        }
    }
    for f in &["abs", "double", "int", "round"] {
        for a in &ops {
            cases.push(mk(&mut rng, func(f, a.clone())));
            k += 1;
        }
    }
    fams.push(("every operator and function over the operand table".to_string(), k, thorough));
    // random trees
    let nrand = if thorough { 300_000 } else { 2500 };
    for _ in 0..nrand {
        let d = 1 + rng.below(5);
        let t = random_tree(&mut rng, d, &ops);
        cases.push(mk(&mut rng, t));
    }
    fams.push(("random trees to depth 5 with redundant parentheses and spacing".to_string(), nrand, false));
    // mixed integer / float comparisons and arithmetic where the integer is not exactly a float or
    // the float is integral and at or beyond 2^63 (the integer operand is promoted to a float)
    let bigi: Vec<Term> = vec![
        int(9223372036854775807), int(9223372036854775806), int(9007199254740993), int(9007199254740992), int(9007199254740991),
        var("vm", "-9223372036854775808"), var("vm3", "-9007199254740993"), int(1),
    ];
    let bigf: Vec<Term> = vec![
        flt("9007199254740992.0"), flt("9007199254740994.0"), flt("1e19"), var("vf19", "-1e19"), flt("9223372036854775808.0"),
        flt("9.223372036854775807e18"), var("vfm", "-9223372036854775808.0"), flt("1e300"), flt("4503599627370497.5"), flt("1.0"),
    ];
    let mut nm = 0;
    for o in &["<", ">", "<=", ">=", "==", "!=", "+", "-", "*"] {
        for a in &bigi {
            for b in &bigf {
                cases.push(mk(&mut rng, bin(o, a.clone(), b.clone())));
                cases.push(mk(&mut rng, bin(o, b.clone(), a.clone())));
                nm += 2;
            }
        }
    }
    fams.push(("mixed integer / float comparisons and arithmetic around 2^53 and 2^63, both orders".to_string(), nm, true));
    // division and remainder by a zero that is computed (integer and float zeros reached through
    // mixed arithmetic, where one operand was promoted), and zero numerators of both types
    let zeros: Vec<Term> = vec![
        bin("-", int(5), flt("5.0")), bin("*", int(2), flt("0.0")), bin("-", flt("5.0"), int(5)), bin("*", flt("0.0"), int(7)),
        bin("-", int(3), int(3)), bin("-", flt("1.5"), flt("1.5")), bin("+", var("vi", "-3"), flt("3.0")), bin("-", var("vf", "2.5"), flt("2.5")),
        un("-", flt("0.0")), func("double", int(0)), func("int", flt("0.5")), bin("*", int(0), int(9)),
    ];
    let nums: Vec<Term> = vec![int(1), flt("1.0"), int(10), var("vi", "-3"), flt("0.0"), int(0), bin("+", int(1), flt("0.5"))];
    let mut nd = 0;
    for o in &["/", "%"] {
        for a in &nums {
            for z in &zeros {
                cases.push(mk(&mut rng, bin(o, a.clone(), z.clone())));
                nd += 1;
            }
        }
    }
    fams.push(("division and remainder by computed zeros of either type (mixed arithmetic with a promoted operand)".to_string(), nd, true));
    // the i64 extremes against -1, 0 and 1 under every arithmetic operator (the one quotient and the
    // one remainder that overflow), written as variables, negated literals and computed values
    let ext: Vec<Term> = vec![
        var("vm", "-9223372036854775808"), int(9223372036854775807), bin("-", un("-", int(9223372036854775807)), int(1)),
        var("vm1", "-9223372036854775807"), func("int", var("vm", "-9223372036854775808")),
    ];
    let unit: Vec<Term> = vec![un("-", int(1)), var("vn1", "-1"), int(1), int(0), bin("-", int(0), int(1)), int(2), un("-", int(2))];
    let mut ne = 0;
    for o in &["%", "/", "*", "+", "-", "<<", ">>"] {
        for a in &ext {
            for b in &unit {
                cases.push(mk(&mut rng, bin(o, a.clone(), b.clone())));
                cases.push(mk(&mut rng, bin(o, b.clone(), a.clone())));
                ne += 2;
            }
        }
    }
    fams.push(("the i64 extremes against -1, 0, 1, 2 under every arithmetic operator, both orders".to_string(), ne, true));
    (cases, fams)
}

pub fn run(case: &Term) -> Term {
    let (mut interp, _) = harness_interp(0);
    for kv in case.nth(2).as_list() {
        let _ = interp.set_scalar(kv.nth(0).as_str(), Value::from(kv.nth(1).as_str()));
    }
    let r = interp.expr(&Value::from(case.nth(1).as_str()));
    // only message-level detail that the oracle fixes: value or error message
    match r {
        Ok(v) => tag("Ok", vec![ts(v.as_str())]),
        Err(e) => tag("Err", vec![ts(e.value().as_str())]),
    }
}
