(* driver.ml — runs the extracted model/spec on cases produced by the Rust harness.
   usage: driver <property-number> < cases   (one "case TAB impl_obs" per line)
   output per line: model_obs TAB spec_ok(impl_obs) TAB known TAB nontrivial TAB spec_ok(model_obs) *)
module M = Molt_model

let rec pos_of_int (i : int) : M.positive =
  if i = 1 then M.XH
  else if i land 1 = 0 then M.XO (pos_of_int (i lsr 1))
  else M.XI (pos_of_int (i lsr 1))
let n_of_int (i : int) : M.n = if i = 0 then M.N0 else M.Npos (pos_of_int i)
let rec int_of_pos (p : M.positive) : int =
  match p with M.XH -> 1 | M.XO q -> 2 * int_of_pos q | M.XI q -> 2 * int_of_pos q + 1
let int_of_n (n : M.n) : int = match n with M.N0 -> 0 | M.Npos p -> int_of_pos p

exception Parse_error of string

(* ---- reader ---- *)
let parse_term (s : string) (pos : int ref) : M.term =
  let len = String.length s in
  let peek () = if !pos < len then Some s.[!pos] else None in
  let adv () = incr pos in
  let rec skip () = match peek () with Some ' ' -> adv (); skip () | _ -> () in
  let rec term () : M.term =
    skip ();
    match peek () with
    | Some '"' -> adv (); M.TStr (str_body [])
    | Some '#' ->
        adv ();
        let neg = (peek () = Some '-') in
        if neg then adv ();
        let ds = ref [] in
        let rec go () = match peek () with
          | Some c when c >= '0' && c <= '9' -> ds := n_of_int (Char.code c) :: !ds; adv (); go ()
          | _ -> () in
        go ();
        M.TInt (M.parse_dec neg (List.rev !ds))
    | Some '(' -> adv (); M.TList (items [])
    | _ -> raise (Parse_error (Printf.sprintf "unexpected input at %d in %s" !pos s))
  and items acc =
    skip ();
    match peek () with
    | Some ')' -> adv (); List.rev acc
    | None -> raise (Parse_error "unterminated list")
    | _ -> let t = term () in items (t :: acc)
  and str_body acc =
    match peek () with
    | None -> raise (Parse_error "unterminated string")
    | Some '"' -> adv (); List.rev acc
    | Some '\\' ->
        adv ();
        (match peek () with
         | Some 'u' ->
             adv (); (* { *) adv ();
             let v = ref 0 in
             let rec go () = match peek () with
               | Some '}' -> adv ()
               | Some c ->
                   let d = if c >= '0' && c <= '9' then Char.code c - 48
                           else if c >= 'a' && c <= 'f' then Char.code c - 87
                           else Char.code c - 55 in
                   v := !v * 16 + d; adv (); go ()
               | None -> raise (Parse_error "bad escape") in
             go ();
             str_body (n_of_int !v :: acc)
         | Some c -> adv (); str_body (n_of_int (Char.code c) :: acc)
         | None -> raise (Parse_error "bad escape"))
    | Some c -> adv (); str_body (n_of_int (Char.code c) :: acc)
  in
  term ()

(* ---- printer ---- *)
let rec print_term (b : Buffer.t) (t : M.term) : unit =
  match t with
  | M.TStr s ->
      Buffer.add_char b '"';
      List.iter (fun c ->
        let i = int_of_n c in
        if i = 34 then Buffer.add_string b "\\\""
        else if i = 92 then Buffer.add_string b "\\\\"
        else if i >= 32 && i < 127 then Buffer.add_char b (Char.chr i)
        else Buffer.add_string b (Printf.sprintf "\\u{%x}" i)) s;
      Buffer.add_char b '"'
  | M.TInt z ->
      Buffer.add_char b '#';
      List.iter (fun c -> Buffer.add_char b (Char.chr (int_of_n c))) (M.print_dec z)
  | M.TList l ->
      Buffer.add_char b '(';
      List.iteri (fun i x -> if i > 0 then Buffer.add_char b ' '; print_term b x) l;
      Buffer.add_char b ')'

let () =
  let prop = int_of_string Sys.argv.(1) in
  let fns = M.dispatch (n_of_int prop) in
  let out = Buffer.create 65536 in
  (try
    while true do
      let line = input_line stdin in
      if String.length line > 0 then begin
        let pos = ref 0 in
        let case = parse_term line pos in
        (* skip the TAB *)
        while !pos < String.length line && line.[!pos] <> '\t' do incr pos done;
        incr pos;
        let impl_obs = parse_term line pos in
        let mobs = fns.M.pf_model_obs case in
        let b01 x = if x then "1" else "0" in
        print_term out mobs;
        Buffer.add_char out '\t';
        Buffer.add_string out (b01 (fns.M.pf_spec_ok case impl_obs));
        Buffer.add_char out '\t';
        Buffer.add_string out (b01 (fns.M.pf_known case));
        Buffer.add_char out '\t';
        Buffer.add_string out (b01 (fns.M.pf_nontrivial case));
        Buffer.add_char out '\t';
        Buffer.add_string out (b01 (fns.M.pf_spec_ok case mobs));
        Buffer.add_char out '\n';
        if Buffer.length out > 60000 then begin print_string (Buffer.contents out); Buffer.clear out end
      end
    done
  with End_of_file -> ());
  print_string (Buffer.contents out)
