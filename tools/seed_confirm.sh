#!/bin/sh
# seed_confirm.sh Cxx k — confirm a seeded change in its scratch worktree: applies, compiles,
# passes the existing tests, and the demonstration's output differs from the original tree's.
P=$1; K=$2; SR=${SEED_ROOT:-/tmp/seed}; W=$SR/$P; O=$SR/out/$P
cd $W || exit 2
git checkout -q -- . ; git status --short | grep -v '^??' && { echo "worktree dirty"; exit 2; }
DEMO=$O/demo$K.tcl
run_demo() {
  if [ -f $O/demo$K.tcl ]; then
    case "$(cat $O/meta$K.json)" in *"moltsh test"*) M=test;; *) M=shell;; esac
    timeout 60 target/debug/moltsh $M $O/demo$K.tcl 2>&1; echo "exit=$?"
  elif [ -f $O/demo$K.rs ]; then
    mkdir -p molt/examples; cp $O/demo$K.rs molt/examples/seed_demo.rs; timeout 300 cargo run -q --offline -p molt --example seed_demo 2>&1 | grep -v "^warning\|^ *|\|^ *=\|^ *-->\|^$"; rm -rf molt/examples
  fi
}
CARGO_NET_OFFLINE=true cargo build -q --offline 2>/dev/null
run_demo > $O/confirm$K.orig.out
git apply $O/patch$K.diff || { echo "patch does not apply"; exit 1; }
CARGO_NET_OFFLINE=true cargo test --workspace --no-fail-fast --offline 2>&1 | grep -E "^test result|^error" > $O/confirm$K.tests
if grep -q "FAILED\|^error" $O/confirm$K.tests; then echo "TESTS FAIL"; cat $O/confirm$K.tests; git checkout -q -- .; exit 1; fi
CARGO_NET_OFFLINE=true cargo build -q --offline 2>/dev/null
run_demo > $O/confirm$K.mut.out
git checkout -q -- .
if cmp -s $O/confirm$K.orig.out $O/confirm$K.mut.out; then echo "NO OBSERVABLE DIFFERENCE"; exit 1; fi
echo "CONFIRMED $P/$K: tests pass ($(grep -c 'test result: ok' $O/confirm$K.tests) binaries ok), demo output differs"
diff $O/confirm$K.orig.out $O/confirm$K.mut.out | head -8
