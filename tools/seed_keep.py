#!/usr/bin/env python3
"""seed_keep.py Cxx k [Cyy ...] — confirm seeded change k for property Cxx in its scratch worktree,
run the quick checks of Cxx (and of the extra properties) against it applied to /repo, undo it,
and keep it under /verif/seeded/Cxx-k/ with the outcome recorded in meta.json."""
import json, os, shutil, subprocess, sys, glob
P, K = sys.argv[1], sys.argv[2]
props = [P] + sys.argv[3:]
SR = os.environ.get("SEED_ROOT", "/tmp/seed")
TAG = os.environ.get("SEED_TAG", "")
O = "%s/out/%s" % (SR, P)
OKF = "%s/confirm%s.ok" % (O, K)
if os.path.exists(OKF):
    # confirmed earlier by tools/seed_confirm.sh (same script, same worktree); its summary was kept
    r = subprocess.CompletedProcess([], 0, open(OKF).read(), "")
else:
    r = subprocess.run(["/verif/tools/seed_confirm.sh", P, K], capture_output=True, text=True)
    if r.returncode == 0:
        open(OKF, "w").write(r.stdout)
print(r.stdout.strip()[:600])
if r.returncode != 0:
    print("NOT CONFIRMED", r.stderr[-300:]); sys.exit(1)
r2 = subprocess.run(["/verif/tools/seed_run.sh", "%s/patch%s.diff" % (O, K)] + props, capture_output=True, text=True)
print(r2.stdout.strip())
D = "/verif/seeded/%s-%s%s" % (P, TAG, K)
os.makedirs(D, exist_ok=True)
shutil.copy("%s/patch%s.diff" % (O, K), D + "/patch.diff")
for f in glob.glob("%s/demo%s.*" % (O, K)):
    if f.endswith(".tcl") or f.endswith(".rs"):
        shutil.copy(f, D + "/demo" + os.path.splitext(f)[1])
try:
    meta = json.load(open("%s/meta%s.json" % (O, K)))
except Exception as e:
    meta = {"note": "agent meta unreadable: %s" % e}
meta["confirmed"] = {"by": "tools/seed_confirm.sh in a scratch worktree", "summary": r.stdout.strip().splitlines()[0] if r.stdout.strip() else "",
                     "demo_original_output": open("%s/confirm%s.orig.out" % (O, K)).read()[:3000],
                     "demo_mutated_output": open("%s/confirm%s.mut.out" % (O, K)).read()[:3000]}
res = {}
for line in r2.stdout.splitlines():
    f = line.split()
    if len(f) >= 2 and f[1].startswith("exit="):
        res[f[0]] = {"exit": int(f[1][5:]), "line": line.strip()[:400]}
meta["checks_quick"] = res
# caught = the check exited 1 AND printed a VIOLATION line (a crash of the check is not a catch)
meta["caught_by"] = [p for p, v in res.items() if v["exit"] == 1 and "VIOLATION property=" in v["line"]]
json.dump(meta, open(D + "/meta.json", "w"), indent=1, ensure_ascii=False)
print("kept", D, "caught_by", meta["caught_by"])
