#!/bin/sh
# seed_batch.sh "Cxx k [Cyy...]" ... — process several seeds of the current round serially
for pk in "$@"; do set -- $pk; echo "== $pk"; /verif/tools/seed_keep.py "$@" 2>&1 | tail -6; done 2>&1 | grep -E "^==|exit=|NOT|kept|NO OBS|TESTS|does not apply"
