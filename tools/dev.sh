#!/bin/sh
# dev.sh Cxx tier seed [limit] — rebuild everything and list disagreements / oracle failures (development aid)
set -e
P=$1; T=${2:-quick}; S=${3:-1}; L=${4:-8}
N=$(echo $P | sed 's/C0*//')
cd "$(dirname "$0")/.."
export VERIF_ROOT="$(pwd)"
python3 tools/srcfacts.py >/dev/null
(cd harness && cargo build --release --offline 2>&1 | grep -E "^error" -A8 | head -30; cargo build --release --offline >/dev/null 2>&1) || { echo "HARNESS BUILD FAILED"; exit 1; }
(cd coq && make -j16 2>&1 | grep -v "^COQ\|^Closed" | head -30; make -j16 >/dev/null 2>&1) || { echo "COQ BUILD FAILED"; exit 1; }
(cd driver && ocamlfind ocamlopt -O3 -w -a molt_model.mli molt_model.ml driver.ml -o driver)
./harness/target/release/molt_harness run $P $T $S /tmp/$P.cases | cut -c1-300
(ulimit -s unlimited; ./driver/driver $N < /tmp/$P.cases > /tmp/$P.out)
python3 tools/cmp.py /tmp/$P.cases /tmp/$P.out $L
echo "oracle false on impl obs: $(awk -F'\t' '$2==0 && $3==0' /tmp/$P.out | wc -l); oracle false on model obs: $(awk -F'\t' '$5==0 && $3==0' /tmp/$P.out | wc -l)"
