#!/bin/sh
# seed_run.sh <patch> Cxx [Cyy ...] — apply a seeded change to /repo, run the quick checks, undo.
PATCH=$1; shift
cd /verif
git -C /repo status --short | grep -v '^??' && { echo "/repo dirty"; exit 2; }
git -C /repo apply $PATCH || exit 2
for P in "$@"; do
  ./check $P --tier quick > /tmp/seedrun.$P.out 2>&1; RC=$?
  echo "$P exit=$RC $(grep -c '^VIOLATION' /tmp/seedrun.$P.out) violation line(s): $(grep '^VIOLATION' /tmp/seedrun.$P.out | head -2 | tr '\n' ' ')"
done
git -C /repo checkout -q -- .
