#!/usr/bin/env python3
"""Print the markdown table of seeded changes (seeded/*/meta.json) for DESIGN.md section 9."""
import json, glob, os, re
rows = []
for d in sorted(glob.glob("/verif/seeded/*/")):
    name = os.path.basename(d.rstrip("/"))
    try:
        m = json.load(open(d + "meta.json"))
    except Exception:
        continue
    mech = (m.get("mechanism") or m.get("description") or "").replace("\n", " ").replace("|", "\\|")
    mech = re.sub(r"\s+", " ", mech)
    if len(mech) > 230:
        mech = mech[:227] + "..."
    files = ",".join(os.path.basename(f) for f in m.get("files", []))
    caught = ", ".join(m.get("caught_by", [])) or "— (missed)"
    first = m.get("first_run_caught_by")
    note = ""
    if first is not None and not first:
        note = " (missed at first; check strengthened)"
    elif first is not None and set(first) != set(m.get("caught_by", [])):
        note = " (first run: %s)" % (", ".join(first) or "none")
    rows.append("| %s | %s | %s | %s%s |" % (name, files, mech, caught, note))
print("| seed | file | change | caught by (quick tier) |")
print("|---|---|---|---|")
print("\n".join(rows))
