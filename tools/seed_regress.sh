#!/bin/sh
# seed_regress.sh [pattern] — re-run every kept seeded change (seeded/<name>/patch.diff) against the
# quick tier of the properties that caught it (meta.json caught_by; the seed's own property if none)
# and report seeds that are no longer caught.  /repo is restored after each.
cd /verif
PAT=${1:-*}
for d in seeded/$PAT/; do
  n=$(basename $d)
  [ -f $d/patch.diff ] || continue
  props=$(python3 -c "
import json,sys
m=json.load(open('$d/meta.json'))
c=m.get('caught_by') or [ '$n'.split('-')[0] ]
own='$n'.split('-')[0]
print(own if own in c else c[0])")
  git -C /repo status --short | grep -v '^??' >/dev/null && { echo "/repo dirty"; exit 2; }
  git -C /repo apply /verif/$d/patch.diff 2>/dev/null || { echo "$n: PATCH DOES NOT APPLY"; continue; }
  ./check $props --tier quick > /tmp/seedregress.out 2>&1; rc=$?
  git -C /repo checkout -q -- .
  if [ $rc -eq 1 ] && grep -q '^VIOLATION' /tmp/seedregress.out; then echo "$n: caught by $props"; else echo "$n: NOT CAUGHT by $props (exit $rc)"; fi
done
