#!/usr/bin/env python3
"""cmp.py cases out — development aid: list disagreements between impl_obs and model_obs."""
import sys
cases=open(sys.argv[1],encoding='utf-8').read().split('\n')
outs=open(sys.argv[2],encoding='utf-8').read().split('\n')
n=0
lim=int(sys.argv[3]) if len(sys.argv)>3 else 10
for c,o in zip(cases,outs):
    if not c: continue
    case,impl=c.split('\t'); f=o.split('\t')
    if impl!=f[0] and f[0]!='("SKIP")':
        n+=1
        if n<=lim:
            print("CASE ",case[:1500]); print(" impl ",impl[:1500]); print(" model",f[0][:1500]); print()
print("disagreements:",n,"of",len(cases)-1)
