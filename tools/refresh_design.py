#!/usr/bin/env python3
"""Refresh the generated seed table in DESIGN.md (between the SEED-TABLE markers)."""
import subprocess, re
t = subprocess.run(["/verif/tools/seed_table.py"], capture_output=True, text=True).stdout
p = "/verif/DESIGN.md"; s = open(p).read()
s = re.sub(r"<!-- SEED-TABLE-BEGIN -->.*?<!-- SEED-TABLE-END -->", lambda m: "<!-- SEED-TABLE-BEGIN -->\n" + t + "<!-- SEED-TABLE-END -->", s, flags=re.S)
open(p, "w").write(s)
