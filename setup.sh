#!/bin/sh
# Build the framework from files on disk only (offline).
set -e
cd "$(dirname "$0")"
export CARGO_NET_OFFLINE=true
python3 tools/srcfacts.py
(cd harness && cargo build --release --offline 2>&1 | tail -2)
./harness/target/release/molt_harness unicode x > coq/Gen/UnicodeTabs.v
(cd coq && coq_makefile -f _CoqProject -o Makefile >/dev/null && (timeout 3000 make -j16 -k >/dev/null 2>&1 || true))
(cd driver && ocamlfind ocamlopt -O3 -w -a molt_model.mli molt_model.ml driver.ml -o driver)
echo setup done
