(* Feasibility prototype (design phase): precedence climbing in the style of expr.rs
   expr_get_value, on token lists with opaque operands, is correct for ALL trees. *)
From Coq Require Import List Arith Bool Lia.
Import ListNotations.

Section Climb.
Variable op : Type.
Variable prec : op -> nat.
Hypothesis prec_pos : forall o, 1 <= prec o.

Inductive tok := TVal (v:nat) | TOp (o:op) | TLP | TRP.
Inductive tree := Leaf (v:nat) | Bin (o:op) (l r:tree) | Par (t:tree).

Fixpoint getv (fuel:nat) (p:nat) (ts:list tok) {struct fuel} : option (tree * list tok) :=
  match fuel with 0 => None | S f =>
    match ts with
    | TVal v :: r => loop f p (Leaf v) r
    | TLP :: r => match getv f 0 r with
                  | Some (t, TRP :: r') => loop f p (Par t) r'
                  | _ => None end
    | _ => None
    end end
with loop (fuel:nat) (p:nat) (lhs:tree) (ts:list tok) {struct fuel} : option (tree * list tok) :=
  match fuel with 0 => None | S f =>
    match ts with
    | TOp o :: r =>
        if prec o <=? p then Some (lhs, ts)
        else match getv f (prec o) r with
             | Some (rhs, r') => loop f p (Bin o lhs rhs) r'
             | None => None end
    | _ => Some (lhs, ts)
    end end.

Fixpoint flat (t:tree) : list tok :=
  match t with
  | Leaf v => [TVal v]
  | Bin o l r => flat l ++ TOp o :: flat r
  | Par t => TLP :: flat t ++ [TRP]
  end.

Definition top (t:tree) : option nat := match t with Bin o _ _ => Some (prec o) | _ => None end.
Definition ge_top (t:tree) (n:nat) := match top t with Some k => n <= k | None => True end.
Definition gt_top (t:tree) (n:nat) := match top t with Some k => n < k | None => True end.

Fixpoint WF (t:tree) : Prop :=
  match t with
  | Leaf _ => True
  | Bin o l r => WF l /\ WF r /\ ge_top l (prec o) /\ gt_top r (prec o)
  | Par t => WF t
  end.

Definition stops (p:nat) (rest:list tok) :=
  match rest with TOp o :: _ => prec o <= p | TVal _ :: _ => False | TLP :: _ => False | _ => True end.

Fixpoint size (t:tree) : nat := match t with Leaf _ => 1 | Bin _ l r => size l + size r + 1 | Par t => size t + 2 end.

Lemma fuel_mono : forall f,
  (forall p ts r, getv f p ts = Some r -> forall f', f <= f' -> getv f' p ts = Some r) /\
  (forall p l ts r, loop f p l ts = Some r -> forall f', f <= f' -> loop f' p l ts = Some r).
Proof.
  induction f as [|f [IHg IHl]]; split.
  - intros; discriminate.
  - intros; discriminate.
  - intros p ts r H f' Hle.
    destruct f' as [|f']; [lia|]. assert (Hle' : f <= f') by lia. cbn [getv] in *.
    destruct ts as [|[v|o| |] r0]; try discriminate.
    + eapply IHl; eauto.
    + destruct (getv f 0 r0) as [[t [|[v|o| |] r1]]|] eqn:E; try discriminate.
      rewrite (IHg _ _ _ E f' Hle'). eapply IHl; eauto.
  - intros p l ts r H f' Hle.
    destruct f' as [|f']; [lia|]. assert (Hle' : f <= f') by lia. cbn [loop] in *.
    destruct ts as [|[v|o| |] r0]; auto.
    destruct (prec o <=? p); auto.
    destruct (getv f (prec o) r0) as [[rhs r']|] eqn:E; try discriminate.
    rewrite (IHg _ _ _ E f' Hle'). eapply IHl; eauto.
Qed.
Lemma getv_mono f f' p ts r : getv f p ts = Some r -> f <= f' -> getv f' p ts = Some r.
Proof. intros; eapply (proj1 (fuel_mono f)); eauto. Qed.
Lemma loop_mono f f' p l ts r : loop f p l ts = Some r -> f <= f' -> loop f' p l ts = Some r.
Proof. intros; eapply (proj2 (fuel_mono f)); eauto. Qed.

Fixpoint spine_gt (p:nat) (t:tree) : Prop :=
  match t with Bin o l _ => p < prec o /\ spine_gt p l | _ => True end.

Lemma spine_from_top : forall t p, WF t -> gt_top t p -> spine_gt p t.
Proof.
  induction t as [v|o l IHl r IHr|t IH]; cbn; intros p Hwf Hgt; auto.
  destruct Hwf as (Hl & Hr & Hge & Hgt'). unfold gt_top in Hgt; cbn in Hgt. split; [lia|].
  apply IHl; auto. unfold gt_top, ge_top in *. destruct (top l); auto. lia.
Qed.

Lemma spine_gt_0 : forall t, spine_gt 0 t.
Proof. induction t as [v|o l IHl r IHr|t IH]; cbn; auto. Qed.

Definition parses_at (t:tree) (p:nat) := forall rest, stops p rest ->
     exists f, getv f p (flat t ++ rest) = Some (t, rest).

Lemma loop_stop f p lhs rest : stops p rest -> loop (S f) p lhs rest = Some (lhs, rest).
Proof.
  destruct rest as [|[v|o| |] r]; cbn; try tauto. intros H. apply Nat.leb_le in H. now rewrite H.
Qed.

Lemma stops_weaken p q rest : stops p rest -> p <= q -> stops q rest.
Proof. destruct rest as [|[v|o| |] r]; cbn; auto. lia. Qed.

Fixpoint plug (lhs:tree) (t:tree) : tree :=
  match t with Bin o l r => Bin o (plug lhs l) r | _ => lhs end.
Fixpoint tail_toks (t:tree) : list tok :=
  match t with Bin o l r => tail_toks l ++ TOp o :: flat r | _ => [] end.
Fixpoint latom (t:tree) : tree := match t with Bin _ l _ => latom l | _ => t end.

Lemma flat_split t : flat t = flat (latom t) ++ tail_toks t.
Proof.
  induction t as [v|o l IHl r IHr|t IH]; cbn [flat latom tail_toks].
  - now rewrite app_nil_r.
  - rewrite IHl at 1. rewrite <- app_assoc. reflexivity.
  - now rewrite app_nil_r.
Qed.
Lemma plug_latom t : plug (latom t) t = t.
Proof. induction t; cbn; auto. now rewrite IHt1. Qed.

Definition head_ok (t:tree) (rest:list tok) := match top t with Some q => stops q rest | None => True end.

(* the loop runs through the operators hanging off the left spine of t and then continues *)
Lemma loop_tail : forall n,
  (forall s, size s <= n -> WF s -> forall q, spine_gt q s -> parses_at s q) ->
  forall t, size t <= S n -> WF t ->
  forall lhs p rest res, spine_gt p t -> head_ok t rest ->
    (exists f, loop f p (plug lhs t) rest = Some res) ->
    exists f, loop f p lhs (tail_toks t ++ rest) = Some res.
Proof.
  intros n IHn. induction t as [v|o l IHl r _|t' _]; intros Hsz Hwf lhs p rest res Hsp Hh Hk; cbn [tail_toks plug] in *; auto.
  cbn in Hwf. destruct Hwf as (Hwl & Hwr & Hge & Hgt). cbn in Hsp. destruct Hsp as [Hpo Hspl].
  cbn in Hsz. rewrite <- app_assoc. cbn [app].
  apply IHl; [lia | exact Hwl | exact Hspl | | ].
  - (* head_ok l (TOp o :: ...) *)
    unfold head_ok, ge_top in *. destruct (top l); cbn; auto.
  - (* one step of the loop at TOp o *)
    assert (Hr : parses_at r (prec o)).
    { apply IHn; auto; try lia. apply spine_from_top; auto. }
    unfold head_ok in Hh; cbn in Hh.
    destruct (Hr rest Hh) as [f1 Hf1]. destruct Hk as [f2 Hf2].
    exists (S (Nat.max f1 f2)). cbn [loop].
    assert (E : prec o <=? p = false) by (apply Nat.leb_gt; lia). rewrite E.
    rewrite (getv_mono f1 (Nat.max f1 f2) _ _ _ Hf1) by lia.
    apply (loop_mono f2); [assumption|lia].
Qed.

Theorem climb_correct : forall n t, size t <= n -> WF t -> forall p, spine_gt p t -> parses_at t p.
Proof.
  induction n as [|n IHn]; intros t Hsz Hwf p Hsp rest Hst.
  { destruct t; cbn in Hsz; lia. }
  rewrite flat_split, <- app_assoc.
  assert (Hloop : exists f, loop f p (latom t) (tail_toks t ++ rest) = Some (t, rest)).
  { eapply loop_tail with (n:=n); eauto.
    - unfold head_ok. destruct t; cbn; auto. cbn in Hsp. eapply stops_weaken; eauto. lia.
    - exists 1. rewrite plug_latom. now apply loop_stop. }
  destruct Hloop as [f Hf].
  assert (Hat : forall a, a = latom t -> exists f', getv f' p (flat a ++ tail_toks t ++ rest) = Some (t, rest)).
  { intros a Ha. destruct a as [v|o l r|t'].
    - exists (S f). cbn. rewrite Ha. exact Hf.
    - exfalso. clear -Ha. induction t; cbn in Ha; try discriminate; auto.
    - (* parenthesised atom: its body is strictly smaller *)
      assert (Hsub : size t' + 2 <= size t /\ WF t').
      { clear -Ha Hwf. induction t as [v|o l IHl r IHr|t0 IH]; cbn in *; try discriminate.
        - destruct Hwf as (Hl & _). destruct (IHl Hl Ha). split; [lia|auto].
        - inversion Ha; subst. split; [lia|auto]. }
      destruct Hsub as [Hs' Hw'].
      destruct (IHn t' ltac:(lia) Hw' 0 (spine_gt_0 t') (TRP :: tail_toks t ++ rest) I) as [f1 Hf1].
      exists (S (Nat.max f1 f)). cbn [flat app getv]. rewrite <- app_assoc. cbn [app].
      rewrite (getv_mono f1 (Nat.max f1 f) _ _ _ Hf1) by lia.
      rewrite Ha. apply (loop_mono f); [assumption|lia]. }
  destruct (Hat _ eq_refl) as [f' Hf']. eauto.
Qed.

(* Corollary: a whole well-formed expression followed by end of input *)
Corollary climb_whole t : WF t -> exists f, getv f 0 (flat t) = Some (t, []).
Proof.
  intros Hwf. destruct (climb_correct (size t) t (le_n _) Hwf 0 (spine_gt_0 t) [] I) as [f Hf].
  rewrite app_nil_r in Hf. eauto.
Qed.
End Climb.
Print Assumptions climb_whole.
