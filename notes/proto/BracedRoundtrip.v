(* Feasibility prototype (design phase): braced-mode list element round trip. *)
From Coq Require Import List NArith Bool Lia Arith.
Import ListNotations.
Open Scope N_scope.

Definition char := N.
Definition str := list char.
Definition BS : char := 92.  Definition LB : char := 123.  Definition RB : char := 125.  Definition NL : char := 10.

Definition is_list_white (c:char) : bool :=
  (c =? 32) || (c =? 10) || (c =? 13) || (c =? 9) || (c =? 11) || (c =? 12).

Inductive res (A:Type) := Ok (a:A) | ErrUnmatched | ErrExtra.
Arguments Ok {A}. Arguments ErrUnmatched {A}. Arguments ErrExtra {A}.

(* list.rs parse_braced_item after the opening brace; [count] is the Rust count minus one *)
Fixpoint pbi (fuel:nat) (s:str) (count:nat) (acc:str) : res (str*str) :=
  match fuel with O => ErrUnmatched | S f =>
  match s with
  | [] => ErrUnmatched
  | c :: r =>
     if c =? BS then match r with [] => ErrUnmatched | d :: r' => pbi f r' count (d::c::acc) end
     else if c =? LB then pbi f r (S count) (c::acc)
     else if c =? RB then
        match count with
        | O => match r with
               | [] => Ok (rev acc, r)
               | n :: _ => if is_list_white n then Ok (rev acc, r) else ErrExtra
               end
        | S k => pbi f r k (c::acc)
        end
     else pbi f r count (c::acc)
  end end.

(* the repaired get_mode's brace-safety scan *)
Fixpoint scan (fuel:nat) (w:str) (depth:nat) : bool :=
  match fuel with O => false | S f =>
  match w with
  | [] => Nat.eqb depth 0
  | c :: r => if c =? BS then match r with [] => false | d :: r' => if d =? NL then false else scan f r' depth end
              else if c =? LB then scan f r (S depth)
              else if c =? RB then match depth with O => false | S k => scan f r k end
              else scan f r depth
  end end.

Definition follows_ok (rest:str) : Prop :=
  match rest with [] => True | n :: _ => is_list_white n = true end.

Lemma braced_roundtrip_gen : forall f w d acc rest,
  scan f w d = true -> follows_ok rest ->
  pbi (S f) (w ++ RB :: rest) d acc = Ok (rev acc ++ w, rest).
Proof.
  induction f as [|f IH]; intros w d acc rest Hs Hr; [discriminate|].
  destruct w as [|c r].
  - cbn in Hs. apply Nat.eqb_eq in Hs. subst d. cbn [app].
    change (pbi (S (S f)) (RB :: rest) 0%nat acc) with
      (match rest with [] => Ok (rev acc, rest) | n :: _ => if is_list_white n then Ok (rev acc, rest) else ErrExtra end).
    rewrite app_nil_r. destruct rest as [|n rest']; [reflexivity|]. cbn in Hr. rewrite Hr. reflexivity.
  - cbn [scan] in Hs. cbn [app]. 
    remember (S f) as f1. cbn [pbi]. subst f1.
    destruct (c =? BS) eqn:Eb.
    + destruct r as [|e r']; [discriminate|].
      destruct (e =? NL); [discriminate|]. cbn [app].
      rewrite IH by assumption. cbn [rev]. rewrite <- !app_assoc. reflexivity.
    + destruct (c =? LB) eqn:El.
      * rewrite IH by assumption. cbn [rev]. rewrite <- app_assoc. reflexivity.
      * destruct (c =? RB) eqn:Er.
        -- destruct d as [|k]; [discriminate|].
           rewrite IH by assumption. cbn [rev]. rewrite <- app_assoc. reflexivity.
        -- rewrite IH by assumption. cbn [rev]. rewrite <- app_assoc. reflexivity.
Qed.

Theorem braced_item_roundtrip : forall w rest,
  scan (S (length w)) w 0 = true -> follows_ok rest ->
  pbi (S (S (length w))) (w ++ RB :: rest) 0 [] = Ok (w, rest).
Proof. intros. rewrite braced_roundtrip_gen by assumption. reflexivity. Qed.
Print Assumptions braced_item_roundtrip.

(* non-vacuity: a word with nested braces and an escaped brace is brace-safe and round-trips *)
Example ex1 : scan 20 [97; LB; 98; RB; BS; LB; 32] 0 = true. Proof. reflexivity. Qed.
