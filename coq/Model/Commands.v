(* Commands.v — model of commands.rs (and the command-table part of interp.rs) for an arbitrary
   evaluator of bodies and expressions [rec] (open recursion; tied in Interp.v).
   Written for the code after the repairs listed in DESIGN.md section 6. *)
From Molt Require Import Model.Base Model.Tokenizer Model.ListSyn Model.Float Model.Value
  Model.State Model.Script Model.Parser Model.Eval.
From Molt Require Gen.SrcFacts.
Local Open Scope N_scope.

(* Unicode-dependent functions of Rust std, supplied from the regenerated tables *)
Record uni := {
  u_alnum : char -> bool;          (* char::is_alphanumeric *)
  u_alpha : char -> bool;          (* char::is_alphabetic *)
  u_lower : str -> str;            (* str::to_lowercase *)
  u_upper : str -> str }.          (* str::to_uppercase *)

Record recfns := {
  r_eval : interp -> value -> interp * res value;     (* Interp::eval_value *)
  r_expr : interp -> value -> interp * res value;     (* Interp::expr *)
  r_loop : nat }.                                      (* iteration budget of while/for *)

Definition M (A : Type) := (interp * res A)%type.

Definition bind {A B} (m : M A) (k : interp -> A -> M B) : M B :=
  match m with
  | (st, Ok a) => k st a
  | (st, Err e) => (st, Err e)
  | (st, Panic p) => (st, Panic p)
  | (st, Fuel) => (st, Fuel)
  end.
Notation "'do' ( st , x ) <- m ; k" := (bind m (fun st x => k))
  (at level 200, st name, x name, m at level 100, k at level 200).

Definition ret {A} (st : interp) (a : A) : M A := (st, Ok a).
Definition fail {A} (st : interp) (msg : str) : M A := (st, err msg).
Definition lift {A} (st : interp) (r : res A) : M A := (st, r).
Definition lift_sum {A} (st : interp) (r : str + A) : M A := (st, of_sum r).

Definition ok_empty (st : interp) : M value := ret st v_empty.

(* ---------- check_args ---------- *)
Definition args_spec (fname : string) : option (Z * Z * Z * string) :=
  match find (fun e => String.eqb (fst (fst e)) fname) Gen.SrcFacts.args_table with
  | Some (_, (a, b, c), sig) => Some (a, b, c, sig)
  | None => None
  end.

Definition wrong_args_msg (namec : nat) (argv : list value) (sig : str) : str :=
  lit "wrong # args: should be """ ++ list_to_string (map as_str (firstn namec argv))
      ++ [c_space] ++ sig ++ lit """".

Definition check_args_raw (namec minv maxv : nat) (sig : str) (argv : list value) : res unit :=
  let n := length argv in
  if Nat.ltb n minv || (Nat.ltb 0 maxv && Nat.ltb maxv n) then err (wrong_args_msg namec argv sig)
  else Ok tt.

(* the limits of each command come from the regenerated table of check_args calls *)
Definition check_args (fname : string) (argv : list value) : res unit :=
  match args_spec fname with
  | Some (namec, minv, maxv, sig) =>
      check_args_raw (Z.to_nat namec) (Z.to_nat minv) (Z.to_nat maxv) (lit sig) argv
  | None => Panic (lit "check_args: no table entry")
  end.

Definition arg (argv : list value) (n : nat) : value := nth n argv v_empty.

(* ---------- variable access through names that may carry an index ---------- *)
Definition as_var_name (v : value) : str * option str := parse_varname_literal (as_str v).

Definition st_var (st : interp) (name : value) : res value :=
  match as_var_name name with
  | (n, Some i) => st_element st n i
  | (n, None) => st_scalar st n
  end.

Definition st_set_var (st : interp) (name : value) (v : value) : M unit :=
  match as_var_name name with
  | (n, Some i) => st_set_element st n i v
  | (n, None) => st_set_scalar st n v
  end.

Definition st_set_var_return (st : interp) (name : value) (v : value) : M value :=
  do (st1, _) <- st_set_var st name v; ret st1 v.

Definition st_var_exists (st : interp) (name : value) : bool :=
  match as_var_name name with
  | (n, Some i) => sc_elem_exists (i_scopes st) n i
  | (n, None) => sc_exists (i_scopes st) n
  end.

Definition st_unset_var (st : interp) (name : value) : interp :=
  match as_var_name name with
  | (n, Some i) => set_scopes st (sc_unset_element (i_scopes st) n i)
  | (n, None) => set_scopes st (sc_unset (i_scopes st) n)
  end.

(* ---------- subcommand ensembles ---------- *)
Fixpoint ensemble_names (l : list str) : str :=
  match l with
  | [] => []
  | [a] => a
  | [a; b] => a ++ lit ", or " ++ b
  | a :: r => a ++ lit ", " ++ ensemble_names r
  end.

Definition unknown_subcommand (names : list str) (sub : str) : str :=
  lit "unknown or ambiguous subcommand """ ++ sub ++ lit """: must be " ++ ensemble_names names.

Definition array_subcommands : list str :=
  map lit ["exists"; "get"; "names"; "set"; "size"; "unset"]%string.
Definition dict_subcommands : list str :=
  map lit ["create"; "exists"; "get"; "keys"; "remove"; "set"; "size"; "unset"; "values"]%string.
Definition info_subcommands : list str :=
  map lit ["args"; "body"; "cmdtype"; "commands"; "complete"; "default"; "exists"; "globals";
           "locals"; "procs"; "vars"]%string.
Definition string_subcommands : list str :=
  map lit ["cat"; "compare"; "equal"; "first"; "last"; "length"; "map"; "range"; "tolower";
           "toupper"; "trim"; "trimleft"; "trimright"]%string.

(* call_subcommand's own argument check *)
Definition check_subcommand (argv : list value) : res unit :=
  check_args_raw 1 2 0 (lit "subcommand ?arg ...?") argv.

Definition is_sub (argv : list value) (name : string) : bool := str_eqb (as_str (arg argv 1)) (lit name).

(* ---------- command table (interp.rs) ---------- *)
Definition ctx_incr (m : list (N * N)) (id : N) : list (N * N) :=
  map (fun e => if fst e =? id then (fst e, snd e + 1) else e) m.
Definition ctx_get (m : list (N * N)) (id : N) : option N :=
  match find (fun e => fst e =? id) m with Some e => Some (snd e) | None => None end.
(* decrement; drop the context when the count reaches zero *)
Definition ctx_decr (m : list (N * N)) (id : N) : list (N * N) :=
  flat_map (fun e => if fst e =? id then (if snd e <=? 1 then [] else [(fst e, snd e - 1)]) else [e]) m.

(* releases the context reference held by the command currently bound to [name], if any
   (after the fix: every operation that unbinds a command does this) *)
Definition release_binding (st : interp) (name : str) : interp :=
  match assoc_get name (i_cmds st) with
  | Some (CmdNative _ ctx) => if ctx =? 0 then st else set_ctx st (ctx_decr (i_ctx st) ctx) (i_last_ctx st)
  | _ => st
  end.

Definition save_context (st : interp) : interp * N :=
  let id := i_last_ctx st + 1 in
  (set_ctx st (i_ctx st ++ [(id, 0)]) id, id).

Definition add_context_command (st : interp) (name : str) (n : native) (ctx : N) : M unit :=
  if ctx =? 0 then
    let st0 := release_binding st name in
    ret (set_cmds st0 (assoc_set name (CmdNative n 0) (i_cmds st0))) tt
  else
    match ctx_get (i_ctx st) ctx with
    | None => (st, Panic (lit "unknown context ID"))
    | Some _ =>
        let st1 := set_ctx st (ctx_incr (i_ctx st) ctx) (i_last_ctx st) in
        let st0 := release_binding st1 name in
        ret (set_cmds st0 (assoc_set name (CmdNative n ctx) (i_cmds st0))) tt
    end.

Definition add_proc (st : interp) (name : str) (parms : list value) (body : value) : interp :=
  let st0 := release_binding st name in
  set_cmds st0 (assoc_set name (CmdProc parms body) (i_cmds st0)).

Definition has_command (st : interp) (name : str) : bool :=
  match assoc_get name (i_cmds st) with Some _ => true | None => false end.

Definition rename_command (st : interp) (old new : str) : interp :=
  match assoc_get old (i_cmds st) with
  | Some cmd =>
      let st1 := set_cmds st (assoc_remove old (i_cmds st)) in
      let st0 := release_binding st1 new in
      set_cmds st0 (assoc_set new cmd (i_cmds st0))
  | None => st
  end.

Definition remove_command (st : interp) (name : str) : M unit :=
  match assoc_get name (i_cmds st) with
  | None => (st, Panic (lit "undefined command"))
  | Some _ =>
      let st0 := release_binding st name in
      ret (set_cmds st0 (assoc_remove name (i_cmds st0))) tt
  end.

(* ---------- return_options ---------- *)
Definition opt (k : string) (v : value) : value * value := (VStr (lit k), v).

(* `x as MoltInt`: the two's-complement reading of a machine word as a signed 64-bit integer
   (the usize level of an exception is stored in the options dictionary through this cast) *)
Definition to_i64 (z : Z) : Z := let m := (z mod 2 ^ 64)%Z in if (m <? 2 ^ 63)%Z then m else (m - 2 ^ 64)%Z.

Definition return_options (r : res value) : res value :=
  match r with
  | Ok _ => Ok (VDict [opt "-code" (VStr (lit "0")); opt "-level" (VStr (lit "0"))])
  | Err e =>
      let level := opt "-level" (VInt (to_i64 (Z.of_N (x_level e)))) in
      match x_code e with
      | COkay => Panic (lit "return_options: Okay")
      | CError =>
          match x_data e with
          | Some d => Ok (VDict [opt "-code" (VStr (lit "1")); opt "-errorcode" (ed_code d);
                                 opt "-errorinfo" (VStr (ed_info d)); level])
          | None => Panic (lit "Error has no error data")
          end
      | CReturn =>
          let code := opt "-code" (VInt (rcode_as_int (x_next e))) in
          match x_data e with
          | Some d => Ok (VDict [code; opt "-errorcode" (ed_code d); opt "-errorinfo" (VStr (ed_info d)); level])
          | None => Ok (VDict [code; level])
          end
      | CBreak => Ok (VDict [opt "-code" (VStr (lit "3")); level])
      | CContinue => Ok (VDict [opt "-code" (VStr (lit "4")); level])
      | COther n => Ok (VDict [opt "-code" (VInt n); level])
      end
  | Panic p => Panic p
  | Fuel => Fuel
  end.

(* ---------- dict.rs ---------- *)
Fixpoint dict_get (d : list (value * value)) (k : value) : option value :=
  match d with
  | [] => None
  | (k', v) :: r => if v_eqb k' k then Some v else dict_get r k
  end.

Fixpoint dict_remove (d : list (value * value)) (k : value) : list (value * value) :=
  match d with
  | [] => []
  | (k', v) :: r => if v_eqb k' k then r else (k', v) :: dict_remove r k
  end.

Definition key_not_known (k : value) : str := lit "key """ ++ as_str k ++ lit """ not known in dictionary".

Fixpoint dict_path_insert (dv : value) (keys : list value) (v : value) : res value :=
  match keys with
  | [] => Panic (lit "dict_path_insert: no keys")
  | [k] => match v_as_dict dv with
           | inr d => Ok (VDict (dict_insert d k v))
           | inl m => err m
           end
  | k :: rest =>
      match v_as_dict dv with
      | inr d =>
          let sub := match dict_get d k with Some x => x | None => VDict [] end in
          match dict_path_insert sub rest v with
          | Ok nv => Ok (VDict (dict_insert d k nv))
          | other => other
          end
      | inl m => err m
      end
  end.

Fixpoint dict_path_remove (dv : value) (keys : list value) : res value :=
  match keys with
  | [] => Panic (lit "dict_path_remove: no keys")
  | [k] => match v_as_dict dv with
           | inr d => Ok (VDict (dict_remove d k))
           | inl m => err m
           end
  | k :: rest =>
      match v_as_dict dv with
      | inr d =>
          match dict_get d k with
          | Some sub =>
              match dict_path_remove sub rest with
              | Ok nv => Ok (VDict (dict_insert d k nv))
              | other => other
              end
          | None => err (key_not_known k)
          end
      | inl m => err m
      end
  end.

Section WithRec.
Variable U : uni.
Variable rec : recfns.

(* ---------- simple commands ---------- *)
Definition cmd_append (st : interp) (argv : list value) : M value :=
  do (st, _) <- lift st (check_args "cmd_append" argv);
  let old := match st_var st (arg argv 1) with Ok v => as_str v | _ => [] end in
  st_set_var_return st (arg argv 1) (VStr (old ++ concat_str (map as_str (skipn 2 argv)))).

Definition cmd_array (st : interp) (argv : list value) : M value :=
  do (st, _) <- lift st (check_subcommand argv);
  let name := as_str (arg argv 2) in
  if is_sub argv "exists" then
    do (st, _) <- lift st (check_args "cmd_array_exists" argv);
    ret st (VBool (sc_array_exists (i_scopes st) name))
  else if is_sub argv "names" then
    do (st, _) <- lift st (check_args "cmd_array_names" argv);
    ret st (VList (map (fun kv => VStr (fst kv)) (sc_array_map (i_scopes st) name)))
  else if is_sub argv "get" then
    do (st, _) <- lift st (check_args "cmd_array_get" argv);
    ret st (VList (flat_map (fun kv => [VStr (fst kv); snd kv]) (sc_array_map (i_scopes st) name)))
  else if is_sub argv "set" then
    do (st, _) <- lift st (check_args "cmd_array_set" argv);
    match as_var_name (arg argv 2) with
    | (n, None) =>
        do (st, l) <- lift_sum st (v_as_list (arg argv 3));
        if Nat.even (length l) then
          let '(ss, r) := sc_array_set (i_scopes st) n l in
          do (st, _) <- lift (set_scopes st ss) r; ok_empty st
        else fail st (lit "list must have an even number of elements")
    | (n, Some _) =>
        let '(ss, r) := sc_array_set (i_scopes st) n [] in
        do (st, _) <- lift (set_scopes st ss) r;
        fail st (lit "can't set """ ++ as_str (arg argv 2) ++ lit """: variable isn't array")
    end
  else if is_sub argv "size" then
    do (st, _) <- lift st (check_args "cmd_array_size" argv);
    ret st (VInt (Z.of_nat (length (sc_array_map (i_scopes st) name))))
  else if is_sub argv "unset" then
    do (st, _) <- lift st (check_args "cmd_array_unset" argv);
    if Nat.eqb (length argv) 3 then ok_empty (set_scopes st (sc_array_unset (i_scopes st) name))
    else ok_empty (set_scopes st (sc_unset_element (i_scopes st) name (as_str (arg argv 3))))
  else fail st (unknown_subcommand array_subcommands (as_str (arg argv 1))).

Definition cmd_assert_eq (st : interp) (argv : list value) : M value :=
  do (st, _) <- lift st (check_args "cmd_assert_eq" argv);
  if v_eqb (arg argv 1) (arg argv 2) then ok_empty st
  else fail st (lit "assertion failed: received """ ++ as_str (arg argv 1) ++ lit """, expected """
                ++ as_str (arg argv 2) ++ lit """.").

Definition cmd_break (st : interp) (argv : list value) : M value :=
  do (st, _) <- lift st (check_args "cmd_break" argv); (st, Err molt_break).

Definition cmd_continue (st : interp) (argv : list value) : M value :=
  do (st, _) <- lift st (check_args "cmd_continue" argv); (st, Err molt_continue).

Definition cmd_catch (st : interp) (argv : list value) : M value :=
  do (st, _) <- lift st (check_args "cmd_catch" argv);
  let '(st1, result) := r_eval rec st (arg argv 1) in
  let cv : res (Z * value) :=
    match result with
    | Ok v => Ok (0%Z, v)
    | Err e =>
        match x_code e with
        | COkay => Panic (lit "catch: Okay exception")
        | c => Ok (rcode_as_int c, x_value e)
        end
    | Panic p => Panic p
    | Fuel => Fuel
    end in
  do (st1, cv) <- lift st1 cv;
  do (st2, _) <- (if Nat.leb 3 (length argv) then st_set_var st1 (arg argv 2) (snd cv) else ret st1 tt);
  do (st3, _) <- (if Nat.eqb (length argv) 4
                  then do (st2, o) <- lift st2 (return_options result); st_set_var st2 (arg argv 3) o
                  else ret st2 tt);
  ret st3 (VInt (fst cv)).

Definition cmd_dict (st : interp) (argv : list value) : M value :=
  do (st, _) <- lift st (check_subcommand argv);
  if is_sub argv "create" then
    if negb (Nat.even (length argv)) then
      fail st (lit "wrong # args: should be """ ++ list_to_string (map as_str (firstn 2 argv))
               ++ lit " ?key value?""")
    else ret st (VDict (list_to_dict (skipn 2 argv)))
  else if is_sub argv "exists" then
    do (st, _) <- lift st (check_args "cmd_dict_exists" argv);
    ret st (VBool ((fix go (v : value) (ks : list value) : bool :=
                      match ks with
                      | [] => true
                      | k :: r => match v_as_dict v with
                                  | inr d => match dict_get d k with Some x => go x r | None => false end
                                  | inl _ => false
                                  end
                      end) (arg argv 2) (skipn 3 argv)))
  else if is_sub argv "get" then
    do (st, _) <- lift st (check_args "cmd_dict_get" argv);
    lift st ((fix go (v : value) (ks : list value) : res value :=
                match ks with
                | [] => Ok v
                | k :: r => match v_as_dict v with
                            | inr d => match dict_get d k with
                                       | Some x => go x r
                                       | None => err (key_not_known k)
                                       end
                            | inl m => err m
                            end
                end) (arg argv 2) (skipn 3 argv))
  else if is_sub argv "keys" then
    do (st, _) <- lift st (check_args "cmd_dict_keys" argv);
    do (st, d) <- lift_sum st (v_as_dict (arg argv 2)); ret st (VList (map fst d))
  else if is_sub argv "remove" then
    do (st, _) <- lift st (check_args "cmd_dict_remove" argv);
    do (st, d) <- lift_sum st (v_as_dict (arg argv 2));
    ret st (VDict (fold_left dict_remove (skipn 3 argv) d))
  else if is_sub argv "set" then
    do (st, _) <- lift st (check_args "cmd_dict_set" argv);
    let v := last argv v_empty in
    let keys := removelast (skipn 3 argv) in
    let old := match st_var st (arg argv 2) with Ok o => o | _ => VDict [] end in
    do (st, nv) <- lift st (dict_path_insert old keys v);
    st_set_var_return st (arg argv 2) nv
  else if is_sub argv "size" then
    do (st, _) <- lift st (check_args "cmd_dict_size" argv);
    do (st, d) <- lift_sum st (v_as_dict (arg argv 2)); ret st (VInt (Z.of_nat (length d)))
  else if is_sub argv "unset" then
    do (st, _) <- lift st (check_args "cmd_dict_unset" argv);
    let old := match st_var st (arg argv 2) with Ok o => o | _ => VDict [] end in
    do (st, nv) <- lift st (dict_path_remove old (skipn 3 argv));
    st_set_var_return st (arg argv 2) nv
  else if is_sub argv "values" then
    do (st, _) <- lift st (check_args "cmd_dict_values" argv);
    do (st, d) <- lift_sum st (v_as_dict (arg argv 2)); ret st (VList (map snd d))
  else fail st (unknown_subcommand dict_subcommands (as_str (arg argv 1))).

Definition cmd_error (st : interp) (argv : list value) : M value :=
  do (st, _) <- lift st (check_args "cmd_error" argv); (st, Err (molt_err_v (arg argv 1))).

Definition cmd_expr (st : interp) (argv : list value) : M value :=
  do (st, _) <- lift st (check_args "cmd_expr" argv); r_expr rec st (arg argv 1).

(* Interp::expr_bool *)
Definition expr_bool (st : interp) (e : value) : M bool :=
  do (st, v) <- r_expr rec st e; lift_sum st (v_as_bool v).

(* what a loop does with the outcome of its body: Some true = go on, Some false = stop *)
Definition loop_body_outcome (r : res value) : option bool :=
  match r with
  | Ok _ => Some true
  | Err e => match x_code e with CBreak => Some false | CContinue => Some true | _ => None end
  | _ => None
  end.

Fixpoint while_loop (n : nat) (st : interp) (test body : value) : M value :=
  match n with
  | O => (st, Fuel)
  | S k =>
      do (st, b) <- expr_bool st test;
      if b then
        let '(st1, r) := r_eval rec st body in
        match loop_body_outcome r with
        | Some true => while_loop k st1 test body
        | Some false => ok_empty st1
        | None => (st1, r)
        end
      else ok_empty st
  end.

Definition cmd_while (st : interp) (argv : list value) : M value :=
  do (st, _) <- lift st (check_args "cmd_while" argv);
  while_loop (r_loop rec) st (arg argv 1) (arg argv 2).

Fixpoint for_loop (n : nat) (st : interp) (test next body : value) : M value :=
  match n with
  | O => (st, Fuel)
  | S k =>
      do (st, b) <- expr_bool st test;
      if b then
        let '(st1, r) := r_eval rec st body in
        match loop_body_outcome r with
        | Some true =>
            let '(st2, r2) := r_eval rec st1 next in
            match r2 with
            | Ok _ => for_loop k st2 test next body
            | Err e =>
                match x_code e with
                | CBreak => ok_empty st2
                | CContinue => fail st2 (lit "invoked ""continue"" outside of a loop")
                | _ => (st2, r2)
                end
            | _ => (st2, r2)
            end
        | Some false => ok_empty st1
        | None => (st1, r)
        end
      else ok_empty st
  end.

Definition cmd_for (st : interp) (argv : list value) : M value :=
  do (st, _) <- lift st (check_args "cmd_for" argv);
  do (st, _) <- r_eval rec st (arg argv 1);
  for_loop (r_loop rec) st (arg argv 2) (arg argv 3) (arg argv 4).

(* foreach: one iteration assigns the next |vars| elements, padding with empty strings *)
Fixpoint assign_vars (st : interp) (vars : list value) (l : list value) : M (list value) :=
  match vars with
  | [] => ret st l
  | v :: vs =>
      match l with
      | x :: r => do (st, _) <- st_set_var st v x; assign_vars st vs r
      | [] => do (st, _) <- st_set_var st v v_empty; assign_vars st vs []
      end
  end.

Fixpoint foreach_loop (n : nat) (st : interp) (vars l : list value) (body : value) : M value :=
  match n with
  | O => (st, Fuel)
  | S k =>
      match l with
      | [] => ok_empty st
      | _ =>
          do (st, rest) <- assign_vars st vars l;
          let '(st1, r) := r_eval rec st body in
          match loop_body_outcome r with
          | Some true => foreach_loop k st1 vars rest body
          | Some false => ok_empty st1
          | None => (st1, r)
          end
      end
  end.

Definition cmd_foreach (st : interp) (argv : list value) : M value :=
  do (st, _) <- lift st (check_args "cmd_foreach" argv);
  do (st, vars) <- lift_sum st (v_as_list (arg argv 1));
  do (st, l) <- lift_sum st (v_as_list (arg argv 2));
  match vars with
  | [] => fail st (lit "foreach varlist is empty")
  | _ => foreach_loop (S (length l)) st vars l (arg argv 3)
  end.

Definition cmd_global (st : interp) (argv : list value) : M value :=
  if Nat.ltb 0 (sc_current (i_scopes st)) then
    ok_empty (set_scopes st (fold_left (fun ss n => sc_upvar ss O (as_str n)) (skipn 1 argv) (i_scopes st)))
  else ok_empty st.

(* cmd_if: the IfWants state machine *)
Inductive if_wants := WExpr | WThenBody | WSkipThen | WElseClause | WElseBody.

Definition is_word (argv : list value) (i : nat) (w : string) : bool := str_eqb (as_str (arg argv i)) (lit w).

Fixpoint if_machine (fuel : nat) (st : interp) (argv : list value) (argi : nat) (wants : if_wants) : M value :=
  match fuel with
  | O => (st, Fuel)
  | S f =>
      let n := length argv in
      let finish (st : interp) (argi : nat) (wants : if_wants) : M value :=
        if Nat.ltb argi n then fail st (lit "wrong # args: extra words after ""else"" clause in ""if"" command")
        else
          match wants with
          | WExpr => fail st (lit "wrong # args: no expression after """ ++ as_str (arg argv (argi - 1)) ++ lit """ argument")
          | WThenBody | WSkipThen =>
              fail st (lit "wrong # args: no script following after """ ++ as_str (arg argv (argi - 1)) ++ lit """ argument")
          | _ => ok_empty st
          end in
      if negb (Nat.ltb argi n) then finish st argi wants
      else
        match wants with
        | WExpr =>
            do (st, b) <- expr_bool st (arg argv argi);
            if_machine f st argv (S argi) (if b then WThenBody else WSkipThen)
        | WThenBody =>
            let argi := if is_word argv argi "then" then S argi else argi in
            if Nat.ltb argi n then r_eval rec st (arg argv argi) else finish st argi wants
        | WSkipThen =>
            let argi := if is_word argv argi "then" then S argi else argi in
            if Nat.ltb argi n then if_machine f st argv (S argi) WElseClause
            else if_machine f st argv argi WSkipThen
        | WElseClause =>
            if is_word argv argi "elseif" then if_machine f st argv (S argi) WExpr
            else if_machine f st argv argi WElseBody
        | WElseBody =>
            if is_word argv argi "else" then
              let argi := S argi in
              if Nat.eqb argi n then
                fail st (lit "wrong # args: no script following after """ ++ as_str (arg argv (argi - 1)) ++ lit """ argument")
              else r_eval rec st (arg argv argi)
            else r_eval rec st (arg argv argi)
        end
  end.

Definition cmd_if (st : interp) (argv : list value) : M value :=
  if_machine (S (2 * length argv)) st argv 1 WExpr.

Definition cmd_incr (st : interp) (argv : list value) : M value :=
  do (st, _) <- lift st (check_args "cmd_incr" argv);
  do (st, incr) <- (if Nat.eqb (length argv) 3 then lift_sum st (v_as_int (arg argv 2)) else ret st 1%Z);
  do (st, old) <- (match st_var st (arg argv 1) with
                   | Ok v => lift_sum st (v_as_int v)
                   | _ => ret st 0%Z
                   end);
  let nv := (incr + old)%Z in
  if in_i64 nv then st_set_var_return st (arg argv 1) (VInt nv) else fail st (lit "integer overflow").

(* proc introspection *)
Definition not_a_proc (name : str) : str := lit """" ++ name ++ lit """ isn't a procedure".

Definition spec_name (p : value) : value :=
  match v_as_list p with inr (n :: _) => n | _ => v_empty end.

Definition cmd_info (st : interp) (argv : list value) : M value :=
  do (st, _) <- lift st (check_subcommand argv);
  let a2 := as_str (arg argv 2) in
  if is_sub argv "args" then
    do (st, _) <- lift st (check_args "cmd_info_args" argv);
    match assoc_get a2 (i_cmds st) with
    | Some (CmdProc parms _) => ret st (VList (map spec_name parms))
    | _ => fail st (not_a_proc a2)
    end
  else if is_sub argv "body" then
    do (st, _) <- lift st (check_args "cmd_info_body" argv);
    match assoc_get a2 (i_cmds st) with
    | Some (CmdProc _ body) => ret st body
    | _ => fail st (not_a_proc a2)
    end
  else if is_sub argv "cmdtype" then
    do (st, _) <- lift st (check_args "cmd_info_cmdtype" argv);
    match assoc_get a2 (i_cmds st) with
    | Some (CmdProc _ _) => ret st (VStr (lit "proc"))
    | Some (CmdNative _ _) => ret st (VStr (lit "native"))
    | None => fail st (lit """" ++ a2 ++ lit """ isn't a command")
    end
  else if is_sub argv "commands" then
    ret st (VList (map (fun kv => VStr (fst kv)) (i_cmds st)))
  else if is_sub argv "complete" then
    do (st, _) <- lift st (check_args "cmd_info_complete" argv);
    ret st (VBool (match parse (u_alnum U) a2 with POk _ _ => true | _ => false end))
  else if is_sub argv "default" then
    do (st, _) <- lift st (check_args "cmd_info_default" argv);
    match assoc_get a2 (i_cmds st) with
    | Some (CmdProc parms _) =>
        let a3 := as_str (arg argv 3) in
        let found :=
          (fix go (ps : list value) : res (option (option value)) :=
             match ps with
             | [] => Ok None
             | p :: r =>
                 match v_as_list p with
                 | inr (n :: rest) =>
                     if str_eqb (as_str n) a3 then
                       match rest with
                       | [d] => Ok (Some (Some d))
                       | _ => Ok (Some None)
                       end
                     else go r
                 | inr [] => Panic (lit "proc_default: empty spec")
                 | inl m => err m
                 end
             end) parms in
        do (st, f) <- lift st found;
        match f with
        | Some (Some d) => do (st, _) <- st_set_var st (arg argv 4) d; ret st (VInt 1)
        | Some None => do (st, _) <- st_set_var st (arg argv 4) v_empty; ret st (VInt 0)
        | None => fail st (lit "procedure """ ++ a2 ++ lit """ doesn't have an argument """ ++ a3 ++ lit """")
        end
    | _ => fail st (not_a_proc a2)
    end
  else if is_sub argv "exists" then
    do (st, _) <- lift st (check_args "cmd_info_exists" argv);
    ret st (VBool (st_var_exists st (arg argv 2)))
  else if is_sub argv "globals" then ret st (VList (map VStr (sc_vars_in_global (i_scopes st))))
  else if is_sub argv "locals" then ret st (VList (map VStr (sc_vars_in_local (i_scopes st))))
  else if is_sub argv "procs" then
    ret st (VList (map (fun kv => VStr (fst kv)) (filter (fun kv => is_proc (snd kv)) (i_cmds st))))
  else if is_sub argv "vars" then ret st (VList (map VStr (sc_vars_in_scope (i_scopes st))))
  else fail st (unknown_subcommand info_subcommands (as_str (arg argv 1))).

Definition cmd_join (st : interp) (argv : list value) : M value :=
  do (st, _) <- lift st (check_args "cmd_join" argv);
  do (st, l) <- lift_sum st (v_as_list (arg argv 1));
  let sep := if Nat.eqb (length argv) 3 then as_str (arg argv 2) else [c_space] in
  ret st (VStr (join_str sep (map as_str l))).

Definition cmd_lappend (st : interp) (argv : list value) : M value :=
  do (st, _) <- lift st (check_args "cmd_lappend" argv);
  do (st, l) <- (match st_var st (arg argv 1) with
                 | Ok v => lift_sum st (v_as_list v)
                 | _ => ret st []
                 end);
  st_set_var_return st (arg argv 1) (VList (l ++ skipn 2 argv)).

Fixpoint lindex_into (v : value) (idx : list value) : res value :=
  match idx with
  | [] => Ok v
  | i :: r =>
      match v_as_list v with
      | inl m => err m
      | inr l =>
          match v_as_int i with
          | inl m => err m
          | inr z => if (z <? 0)%Z || (Z.of_nat (length l) <=? z)%Z then lindex_into v_empty r
                     else lindex_into (nth (Z.to_nat z) l v_empty) r
          end
      end
  end.

Definition cmd_lindex (st : interp) (argv : list value) : M value :=
  do (st, _) <- lift st (check_args "cmd_lindex" argv);
  if negb (Nat.eqb (length argv) 3) then lift st (lindex_into (arg argv 1) (skipn 2 argv))
  else do (st, idx) <- lift_sum st (v_as_list (arg argv 2)); lift st (lindex_into (arg argv 1) idx).

Definition cmd_list (st : interp) (argv : list value) : M value := ret st (VList (skipn 1 argv)).

Definition cmd_llength (st : interp) (argv : list value) : M value :=
  do (st, _) <- lift st (check_args "cmd_llength" argv);
  do (st, l) <- lift_sum st (v_as_list (arg argv 1)); ret st (VInt (Z.of_nat (length l))).

Definition cmd_proc (st : interp) (argv : list value) : M value :=
  do (st, _) <- lift st (check_args "cmd_proc" argv);
  do (st, args) <- lift_sum st (v_as_list (arg argv 2));
  let bad := (fix go (l : list value) : res unit :=
                match l with
                | [] => Ok tt
                | a :: r =>
                    match v_as_list a with
                    | inl m => err m
                    | inr [] => err (lit "argument with no name")
                    | inr (_ :: _ :: _ :: _) =>
                        err (lit "too many fields in argument specifier """ ++ as_str a ++ lit """")
                    | inr _ => go r
                    end
                end) args in
  do (st, _) <- lift st bad;
  ok_empty (add_proc st (as_str (arg argv 1)) args (arg argv 3)).

Definition cmd_puts (st : interp) (argv : list value) : M value :=
  do (st, _) <- lift st (check_args "cmd_puts" argv); ok_empty st.

Definition cmd_rename (st : interp) (argv : list value) : M value :=
  do (st, _) <- lift st (check_args "cmd_rename" argv);
  let old := as_str (arg argv 1) in
  let new := as_str (arg argv 2) in
  if negb (has_command st old) then fail st (lit "can't rename """ ++ old ++ lit """: command doesn't exist")
  else
    match new with
    | [] => do (st, _) <- remove_command st old; ok_empty st
    | _ => ok_empty (rename_command st old new)
    end.

(* i64 -> usize cast of the -level value *)
Definition level_of_int (z : Z) : N := Z.to_N (z mod 2 ^ 64)%Z.

Record ret_opts := { ro_code : rcode; ro_level : Z; ro_ecode : option value; ro_einfo : option value }.

Fixpoint return_options_parse (l : list value) (o : ret_opts) : res ret_opts :=
  match l with
  | k :: v :: r =>
      let ks := as_str k in
      if str_eqb ks (lit "-code") then
        match rcode_from_str (as_str v) with
        | Some c => return_options_parse r {| ro_code := c; ro_level := ro_level o; ro_ecode := ro_ecode o; ro_einfo := ro_einfo o |}
        | None => err (lit "invalid result code: """ ++ as_str v ++ lit """")
        end
      else if str_eqb ks (lit "-errorcode") then
        return_options_parse r {| ro_code := ro_code o; ro_level := ro_level o; ro_ecode := Some v; ro_einfo := ro_einfo o |}
      else if str_eqb ks (lit "-errorinfo") then
        return_options_parse r {| ro_code := ro_code o; ro_level := ro_level o; ro_ecode := ro_ecode o; ro_einfo := Some v |}
      else if str_eqb ks (lit "-level") then
        match v_as_int v with
        | inr z => return_options_parse r {| ro_code := ro_code o; ro_level := z; ro_ecode := ro_ecode o; ro_einfo := ro_einfo o |}
        | inl m => err m
        end
      else err (lit "invalid return option: """ ++ ks ++ lit """")
  | _ => Ok o
  end.

Definition cmd_return (st : interp) (argv : list value) : M value :=
  do (st, _) <- lift st (check_args "cmd_return" argv);
  match argv with
  | [_] => (st, Err (molt_return_ext v_empty 1 COkay))
  | _ =>
      let '(rv, opts) :=
        if Nat.even (length argv) then (last argv v_empty, removelast (skipn 1 argv))
        else (v_empty, skipn 1 argv) in
      do (st, o) <- lift st (return_options_parse opts
                               {| ro_code := COkay; ro_level := 1; ro_ecode := None; ro_einfo := None |});
      let level := level_of_int (ro_level o) in
      if rcode_eqb (ro_code o) CError then
        (st, Err (molt_return_err rv level (ro_ecode o) (ro_einfo o)))
      else if (level =? 0) && rcode_eqb (ro_code o) COkay then ret st rv
      else (st, Err (molt_return_ext rv level (ro_code o)))
  end.

Definition cmd_set (st : interp) (argv : list value) : M value :=
  do (st, _) <- lift st (check_args "cmd_set" argv);
  if Nat.eqb (length argv) 3 then st_set_var_return st (arg argv 1) (arg argv 2)
  else lift st (st_var st (arg argv 1)).

Definition cmd_throw (st : interp) (argv : list value) : M value :=
  do (st, _) <- lift st (check_args "cmd_throw" argv);
  (st, Err (molt_err2 (arg argv 1) (arg argv 2))).

Definition cmd_unset (st : interp) (argv : list value) : M value :=
  do (st, _) <- lift st (check_args "cmd_unset" argv);
  ok_empty
    ((fix go (st : interp) (l : list value) (options_ok : bool) : interp :=
        match l with
        | [] => st
        | a :: r =>
            let s := as_str a in
            if options_ok && str_eqb s (lit "--") then go st r false
            else if options_ok && str_eqb s (lit "-nocomplain") then go st r true
            else go (st_unset_var st a) r options_ok
        end) st (skipn 1 argv) true).

(* ---------- string ---------- *)
Definition str_nth_skip (n : nat) (s : str) : str := skipn n s.

(* first index >= start at which needle occurs in haystack (character indices) *)
Fixpoint find_from (needle hay : str) (pos : nat) : option nat :=
  if starts_with needle hay then Some pos
  else match hay with
       | [] => None
       | _ :: r => find_from needle r (S pos)
       end.

Fixpoint rfind_all (needle hay : str) (pos : nat) (best : option nat) : option nat :=
  let best' := if starts_with needle hay then Some pos else best in
  match hay with
  | [] => best'
  | _ :: r => rfind_all needle r (S pos) best'
  end.

Definition opt_index (o : option nat) : value :=
  match o with Some n => VInt (Z.of_nat n) | None => VInt (-1) end.

Definition clamp0 (z : Z) : Z := if (z <? 0)%Z then 0%Z else z.

(* [Z.to_nat z] capped at [cap] (= Nat.min (Z.to_nat z) cap), computed without ever building a
   unary number larger than [cap]: index arguments range over all of i64 *)
Definition to_nat_capped (z : Z) (cap : nat) : nat :=
  if (Z.of_nat cap <=? z)%Z then cap else Z.to_nat z.

(* util::compare_len *)
Definition compare_len (a b : str) (len : option Z) : Z :=
  let cut s := match len with
               | Some l => if (l <? 0)%Z then s else firstn (to_nat_capped l (length s)) s
               | None => s
               end in
  match str_cmp (cut a) (cut b) with Lt => (-1)%Z | Eq => 0%Z | Gt => 1%Z end.

Record cmp_opts := { co_nocase : bool; co_len : option Z }.

Fixpoint compare_options (sub : string) (l : list value) (o : cmp_opts) : res cmp_opts :=
  match l with
  | [] => Ok o
  | k :: r =>
      let ks := as_str k in
      if str_eqb ks (lit "-nocase") then compare_options sub r {| co_nocase := true; co_len := co_len o |}
      else if str_eqb ks (lit "-length") then
        match r with
        | v :: r' =>
            match v_as_int v with
            | inr z => compare_options sub r' {| co_nocase := co_nocase o; co_len := Some z |}
            | inl m => err m
            end
        | [] => err (lit "wrong # args: should be ""string " ++ lit sub
                     ++ lit " ?-nocase? ?-length length? string1 string2""")
        end
      else err (lit "bad option """ ++ ks ++ lit """: must be -nocase or -length")
  end.

Definition string_compare (sub : string) (st : interp) (argv : list value) : M Z :=
  let n := length argv in
  do (st, o) <- lift st (compare_options sub (firstn (n - 4) (skipn 2 argv))
                           {| co_nocase := false; co_len := None |});
  let a := as_str (arg argv (n - 2)) in
  let b := as_str (arg argv (n - 1)) in
  if co_nocase o then ret st (compare_len (u_lower U a) (u_lower U b) (co_len o))
  else ret st (compare_len a b (co_len o)).

(* string map: single left-to-right scan, first matching key wins *)
Fixpoint map_scan (fuel : nat) (keys : list (str * str)) (s slow : str) (acc : str) : str :=
  match fuel with
  | O => rev acc
  | S f =>
      match s, slow with
      | [], _ => rev acc
      | c :: r, _ =>
          match find (fun kv => starts_with (fst kv) slow) keys with
          | Some (k, v) => map_scan f keys (skipn (length k) s) (skipn (length k) slow) (rev v ++ acc)
          | None => map_scan f keys r (tl slow) (c :: acc)
          end
      end
  end.

(* string map -nocase: at every position the REMAINING input is lower-cased and compared with
   the (lower-cased) keys; a match consumes as many characters of the original as the key has *)
Fixpoint map_scan_nocase (fuel : nat) (lower : str -> str) (keys : list (str * str)) (s : str) (acc : str) : str :=
  match fuel with
  | O => rev acc
  | S f =>
      match s with
      | [] => rev acc
      | c :: r =>
          match find (fun kv => starts_with (fst kv) (lower s)) keys with
          | Some (k, v) => map_scan_nocase f lower keys (skipn (length k) s) (rev v ++ acc)
          | None => map_scan_nocase f lower keys r (c :: acc)
          end
      end
  end.

Definition cmd_string (st : interp) (argv : list value) : M value :=
  do (st, _) <- lift st (check_subcommand argv);
  if is_sub argv "cat" then ret st (VStr (concat_str (map as_str (skipn 2 argv))))
  else if is_sub argv "compare" then
    do (st, _) <- lift st (check_args "cmd_string_compare" argv);
    do (st, z) <- string_compare "compare" st argv; ret st (VInt z)
  else if is_sub argv "equal" then
    do (st, _) <- lift st (check_args "cmd_string_equal" argv);
    do (st, z) <- string_compare "equal" st argv; ret st (VBool (Z.eqb z 0))
  else if is_sub argv "first" then
    do (st, _) <- lift st (check_args "cmd_string_first" argv);
    let needle := as_str (arg argv 2) in
    let hay := as_str (arg argv 3) in
    do (st, start) <- (if Nat.eqb (length argv) 5
                       then do (st, z) <- lift_sum st (v_as_int (arg argv 4));
                            ret st (to_nat_capped (clamp0 z) (length hay))
                       else ret st O);
    (* char_indices().nth(start) is None when start >= length *)
    if Nat.leb (length hay) start then ret st (VInt (-1))
    else ret st (opt_index (find_from needle (skipn start hay) start))
  else if is_sub argv "last" then
    do (st, _) <- lift st (check_args "cmd_string_last" argv);
    let needle := as_str (arg argv 2) in
    let hay := as_str (arg argv 3) in
    do (st, lastv) <- (if Nat.eqb (length argv) 5
                       then do (st, z) <- lift_sum st (v_as_int (arg argv 4)); ret st (Some z)
                       else ret st None);
    match lastv with
    | Some z =>
        if (z <? 0)%Z then ret st (VInt (-1))
        else
          let slice := if (Z.of_nat (length hay) <=? z)%Z then hay else firstn (S (Z.to_nat z)) hay in
          ret st (opt_index (rfind_all needle slice O None))
    | None => ret st (opt_index (rfind_all needle hay O None))
    end
  else if is_sub argv "length" then
    do (st, _) <- lift st (check_args "cmd_string_length" argv);
    ret st (VInt (Z.of_nat (length (as_str (arg argv 2)))))
  else if is_sub argv "map" then
    do (st, _) <- lift st (check_args "cmd_string_map" argv);
    do (st, nocase) <- (if Nat.eqb (length argv) 5 then
                          if str_eqb (as_str (arg argv 2)) (lit "-nocase") then ret st true
                          else fail st (lit "bad option """ ++ as_str (arg argv 2) ++ lit """: must be -nocase")
                        else ret st false);
    let n := length argv in
    do (st, d) <- lift_sum st (v_as_dict (arg argv (n - 2)));
    let s := as_str (arg argv (n - 1)) in
    let keys := filter (fun kv => negb (Nat.eqb (length (fst kv)) 0))
                  (map (fun kv => (if nocase then u_lower U (as_str (fst kv)) else as_str (fst kv),
                                   as_str (snd kv))) d) in
    ret st (VStr (if nocase then map_scan_nocase (S (length s)) (u_lower U) keys s []
                  else map_scan (S (length s)) keys s s []))
  else if is_sub argv "range" then
    do (st, _) <- lift st (check_args "cmd_string_range" argv);
    let s := as_str (arg argv 2) in
    do (st, first) <- lift_sum st (v_as_int (arg argv 3));
    do (st, lastz) <- lift_sum st (v_as_int (arg argv 4));
    if (lastz <? 0)%Z then ret st (VStr [])
    else
      let f := clamp0 first in
      if (lastz <? f)%Z then ret st (VStr [])
      else ret st (VStr (firstn (to_nat_capped (lastz - f + 1) (length s))
                                (skipn (to_nat_capped f (length s)) s)))
  else if is_sub argv "tolower" then
    do (st, _) <- lift st (check_args "cmd_string_tolower" argv);
    ret st (VStr (u_lower U (as_str (arg argv 2))))
  else if is_sub argv "toupper" then
    do (st, _) <- lift st (check_args "cmd_string_toupper" argv);
    ret st (VStr (u_upper U (as_str (arg argv 2))))
  else if is_sub argv "trim" || is_sub argv "trimleft" || is_sub argv "trimright" then
    do (st, _) <- lift st (check_args "cmd_string_trim" argv);
    let s := as_str (arg argv 2) in
    ret st (VStr (if is_sub argv "trimleft" then trim_start s
                  else if is_sub argv "trimright" then trim_end s else trim s))
  else fail st (unknown_subcommand string_subcommands (as_str (arg argv 1))).

(* ---------- harness commands ---------- *)
Definition cmd_recorder (st : interp) (argv : list value) : M value :=
  ret (set_trace st (map as_str argv :: i_trace st)) (last argv v_empty).

(* The checker's identity command: a fresh value carrying only the string of its argument.
   Model-only switch (never set by a generated program, unknown to the implementation's
   `ident`): while the global `ident_keeps_integral_floats` exists, a float whose string
   looks like an integer keeps its type.  Check/C13 uses it to recognise the known finding
   D31 case by case: "the two forms differ only because such a float passed through a string". *)
Definition looks_integral (s : str) : bool :=
  forallb (fun c => is_digit10 c || (c =? c_minus)%N) s.
Definition ident_keep_mark : str := lit "ident_keeps_integral_floats".
Fixpoint keep_strip (v : value) : value :=
  match v with
  | VFlt _ => if looks_integral (as_str v) then v else VStr (as_str v)
  | VList l => VList (map keep_strip l)
  | VDict d => VDict (map (fun kv => match kv with (k, x) => (keep_strip k, keep_strip x) end) d)
  | _ => VStr (as_str v)
  end.
Definition cmd_ident (st : interp) (argv : list value) : M value :=
  let v := arg argv 1 in
  match assoc_get ident_keep_mark (sc_get_scope (i_scopes st) O) with
  | Some _ => ret st (keep_strip v)
  | None => ret st (VStr (as_str v))
  end.

(* ---------- Procedure::execute ---------- *)
Definition proc_wrong_args (name : value) (parms : list value) : str :=
  lit "wrong # args: should be """ ++ as_str name ++
  (fix go (ps : list value) : str :=
     match ps with
     | [] => []
     | [p] => if str_eqb (as_str p) (lit "args") then lit " ?arg ...?"
              else [c_space] ++ match v_as_list p with
                                | inr [n] => as_str n
                                | inr (n :: _) => lit "?" ++ as_str n ++ lit "?"
                                | _ => []
                                end
     | p :: r => [c_space] ++ match v_as_list p with
                              | inr [n] => as_str n
                              | inr (n :: _) => lit "?" ++ as_str n ++ lit "?"
                              | _ => []
                              end ++ go r
     end) parms ++ lit """".

(* binds the parameters; the result is the argument index reached, or an error *)
Fixpoint bind_parms (st : interp) (name : value) (all : list value) (parms : list value) (args : list value)
  : M unit :=
  match parms with
  | [] => match args with
          | [] => ret st tt
          | _ => fail st (proc_wrong_args name all)
          end
  | p :: ps =>
      match v_as_list p with
      | inl m => fail st m
      | inr vec =>
          match vec with
          | [] | _ :: _ :: _ :: _ => (st, Panic (lit "proc spec length"))
          | n :: dflt =>
              if str_eqb (as_str n) (lit "args") && Nat.eqb (length ps) 0 then
                do (st, _) <- st_set_scalar st (lit "args") (VList args); ret st tt
              else
                match args with
                | a :: ar => do (st, _) <- st_set_scalar st (as_str n) a; bind_parms st name all ps ar
                | [] =>
                    match dflt with
                    | [d] => do (st, _) <- st_set_scalar st (as_str n) d; bind_parms st name all ps []
                    | _ => fail st (proc_wrong_args name all)
                    end
                end
          end
      end
  end.

(* the procedure boundary of the return protocol *)
Definition proc_boundary (st : interp) (r : res value) : M value :=
  match r with
  | Err e =>
      match x_code e with
      | CReturn =>
          let e' := decrement_level e in
          match x_code e' with
          | COkay => ret st (x_value e')
          | _ => (st, Err e')
          end
      | COkay => ret st (x_value e)
      | CBreak => fail st (lit "invoked ""break"" outside of a loop")
      | CContinue => fail st (lit "invoked ""continue"" outside of a loop")
      | _ => (st, Err e)
      end
  | other => (st, other)
  end.

Definition pop_scope (st : interp) : interp := set_scopes st (sc_pop (i_scopes st)).
Definition push_scope (st : interp) : interp := set_scopes st (sc_push (i_scopes st)).

Definition proc_execute (st : interp) (parms : list value) (body : value) (argv : list value) : M value :=
  let st1 := push_scope st in
  match bind_parms st1 (arg argv 0) parms parms (skipn 1 argv) with
  | (st2, Ok _) =>
      let '(st3, r) := r_eval rec st2 body in
      proc_boundary (pop_scope st3) r
  | (st2, Err e) => (pop_scope st2, Err e)      (* after the fix: the scope is popped *)
  | (st2, Panic p) => (st2, Panic p)
  | (st2, Fuel) => (st2, Fuel)
  end.

End WithRec.
