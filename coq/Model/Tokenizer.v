(* Tokenizer.v — model of tokenizer.rs [backslash_subst].  The Rust cursor becomes the
   "remaining input" argument; the function is applied to the text AFTER the backslash
   (every caller has just tested that the next character is a backslash). *)
From Molt Require Import Model.Base.

(* take up to [n] leading characters satisfying [p] *)
Fixpoint take_upto (n : nat) (p : char -> bool) (s : str) : str * str :=
  match n, s with
  | S k, c :: r => if p c then let '(d, r') := take_upto k p r in (c :: d, r') else ([], s)
  | _, _ => ([], s)
  end.

Definition digits_val (radix : N) (ds : str) : N :=
  fold_left (fun acc d => acc * radix + digit_val d) ds 0.

Definition bsubst (after : str) : char * str :=
  match after with
  | [] => (c_bslash, [])
  | c :: r =>
      if c =? 97 then (7, r)            (* \a *)
      else if c =? 98 then (8, r)       (* \b *)
      else if c =? 102 then (12, r)     (* \f *)
      else if c =? 110 then (10, r)     (* \n *)
      else if c =? 114 then (13, r)     (* \r *)
      else if c =? 116 then (9, r)      (* \t *)
      else if c =? 118 then (11, r)     (* \v *)
      else if is_digit8 c then
        let '(ds, r') := take_upto 2 is_digit8 r in
        (digits_val 8 (c :: ds), r')
      else if (c =? 120) || (c =? 117) || (c =? 85) then
        let max := if c =? 120 then 2%nat else if c =? 117 then 4%nat else 8%nat in
        let '(ds, r') := take_upto max is_digit16 r in
        match ds with
        | [] => (c, r)
        | _ => let v := digits_val 16 ds in
               if is_scalar v then (v, r') else (c, r)
        end
      else (c, r)
  end.
