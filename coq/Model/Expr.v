(* Expr.v — model of expr.rs (the expression parser/evaluator) and util.rs read_int/read_float.
   Written for the code after the repairs listed in DESIGN.md section 6 (D6-D9, D11). *)
From Molt Require Import Model.Base Model.Tokenizer Model.ListSyn Model.Float Model.Value
  Model.State Model.Script Model.Parser Model.Eval.
From Molt Require Gen.SrcFacts.
Local Open Scope Z_scope.

Inductive datum := DInt (z : Z) | DFlt (f : fl) | DStr (s : str).
Definition d_none : datum := DStr [].

(* token numbering, precedence table and operator strings come from the regenerated facts *)
Definition T_VALUE := 0. Definition T_OPEN_PAREN := 1. Definition T_CLOSE_PAREN := 2.
Definition T_COMMA := 3. Definition T_END := 4. Definition T_UNKNOWN := 5.
Definition T_MULT := 8. Definition T_DIVIDE := 9. Definition T_MOD := 10. Definition T_PLUS := 11.
Definition T_MINUS := 12. Definition T_LEFT_SHIFT := 13. Definition T_RIGHT_SHIFT := 14.
Definition T_LESS := 15. Definition T_GREATER := 16. Definition T_LEQ := 17. Definition T_GEQ := 18.
Definition T_EQUAL := 19. Definition T_NEQ := 20. Definition T_STRING_EQ := 21.
Definition T_STRING_NE := 22. Definition T_IN := 23. Definition T_NI := 24. Definition T_BIT_AND := 25.
Definition T_BIT_XOR := 26. Definition T_BIT_OR := 27. Definition T_AND := 28. Definition T_OR := 29.
Definition T_QUESTY := 30. Definition T_COLON := 31. Definition T_UNARY_MINUS := 32.
Definition T_UNARY_PLUS := 33. Definition T_NOT := 34. Definition T_BIT_NOT := 35.

Definition prec (tok : Z) : Z := nth (Z.to_nat tok) Gen.SrcFacts.prec_table 0.
Definition op_string (tok : Z) : str := nth (Z.to_nat tok) Gen.SrcFacts.op_strings [].

(* ---------- util.rs ---------- *)
Definition is_c (c : char) (s : str) : bool := match s with x :: _ => N.eqb x c | [] => false end.
Definition has (p : char -> bool) (s : str) : bool := match s with x :: _ => p x | [] => false end.

(* read_int: the token, and the input after it *)
Definition read_int (s : str) : option (str * str) :=
  let '(sign, s1) := match s with
                     | c :: r => if N.eqb c c_plus || N.eqb c c_minus then ([c], r) else ([], s)
                     | [] => ([], s)
                     end in
  let '(pre, s2, radix16, missing0) :=
    match s1 with
    | c :: r =>
        if N.eqb c 48%N then
          match r with
          | x :: r' => if N.eqb x 120%N then ([c; x], r', true, true) else ([c], r, false, false)
          | [] => ([c], r, false, false)
          end
        else ([], s1, false, true)
    | [] => ([], s1, false, true)
    end in
  let isd := if radix16 then is_digit16 else is_digit10 in
  let ds := take_while isd s2 in
  let rest := skip_while isd s2 in
  let missing := match ds with [] => missing0 | _ => false end in
  let tok := sign ++ pre ++ ds in
  match tok with
  | [] => None
  | _ => if missing then None else Some (tok, rest)
  end.

Definition read_float (s : str) : option (str * str) :=
  let '(sign, s1) := match s with
                     | c :: r => if N.eqb c c_plus || N.eqb c c_minus then ([c], r) else ([], s)
                     | [] => ([], s)
                     end in
  if is_c 73%N s1 || is_c 105%N s1 then
    match s1 with
    | i :: n :: f :: rest =>
        if (N.eqb n 78%N || N.eqb n 110%N) && (N.eqb f 70%N || N.eqb f 102%N)
        then Some (sign ++ [i; n; f], rest) else None
    | _ => None
    end
  else
    let ip := take_while is_digit10 s1 in
    let r1 := skip_while is_digit10 s1 in
    let '(fp, r2) := match r1 with
                     | c :: r => if N.eqb c c_dot
                                 then (c :: take_while is_digit10 r, skip_while is_digit10 r)
                                 else ([], r1)
                     | [] => ([], r1)
                     end in
    let mant_ok := negb (Nat.eqb (length ip) 0) || Nat.ltb 1 (length fp) in
    let '(ep, r3, exp_ok) :=
      match r2 with
      | c :: r =>
          if N.eqb c 101%N || N.eqb c 69%N then
            let '(es, r') := match r with
                             | x :: y => if N.eqb x c_plus || N.eqb x c_minus then ([x], y) else ([], r)
                             | [] => ([], r)
                             end in
            let ed := take_while is_digit10 r' in
            (c :: es ++ ed, skip_while is_digit10 r', negb (Nat.eqb (length ed) 0))
          else ([], r2, true)
      | [] => ([], r2, true)
      end in
    let tok := sign ++ ip ++ fp ++ ep in
    match tok with
    | [] => None
    | _ => if mant_ok && exp_ok then Some (tok, r3) else None
    end.

Definition expr_looks_like_int (s : str) : bool :=
  let p := skip_while is_whitespace s in
  let p1 := match p with
            | c :: r => if N.eqb c c_plus || N.eqb c c_minus then r else p
            | [] => p
            end in
  match p1 with
  | c :: r =>
      if is_digit10 c then
        let p2 := skip_while is_digit10 r in
        negb (is_c c_dot p2) && negb (is_c 101%N p2) && negb (is_c 69%N p2)
      else false
  | [] => false
  end.

(* expr_parse_string *)
Definition expr_parse_string (s : str) : res datum :=
  match s with
  | [] => Ok (DStr s)
  | _ =>
      if expr_looks_like_int s then
        let p := skip_while is_whitespace s in
        match read_int p with
        | Some (tok, rest) =>
            match skip_while is_whitespace rest with
            | [] => match get_int tok with
                    | Some z => Ok (DInt z)
                    | None => err (err_expected_int tok)
                    end
            | _ => Ok (DStr s)
            end
        | None => Ok (DStr s)
        end
      else
        let p := skip_while is_whitespace s in
        match read_float p with
        | Some (tok, rest) =>
            match skip_while is_whitespace rest with
            | [] => match get_float tok with
                    | Some f => Ok (DFlt f)
                    | None => err (err_expected_float tok)
                    end
            | _ => Ok (DStr s)
            end
        | None => Ok (DStr s)
        end
  end.

Definition expr_parse_value (v : value) : res datum :=
  match already_number v with
  | Some (inl z) => Ok (DInt z)
  | Some (inr f) => Ok (DFlt f)
  | None => expr_parse_string (as_str v)
  end.

Definition expr_as_str (d : datum) : datum :=
  match d with
  | DInt z => DStr (show_Z z)
  | DFlt f => DStr (f_display f)
  | DStr _ => d
  end.

Definition is_string (d : datum) : bool := match d with DStr _ => true | _ => false end.

(* ---------- parsing context ---------- *)
Record einfo := { e_rest : str; e_token : Z; e_noeval : N }.
Definition with_rest (i : einfo) (r : str) : einfo :=
  {| e_rest := r; e_token := e_token i; e_noeval := e_noeval i |}.
Definition with_token (i : einfo) (t : Z) : einfo :=
  {| e_rest := e_rest i; e_token := t; e_noeval := e_noeval i |}.
Definition with_tok_rest (i : einfo) (t : Z) (r : str) : einfo :=
  {| e_rest := r; e_token := t; e_noeval := e_noeval i |}.
Definition with_noeval (i : einfo) (n : N) : einfo :=
  {| e_rest := e_rest i; e_token := e_token i; e_noeval := n |}.
Definition noeval (i : einfo) : bool := N.ltb 0 (e_noeval i).

Definition eres := (interp * res (datum * einfo))%type.

Section WithEnv.
Variable is_alphanumeric : char -> bool.
Variable is_alphabetic : char -> bool.
Variable exec : executor.
Variable original : str.     (* ExprInfo::original_expr *)

Definition syntax_error {A} : res A :=
  err (lit "syntax error in expression """ ++ original ++ lit """").

Definition illegal_type {A} (bad : datum) (op : Z) : res A :=
  let ts := match bad with DFlt _ => lit "floating-point value" | _ => lit "non-numeric string" end in
  err (lit "can't use " ++ ts ++ lit " as operand of """ ++ op_string op ++ lit """").

Definition lift_p {A B} (st : interp) (r : pres A) (k : A -> str -> interp * res B) : interp * res B :=
  match r with
  | POk a rest => k a rest
  | PErr m => (st, err m)
  | PFuel => (st, Fuel)
  end.

(* math functions *)
Definition expr_find_func (name : str) : bool :=
  existsb (fun f => str_eqb f name) Gen.SrcFacts.func_names.

Definition call_func (name : str) (arg : datum) : res datum :=
  if str_eqb name (lit "abs") then
    match arg with
    | DFlt f => Ok (DFlt (if f_lt f f_zero then fneg f else f))
    | DInt z => if z <? 0 then
                  (if in_i64 (- z) then Ok (DInt (- z)) else err (lit "integer overflow"))
                else Ok (DInt z)
    | DStr _ => Ok arg
    end
  else if str_eqb name (lit "double") then
    match arg with
    | DFlt f => Ok (DFlt f)
    | DInt z => Ok (DFlt (f_of_Z z))
    | DStr _ => Ok arg
    end
  else if str_eqb name (lit "int") then
    match arg with
    | DInt z => Ok (DInt z)
    | DFlt f => Ok (DInt (f_to_i64 f))
    | DStr _ => Ok arg
    end
  else (* round *)
    match arg with
    | DInt z => Ok (DInt z)
    | DFlt f => if f_lt f f_zero then Ok (DInt (f_to_i64 (fsub f f_half)))
                else Ok (DInt (f_to_i64 (fadd f f_half)))
    | DStr _ => Ok arg
    end.

Definition i64_result (z : Z) : res datum :=
  if in_i64 z then Ok (DInt z) else err (lit "integer overflow").

Definition d_bool (b : bool) : datum := DInt (if b then 1 else 0).

(* the arithmetic of one binary operator on already type-checked operands *)
Definition cmp_op (op : Z) (c : comparison) : bool :=
  if op =? T_LESS then match c with Lt => true | _ => false end
  else if op =? T_GREATER then match c with Gt => true | _ => false end
  else if op =? T_LEQ then match c with Gt => false | _ => true end
  else if op =? T_GEQ then match c with Lt => false | _ => true end
  else if op =? T_EQUAL then match c with Eq => true | _ => false end
  else match c with Eq => false | _ => true end.

Definition fcmp_op (op : Z) (a b : fl) : bool :=
  if op =? T_LESS then f_lt a b
  else if op =? T_GREATER then f_gt a b
  else if op =? T_LEQ then f_le a b
  else if op =? T_GEQ then f_ge a b
  else if op =? T_EQUAL then f_eq a b
  else f_ne a b.

Definition to_flt (d : datum) : datum := match d with DInt z => DFlt (f_of_Z z) | _ => d end.

Definition apply_binop (op : Z) (v v2 : datum) : res datum :=
  if (op =? T_MULT) || (op =? T_DIVIDE) || (op =? T_PLUS) || (op =? T_MINUS) then
    if is_string v || is_string v2 then illegal_type (DStr []) op
    else
      let '(a, b) := match v, v2 with
                     | DFlt _, DInt _ => (v, to_flt v2)
                     | DInt _, DFlt _ => (to_flt v, v2)
                     | _, _ => (v, v2)
                     end in
      match a, b with
      | DInt x, DInt y =>
          if op =? T_MULT then i64_result (x * y)
          else if op =? T_DIVIDE then
            if y =? 0 then err (lit "divide by zero") else i64_result (Z.quot x y)
          else if op =? T_PLUS then i64_result (x + y)
          else i64_result (x - y)
      | DFlt x, DFlt y =>
          if op =? T_MULT then Ok (DFlt (fmul x y))
          else if op =? T_DIVIDE then
            if f_is_zero y then err (lit "divide by zero") else Ok (DFlt (fdiv x y))
          else if op =? T_PLUS then Ok (DFlt (fadd x y))
          else Ok (DFlt (fsub x y))
      | _, _ => Panic (lit "apply_binop: mixed operands")
      end
  else if (op =? T_MOD) || (op =? T_LEFT_SHIFT) || (op =? T_RIGHT_SHIFT) || (op =? T_BIT_AND)
          || (op =? T_BIT_XOR) || (op =? T_BIT_OR) then
    match v, v2 with
    | DInt x, DInt y =>
        if op =? T_MOD then
          if y =? 0 then err (lit "divide by zero")
          else if (x =? i64_min) && (y =? -1) then err (lit "integer overflow")
          else Ok (DInt (Z.rem x y))
        else if op =? T_LEFT_SHIFT then
          if (y <? 0) || (63 <? y) then err (lit "shift count out of range")
          else
            (* i64 shift: bits shifted out are lost, result reinterpreted as signed *)
            let w := (Z.shiftl x y) mod 2 ^ 64 in
            Ok (DInt (if w <? 2 ^ 63 then w else w - 2 ^ 64))
        else if op =? T_RIGHT_SHIFT then
          if (y <? 0) || (63 <? y) then err (lit "shift count out of range")
          else Ok (DInt (Z.shiftr x y))
        else if op =? T_BIT_AND then Ok (DInt (Z.land x y))
        else if op =? T_BIT_XOR then Ok (DInt (Z.lxor x y))
        else Ok (DInt (Z.lor x y))
    | DInt _, _ => illegal_type v2 op
    | _, _ => illegal_type v op
    end
  else if (op =? T_LESS) || (op =? T_GREATER) || (op =? T_LEQ) || (op =? T_GEQ) || (op =? T_EQUAL)
          || (op =? T_NEQ) then
    let '(a, b) := match v, v2 with
                   | DStr _, DStr _ => (v, v2)
                   | DStr _, _ => (v, expr_as_str v2)
                   | _, DStr _ => (expr_as_str v, v2)
                   | DFlt _, DInt _ => (v, to_flt v2)
                   | DInt _, DFlt _ => (to_flt v, v2)
                   | _, _ => (v, v2)
                   end in
    match a, b with
    | DInt x, DInt y => Ok (d_bool (cmp_op op (x ?= y)))
    | DFlt x, DFlt y => Ok (d_bool (fcmp_op op x y))
    | DStr x, DStr y => Ok (d_bool (cmp_op op (str_cmp x y)))
    | _, _ => Panic (lit "apply_binop: mixed comparison")
    end
  else if (op =? T_STRING_EQ) || (op =? T_STRING_NE) || (op =? T_IN) || (op =? T_NI) then
    match expr_as_str v, expr_as_str v2 with
    | DStr x, DStr y =>
        if op =? T_STRING_EQ then Ok (d_bool (str_eqb x y))
        else if op =? T_STRING_NE then Ok (d_bool (negb (str_eqb x y)))
        else
          match get_list y with
          | Some (inr l) =>
              let found := existsb (fun e => str_eqb e x) l in
              Ok (d_bool (if op =? T_IN then found else negb found))
          | Some (inl e) => err (list_err_msg e)
          | None => Fuel
          end
    | _, _ => Panic (lit "apply_binop: expr_as_str")
    end
  else if (op =? T_AND) || (op =? T_OR) then
    (* the first operand has already been converted to an integer by the caller *)
    match v, v2 with
    | DStr _, _ => illegal_type v op
    | _, DStr _ => illegal_type v2 op
    | DInt x, _ =>
        let y := match v2 with DFlt f => negb (f_is_zero f) | DInt z => negb (z =? 0) | _ => false end in
        let xb := negb (x =? 0) in
        Ok (d_bool (if op =? T_AND then xb && y else xb || y))
    | DFlt _, _ => Panic (lit "apply_binop: AND/OR on float first operand")
    end
  else if op =? T_COLON then err (lit "can't have : operator without ? first")
  else if op =? T_QUESTY then Ok v
  else err (lit "unknown operator in expression").

(* the lexer's handling of one-or-two character operators *)
Definition lex_operator (p : str) : option (Z * str) :=
  match p with
  | [] => None
  | c :: r =>
      let two (d : char) (t2 : Z) (t1 : Z) :=
        match r with x :: r' => if N.eqb x d then Some (t2, r') else Some (t1, r) | [] => Some (t1, r) end in
      if N.eqb c c_lparen then Some (T_OPEN_PAREN, r)
      else if N.eqb c c_rparen then Some (T_CLOSE_PAREN, r)
      else if N.eqb c c_comma then Some (T_COMMA, r)
      else if N.eqb c c_star then Some (T_MULT, r)
      else if N.eqb c c_slash then Some (T_DIVIDE, r)
      else if N.eqb c c_percent then Some (T_MOD, r)
      else if N.eqb c c_plus then Some (T_PLUS, r)
      else if N.eqb c c_minus then Some (T_MINUS, r)
      else if N.eqb c c_quest then Some (T_QUESTY, r)
      else if N.eqb c c_colon then Some (T_COLON, r)
      else if N.eqb c c_lt then
        match r with
        | x :: r' => if N.eqb x c_lt then Some (T_LEFT_SHIFT, r')
                     else if N.eqb x c_eq then Some (T_LEQ, r') else Some (T_LESS, r)
        | [] => Some (T_LESS, r)
        end
      else if N.eqb c c_gt then
        match r with
        | x :: r' => if N.eqb x c_gt then Some (T_RIGHT_SHIFT, r')
                     else if N.eqb x c_eq then Some (T_GEQ, r') else Some (T_GREATER, r)
        | [] => Some (T_GREATER, r)
        end
      else if N.eqb c c_eq then two c_eq T_EQUAL T_UNKNOWN
      else if N.eqb c c_bang then two c_eq T_NEQ T_NOT
      else if N.eqb c c_amp then two c_amp T_AND T_BIT_AND
      else if N.eqb c c_caret then Some (T_BIT_XOR, r)
      else if N.eqb c c_pipe then two c_pipe T_OR T_BIT_OR
      else if N.eqb c c_tilde then Some (T_BIT_NOT, r)
      else None
  end.

Definition parse_bt := false.

(* expr_get_value / expr_lex / expr_math_func, mutually recursive on fuel *)
Fixpoint expr_get_value (fuel : nat) (st : interp) (info : einfo) (pr : Z) {struct fuel} : eres :=
  match fuel with
  | O => (st, Fuel)
  | S f =>
      match expr_lex f st info with
      | (st1, Ok (v0, i1)) =>
          (* first operand *)
          let first : interp * res (datum * einfo * bool) :=
            if e_token i1 =? T_OPEN_PAREN then
              match expr_get_value f st1 i1 (-1) with
              | (st2, Ok (v, i2)) =>
                  if e_token i2 =? T_CLOSE_PAREN then (st2, Ok (v, i2, false))
                  else (st2, err (lit "unmatched parentheses in expression """ ++ original ++ lit """"))
              | (st2, Err e) => (st2, Err e)
              | (st2, Panic p) => (st2, Panic p)
              | (st2, Fuel) => (st2, Fuel)
              end
            else
              let tok := if e_token i1 =? T_MINUS then T_UNARY_MINUS
                         else if e_token i1 =? T_PLUS then T_UNARY_PLUS else e_token i1 in
              if T_UNARY_MINUS <=? tok then
                match expr_get_value f st1 (with_token i1 tok) (prec tok) with
                | (st2, Ok (v, i2)) =>
                    if noeval i2 then (st2, Ok (v, i2, true))
                    else
                      let r : res datum :=
                        if tok =? T_UNARY_MINUS then
                          match v with
                          | DInt z => if in_i64 (- z) then Ok (DInt (- z)) else err (lit "integer overflow")
                          | DFlt x => Ok (DFlt (fneg x))
                          | DStr _ => illegal_type v tok
                          end
                        else if tok =? T_UNARY_PLUS then
                          match v with DStr _ => illegal_type v tok | _ => Ok v end
                        else if tok =? T_NOT then
                          match v with
                          | DInt z => Ok (d_bool (z =? 0))
                          | DFlt x => Ok (d_bool (f_is_zero x))
                          | DStr _ => illegal_type v tok
                          end
                        else if tok =? T_BIT_NOT then
                          match v with
                          | DInt z => Ok (DInt (Z.lnot z))
                          | _ => illegal_type v tok
                          end
                        else err (lit "unknown unary op")
                      in
                      match r with
                      | Ok v' => (st2, Ok (v', i2, true))
                      | Err e => (st2, Err e)
                      | Panic p => (st2, Panic p)
                      | Fuel => (st2, Fuel)
                      end
                | (st2, Err e) => (st2, Err e)
                | (st2, Panic p) => (st2, Panic p)
                | (st2, Fuel) => (st2, Fuel)
                end
              else if negb (tok =? T_VALUE) then (st1, syntax_error)
              else (st1, Ok (v0, i1, false))
          in
          match first with
          | (st2, Ok (v, i2, got_op)) =>
              if got_op then expr_loop f st2 i2 pr v
              else
                match expr_lex f st2 i2 with
                | (st3, Ok (_, i3)) => expr_loop f st3 i3 pr v
                | (st3, Err e) => (st3, Err e)
                | (st3, Panic p) => (st3, Panic p)
                | (st3, Fuel) => (st3, Fuel)
                end
          | (st2, Err e) => (st2, Err e)
          | (st2, Panic p) => (st2, Panic p)
          | (st2, Fuel) => (st2, Fuel)
          end
      | (st1, Err e) => (st1, Err e)
      | (st1, Panic p) => (st1, Panic p)
      | (st1, Fuel) => (st1, Fuel)
      end
  end

(* the (operator, operand) loop of expr_get_value; [v] is the value so far *)
with expr_loop (fuel : nat) (st : interp) (info : einfo) (pr : Z) (v : datum) {struct fuel} : eres :=
  match fuel with
  | O => (st, Fuel)
  | S f =>
      let op := e_token info in
      if (op <? T_MULT) || (T_UNARY_MINUS <=? op) then
        if (op =? T_END) || (op =? T_CLOSE_PAREN) || (op =? T_COMMA) then (st, Ok (v, info))
        else (st, syntax_error)
      else if prec op <=? pr then (st, Ok (v, info))
      else
        (* operand(s) *)
        let after (st2 : interp) (i2 : einfo) (v1 v2 : datum) : eres :=
          if (e_token i2 <? T_MULT) && negb (e_token i2 =? T_VALUE) && negb (e_token i2 =? T_END)
             && negb (e_token i2 =? T_COMMA) && negb (e_token i2 =? T_CLOSE_PAREN)
          then (st2, syntax_error)
          else if noeval i2 then expr_loop f st2 i2 pr v1
          else
            match apply_binop op v1 v2 with
            | Ok v' => expr_loop f st2 i2 pr v'
            | Err e => (st2, Err e)
            | Panic p => (st2, Panic p)
            | Fuel => (st2, Fuel)
            end in
        if (op =? T_AND) || (op =? T_OR) || (op =? T_QUESTY) then
          let conv : res datum :=
            match v with
            | DFlt x => Ok (d_bool (negb (f_is_zero x)))
            | DStr _ => if noeval info then Ok (DInt 0) else illegal_type v op
            | DInt _ => Ok v
            end in
          match conv with
          | Ok (DInt x) =>
              let vi := DInt x in
              if ((op =? T_AND) && (x =? 0)) || ((op =? T_OR) && negb (x =? 0)) then
                (* short circuit: parse the operand without evaluating it *)
                match expr_get_value f st (with_noeval info (e_noeval info + 1)) (prec op) with
                | (st2, Ok (_, i2)) =>
                    let i2' := with_noeval i2 (e_noeval i2 - 1) in
                    expr_loop f st2 i2' pr (if op =? T_OR then DInt 1 else vi)
                | (st2, Err e) => (st2, Err e)
                | (st2, Panic p) => (st2, Panic p)
                | (st2, Fuel) => (st2, Fuel)
                end
              else if op =? T_QUESTY then
                let pq := prec T_QUESTY - 1 in
                if negb (x =? 0) then
                  match expr_get_value f st info pq with
                  | (st2, Ok (va, i2)) =>
                      if negb (e_token i2 =? T_COLON) then (st2, syntax_error)
                      else
                        match expr_get_value f st2 (with_noeval i2 (e_noeval i2 + 1)) pq with
                        | (st3, Ok (vb, i3)) => after st3 (with_noeval i3 (e_noeval i3 - 1)) va vb
                        | (st3, Err e) => (st3, Err e)
                        | (st3, Panic p) => (st3, Panic p)
                        | (st3, Fuel) => (st3, Fuel)
                        end
                  | (st2, Err e) => (st2, Err e)
                  | (st2, Panic p) => (st2, Panic p)
                  | (st2, Fuel) => (st2, Fuel)
                  end
                else
                  match expr_get_value f st (with_noeval info (e_noeval info + 1)) pq with
                  | (st2, Ok (vb, i2)) =>
                      let i2' := with_noeval i2 (e_noeval i2 - 1) in
                      if negb (e_token i2' =? T_COLON) then (st2, syntax_error)
                      else
                        match expr_get_value f st2 i2' pq with
                        | (st3, Ok (va, i3)) => after st3 i3 va vb
                        | (st3, Err e) => (st3, Err e)
                        | (st3, Panic p) => (st3, Panic p)
                        | (st3, Fuel) => (st3, Fuel)
                        end
                  | (st2, Err e) => (st2, Err e)
                  | (st2, Panic p) => (st2, Panic p)
                  | (st2, Fuel) => (st2, Fuel)
                  end
              else
                match expr_get_value f st info (prec op) with
                | (st2, Ok (v2, i2)) => after st2 i2 vi v2
                | (st2, Err e) => (st2, Err e)
                | (st2, Panic p) => (st2, Panic p)
                | (st2, Fuel) => (st2, Fuel)
                end
          | Ok _ => (st, Panic (lit "expr_loop: conversion"))
          | Err e => (st, Err e)
          | Panic p => (st, Panic p)
          | Fuel => (st, Fuel)
          end
        else
          match expr_get_value f st info (prec op) with
          | (st2, Ok (v2, i2)) => after st2 i2 v v2
          | (st2, Err e) => (st2, Err e)
          | (st2, Panic p) => (st2, Panic p)
          | (st2, Fuel) => (st2, Fuel)
          end
  end

with expr_lex (fuel : nat) (st : interp) (info : einfo) {struct fuel} : eres :=
  match fuel with
  | O => (st, Fuel)
  | S f =>
      let p := skip_while is_whitespace (e_rest info) in
      match p with
      | [] => (st, Ok (d_none, with_tok_rest info T_END p))
      | c :: r =>
          let number : option (res (datum * einfo)) :=
            if N.eqb c c_plus || N.eqb c c_minus then None
            else
              match (if expr_looks_like_int p then read_int p else None) with
              | Some (tok, rest) =>
                  Some (match get_int tok with
                        | Some z => Ok (DInt z, with_tok_rest info T_VALUE rest)
                        | None => err (err_expected_int tok)
                        end)
              | None =>
                  match read_float p with
                  | Some (tok, rest) =>
                      Some (match get_float tok with
                            | Some x => Ok (DFlt x, with_tok_rest info T_VALUE rest)
                            | None => err (err_expected_float tok)
                            end)
                  | None => None
                  end
              end in
          match number with
          | Some r0 => (st, r0)
          | None =>
              let value_of (st1 : interp) (rv : res value) (rest : str) (from_string : bool) : eres :=
                match rv with
                | Ok v =>
                    let i1 := with_tok_rest info T_VALUE rest in
                    if noeval info then (st1, Ok (d_none, i1))
                    else
                      match (if from_string then expr_parse_string (as_str v) else expr_parse_value v) with
                      | Ok d => (st1, Ok (d, i1))
                      | Err e => (st1, Err e)
                      | Panic q => (st1, Panic q)
                      | Fuel => (st1, Fuel)
                      end
                | Err e => (st1, Err e)
                | Panic q => (st1, Panic q)
                | Fuel => (st1, Fuel)
                end in
              if N.eqb c c_dollar then
                (* parse_and_eval_variable *)
                match r with
                | d :: _ =>
                    if is_varname_char is_alphanumeric d || N.eqb d c_lbrace then
                      lift_p st (parse_varname is_alphanumeric (parse_fuel r) parse_bt r)
                        (fun w rest =>
                           if noeval info then value_of st (Ok v_empty) rest false
                           else let '(st1, rv) := eval_word exec st w in value_of st1 rv rest false)
                    else (st, err (lit "invalid character ""$"""))
                | [] => (st, err (lit "invalid character ""$"""))
                end
              else if N.eqb c c_lbracket then
                (* parse_and_eval_script *)
                lift_p st (parse_script is_alphanumeric (parse_fuel r) true r [])
                  (fun sc rest =>
                     let '(st1, rv) := if noeval info then (st, Ok v_empty) else eval_script exec st sc in
                     match rv with
                     | Ok v =>
                         match rest with
                         | x :: rest' => if N.eqb x c_rbracket then value_of st1 (Ok v) rest' false
                                         else (st1, err (lit "missing close-bracket"))
                         | [] => (st1, err (lit "missing close-bracket"))
                         end
                     | other => value_of st1 other rest false
                     end)
              else if N.eqb c c_dquote then
                lift_p st (parse_quoted is_alphanumeric (parse_fuel r) parse_bt false r tk_new)
                  (fun w rest =>
                     if noeval info then value_of st (Ok v_empty) rest true
                     else let '(st1, rv) := eval_word exec st w in value_of st1 rv rest true)
              else if N.eqb c c_lbrace then
                lift_p st (parse_braced_string p)
                  (fun w rest =>
                     match w with
                     | WValue s => value_of st (Ok (VStr s)) rest true
                     | _ => (st, Panic (lit "parse_and_eval_braced_word: unreachable"))
                     end)
              else
                match lex_operator p with
                | Some (tok, rest) => (st, Ok (d_none, with_tok_rest info tok rest))
                | None =>
                    if is_alphabetic c then
                      let isw := fun x => is_alphabetic x || is_digit10 x in
                      let name := take_while isw p in
                      let rest := skip_while isw p in
                      let i1 := with_rest info rest in
                      if str_eqb name (lit "true") || str_eqb name (lit "yes") || str_eqb name (lit "on")
                      then (st, Ok (DInt 1, with_token i1 T_VALUE))
                      else if str_eqb name (lit "false") || str_eqb name (lit "no") || str_eqb name (lit "off")
                      then (st, Ok (DInt 0, with_token i1 T_VALUE))
                      else if str_eqb name (lit "eq") then (st, Ok (d_none, with_token i1 T_STRING_EQ))
                      else if str_eqb name (lit "ne") then (st, Ok (d_none, with_token i1 T_STRING_NE))
                      else if str_eqb name (lit "in") then (st, Ok (d_none, with_token i1 T_IN))
                      else if str_eqb name (lit "ni") then (st, Ok (d_none, with_token i1 T_NI))
                      else expr_math_func f st i1 name
                    else (st, Ok (d_none, with_tok_rest info T_UNKNOWN r))
                end
          end
      end
  end

with expr_math_func (fuel : nat) (st : interp) (info : einfo) (name : str) {struct fuel} : eres :=
  match fuel with
  | O => (st, Fuel)
  | S f =>
      if negb (expr_find_func name) then (st, err (lit "unknown math function """ ++ name ++ lit """"))
      else
        match expr_lex f st info with
        | (st1, Ok (_, i1)) =>
            if negb (e_token i1 =? T_OPEN_PAREN) then (st1, syntax_error)
            else
              (* every built-in function takes exactly one argument *)
              match expr_get_value f st1 i1 (-1) with
              | (st2, Ok (arg, i2)) =>
                  if negb (noeval i2) && is_string arg then
                    (st2, err (lit "argument to math function didn't have numeric value"))
                  else if e_token i2 =? T_CLOSE_PAREN then
                    let i3 := with_token i2 T_VALUE in
                    if noeval i2 then (st2, Ok (d_none, i3))
                    else
                      match call_func name arg with
                      | Ok d => (st2, Ok (d, i3))
                      | Err e => (st2, Err e)
                      | Panic q => (st2, Panic q)
                      | Fuel => (st2, Fuel)
                      end
                  else if e_token i2 =? T_COMMA then (st2, err (lit "too many arguments for math function"))
                  else (st2, syntax_error)
              | (st2, Err e) => (st2, Err e)
              | (st2, Panic p) => (st2, Panic p)
              | (st2, Fuel) => (st2, Fuel)
              end
        | (st1, Err e) => (st1, Err e)
        | (st1, Panic p) => (st1, Panic p)
        | (st1, Fuel) => (st1, Fuel)
        end
  end.

End WithEnv.

(* expr_top_level + expr() *)
Definition expr_fuel (s : str) : nat := 4 * length s + 16.

Definition expr_eval (is_alphanumeric is_alphabetic : char -> bool) (exec : executor)
  (st : interp) (e : value) : interp * res value :=
  let s := as_str e in
  let info := {| e_rest := s; e_token := -1; e_noeval := 0 |} in
  match expr_get_value is_alphanumeric is_alphabetic exec s (expr_fuel s) st info (-1) with
  | (st1, Ok (v, i1)) =>
      if negb (e_token i1 =? T_END) then
        (st1, err (lit "syntax error in expression """ ++ s ++ lit """"))
      else
        (st1, Ok (match v with DInt z => VInt z | DFlt f => VFlt f | DStr x => VStr x end))
  | (st1, Err ex) =>
      match x_code ex with
      | CBreak => (st1, err (lit "invoked ""break"" outside of a loop"))
      | CContinue => (st1, err (lit "invoked ""continue"" outside of a loop"))
      | _ => (st1, Err ex)
      end
  | (st1, Panic p) => (st1, Panic p)
  | (st1, Fuel) => (st1, Fuel)
  end.
