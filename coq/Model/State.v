(* State.v — model of types.rs (ResultCode, Exception, ErrorData), scope.rs (ScopeStack) and the
   data part of interp.rs (command table, context map, level counter). *)
From Molt Require Import Model.Base Model.ListSyn Model.Float Model.Value.
Local Open Scope N_scope.

(* ---------- ResultCode ---------- *)
Inductive rcode := COkay | CError | CReturn | CBreak | CContinue | COther (z : Z).

Definition rcode_eqb (a b : rcode) : bool :=
  match a, b with
  | COkay, COkay | CError, CError | CReturn, CReturn | CBreak, CBreak | CContinue, CContinue => true
  | COther x, COther y => Z.eqb x y
  | _, _ => false
  end.

Definition rcode_as_int (c : rcode) : Z :=
  match c with
  | COkay => 0 | CError => 1 | CReturn => 2 | CBreak => 3 | CContinue => 4 | COther z => z
  end%Z.

Definition rcode_of_int (z : Z) : rcode :=
  if Z.eqb z 0 then COkay else if Z.eqb z 1 then CError else if Z.eqb z 2 then CReturn
  else if Z.eqb z 3 then CBreak else if Z.eqb z 4 then CContinue else COther z.

(* ResultCode::from_str / from_value *)
Definition rcode_from_str (s : str) : option rcode :=
  if str_eqb s (lit "ok") then Some COkay
  else if str_eqb s (lit "error") then Some CError
  else if str_eqb s (lit "return") then Some CReturn
  else if str_eqb s (lit "break") then Some CBreak
  else if str_eqb s (lit "continue") then Some CContinue
  else match get_int s with Some z => Some (rcode_of_int z) | None => None end.

(* ---------- Exception ---------- *)
Record errdata := { ed_code : value; ed_trace : list str; ed_new : bool }.

Definition ed_new_data (code : value) (msg : str) : errdata :=
  {| ed_code := code; ed_trace := [msg]; ed_new := true |}.
Definition ed_rethrow (code : value) (info : str) : errdata :=
  {| ed_code := code; ed_trace := [info]; ed_new := false |}.
Definition ed_info (d : errdata) : str := join_str [c_nl] (ed_trace d).
Definition ed_add_info (d : errdata) (line : str) : errdata :=
  {| ed_code := ed_code d; ed_trace := ed_trace d ++ [line]; ed_new := false |}.

Record exn := {
  x_code : rcode;
  x_value : value;
  x_level : N;             (* usize *)
  x_next : rcode;
  x_data : option errdata }.

Definition v_NONE : value := VStr (lit "NONE").

Definition molt_err_v (msg : value) : exn :=
  {| x_code := CError; x_value := msg; x_level := 0; x_next := CError;
     x_data := Some (ed_new_data v_NONE (as_str msg)) |}.
Definition molt_err (msg : str) : exn := molt_err_v (VStr msg).
Definition molt_err2 (code msg : value) : exn :=
  {| x_code := CError; x_value := msg; x_level := 0; x_next := CError;
     x_data := Some (ed_new_data code (as_str msg)) |}.

(* molt_return_ext (after the fix: -level 0 -code return is a plain return) *)
Definition molt_return_ext (v : value) (level : N) (next : rcode) : exn :=
  let '(level, next) := if (level =? 0) && rcode_eqb next CReturn then (1, COkay) else (level, next) in
  {| x_code := if 0 <? level then CReturn else next;
     x_value := v; x_level := level; x_next := next; x_data := None |}.

Definition molt_return_err (msg : value) (level : N) (ecode einfo : option value) : exn :=
  let code := match ecode with Some c => c | None => v_NONE end in
  let data := match einfo with
              | Some i => ed_rethrow code (as_str i)
              | None => ed_new_data code (as_str msg)
              end in
  {| x_code := if level =? 0 then CError else CReturn;
     x_value := msg; x_level := level; x_next := CError; x_data := Some data |}.

Definition molt_break : exn :=
  {| x_code := CBreak; x_value := v_empty; x_level := 0; x_next := CBreak; x_data := None |}.
Definition molt_continue : exn :=
  {| x_code := CContinue; x_value := v_empty; x_level := 0; x_next := CContinue; x_data := None |}.

(* decrement_level: only called on code = Return, level > 0 (asserted by the Rust code) *)
Definition decrement_level (e : exn) : exn :=
  let l := x_level e - 1 in
  if l =? 0 then
    if rcode_eqb (x_next e) CReturn then
      {| x_code := CReturn; x_value := x_value e; x_level := 1; x_next := COkay; x_data := x_data e |}
    else
      {| x_code := x_next e; x_value := x_value e; x_level := 0; x_next := x_next e; x_data := x_data e |}
  else
    {| x_code := x_code e; x_value := x_value e; x_level := l; x_next := x_next e; x_data := x_data e |}.

Definition is_new_error (e : exn) : bool :=
  match x_data e with Some d => ed_new d | None => false end.

Definition add_error_info (e : exn) (line : str) : exn :=
  {| x_code := x_code e; x_value := x_value e; x_level := x_level e; x_next := x_next e;
     x_data := match x_data e with Some d => Some (ed_add_info d line) | None => None end |}.

(* ---------- outcomes ---------- *)
Inductive res (A : Type) :=
| Ok (a : A)
| Err (e : exn)
| Panic (site : str)
| Fuel.
Arguments Ok {A}. Arguments Err {A}. Arguments Panic {A}. Arguments Fuel {A}.

Definition err {A} (msg : str) : res A := Err (molt_err msg).

Definition of_sum {A} (r : str + A) : res A :=
  match r with inl m => err m | inr a => Ok a end.

(* ---------- scope stack ---------- *)
Inductive var :=
| VarScalar (v : value)
| VarArray (m : list (str * value))
| VarUpvar (level : nat)
| VarNew.

Definition scope := list (str * var).

Fixpoint assoc_get {A} (k : str) (m : list (str * A)) : option A :=
  match m with
  | [] => None
  | (k', a) :: r => if str_eqb k' k then Some a else assoc_get k r
  end.

Fixpoint assoc_set {A} (k : str) (a : A) (m : list (str * A)) : list (str * A) :=
  match m with
  | [] => [(k, a)]
  | (k', a') :: r => if str_eqb k' k then (k', a) :: r else (k', a') :: assoc_set k a r
  end.

Fixpoint assoc_remove {A} (k : str) (m : list (str * A)) : list (str * A) :=
  match m with
  | [] => []
  | (k', a') :: r => if str_eqb k' k then r else (k', a') :: assoc_remove k r
  end.

Fixpoint update_nth {A} (n : nat) (f : A -> A) (l : list A) : list A :=
  match l, n with
  | [], _ => []
  | x :: r, O => f x :: r
  | x :: r, S k => x :: update_nth k f r
  end.

(* scopes: index 0 is the global scope; the current one is the last *)
Definition scopes := list scope.
Definition sc_current (ss : scopes) : nat := pred (length ss).
Definition sc_get_scope (ss : scopes) (level : nat) : scope := nth level ss [].

(* ScopeStack::var: follow Upvar links.  Upvar targets are strictly lower levels, so [fuel]
   = level + 1 suffices. *)
Fixpoint sc_var (fuel : nat) (ss : scopes) (level : nat) (name : str) : option var :=
  match fuel with
  | O => None
  | S f =>
      match assoc_get name (sc_get_scope ss level) with
      | Some (VarUpvar at_) => sc_var f ss at_ name
      | other => other
      end
  end.
Definition sc_lookup (ss : scopes) (name : str) : option var :=
  sc_var (S (sc_current ss)) ss (sc_current ss) name.

(* the level at which var_mut would create / find the variable *)
Fixpoint sc_resolve (fuel : nat) (ss : scopes) (level : nat) (name : str) : nat :=
  match fuel with
  | O => level
  | S f =>
      match assoc_get name (sc_get_scope ss level) with
      | Some (VarUpvar at_) => sc_resolve f ss at_ name
      | _ => level
      end
  end.
Definition sc_target (ss : scopes) (name : str) : nat :=
  sc_resolve (S (sc_current ss)) ss (sc_current ss) name.

Definition sc_put (ss : scopes) (level : nat) (name : str) (v : var) : scopes :=
  update_nth level (assoc_set name v) ss.
Definition sc_del (ss : scopes) (level : nat) (name : str) : scopes :=
  update_nth level (assoc_remove name) ss.

(* var_mut inserts Var::New when the name is absent at the resolved level.  After the fix
   (no phantom variable is left behind by a failing or no-op operation) the model inserts only
   when something is stored. *)

Definition sc_get (ss : scopes) (name : str) : res value :=
  match sc_lookup ss name with
  | Some (VarScalar v) => Ok v
  | Some (VarArray _) => err (lit "can't read """ ++ name ++ lit """: variable is array")
  | Some _ => Panic (lit "scope.get: unreachable")
  | None => err (lit "can't read """ ++ name ++ lit """: no such variable")
  end.

Definition sc_get_elem (ss : scopes) (name idx : str) : res value :=
  match sc_lookup ss name with
  | Some (VarScalar _) =>
      err (lit "can't read """ ++ name ++ lit "(" ++ idx ++ lit ")"": variable isn't array")
  | Some (VarArray m) =>
      match assoc_get idx m with
      | Some v => Ok v
      | None => err (lit "can't read """ ++ name ++ lit "(" ++ idx ++ lit ")"": no such element in array")
      end
  | Some _ => Panic (lit "scope.get_elem: unreachable")
  | None => err (lit "can't read """ ++ name ++ lit """: no such variable")
  end.

Definition sc_set_at (ss : scopes) (level : nat) (name : str) (v : value) : scopes * res unit :=
  match assoc_get name (sc_get_scope ss level) with
  | Some (VarArray _) => (ss, err (lit "can't set """ ++ name ++ lit """: variable is array"))
  | Some (VarUpvar _) => (ss, Panic (lit "scope.set: unreachable"))
  | _ => (sc_put ss level name (VarScalar v), Ok tt)
  end.

Definition sc_set (ss : scopes) (name : str) (v : value) : scopes * res unit :=
  sc_set_at ss (sc_target ss name) name v.

Definition sc_set_global (ss : scopes) (name : str) (v : value) : scopes * res unit :=
  sc_set_at ss O name v.

Definition sc_set_elem (ss : scopes) (name idx : str) (v : value) : scopes * res unit :=
  let level := sc_target ss name in
  match assoc_get name (sc_get_scope ss level) with
  | Some (VarScalar _) =>
      (ss, err (lit "can't set """ ++ name ++ lit "(" ++ idx ++ lit ")"": variable isn't array"))
  | Some (VarArray m) => (sc_put ss level name (VarArray (assoc_set idx v m)), Ok tt)
  | Some (VarUpvar _) => (ss, Panic (lit "scope.set_elem: unreachable"))
  | _ => (sc_put ss level name (VarArray [(idx, v)]), Ok tt)
  end.

Definition sc_exists (ss : scopes) (name : str) : bool :=
  match sc_lookup ss name with Some _ => true | None => false end.

Definition sc_elem_exists (ss : scopes) (name idx : str) : bool :=
  match sc_get_elem ss name idx with Ok _ => true | _ => false end.

(* unset_at: follow the chain, removing the link at every level *)
Fixpoint sc_unset_at (fuel : nat) (ss : scopes) (level : nat) (name : str) (array_only : bool) : scopes :=
  match fuel with
  | O => ss
  | S f =>
      let ss1 := match assoc_get name (sc_get_scope ss level) with
                 | Some (VarUpvar at_) => sc_unset_at f ss at_ name array_only
                 | _ => ss
                 end in
      if array_only then
        match assoc_get name (sc_get_scope ss1 level) with
        | Some (VarArray _) => sc_del ss1 level name
        | _ => ss1
        end
      else sc_del ss1 level name
  end.

Definition sc_unset (ss : scopes) (name : str) : scopes :=
  sc_unset_at (S (sc_current ss)) ss (sc_current ss) name false.
Definition sc_array_unset (ss : scopes) (name : str) : scopes :=
  sc_unset_at (S (sc_current ss)) ss (sc_current ss) name true.

Definition sc_unset_element (ss : scopes) (name idx : str) : scopes :=
  let level := sc_target ss name in
  match assoc_get name (sc_get_scope ss level) with
  | Some (VarArray m) => sc_put ss level name (VarArray (assoc_remove idx m))
  | _ => ss
  end.

Definition sc_upvar (ss : scopes) (level : nat) (name : str) : scopes :=
  sc_put ss (sc_current ss) name (VarUpvar level).

Definition sc_push (ss : scopes) : scopes := ss ++ [[]].
Definition sc_pop (ss : scopes) : scopes := removelast ss.

Definition is_upvar (v : var) : bool := match v with VarUpvar _ => true | _ => false end.

Definition sc_vars_in_scope (ss : scopes) : list str := map fst (sc_get_scope ss (sc_current ss)).
Definition sc_vars_in_global (ss : scopes) : list str := map fst (sc_get_scope ss O).
Definition sc_vars_in_local (ss : scopes) : list str :=
  match sc_current ss with
  | O => []
  | _ => map fst (filter (fun kv => negb (is_upvar (snd kv))) (sc_get_scope ss (sc_current ss)))
  end.

Definition sc_array_exists (ss : scopes) (name : str) : bool :=
  match sc_lookup ss name with Some (VarArray _) => true | _ => false end.
Definition sc_array_map (ss : scopes) (name : str) : list (str * value) :=
  match sc_lookup ss name with Some (VarArray m) => m | _ => [] end.

Fixpoint insert_kvlist (m : list (str * value)) (l : list value) : list (str * value) :=
  match l with
  | k :: v :: r => insert_kvlist (assoc_set (as_str k) v m) r
  | _ => m
  end.

Definition sc_array_set (ss : scopes) (name : str) (kv : list value) : scopes * res unit :=
  let level := sc_target ss name in
  match assoc_get name (sc_get_scope ss level) with
  | Some (VarScalar _) => (ss, err (lit "can't array set """ ++ name ++ lit """: variable isn't array"))
  | Some (VarArray m) => (sc_put ss level name (VarArray (insert_kvlist m kv)), Ok tt)
  | Some (VarUpvar _) => (ss, Panic (lit "scope.array_set: unreachable"))
  | _ => (sc_put ss level name (VarArray (insert_kvlist [] kv)), Ok tt)
  end.
