(* Value.v — model of value.rs.  A value is the immutable tree it was BUILT FROM (typed data
   or a string); its string form is computed from that.  Typed views parsed later from the
   string are recomputed on demand: the caches value.rs keeps for them are not modelled
   (DESIGN.md section 3; C04/C13 are about exactly that). *)
From Molt Require Import Model.Base Model.Tokenizer Model.ListSyn Model.Float.
Local Open Scope N_scope.

Inductive value :=
| VStr (s : str)
| VInt (z : Z)
| VFlt (f : fl)
| VBool (b : bool)
| VList (l : list value)
| VDict (d : list (value * value)).

Fixpoint as_str (v : value) : str :=
  match v with
  | VStr s => s
  | VInt z => show_Z z
  | VFlt f => fmt_float f
  | VBool b => if b then [49] else [48]
  | VList l => list_to_string (map as_str l)
  | VDict d =>
      list_to_string
        ((fix go (d : list (value * value)) : list str :=
            match d with
            | [] => []
            | (k, v) :: r => as_str k :: as_str v :: go r
            end) d)
  end.

Definition v_empty : value := VStr [].
Definition v_eqb (a b : value) : bool := str_eqb (as_str a) (as_str b).

(* ---- Value::get_int (after the fix: one optional sign, optional 0x, digits, i64 range) ---- *)
Definition all_digits (radix16 : bool) (s : str) : bool :=
  match s with
  | [] => false
  | _ => forallb (if radix16 then is_digit16 else is_digit10) s
  end.

Definition get_int (s : str) : option Z :=
  let t := trim s in
  let '(neg, t1) := match t with
                    | c :: r => if c =? c_plus then (false, r)
                                else if c =? c_minus then (true, r) else (false, t)
                    | [] => (false, t)
                    end in
  let '(hex, ds) := if starts_with [48; 120] t1 then (true, skipn 2 t1) else (false, t1) in
  if all_digits hex ds then
    let n := Z.of_N (digits_val (if hex then 16 else 10) ds) in
    let z := if neg then Z.opp n else n in
    if in_i64 z then Some z else None
  else None.

Definition err_expected_int (s : str) : str :=
  lit "expected integer but got """ ++ s ++ lit """".

Definition ascii_lower (c : char) : char := if (65 <=? c) && (c <=? 90) then c + 32 else c.

Definition get_bool (s : str) : option bool :=
  let t := map ascii_lower (trim s) in
  if str_eqb t (lit "1") || str_eqb t (lit "true") || str_eqb t (lit "yes") || str_eqb t (lit "on")
  then Some true
  else if str_eqb t (lit "0") || str_eqb t (lit "false") || str_eqb t (lit "no") || str_eqb t (lit "off")
  then Some false
  else None.

Definition err_expected_bool (s : str) : str :=
  lit "expected boolean but got """ ++ s ++ lit """".

Definition get_float (s : str) : option fl := f_parse (map ascii_lower (trim s)).

Definition err_expected_float (s : str) : str :=
  lit "expected floating-point number but got """ ++ s ++ lit """".

(* ---- typed views: Ok or an error message ---- *)
Definition v_as_int (v : value) : str + Z :=
  match v with
  | VInt z => inr z
  | _ => let s := as_str v in
         match get_int s with Some z => inr z | None => inl (err_expected_int s) end
  end.

Definition v_as_bool (v : value) : str + bool :=
  match v with
  | VBool b => inr b
  | VInt z => inr (negb (Z.eqb z 0))
  | VFlt f => inr (negb (f_is_zero f))
  | _ => let s := as_str v in
         match get_bool s with Some b => inr b | None => inl (err_expected_bool s) end
  end.

Definition v_as_float (v : value) : str + fl :=
  match v with
  | VFlt f => inr f
  | _ => let s := as_str v in
         match get_float s with Some f => inr f | None => inl (err_expected_float s) end
  end.

Definition str_as_list (s : str) : str + list value :=
  match get_list s with
  | Some (inr l) => inr (map VStr l)
  | Some (inl e) => inl (list_err_msg e)
  | None => inl (lit "OUT OF FUEL")   (* unreachable: get_list_total *)
  end.

Definition v_as_list (v : value) : str + list value :=
  match v with
  | VList l => inr l
  | _ => str_as_list (as_str v)
  end.

(* IndexMap insert: replace the value in place if the key exists, else append *)
Fixpoint dict_insert (d : list (value * value)) (k v : value) : list (value * value) :=
  match d with
  | [] => [(k, v)]
  | (k', v') :: r => if v_eqb k' k then (k', v) :: r else (k', v') :: dict_insert r k v
  end.

Fixpoint list_to_dict_acc (l : list value) (acc : list (value * value)) : list (value * value) :=
  match l with
  | k :: v :: r => list_to_dict_acc r (dict_insert acc k v)
  | _ => acc
  end.
Definition list_to_dict (l : list value) : list (value * value) := list_to_dict_acc l [].

Definition v_as_dict (v : value) : str + list (value * value) :=
  match v with
  | VDict d => inr d
  | _ => match str_as_list (as_str v) with
         | inl e => inl e
         | inr l => if Nat.even (length l) then inr (list_to_dict l)
                    else inl (lit "missing value to go with key")
         end
  end.

Definition already_number (v : value) : option (Z + fl) :=
  match v with
  | VInt z => Some (inl z)
  | VFlt f => Some (inr f)
  | _ => None
  end.
