(* Parser.v — model of parser.rs and eval_ptr.rs.  The EvalPtr cursor becomes the remaining
   input; [bt] is EvalPtr::bracket_term.  Every loop and every nested call consumes one unit of
   fuel; [parse] supplies enough (Proofs/ParserFacts.v). *)
From Molt Require Import Model.Base Model.Tokenizer Model.Script.
Local Open Scope N_scope.

Inductive pres (A : Type) :=
| POk (a : A) (rest : str)
| PErr (msg : str)
| PFuel.
Arguments POk {A}. Arguments PErr {A}. Arguments PFuel {A}.

(* char::is_alphanumeric comes from the regenerated Unicode tables *)
Section WithUnicode.
Variable is_alphanumeric : char -> bool.

Definition is_varname_char (c : char) : bool := is_alphanumeric c || (c =? c_underscore).

(* ---- EvalPtr helpers ---- *)
Definition at_end_of_script (bt : bool) (s : str) : bool :=
  match s with
  | [] => true
  | c :: _ => bt && (c =? c_rbracket)
  end.

Definition at_end_of_command (bt : bool) (s : str) : bool :=
  match s with
  | [] => true
  | c :: _ => (c =? c_nl) || (c =? c_semi) || (bt && (c =? c_rbracket))
  end.

Definition next_is_line_white (s : str) : bool :=
  match s with c :: _ => is_whitespace c && negb (c =? c_nl) | [] => false end.
Definition next_is_block_white (s : str) : bool :=
  match s with c :: _ => is_whitespace c | [] => false end.
Definition is_line_white (c : char) : bool := is_whitespace c && negb (c =? c_nl).

(* skip_comment: at '#', skip to just after the next newline; a backslash hides one char *)
Fixpoint skip_comment_body (s : str) : str :=
  match s with
  | [] => []
  | c :: r =>
      if c =? c_nl then r
      else if c =? c_bslash then match r with [] => [] | _ :: r' => skip_comment_body r' end
      else skip_comment_body r
  end.

(* whitespace and comments before a command *)
Fixpoint skip_to_command (fuel : nat) (bt : bool) (s : str) : str :=
  match fuel with
  | O => s
  | S f =>
      if at_end_of_script bt s then s
      else
        let s1 := skip_while is_whitespace s in
        match s1 with
        | c :: _ => if c =? c_hash then skip_to_command f bt (skip_comment_body s1) else s1
        | [] => s1
        end
  end.

(* ---- Tokens accumulator ---- *)
Record tokens := { tk_list : list word (* reversed *); tk_str : option str (* reversed *) }.
Definition tk_new : tokens := {| tk_list := []; tk_str := None |}.
Definition tk_push (t : tokens) (w : word) : tokens :=
  match tk_str t with
  | Some s => {| tk_list := w :: WString (rev s) :: tk_list t; tk_str := None |}
  | None => {| tk_list := w :: tk_list t; tk_str := None |}
  end.
Definition tk_push_char (t : tokens) (c : char) : tokens :=
  match tk_str t with
  | Some s => {| tk_list := tk_list t; tk_str := Some (c :: s) |}
  | None => {| tk_list := tk_list t; tk_str := Some [c] |}
  end.
Definition tk_take (t : tokens) : word :=
  match tk_str t, tk_list t with
  | Some s, [] => WValue (rev s)
  | Some s, l => match rev (WString (rev s) :: l) with
                 | [w] => w
                 | ws => WTokens ws
                 end
  | None, [] => WValue []
  | None, [w] => w
  | None, l => WTokens (rev l)
  end.

(* ---- parse_braced_word, after the opening brace ---- *)
Fixpoint parse_braced_body (s : str) (count : nat) (acc : str) : pres str :=
  match s with
  | [] => PErr (lit "missing close-brace")
  | c :: r =>
      if c =? c_lbrace then parse_braced_body r (S count) (c :: acc)
      else if c =? c_rbrace then
        match count with
        | O => POk (rev_fast acc) r
        | S k => parse_braced_body r k (c :: acc)
        end
      else if c =? c_bslash then
        match r with
        | [] => PErr (lit "missing close-brace")
        | d :: r' => if d =? c_nl then parse_braced_body r' count (c_space :: acc)
                     else parse_braced_body r' count (d :: c :: acc)
        end
      else parse_braced_body r count (c :: acc)
  end.

Definition parse_braced_word (bt : bool) (s : str) : pres word :=
  match s with
  | [] => PErr (lit "missing close-brace")      (* not reached: callers test for '{' *)
  | _ :: r =>
      match parse_braced_body r O [] with
      | POk text rest =>
          if at_end_of_command bt rest || next_is_line_white rest then POk (WValue text) rest
          else PErr (lit "extra characters after close-brace")
      | PErr m => PErr m
      | PFuel => PFuel
      end
  end.

(* parse_braced_string: through the close brace, nothing required of what follows (expressions) *)
Definition parse_braced_string (s : str) : pres word :=
  match s with
  | [] => PErr (lit "missing close-brace")
  | _ :: r =>
      match parse_braced_body r O [] with
      | POk text rest => POk (WValue text) rest
      | PErr m => PErr m
      | PFuel => PFuel
      end
  end.

(* parse_varname_literal (types.rs VarName): name, optional index *)
Fixpoint last_and_init (s : str) : option (str * char) :=
  match s with
  | [] => None
  | [c] => Some ([], c)
  | c :: r => match last_and_init r with Some (i, l) => Some (c :: i, l) | None => None end
  end.

Definition parse_varname_literal (s : str) : str * option str :=
  let name := take_while (fun c => negb (c =? c_lparen)) s in
  match skip_while (fun c => negb (c =? c_lparen)) s with
  | [] => (s, None)
  | _ :: after =>
      match last_and_init after with
      | None => (s, None)
      | Some (idx, l) => if l =? c_rparen then (name, Some idx) else (s, None)
      end
  end.

(* ---- the mutually recursive part ---- *)

(* parse_varname after "${" *)
Definition parse_braced_varname (s : str) : pres word :=
  let body := take_while (fun c => negb (c =? c_rbrace)) s in
  match skip_while (fun c => negb (c =? c_rbrace)) s with
  | [] => PErr (lit "missing close-brace for variable name")
  | _ :: rest =>
      match parse_varname_literal body with
      | (name, Some idx) => POk (WArrayRef name (WString idx)) rest
      | (name, None) => POk (WVarRef name) rest
      end
  end.

Fixpoint parse_script (fuel : nat) (bt : bool) (s : str) (acc : list wordvec) {struct fuel}
  : pres script :=
  match fuel with
  | O => PFuel
  | S f =>
      if at_end_of_script bt s then POk (rev acc) s
      else
        match parse_command f bt s with
        | POk cmd rest => parse_script f bt rest (cmd :: acc)
        | PErr m => PErr m
        | PFuel => PFuel
        end
  end

with parse_command (fuel : nat) (bt : bool) (s : str) {struct fuel} : pres wordvec :=
  match fuel with
  | O => PFuel
  | S f =>
      let s1 := skip_to_command (S (length s)) bt s in
      match parse_words f bt s1 [] with
      | POk ws rest =>
          match rest with
          | c :: r => if c =? c_semi then POk ws r else POk ws rest
          | [] => POk ws rest
          end
      | PErr m => PErr m
      | PFuel => PFuel
      end
  end

with parse_words (fuel : nat) (bt : bool) (s : str) (acc : list word) {struct fuel} : pres wordvec :=
  match fuel with
  | O => PFuel
  | S f =>
      if at_end_of_command bt s then POk (rev acc) s
      else
        match parse_next_word f bt s with
        | POk w rest => parse_words f bt (skip_while is_line_white rest) (w :: acc)
        | PErr m => PErr m
        | PFuel => PFuel
        end
  end

with parse_next_word (fuel : nat) (bt : bool) (s : str) {struct fuel} : pres word :=
  match fuel with
  | O => PFuel
  | S f =>
      match s with
      | c :: r =>
          if c =? c_lbrace then
            if starts_with [c_lbrace; c_star; c_rbrace] s then
              let r3 := skipn 3 s in
              match r3 with
              | [] => POk (WValue [c_star]) r3
              | d :: _ =>
                  if is_whitespace d then POk (WValue [c_star]) r3
                  else
                    (* the expanded word is an ordinary word: "{*}" is not recognised again *)
                    match (if d =? c_lbrace then parse_braced_word bt r3
                           else if d =? c_dquote then parse_quoted f bt true (tl r3) tk_new
                           else parse_bare f bt false r3 tk_new) with
                    | POk w rest => POk (WExpand w) rest
                    | PErr m => PErr m
                    | PFuel => PFuel
                    end
              end
            else parse_braced_word bt s
          else if c =? c_dquote then parse_quoted f bt true r tk_new
          else parse_bare f bt false s tk_new
      | [] => parse_bare f bt false s tk_new
      end
  end

(* parse_quoted_string, after the opening quote; chk = true adds parse_quoted_word's test of
   what follows the close quote (commands), chk = false leaves it to the caller (expressions) *)
with parse_quoted (fuel : nat) (bt : bool) (chk : bool) (s : str) (t : tokens) {struct fuel} : pres word :=
  match fuel with
  | O => PFuel
  | S f =>
      match s with
      | [] => PErr (lit "missing """)
      | c :: r =>
          if c =? c_lbracket then
            match parse_brackets f r with
            | POk sc rest => parse_quoted f bt chk rest (tk_push t (WScript sc))
            | PErr m => PErr m
            | PFuel => PFuel
            end
          else if c =? c_dollar then
            match parse_dollar f bt r t with
            | POk t' rest => parse_quoted f bt chk rest t'
            | PErr m => PErr m
            | PFuel => PFuel
            end
          else if c =? c_bslash then
            let '(ch, rest) := bsubst r in parse_quoted f bt chk rest (tk_push_char t ch)
          else if c =? c_dquote then
            if negb chk || at_end_of_command bt r || next_is_line_white r then POk (tk_take t) r
            else PErr (lit "extra characters after close-quote")
          else parse_quoted f bt chk r (tk_push_char t c)
      end
  end

(* parse_bare_word *)
with parse_bare (fuel : nat) (bt : bool) (index_flag : bool) (s : str) (t : tokens) {struct fuel}
  : pres word :=
  match fuel with
  | O => PFuel
  | S f =>
      if at_end_of_command bt s || next_is_line_white s then POk (tk_take t) s
      else
        match s with
        | [] => POk (tk_take t) s
        | c :: r =>
            if index_flag && (c =? c_rparen) then POk (tk_take t) s
            else if c =? c_lbracket then
              match parse_brackets f r with
              | POk sc rest => parse_bare f bt index_flag rest (tk_push t (WScript sc))
              | PErr m => PErr m
              | PFuel => PFuel
              end
            else if c =? c_dollar then
              match parse_dollar f bt r t with
              | POk t' rest => parse_bare f bt index_flag rest t'
              | PErr m => PErr m
              | PFuel => PFuel
              end
            else if c =? c_bslash then
              let '(ch, rest) := bsubst r in parse_bare f bt index_flag rest (tk_push_char t ch)
            else parse_bare f bt index_flag r (tk_push_char t c)
        end
  end

(* parse_brackets, after the '[' *)
with parse_brackets (fuel : nat) (s : str) {struct fuel} : pres script :=
  match fuel with
  | O => PFuel
  | S f =>
      match parse_script f true s [] with
      | POk sc rest =>
          match rest with
          | c :: r => if c =? c_rbracket then POk sc r else PErr (lit "missing close-bracket")
          | [] => PErr (lit "missing close-bracket")
          end
      | PErr m => PErr m
      | PFuel => PFuel
      end
  end

(* parse_dollar, after the '$' *)
with parse_dollar (fuel : nat) (bt : bool) (s : str) (t : tokens) {struct fuel} : pres tokens :=
  match fuel with
  | O => PFuel
  | S f =>
      match s with
      | c :: _ =>
          if is_varname_char c || (c =? c_lbrace) then
            match parse_varname f bt s with
            | POk w rest => POk (tk_push t w) rest
            | PErr m => PErr m
            | PFuel => PFuel
            end
          else POk (tk_push_char t c_dollar) s
      | [] => POk (tk_push_char t c_dollar) s
      end
  end

(* parse_varname; the '$' has been consumed *)
with parse_varname (fuel : nat) (bt : bool) (s : str) {struct fuel} : pres word :=
  match fuel with
  | O => PFuel
  | S f =>
      match s with
      | c :: r =>
          if c =? c_lbrace then parse_braced_varname r
          else
            let name := take_while is_varname_char s in
            let rest := skip_while is_varname_char s in
            match rest with
            | d :: r' =>
                if d =? c_lparen then
                  match parse_bare f bt true r' tk_new with
                  | POk idx rest' =>
                      match rest' with
                      | e :: r'' => if e =? c_rparen then POk (WArrayRef name idx) r''
                                    else PErr (lit "missing )")
                      | [] => PErr (lit "missing )")
                      end
                  | PErr m => PErr m
                  | PFuel => PFuel
                  end
                else POk (WVarRef name) rest
            | [] => POk (WVarRef name) rest
            end
      | [] => POk (WVarRef []) s
      end
  end.

Definition parse_fuel (s : str) : nat := 8 * length s + 16.

Definition parse (s : str) : pres script := parse_script (parse_fuel s) false s [].

End WithUnicode.
