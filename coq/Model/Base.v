(* Base.v — characters, strings, outcomes and the generic [term] type used for cases and
   observations.  Executable definitions only; lemmas about them live in Proofs/. *)
From Coq Require Export Ascii String.
From Coq Require Export List NArith ZArith Bool.
Export ListNotations.
Open Scope N_scope.

(* A character is a Unicode scalar value; a string is a list of them.  The Rust code works on
   byte-valid UTF-8, i.e. exactly on sequences of scalar values. *)
Definition char := N.
Definition str := list char.

(* String literals for messages: [lit "abc"] is the [str] of an ASCII Coq string. *)
Fixpoint str_of_string (x : string) : str :=
  match x with
  | EmptyString => []
  | String a r => N_of_ascii a :: str_of_string r
  end.
Definition lit (x : string) : str := str_of_string x.
Arguments lit x%string.

Definition c_tab : char := 9.
Definition c_nl : char := 10.
Definition c_vt : char := 11.
Definition c_ff : char := 12.
Definition c_cr : char := 13.
Definition c_space : char := 32.
Definition c_bang : char := 33.
Definition c_dquote : char := 34.
Definition c_hash : char := 35.
Definition c_dollar : char := 36.
Definition c_percent : char := 37.
Definition c_amp : char := 38.
Definition c_lparen : char := 40.
Definition c_rparen : char := 41.
Definition c_star : char := 42.
Definition c_plus : char := 43.
Definition c_comma : char := 44.
Definition c_minus : char := 45.
Definition c_dot : char := 46.
Definition c_slash : char := 47.
Definition c_0 : char := 48.
Definition c_7 : char := 55.
Definition c_9 : char := 57.
Definition c_colon : char := 58.
Definition c_semi : char := 59.
Definition c_lt : char := 60.
Definition c_eq : char := 61.
Definition c_gt : char := 62.
Definition c_quest : char := 63.
Definition c_lbracket : char := 91.
Definition c_bslash : char := 92.
Definition c_rbracket : char := 93.
Definition c_caret : char := 94.
Definition c_underscore : char := 95.
Definition c_lbrace : char := 123.
Definition c_pipe : char := 124.
Definition c_rbrace : char := 125.
Definition c_tilde : char := 126.

(* linear-time reversal (List.rev is quadratic); Proofs/BaseFacts.v: rev_fast l = rev l *)
Definition rev_fast {A : Type} (l : list A) : list A := rev_append l [].

Fixpoint str_eqb (a b : str) : bool :=
  match a, b with
  | [], [] => true
  | x :: a', y :: b' => (x =? y) && str_eqb a' b'
  | _, _ => false
  end.

(* Lexicographic comparison by scalar value = Rust's [str::cmp] (UTF-8 byte order and
   code-point order coincide). *)
Fixpoint str_cmp (a b : str) : comparison :=
  match a, b with
  | [], [] => Eq
  | [], _ :: _ => Lt
  | _ :: _, [] => Gt
  | x :: a', y :: b' => match x ?= y with Eq => str_cmp a' b' | c => c end
  end.

Fixpoint starts_with (p s : str) : bool :=
  match p, s with
  | [], _ => true
  | x :: p', y :: s' => (x =? y) && starts_with p' s'
  | _ :: _, [] => false
  end.

Fixpoint concat_str (l : list str) : str :=
  match l with [] => [] | x :: r => x ++ concat_str r end.

Fixpoint join_str (sep : str) (l : list str) : str :=
  match l with
  | [] => []
  | [x] => x
  | x :: r => x ++ sep ++ join_str sep r
  end.

(* char::is_whitespace (White_Space property), 25 code points. *)
Definition is_whitespace (c : char) : bool :=
  ((9 <=? c) && (c <=? 13)) || (c =? 32) || (c =? 133) || (c =? 160) || (c =? 5760)
  || ((8192 <=? c) && (c <=? 8202)) || (c =? 8232) || (c =? 8233) || (c =? 8239)
  || (c =? 8287) || (c =? 12288).

Definition is_digit10 (c : char) : bool := (48 <=? c) && (c <=? 57).
Definition is_digit8 (c : char) : bool := (48 <=? c) && (c <=? 55).
Definition is_digit16 (c : char) : bool :=
  is_digit10 c || ((97 <=? c) && (c <=? 102)) || ((65 <=? c) && (c <=? 70)).
Definition digit_val (c : char) : N :=
  if is_digit10 c then c - 48
  else if (97 <=? c) && (c <=? 102) then c - 87
  else c - 55.

(* char::from_u32: a scalar value is a code point below 0x110000 outside the surrogates. *)
Definition is_scalar (n : N) : bool := (n <? 55296) || ((57343 <? n) && (n <? 1114112)).

(* UTF-8 length of a scalar value (used where the Rust code mixes byte and char counts). *)
Definition utf8_len (c : char) : N :=
  if c <? 128 then 1 else if c <? 2048 then 2 else if c <? 65536 then 3 else 4.

Fixpoint skip_while (p : char -> bool) (s : str) : str :=
  match s with
  | [] => []
  | c :: r => if p c then skip_while p r else s
  end.

Fixpoint take_while (p : char -> bool) (s : str) : str :=
  match s with
  | [] => []
  | c :: r => if p c then c :: take_while p r else []
  end.

Definition trim_start (s : str) : str := skip_while is_whitespace s.
Definition trim_end (s : str) : str := rev (skip_while is_whitespace (rev s)).
Definition trim (s : str) : str := trim_end (trim_start s).

(* Decimal printing of integers (Rust's Display for i64). *)
Fixpoint show_pos_fuel (fuel : nat) (n : N) (acc : str) : str :=
  match fuel with
  | O => acc
  | S f => let acc' := (48 + n mod 10) :: acc in
           if n / 10 =? 0 then acc' else show_pos_fuel f (n / 10) acc'
  end.
Definition show_N (n : N) : str := show_pos_fuel (S (N.to_nat (N.log2 n))) n [].
Definition show_Z (z : Z) : str :=
  match z with
  | Z0 => [48]
  | Zpos p => show_N (Npos p)
  | Zneg p => c_minus :: show_N (Npos p)
  end.

(* i64 range *)
Definition i64_min : Z := (-9223372036854775808)%Z.
Definition i64_max : Z := 9223372036854775807%Z.
Definition in_i64 (z : Z) : bool := ((i64_min <=? z) && (z <=? i64_max))%Z.

(* Generic tree used to carry cases and observations between harness, driver and model. *)
Inductive term :=
| TStr (s : str)
| TInt (z : Z)
| TList (l : list term).

Definition term_str (t : term) : str := match t with TStr s => s | _ => [] end.
Definition term_int (t : term) : Z := match t with TInt z => z | _ => 0%Z end.
Definition term_list (t : term) : list term := match t with TList l => l | _ => [] end.
Definition term_strs (t : term) : list str := map term_str (term_list t).
Definition TStrs (l : list str) : term := TList (map TStr l).
Definition TBool (b : bool) : term := TInt (if b then 1 else 0)%Z.
Definition TTag (tag : string) (args : list term) : term := TList (TStr (lit tag) :: args).
Definition term_nth (t : term) (n : nat) : term := nth n (term_list t) (TList []).

Fixpoint term_eqb (a b : term) : bool :=
  match a, b with
  | TStr x, TStr y => str_eqb x y
  | TInt x, TInt y => Z.eqb x y
  | TList x, TList y =>
      (fix go (x y : list term) : bool :=
         match x, y with
         | [], [] => true
         | p :: x', q :: y' => term_eqb p q && go x' y'
         | _, _ => false
         end) x y
  | _, _ => false
  end.
