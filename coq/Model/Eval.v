(* Eval.v — interpreter state and the structurally recursive part of interp.rs:
   eval_script / eval_word_vec / eval_word over a parsed script, for an arbitrary command
   executor [exec] (open recursion; the knot is tied in Interp.v). *)
From Molt Require Import Model.Base Model.ListSyn Model.Float Model.Value Model.State Model.Script.
Local Open Scope N_scope.

(* native command implementations: molt's built-ins plus the commands the harness registers *)
Inductive native :=
| NAppend | NArray | NAssertEq | NBreak | NCatch | NContinue | NDict | NError | NExpr | NFor
| NForeach | NGlobal | NIf | NIncr | NInfo | NJoin | NLappend | NLindex | NList | NLlength
| NProc | NPuts | NRename | NReturn | NSet | NString | NThrow | NTime | NUnset | NWhile
| NSource | NExit | NParse | NPdump | NPclear
| NRecorder            (* harness: records its argv, returns its last argument *)
| NIdent               (* harness: returns a fresh string copy of its argument *)
| NTest                (* test_harness.rs test command *)
| NDummy (tag : N).    (* harness: a no-op command distinguishable by its tag *)

Inductive command :=
| CmdNative (n : native) (ctx : N)
| CmdProc (parms : list value) (body : value).

Definition is_proc (c : command) : bool := match c with CmdProc _ _ => true | _ => false end.
Definition cmd_context (c : command) : N := match c with CmdNative _ ctx => ctx | _ => 0 end.

Record interp := {
  i_cmds : list (str * command);
  i_scopes : scopes;
  i_limit : N;
  i_levels : N;
  i_ctx : list (N * N);            (* live context id -> reference count *)
  i_last_ctx : N;
  i_trace : list (list str);       (* recorder calls, newest first *)
  i_test : N * N * N * N           (* test harness counters: tests, passed, failed, errors *)
}.

Definition set_scopes (st : interp) (ss : scopes) : interp :=
  {| i_cmds := i_cmds st; i_scopes := ss; i_limit := i_limit st; i_levels := i_levels st;
     i_ctx := i_ctx st; i_last_ctx := i_last_ctx st; i_trace := i_trace st; i_test := i_test st |}.
Definition set_levels (st : interp) (n : N) : interp :=
  {| i_cmds := i_cmds st; i_scopes := i_scopes st; i_limit := i_limit st; i_levels := n;
     i_ctx := i_ctx st; i_last_ctx := i_last_ctx st; i_trace := i_trace st; i_test := i_test st |}.
Definition set_cmds (st : interp) (c : list (str * command)) : interp :=
  {| i_cmds := c; i_scopes := i_scopes st; i_limit := i_limit st; i_levels := i_levels st;
     i_ctx := i_ctx st; i_last_ctx := i_last_ctx st; i_trace := i_trace st; i_test := i_test st |}.
Definition set_ctx (st : interp) (c : list (N * N)) (last : N) : interp :=
  {| i_cmds := i_cmds st; i_scopes := i_scopes st; i_limit := i_limit st; i_levels := i_levels st;
     i_ctx := c; i_last_ctx := last; i_trace := i_trace st; i_test := i_test st |}.
Definition set_trace (st : interp) (t : list (list str)) : interp :=
  {| i_cmds := i_cmds st; i_scopes := i_scopes st; i_limit := i_limit st; i_levels := i_levels st;
     i_ctx := i_ctx st; i_last_ctx := i_last_ctx st; i_trace := t; i_test := i_test st |}.
Definition set_limit (st : interp) (n : N) : interp :=
  {| i_cmds := i_cmds st; i_scopes := i_scopes st; i_limit := n; i_levels := i_levels st;
     i_ctx := i_ctx st; i_last_ctx := i_last_ctx st; i_trace := i_trace st; i_test := i_test st |}.
Definition set_test (st : interp) (t : N * N * N * N) : interp :=
  {| i_cmds := i_cmds st; i_scopes := i_scopes st; i_limit := i_limit st; i_levels := i_levels st;
     i_ctx := i_ctx st; i_last_ctx := i_last_ctx st; i_trace := i_trace st; i_test := t |}.

(* variable access through the interpreter *)
Definition st_scalar (st : interp) (name : str) : res value := sc_get (i_scopes st) name.
Definition st_element (st : interp) (name idx : str) : res value := sc_get_elem (i_scopes st) name idx.
Definition st_set_scalar (st : interp) (name : str) (v : value) : interp * res unit :=
  let '(ss, r) := sc_set (i_scopes st) name v in (set_scopes st ss, r).
Definition st_set_element (st : interp) (name idx : str) (v : value) : interp * res unit :=
  let '(ss, r) := sc_set_elem (i_scopes st) name idx v in (set_scopes st ss, r).

(* the executor of one command invocation *)
Definition executor := interp -> command -> list value -> interp * res value.

Section WithExec.
Variable exec : executor.

Definition concat_values (l : list value) : value := VStr (concat_str (map as_str l)).

(* eval_word_vec and eval_script for an arbitrary word evaluator [ew] (the word type is nested
   through lists, so the recursion over words is tied below) *)
Section WithWordEval.
Variable ew : interp -> word -> interp * res value.

(* eval_word_vec; [acc] is reversed *)
Fixpoint eval_words_with (st : interp) (ws : list word) (acc : list value) {struct ws}
  : interp * res (list value) :=
  match ws with
  | [] => (st, Ok (rev acc))
  | WExpand w :: r =>
      match ew st w with
      | (st1, Ok v) =>
          match v_as_list v with
          | inr l => eval_words_with st1 r (rev l ++ acc)
          | inl m => (st1, err m)
          end
      | (st1, Err e) => (st1, Err e)
      | (st1, Panic p) => (st1, Panic p)
      | (st1, Fuel) => (st1, Fuel)
      end
  | w :: r =>
      match ew st w with
      | (st1, Ok v) => eval_words_with st1 r (v :: acc)
      | (st1, Err e) => (st1, Err e)
      | (st1, Panic p) => (st1, Panic p)
      | (st1, Fuel) => (st1, Fuel)
      end
  end.

(* what eval_script does with the outcome of one command *)
Definition command_outcome (st2 : interp) (cmd : command) (name : str) (argv : list value) (e : exn)
  : interp * res value :=
  match x_code e with
  | CError =>
      let quoted := lit """" ++ list_to_string (map as_str argv) ++ lit """" in
      if is_new_error e then
        (st2, Err (add_error_info (add_error_info e (lit "    while executing")) quoted))
      else if is_proc cmd then
        (st2, Err (add_error_info
                     (add_error_info
                        (add_error_info e (lit "    invoked from within"))
                        (lit "    (procedure """ ++ name ++ lit """ line TODO)"))
                     quoted))
      else (st2, Err e)
  | _ => (st2, Err e)
  end.

(* eval_script *)
Fixpoint eval_cmds_with (st : interp) (cmds : list (list word)) (result : value) {struct cmds}
  : interp * res value :=
  match cmds with
  | [] => (st, Ok result)
  | ws :: rest =>
      match eval_words_with st ws [] with
      | (st1, Ok []) => eval_cmds_with st1 rest result      (* an empty command is skipped *)
      | (st1, Ok ((name_v :: _) as argv)) =>
          let name := as_str name_v in
          match assoc_get name (i_cmds st1) with
          | None =>
              (st1, Err (add_error_info
                           (add_error_info (molt_err (lit "invalid command name """ ++ name ++ lit """"))
                                           (lit "    while executing"))
                           (lit """" ++ list_to_string (map as_str argv) ++ lit """")))
          | Some cmd =>
              match exec st1 cmd argv with
              | (st2, Ok v) => eval_cmds_with st2 rest v
              | (st2, Err e) => command_outcome st2 cmd name argv e
              | (st2, Panic p) => (st2, Panic p)
              | (st2, Fuel) => (st2, Fuel)
              end
          end
      | (st1, Err e) => (st1, Err e)
      | (st1, Panic p) => (st1, Panic p)
      | (st1, Fuel) => (st1, Fuel)
      end
  end.
End WithWordEval.

Fixpoint eval_word (st : interp) (w : word) {struct w} : interp * res value :=
  match w with
  | WValue s => (st, Ok (VStr s))
  | WVarRef name => (st, st_scalar st name)
  | WArrayRef name idx =>
      match eval_word st idx with
      | (st1, Ok i) => (st1, st_element st1 name (as_str i))
      | (st1, Err e) => (st1, Err e)
      | (st1, Panic p) => (st1, Panic p)
      | (st1, Fuel) => (st1, Fuel)
      end
  | WScript cmds => eval_cmds_with eval_word st cmds v_empty
  | WTokens ws =>
      match eval_words_with eval_word st ws [] with
      | (st1, Ok l) => (st1, Ok (concat_values l))
      | (st1, Err e) => (st1, Err e)
      | (st1, Panic p) => (st1, Panic p)
      | (st1, Fuel) => (st1, Fuel)
      end
  | WExpand _ => (st, Panic (lit "recursive Expand!"))
  | WString s => (st, Ok (VStr s))
  end.

Definition eval_words := eval_words_with eval_word.
Definition eval_cmds := eval_cmds_with eval_word.

Definition eval_script (st : interp) (s : script) : interp * res value := eval_cmds st s v_empty.

End WithExec.
