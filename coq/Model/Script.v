(* Script.v — the parsed form of a script (parser.rs: Script / WordVec / Word). *)
From Molt Require Import Model.Base.

Inductive word :=
| WValue (s : str)                      (* Word::Value: a complete literal word *)
| WVarRef (name : str)                  (* $name *)
| WArrayRef (name : str) (idx : word)   (* $name(index) *)
| WScript (cmds : list (list word))     (* [script] *)
| WTokens (ws : list word)              (* concatenation of several pieces *)
| WExpand (w : word)                    (* {*}word *)
| WString (s : str).                    (* literal piece inside WTokens *)

Definition wordvec := list word.
Definition script := list wordvec.
