(* Interp.v — ties the knot: Interp::eval_value, Interp::expr, command dispatch, Interp::new. *)
From Molt Require Import Model.Base Model.Tokenizer Model.ListSyn Model.Float Model.Value
  Model.State Model.Script Model.Parser Model.Eval Model.Expr Model.Commands Model.Harness.
From Molt Require Gen.SrcFacts.
Local Open Scope N_scope.

Section WithUni.
Variable U : uni.

(* set_global_error_data *)
Definition set_global_error_data (st : interp) (e : exn) : M unit :=
  match x_data e with
  | Some d =>
      let '(ss1, r1) := sc_set_global (i_scopes st) (lit "errorInfo") (VStr (ed_info d)) in
      match r1 with
      | Ok _ =>
          let '(ss2, r2) := sc_set_global ss1 (lit "errorCode") (ed_code d) in
          (set_scopes st ss2, r2)
      | other => (set_scopes st ss1, other)
      end
  | None => ret st tt
  end.

Definition too_many_nested : str := lit "too many nested calls to Interp::eval (infinite loop?)".

(* the translation eval_value applies at the top level (num_levels = 0) *)
Definition toplevel_boundary (r : res value) : res value :=
  match r with
  | Err e =>
      let e' := match x_code e with CReturn => decrement_level e | _ => e end in
      match x_code e' with
      | COkay => Ok (x_value e')
      | CError => Err e'
      | CReturn => Err e'
      | CBreak => err (lit "invoked ""break"" outside of a loop")
      | CContinue => err (lit "invoked ""continue"" outside of a loop")
      | COther _ => err (lit "unexpected result code.")
      end
  | other => other
  end.

Section WithExec.
Variable exec : executor.

(* Interp::eval_value, for an executor of commands *)
Definition eval_value_with (st : interp) (v : value) : M value :=
  let st1 := set_levels st (i_levels st + 1) in
  if i_limit st1 <? i_levels st1 then
    fail (set_levels st1 (i_levels st1 - 1)) too_many_nested
  else
    match parse (u_alnum U) (as_str v) with
    | PErr m => fail (set_levels st1 (i_levels st1 - 1)) m     (* after the fix: the level is released *)
    | PFuel => (st1, Fuel)
    | POk sc _ =>
        let '(st2, r) := eval_script exec st1 sc in
        let st3 := set_levels st2 (i_levels st2 - 1) in
        let r' := if i_levels st3 =? 0 then toplevel_boundary r else r in
        match r' with
        | Err e =>
            if rcode_eqb (x_code e) CError then
              do (st4, _) <- set_global_error_data st3 e; (st4, Err e)
            else (st3, r')
        | _ => (st3, r')
        end
    end.

(* Interp::expr *)
Definition expr_with (st : interp) (e : value) : M value :=
  let '(st1, r) := expr_eval (u_alnum U) (u_alpha U) exec st e in
  match r with
  | Err ex => do (st2, _) <- set_global_error_data st1 ex; (st2, Err ex)
  | _ => (st1, r)
  end.

End WithExec.

Definition run_native (rec : recfns) (n : native) (st : interp) (argv : list value) : M value :=
  match n with
  | NAppend => cmd_append st argv
  | NArray => cmd_array st argv
  | NAssertEq => cmd_assert_eq st argv
  | NBreak => cmd_break st argv
  | NCatch => cmd_catch rec st argv
  | NContinue => cmd_continue st argv
  | NDict => cmd_dict st argv
  | NError => cmd_error st argv
  | NExpr => cmd_expr rec st argv
  | NFor => cmd_for rec st argv
  | NForeach => cmd_foreach rec st argv
  | NGlobal => cmd_global st argv
  | NIf => cmd_if rec st argv
  | NIncr => cmd_incr st argv
  | NInfo => cmd_info U st argv
  | NJoin => cmd_join st argv
  | NLappend => cmd_lappend st argv
  | NLindex => cmd_lindex st argv
  | NList => cmd_list st argv
  | NLlength => cmd_llength st argv
  | NProc => cmd_proc st argv
  | NPuts => cmd_puts st argv
  | NRename => cmd_rename st argv
  | NReturn => cmd_return st argv
  | NSet => cmd_set st argv
  | NString => cmd_string U st argv
  | NThrow => cmd_throw st argv
  | NUnset => cmd_unset st argv
  | NWhile => cmd_while rec st argv
  | NRecorder => cmd_recorder st argv
  | NIdent => cmd_ident st argv
  | NDummy tag => ret st (VInt (Z.of_N tag))
  | NTest => cmd_test rec st argv
  | NTime | NSource | NExit | NParse | NPdump | NPclear =>
      (st, Panic (lit "command not modelled"))
  end.

(* the knot: [run fuel] is the pair (eval_value, executor) usable for [fuel] nested levels *)
Fixpoint run_exec (fuel : nat) : executor :=
  fun st cmd argv =>
    match fuel with
    | O => (st, Fuel)
    | S f =>
        let ex := run_exec f in
        let rec := {| r_eval := eval_value_with ex; r_expr := expr_with ex; r_loop := fuel |} in
        match cmd with
        | CmdNative n _ => run_native rec n st argv
        | CmdProc parms body => proc_execute rec st parms body argv
        end
    end.

Definition eval_value (fuel : nat) : interp -> value -> M value := eval_value_with (run_exec fuel).
Definition expr (fuel : nat) : interp -> value -> M value := expr_with (run_exec fuel).
Definition eval (fuel : nat) (st : interp) (s : str) : M value := eval_value fuel st (VStr s).

(* Interp::complete *)
Definition complete (s : str) : bool := match parse (u_alnum U) s with POk _ _ => true | _ => false end.

End WithUni.

(* ---------- Interp::new ---------- *)
Definition native_of_fn (fn : string) : option native :=
  let t := [("cmd_append", NAppend); ("cmd_array", NArray); ("cmd_assert_eq", NAssertEq);
            ("cmd_break", NBreak); ("cmd_catch", NCatch); ("cmd_continue", NContinue);
            ("cmd_dict", NDict); ("cmd_error", NError); ("cmd_expr", NExpr); ("cmd_for", NFor);
            ("cmd_foreach", NForeach); ("cmd_global", NGlobal); ("cmd_if", NIf); ("cmd_incr", NIncr);
            ("cmd_info", NInfo); ("cmd_join", NJoin); ("cmd_lappend", NLappend);
            ("cmd_lindex", NLindex); ("cmd_list", NList); ("cmd_llength", NLlength);
            ("cmd_proc", NProc); ("cmd_puts", NPuts); ("cmd_rename", NRename);
            ("cmd_return", NReturn); ("cmd_set", NSet); ("cmd_string", NString);
            ("cmd_throw", NThrow); ("cmd_time", NTime); ("cmd_unset", NUnset); ("cmd_while", NWhile);
            ("cmd_source", NSource); ("cmd_exit", NExit); ("cmd_parse", NParse);
            ("cmd_pdump", NPdump); ("cmd_pclear", NPclear)]%string in
  match find (fun e => String.eqb (fst e) fn) t with Some (_, n) => Some n | None => None end.

(* the command table of Interp::new(), read off the regenerated registration list *)
Definition initial_commands : list (str * command) :=
  flat_map (fun e => match native_of_fn (snd e) with
                     | Some n => [(lit (fst e), CmdNative n 0)]
                     | None => []
                     end) Gen.SrcFacts.registered_commands.

(* Interp::new() with an empty process environment *)
Definition interp_new : interp :=
  {| i_cmds := initial_commands;
     i_scopes := [[(lit "errorInfo", VarScalar v_empty)]];
     i_limit := Z.to_N Gen.SrcFacts.default_recursion_limit;
     i_levels := 0;
     i_ctx := [];
     i_last_ctx := 0;
     i_trace := [];
     i_test := (0, 0, 0, 0) |}.
