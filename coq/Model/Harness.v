(* Harness.v — model of test_harness.rs: the `test` command (both syntaxes), run_test and the
   counters; printing is not modelled.  Written for the code after the repair of D28 (only an
   ERROR outcome can match an -error expectation). *)
From Molt Require Import Model.Base Model.ListSyn Model.Float Model.Value Model.State Model.Script
  Model.Parser Model.Eval Model.Commands.
Local Open Scope N_scope.

Inductive tcode := TOk | TError.
Record tinfo := { ti_setup : str; ti_body : str; ti_cleanup : str; ti_code : tcode; ti_expect : str }.

Definition incr_errors (st : interp) : interp :=
  let '(t, p, f, e) := i_test st in set_test st (t, p, f, e + 1).

(* the outcome of a helper script (setup / cleanup) is only printed *)
Definition swallow (m : M value) : M unit :=
  match m with
  | (st, Ok _) => (st, Ok tt)
  | (st, Err _) => (st, Ok tt)
  | (st, Panic p) => (st, Panic p)
  | (st, Fuel) => (st, Fuel)
  end.

Section WithRec.
Variable rec : recfns.

Definition run_test (st : interp) (info : tinfo) : M unit :=
  let st1 := push_scope st in
  do (st2, _) <- swallow (r_eval rec st1 (VStr (ti_setup info)));
  match r_eval rec st2 (VStr (ti_body info)) with
  | (st3, Panic p) => (st3, Panic p)
  | (st3, Fuel) => (st3, Fuel)
  | (st3, rbody) =>
      do (st4, _) <- swallow (r_eval rec st3 (VStr (ti_cleanup info)));
      let st5 := pop_scope st4 in
      let '(t, p, f, e) := i_test st5 in
      let t := t + 1 in
      let verdict : N * N * N :=      (* passed, failed, errors increments *)
        match rbody, ti_code info with
        | Ok out, TOk => if str_eqb (as_str out) (ti_expect info) then (1, 0, 0) else (0, 1, 0)
        | Err ex, TError =>
            if rcode_eqb (x_code ex) CError then
              (if str_eqb (as_str (x_value ex)) (ti_expect info) then (1, 0, 0) else (0, 1, 0))
            else (0, 0, 1)
        | _, _ => (0, 0, 1)
        end in
      let '(dp, df, de) := verdict in
      ret (set_test st5 (t, p + dp, f + df, e + de)) tt
  end.

Definition simple_test (st : interp) (argv : list value) : M value :=
  do (st, _) <- lift st (check_args_raw 1 6 6 (lit "name description script -ok|-error result") argv);
  let code := as_str (arg argv 4) in
  if str_eqb code (lit "-ok") || str_eqb code (lit "-error") then
    do (st, _) <- run_test st {| ti_setup := []; ti_body := as_str (arg argv 3); ti_cleanup := [];
                                 ti_code := if str_eqb code (lit "-ok") then TOk else TError;
                                 ti_expect := as_str (arg argv 5) |};
    ok_empty st
  else ok_empty (incr_errors st).

(* options of the fancy form; None = malformed (counts as an error, the test is not run) *)
Fixpoint fancy_options (l : list value) (info : tinfo) : option tinfo :=
  match l with
  | [] => Some info
  | [_] => None
  | o :: v :: r =>
      let os := as_str o in
      let vs := as_str v in
      if str_eqb os (lit "-setup") then
        fancy_options r {| ti_setup := vs; ti_body := ti_body info; ti_cleanup := ti_cleanup info;
                           ti_code := ti_code info; ti_expect := ti_expect info |}
      else if str_eqb os (lit "-body") then
        fancy_options r {| ti_setup := ti_setup info; ti_body := vs; ti_cleanup := ti_cleanup info;
                           ti_code := ti_code info; ti_expect := ti_expect info |}
      else if str_eqb os (lit "-cleanup") then
        fancy_options r {| ti_setup := ti_setup info; ti_body := ti_body info; ti_cleanup := vs;
                           ti_code := ti_code info; ti_expect := ti_expect info |}
      else if str_eqb os (lit "-ok") then
        fancy_options r {| ti_setup := ti_setup info; ti_body := ti_body info; ti_cleanup := ti_cleanup info;
                           ti_code := TOk; ti_expect := vs |}
      else if str_eqb os (lit "-error") then
        fancy_options r {| ti_setup := ti_setup info; ti_body := ti_body info; ti_cleanup := ti_cleanup info;
                           ti_code := TError; ti_expect := vs |}
      else None
  end.

Definition fancy_test (st : interp) (argv : list value) : M value :=
  match fancy_options (skipn 3 argv)
          {| ti_setup := []; ti_body := []; ti_cleanup := []; ti_code := TOk; ti_expect := [] |} with
  | Some info => do (st, _) <- run_test st info; ok_empty st
  | None => ok_empty (incr_errors st)
  end.

Definition cmd_test (st : interp) (argv : list value) : M value :=
  do (st, _) <- lift st (check_args_raw 1 4 0 (lit "name description args...") argv);
  if starts_with [c_minus] (as_str (arg argv 3)) then fancy_test st argv else simple_test st argv.

End WithRec.

(* test_harness(): overall success iff nothing failed or errored (and the script itself ran) *)
Definition harness_verdict (st : interp) (r : res value) : bool :=
  match r with
  | Ok _ => let '(_, _, f, e) := i_test st in (f + e =? 0)
  | _ => false
  end.
