(* Unicode.v — the Unicode-dependent functions of Rust std as used by molt, instantiated from
   the tables regenerated on every run (Gen/UnicodeTabs.v).  Modelled, not verified. *)
From Molt Require Import Model.Base Model.Commands.
From Molt Require Gen.UnicodeTabs.
Local Open Scope N_scope.

Definition in_ranges (r : list (N * N)) (c : char) : bool :=
  existsb (fun ab => (fst ab <=? c) && (c <=? snd ab)) r.

Definition ascii_alnum (c : char) : bool :=
  ((48 <=? c) && (c <=? 57)) || ((65 <=? c) && (c <=? 90)) || ((97 <=? c) && (c <=? 122)).
Definition ascii_alpha (c : char) : bool :=
  ((65 <=? c) && (c <=? 90)) || ((97 <=? c) && (c <=? 122)).

Definition is_alphanumeric (c : char) : bool :=
  if c <? 128 then ascii_alnum c else in_ranges Gen.UnicodeTabs.alphanumeric_ranges c.
Definition is_alphabetic (c : char) : bool :=
  if c <? 128 then ascii_alpha c else in_ranges Gen.UnicodeTabs.alphabetic_ranges c.

Definition map_char (m : list (N * list N)) (c : char) : list char :=
  match find (fun e => fst e =? c) m with Some e => snd e | None => [c] end.

(* str::to_lowercase / to_uppercase, character by character, except U+03A3: Rust lowers it to
   U+03C2 (final sigma) when, in the original string, the nearest character before it that is not
   case-ignorable is cased, and the nearest such character after it is not (alloc::str
   map_uppercase_sigma / case_ignorable_then_cased), and to U+03C3 otherwise.  The two classes are
   regenerated from std's behaviour on every run (Gen/UnicodeTabs.v). *)
Definition case_ignorable (c : char) : bool := in_ranges Gen.UnicodeTabs.case_ignorable_ranges c.
Definition cased_ni (c : char) : bool := in_ranges Gen.UnicodeTabs.cased_not_ignorable_ranges c.
Fixpoint ci_then_cased (l : list char) : bool :=
  match l with
  | [] => false
  | c :: r => if case_ignorable c then ci_then_cased r else cased_ni c
  end.
Definition lower_char (c : char) : list char :=
  if c <? 128 then [if (65 <=? c) && (c <=? 90) then c + 32 else c]
  else map_char Gen.UnicodeTabs.lower_map c.
Fixpoint lower_go (before_rev : list char) (s : str) : str :=
  match s with
  | [] => []
  | c :: r =>
      (if c =? 931 then [if ci_then_cased before_rev && negb (ci_then_cased r) then 962 else 963]
       else lower_char c) ++ lower_go (c :: before_rev) r
  end.
Definition to_lowercase (s : str) : str := lower_go [] s.
Definition to_uppercase (s : str) : str :=
  flat_map (fun c => if c <? 128 then [if (97 <=? c) && (c <=? 122) then c - 32 else c]
                     else map_char Gen.UnicodeTabs.upper_map c) s.

Definition std_uni : uni :=
  {| u_alnum := is_alphanumeric; u_alpha := is_alphabetic;
     u_lower := to_lowercase; u_upper := to_uppercase |}.
