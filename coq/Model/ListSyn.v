(* ListSyn.v — model of list.rs: list parsing (get_list) and formatting (list_to_string). *)
From Molt Require Import Model.Base Model.Tokenizer.

Inductive list_err := UnmatchedBrace | ExtraAfterBrace | UnmatchedQuote.

Definition list_err_msg (e : list_err) : str :=
  match e with
  | UnmatchedBrace => lit "unmatched open brace in list"
  | ExtraAfterBrace => lit "extra characters after close-brace"
  | UnmatchedQuote => lit "unmatched open quote in list"
  end.

Definition is_list_white (c : char) : bool :=
  (c =? 32) || (c =? 10) || (c =? 13) || (c =? 9) || (c =? 11) || (c =? 12).

(* parse_braced_item, after the opening brace.  [count] is the Rust count minus one; [acc]
   is the token read so far, reversed.  A backslash hides the next character. *)
Fixpoint pbi (s : str) (count : nat) (acc : str) : list_err + (str * str) :=
  match s with
  | [] => inl UnmatchedBrace
  | c :: r =>
      if c =? c_bslash then
        match r with
        | [] => inl UnmatchedBrace
        | d :: r' => pbi r' count (d :: c :: acc)
        end
      else if c =? c_lbrace then pbi r (S count) (c :: acc)
      else if c =? c_rbrace then
        match count with
        | O => match r with
               | [] => inr (rev_fast acc, r)
               | n :: _ => if is_list_white n then inr (rev_fast acc, r) else inl ExtraAfterBrace
               end
        | S k => pbi r k (c :: acc)
        end
      else pbi r count (c :: acc)
  end.

(* parse_quoted_item, after the opening quote. *)
Fixpoint pqi (fuel : nat) (s : str) (acc : str) : list_err + (str * str) :=
  match fuel with
  | O => inl UnmatchedQuote
  | S f =>
      match s with
      | [] => inl UnmatchedQuote
      | c :: r =>
          if c =? c_dquote then inr (rev_fast acc, r)
          else if c =? c_bslash then
            let '(ch, r') := bsubst r in pqi f r' (ch :: acc)
          else pqi f r (c :: acc)
      end
  end.

(* parse_bare_item *)
Fixpoint pbare (fuel : nat) (s : str) (acc : str) : str * str :=
  match fuel with
  | O => (rev_fast acc, s)
  | S f =>
      match s with
      | [] => (rev_fast acc, [])
      | c :: r =>
          if is_list_white c then (rev_fast acc, s)
          else if c =? c_bslash then
            let '(ch, r') := bsubst r in pbare f r' (ch :: acc)
          else pbare f r (c :: acc)
      end
  end.

Definition parse_item (s : str) : list_err + (str * str) :=
  match s with
  | [] => inr ([], [])
  | c :: r =>
      if c =? c_lbrace then pbi r 0 []
      else if c =? c_dquote then pqi (S (length r)) r []
      else inr (pbare (S (length s)) s [])
  end.

Fixpoint parse_list (fuel : nat) (s : str) (acc : list str) : option (list_err + list str) :=
  match fuel with
  | O => None
  | S f =>
      match skip_while is_list_white s with
      | [] => Some (inr (rev_fast acc))
      | s' => match parse_item s' with
              | inl e => Some (inl e)
              | inr (item, rest) => parse_list f rest (item :: acc)
              end
      end
  end.

(* get_list: None never happens (Proofs/ListSynFacts.v, get_list_total). *)
Definition get_list (s : str) : option (list_err + list str) :=
  parse_list (S (length s)) s [].

(* ---- formatting ---- *)

Inductive mode := AsIs | Brace | Escape.

Definition is_quote_special (c : char) : bool :=
  (c =? c_semi) || (c =? c_dollar) || (c =? c_lbracket) || (c =? c_rbracket) || (c =? c_dquote).

(* get_mode's scan: returns (needs_quoting, brace_safe, depth) folded into the three flags *)
Fixpoint mode_scan (w : str) (nq safe : bool) (depth : nat) : bool * bool * nat :=
  match w with
  | [] => (nq, safe, depth)
  | c :: r =>
      if is_whitespace c then mode_scan r true safe depth
      else if is_quote_special c then mode_scan r true safe depth
      else if c =? c_lbrace then mode_scan r true safe (S depth)
      else if c =? c_rbrace then
        match depth with
        | O => mode_scan r true false O
        | S k => mode_scan r true safe k
        end
      else if c =? c_bslash then
        match r with
        | [] => (true, false, depth)
        | d :: r' => if d =? c_nl then mode_scan r' true false depth
                     else mode_scan r' true safe depth
        end
      else mode_scan r nq safe depth
  end.

Definition get_mode (w : str) : mode :=
  match w with
  | [] => Brace
  | _ => let '(nq, safe, depth) := mode_scan w false true O in
         if negb nq then AsIs
         else if safe && Nat.eqb depth 0 then Brace
         else Escape
  end.

Definition brace_item (w : str) : str := c_lbrace :: w ++ [c_rbrace].

Definition is_escape_special (c : char) : bool :=
  (c =? c_lbrace) || (c =? c_rbrace) || (c =? c_semi) || (c =? c_dollar) || (c =? c_lbracket)
  || (c =? c_rbracket) || (c =? c_bslash) || (c =? c_dquote).

Fixpoint escape_chars (w : str) : str :=
  match w with
  | [] => []
  | c :: r => if is_whitespace c || is_escape_special c then c_bslash :: c :: escape_chars r
              else c :: escape_chars r
  end.

Definition escape_item (hash : bool) (w : str) : str :=
  if hash then c_bslash :: escape_chars w else escape_chars w.

Fixpoint format_items (hash : bool) (l : list str) : list str :=
  match l with
  | [] => []
  | w :: r =>
      match get_mode w with
      | AsIs => if hash then brace_item w :: format_items false r
                else w :: format_items hash r
      | Brace => brace_item w :: format_items false r
      | Escape => escape_item hash w :: format_items false r
      end
  end.

Definition starts_with_hash (l : list str) : bool :=
  match l with
  | (c :: _) :: _ => c =? c_hash
  | _ => false
  end.

Definition list_to_string (l : list str) : str :=
  join_str [c_space] (format_items (starts_with_hash l) l).
