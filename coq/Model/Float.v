(* Float.v — model of Rust's f64 as used by molt: IEEE-754 binary64 arithmetic (Coq's SpecFloat
   executable definitions), Rust's decimal parser and shortest-round-trip Display.
   A float is carried as its 64-bit pattern.  Rust std itself is trusted, not verified; this
   file is validated against it by the correspondence runs. *)
From Molt Require Import Model.Base.
From Coq Require Import Floats.SpecFloat.
Local Open Scope Z_scope.

(* Arithmetic is Coq's own executable specification of IEEE-754 binary64 (Floats.SpecFloat:
   SFadd, SFmul, ... with round-to-nearest-even), which is axiom-free. *)
Definition fl := Z.

Definition prec : Z := 53.
Definition emax : Z := 1024.

Definition of_bits (b : fl) : spec_float :=
  let s := Z.testbit b 63 in
  let e := (b / 2 ^ 52) mod 2 ^ 11 in
  let m := b mod 2 ^ 52 in
  if e =? 0 then
    match m with
    | Zpos p => S754_finite s p (-1074)
    | _ => S754_zero s
    end
  else if e =? 2047 then
    (if m =? 0 then S754_infinity s else S754_nan)
  else
    match m + 2 ^ 52 with
    | Zpos p => S754_finite s p (e - 1075)
    | _ => S754_zero s
    end.

Definition sign_bit (s : bool) : Z := if s then 2 ^ 63 else 0.

Definition to_bits (f : spec_float) : fl :=
  match f with
  | S754_zero s => sign_bit s
  | S754_infinity s => sign_bit s + 2047 * 2 ^ 52
  | S754_nan => 2047 * 2 ^ 52 + 2 ^ 51
  | S754_finite s m e =>
      if Zpos m <? 2 ^ 52 then sign_bit s + Zpos m
      else sign_bit s + (e + 1075) * 2 ^ 52 + (Zpos m - 2 ^ 52)
  end.

Definition fadd (a b : fl) : fl := to_bits (SFadd prec emax (of_bits a) (of_bits b)).
Definition fsub (a b : fl) : fl := to_bits (SFsub prec emax (of_bits a) (of_bits b)).
Definition fmul (a b : fl) : fl := to_bits (SFmul prec emax (of_bits a) (of_bits b)).
Definition fdiv (a b : fl) : fl := to_bits (SFdiv prec emax (of_bits a) (of_bits b)).
Definition fneg (a : fl) : fl := to_bits (SFopp (of_bits a)).
Definition fcmp (a b : fl) : option comparison := SFcompare (of_bits a) (of_bits b).
Definition f_lt a b := match fcmp a b with Some Lt => true | _ => false end.
Definition f_gt a b := match fcmp a b with Some Gt => true | _ => false end.
Definition f_le a b := match fcmp a b with Some Lt | Some Eq => true | _ => false end.
Definition f_ge a b := match fcmp a b with Some Gt | Some Eq => true | _ => false end.
Definition f_eq a b := match fcmp a b with Some Eq => true | _ => false end.
Definition f_ne a b := negb (f_eq a b).

Definition normalize (m e : Z) : spec_float := binary_normalize prec emax m e false.

Definition f_of_Z (z : Z) : fl := to_bits (normalize z 0).
Definition f_zero : fl := 0.
Definition f_half : fl := Eval vm_compute in to_bits (normalize 1 (-1)).
Definition f_is_zero (a : fl) : bool := f_eq a f_zero.
Definition f_pos_inf : fl := 9218868437227405312.   (* 0x7FF0000000000000 *)
Definition f_neg_inf : fl := 18442240474082181120.  (* 0xFFF0000000000000 *)
Definition f_nan : fl := 9221120237041090560.       (* 0x7FF8000000000000 *)
Definition f_is_nan (a : fl) : bool := match of_bits a with S754_nan => true | _ => false end.

(* Rust's `f as i64`: truncate toward zero, saturate, NaN -> 0 *)
Definition f_to_i64 (a : fl) : Z :=
  match of_bits a with
  | S754_nan => 0
  | S754_infinity s => if s then i64_min else i64_max
  | S754_zero _ => 0
  | S754_finite s m e =>
      let mag := if 0 <=? e then Zpos m * 2 ^ e else Zpos m / 2 ^ (- e) in
      let t := if s then - mag else mag in
      if t <? i64_min then i64_min else if i64_max <? t then i64_max else t
  end.

(* ---- decimal parsing: m * 10^e, correctly rounded ---- *)

(* nearest-even binary64 of the rational num/den (num, den > 0), then sign *)
Definition f_of_ratio (neg : bool) (num den : Z) : fl :=
  (* choose k so that q = num * 2^k / den has at least 56 bits *)
  let k := Z.max 0 (Z.log2 den - Z.log2 num + 58) in
  let q := (num * 2 ^ k) / den in
  let r := (num * 2 ^ k) mod den in
  let q' := 2 * q + (if r =? 0 then 0 else 1) in
  let f := normalize q' (- k - 1) in
  to_bits (if neg then SFopp f else f).

Definition f_of_decimal (neg : bool) (m : Z) (e : Z) : fl :=
  if m =? 0 then (if neg then sign_bit true else 0)
  else
    let d := Z.log2 m / 3 + 1 in    (* at least the number of decimal digits / generous *)
    if 310 <? e then (if neg then f_neg_inf else f_pos_inf)
    else if e + d <? -345 then (if neg then sign_bit true else 0)
    else if 0 <=? e then f_of_ratio neg (m * 10 ^ e) 1
    else f_of_ratio neg m (10 ^ (- e)).

Definition lower (c : char) : char := if (65 <=? c)%N && (c <=? 90)%N then (c + 32)%N else c.

Definition digits_to_Z (ds : str) : Z :=
  fold_left (fun acc d => acc * 10 + Z.of_N (d - 48)) ds 0.

(* Rust's <f64 as FromStr>: [+-]? (inf|infinity|nan | digits[.digits][(e|E)[+-]digits]) *)
Definition f_parse (s : str) : option fl :=
  let '(neg, s1) := match s with
                    | c :: r => if (c =? c_minus)%N then (true, r)
                                else if (c =? c_plus)%N then (false, r) else (false, s)
                    | [] => (false, s)
                    end in
  let low := map lower s1 in
  if str_eqb low (lit "inf") || str_eqb low (lit "infinity") then
    Some (if neg then f_neg_inf else f_pos_inf)
  else if str_eqb low (lit "nan") then Some f_nan
  else
    let ip := take_while is_digit10 s1 in
    let r1 := skip_while is_digit10 s1 in
    let '(fp, r2, dot) := match r1 with
                     | c :: r => if (c =? c_dot)%N
                                 then (take_while is_digit10 r, skip_while is_digit10 r, true)
                                 else ([], r1, false)
                     | [] => ([], r1, false)
                     end in
    if (Nat.eqb (length ip) 0 && Nat.eqb (length fp) 0)%bool then None
    else
      let mant := digits_to_Z (ip ++ fp) in
      let e0 := - Z.of_nat (length fp) in
      match r2 with
      | [] => Some (f_of_decimal neg mant e0)
      | c :: r =>
          if ((c =? 101) || (c =? 69))%N then
            let '(eneg, r3) := match r with
                               | x :: y => if (x =? c_minus)%N then (true, y)
                                           else if (x =? c_plus)%N then (false, y) else (false, r)
                               | [] => (false, r)
                               end in
            let ed := take_while is_digit10 r3 in
            match ed, skip_while is_digit10 r3 with
            | _ :: _, [] =>
                (* clamp absurd exponents before converting *)
                let ev := if (Nat.ltb 8 (length (skip_while (fun c => (c =? 48)%N) ed)))
                          then 100000000 else digits_to_Z ed in
                Some (f_of_decimal neg mant (e0 + (if eneg then - ev else ev)))
            | _, _ => None
            end
          else None
      end.

(* ---- shortest round-trip Display ---- *)

(* exact value of a finite positive float as num/den *)
Definition f_ratio (a : fl) : option (bool * Z * Z) :=
  match of_bits a with
  | S754_finite s m e =>
      if 0 <=? e then Some (s, Zpos m * 2 ^ e, 1) else Some (s, Zpos m, 2 ^ (- e))
  | S754_zero s => Some (s, 0, 1)
  | _ => None
  end.

(* division rounding to nearest, ties up (as Rust's shortest digit generation does) *)
Definition div_rne (a b : Z) : Z :=
  let q := a / b in let r := a mod b in
  if 2 * r <? b then q else q + 1.

(* decimal exponent p with 10^p <= num/den < 10^(p+1) *)
Fixpoint dec_exp_adjust (fuel : nat) (num den p : Z) : Z :=
  match fuel with
  | O => p
  | S f =>
      let lo := if 0 <=? p then num <? den * 10 ^ p else num * 10 ^ (- p) <? den in
      if lo then dec_exp_adjust f num den (p - 1)
      else
        let hi := if 0 <=? p + 1 then den * 10 ^ (p + 1) <=? num else den <=? num * 10 ^ (- (p + 1)) in
        if hi then dec_exp_adjust f num den (p + 1) else p
  end.

Definition dec_exp (num den : Z) : Z :=
  dec_exp_adjust 8 num den (((Z.log2 num - Z.log2 den) * 30103) / 100000).

(* n significant digits: (digits as integer, exponent of the last digit) *)
Definition round_sig (num den : Z) (p : Z) (n : Z) : Z * Z :=
  let sh := p - (n - 1) in     (* value / 10^sh rounded *)
  let d := if 0 <=? sh then div_rne num (den * 10 ^ sh) else div_rne (num * 10 ^ (- sh)) den in
  (d, sh).

Fixpoint shortest (fuel : nat) (a : fl) (neg : bool) (num den p n : Z) : Z * Z :=
  match fuel with
  | O => round_sig num den p 17
  | S f =>
      let '(d, sh) := round_sig num den p n in
      if Z.eqb (f_of_decimal neg d sh) a then (d, sh) else shortest f a neg num den p (n + 1)
  end.

Fixpoint strip_zeros (fuel : nat) (d sh : Z) : Z * Z :=
  match fuel with
  | O => (d, sh)
  | S f => if (d mod 10 =? 0) && negb (d =? 0) then strip_zeros f (d / 10) (sh + 1) else (d, sh)
  end.

Fixpoint zeros (n : nat) : str := match n with O => [] | S k => c_0 :: zeros k end.

(* Rust's `{}` for f64 (molt's fmt_float handles Inf/NaN itself before calling it) *)
Definition f_display_finite (a : fl) : str :=
  match f_ratio a with
  | None => []
  | Some (neg, num, den) =>
      let sign := if neg then [c_minus] else [] in
      if num =? 0 then sign ++ [c_0]
      else
        let p := dec_exp num den in
        let '(d0, sh0) := shortest 17 a neg num den p 1 in
        let '(d, sh) := strip_zeros 20 d0 sh0 in
        let ds := show_Z d in
        let n := Z.of_nat (length ds) in
        if 0 <=? sh then sign ++ ds ++ zeros (Z.to_nat sh)
        else if 0 <? n + sh then
          sign ++ firstn (Z.to_nat (n + sh)) ds ++ [c_dot] ++ skipn (Z.to_nat (n + sh)) ds
        else sign ++ [c_0; c_dot] ++ zeros (Z.to_nat (- (n + sh))) ++ ds
  end.

(* molt's Value::fmt_float *)
Definition fmt_float (a : fl) : str :=
  if Z.eqb a f_pos_inf then lit "Inf"
  else if Z.eqb a f_neg_inf then lit "-Inf"
  else if f_is_nan a then lit "NaN"
  else f_display_finite a.

(* Rust's `{}` for any f64 (used by expr's string conversion of floats) *)
Definition f_display (a : fl) : str :=
  if Z.eqb a f_pos_inf then lit "inf"
  else if Z.eqb a f_neg_inf then lit "-inf"
  else if f_is_nan a then lit "NaN"
  else f_display_finite a.
