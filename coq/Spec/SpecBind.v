(* SpecBind.v — C10: how the arguments of a procedure call are bound to its declared parameters.
   Definitions only.  The specification works on PARSED specifiers; [parse_specs] reads a declared
   parameter list (a list of values, each read as a list of one or two fields). *)
From Molt Require Import Model.Base Model.ListSyn Model.Float Model.Value Model.State.
Local Open Scope N_scope.

Inductive pspec :=
| PReq (name : str)                    (* required parameter *)
| POpt (name : str) (dflt : value)     (* optional parameter with its default *)
| PArgs.                               (* trailing [args]: collects what is left *)

(* The bindings, in parameter order, or None for an arity mismatch.  PArgs is meaningful in last
   position only (parse_specs produces it only there); elsewhere the signature is ill formed and
   nothing binds. *)
Fixpoint spec_bind (ps : list pspec) (args : list value) : option (list (str * value)) :=
  match ps with
  | [] => match args with [] => Some [] | _ :: _ => None end
  | PReq n :: r =>
      match args with
      | a :: ar => option_map (cons (n, a)) (spec_bind r ar)
      | [] => None
      end
  | POpt n d :: r =>
      match args with
      | a :: ar => option_map (cons (n, a)) (spec_bind r ar)
      | [] => option_map (cons (n, d)) (spec_bind r [])
      end
  | PArgs :: r =>
      match r with
      | [] => Some [(lit "args", VList args)]
      | _ :: _ => None
      end
  end.

(* PArgs occurs at most in last position *)
Fixpoint specs_wf (ps : list pspec) : Prop :=
  match ps with
  | [] => True
  | PArgs :: r => r = []
  | _ :: r => specs_wf r
  end.

(* the number of arguments a signature accepts: at least [min_args], at most [max_args]
   (None = unbounded).  An optional parameter that is followed by a required one takes an
   argument whenever one is there, so it counts as required. *)
Fixpoint min_args (ps : list pspec) : nat :=
  match ps with
  | [] => O
  | PReq _ :: r => S (min_args r)
  | POpt _ _ :: r => match min_args r with O => O | S k => S (S k) end
  | PArgs :: r => min_args r
  end.

Fixpoint max_args (ps : list pspec) : option nat :=
  match ps with
  | [] => Some O
  | PArgs :: _ => None
  | _ :: r => option_map S (max_args r)
  end.

(* Reading one declared specifier.  [is_last] says whether it is the last of the list.  The test
   for the collecting parameter is the one the binder uses: the FIRST FIELD of the specifier is
   the string "args" and the specifier is the last one (so both [args] and [{args x}] collect). *)
Definition is_args_name (n : value) : bool := str_eqb (as_str n) (lit "args").

Definition parse_spec (is_last : bool) (p : value) : option pspec :=
  match v_as_list p with
  | inr [n] => Some (if is_args_name n && is_last then PArgs else PReq (as_str n))
  | inr [n; d] => Some (if is_args_name n && is_last then PArgs else POpt (as_str n) d)
  | _ => None
  end.

Fixpoint parse_specs (parms : list value) : option (list pspec) :=
  match parms with
  | [] => Some []
  | p :: r =>
      match parse_spec (Nat.eqb (length r) 0) p, parse_specs r with
      | Some s, Some ss => Some (s :: ss)
      | _, _ => None
      end
  end.

(* ---------- what the bindings look like in a scope ---------- *)

(* later bindings of the same name override earlier ones *)
Definition bind_step (sc : scope) (nv : str * value) : scope :=
  assoc_set (fst nv) (VarScalar (snd nv)) sc.
Definition bind_scope (bs : list (str * value)) (sc : scope) : scope := fold_left bind_step bs sc.

(* the value finally bound to [n]: the LAST binding of n in bs *)
Fixpoint bs_lookup (n : str) (bs : list (str * value)) : option value :=
  match bs with
  | [] => None
  | (k, v) :: r =>
      match bs_lookup n r with
      | Some w => Some w
      | None => if str_eqb k n then Some v else None
      end
  end.

Definition all_scalars (sc : scope) : Prop :=
  Forall (fun kv => exists v, snd kv = VarScalar v) sc.

(* ---------- the "wrong # args" message ---------- *)

(* How proc_wrong_args reads the declared list.  It differs from parse_specs in ONE respect: the
   trailing collecting parameter is recognised by comparing the WHOLE specifier with "args", not
   its first field; and any specifier with at least two fields (not just two) shows as optional.
   A specifier that is not a list, or an empty one, shows as nothing. *)
Inductive mspec := MReq (name : str) | MOpt (name : str) | MArgs | MNone.

Definition msg_spec (is_last : bool) (p : value) : mspec :=
  if str_eqb (as_str p) (lit "args") && is_last then MArgs
  else match v_as_list p with
       | inr [n] => MReq (as_str n)
       | inr (n :: _) => MOpt (as_str n)
       | _ => MNone
       end.

Fixpoint msg_specs (parms : list value) : list mspec :=
  match parms with
  | [] => []
  | p :: r => msg_spec (Nat.eqb (length r) 0) p :: msg_specs r
  end.

Definition render (m : mspec) : str :=
  match m with
  | MReq n => [c_space] ++ n
  | MOpt n => [c_space] ++ lit "?" ++ n ++ lit "?"
  | MArgs => lit " ?arg ...?"
  | MNone => [c_space]
  end.

(* the message view of a parsed signature *)
Definition mspec_of (s : pspec) : mspec :=
  match s with
  | PReq n => MReq n
  | POpt n _ => MOpt n
  | PArgs => MArgs
  end.

(* the two readings agree on a specifier unless it is a last one whose first field is "args"
   while the specifier as a whole is not the string "args" (e.g. [{args}] or [{args 1}]) *)
Definition args_agree (parms : list value) : Prop :=
  match last parms v_empty with
  | p => match v_as_list p with
         | inr (n :: _) => is_args_name n = str_eqb (as_str p) (lit "args")
         | _ => True
         end
  end.

(* ---------- what cmd_proc accepts ---------- *)

(* the message for the first specifier cmd_proc refuses, if any *)
Fixpoint first_bad (specs : list value) : option str :=
  match specs with
  | [] => None
  | a :: r =>
      match v_as_list a with
      | inl m => Some m
      | inr [] => Some (lit "argument with no name")
      | inr (_ :: _ :: _ :: _) =>
          Some (lit "too many fields in argument specifier """ ++ as_str a ++ lit """")
      | inr _ => first_bad r
      end
  end.

Definition bad_spec (a : value) : Prop :=
  match v_as_list a with
  | inr [_] | inr [_; _] => False
  | _ => True
  end.
