(* SpecExc.v — C06: exceptional returns propagate by the documented return/catch protocol.
   Definitions only.

   The protocol.  `return -code C -level L v` raises an exception that unwinds through exactly L
   procedure boundaries and then takes effect in that caller as code C: ok yields v; error raises
   an error; break/continue act on the caller's loop; other integers stay catchable under that
   number; `-code return` with no level left is re-armed as a plain return (level 1, code ok).  A
   plain break/continue acts on the innermost enclosing loop and becomes an error if it escapes a
   procedure body or the top level.  catch intercepts every code, returns its number, and stores
   the value and the -code/-level in flight.

   Everything here is a pure function on results; Proofs/ExcFacts.v shows that the model's
   procedure boundary, loops, catch and return compute exactly these functions. *)
From Molt Require Import Model.Base Model.ListSyn Model.Float Model.Value Model.State
  Model.Eval Model.Commands Model.Interp.
Local Open Scope N_scope.

(* ---------- the exception `return -code C -level L v` has in flight (L >= 1) ---------- *)
Definition ret_exn (v : value) (L : N) (C : rcode) (d : option errdata) : exn :=
  {| x_code := CReturn; x_value := v; x_level := L; x_next := C; x_data := d |}.

(* an exception of code C that has no level left (a plain break, continue, error, other) *)
Definition plain_exn (v : value) (C : rcode) (d : option errdata) : exn :=
  {| x_code := C; x_value := v; x_level := 0; x_next := C; x_data := d |}.

(* what the exception becomes in the caller that consumes its last level *)
Definition landed (v : value) (C : rcode) (d : option errdata) : res value :=
  match C with
  | COkay => Ok v
  | CReturn => Err (ret_exn v 1 COkay d)        (* re-armed as a plain return *)
  | _ => Err (plain_exn v C d)
  end.

(* the error data `return -code error ?-errorcode c? ?-errorinfo i? msg` attaches *)
Definition return_err_data (msg : value) (ecode einfo : option value) : errdata :=
  let code := match ecode with Some c => c | None => v_NONE end in
  match einfo with
  | Some i => ed_rethrow code (as_str i)
  | None => ed_new_data code (as_str msg)
  end.

(* ---------- the boundaries as pure functions on results ---------- *)

(* the procedure boundary (Procedure::execute after the body has run and the scope is popped) *)
Definition pb (r : res value) : res value :=
  match r with
  | Err e =>
      match x_code e with
      | CReturn =>
          let e' := decrement_level e in
          match x_code e' with
          | COkay => Ok (x_value e')
          | _ => Err e'
          end
      | COkay => Ok (x_value e)
      | CBreak => err (lit "invoked ""break"" outside of a loop")
      | CContinue => err (lit "invoked ""continue"" outside of a loop")
      | _ => Err e
      end
  | other => other
  end.

(* the top level of the interpreter (eval_value at nesting level 0) *)
Definition tb : res value -> res value := toplevel_boundary.

Fixpoint iter_pb (n : nat) (r : res value) : res value :=
  match n with
  | O => r
  | S k => iter_pb k (pb r)
  end.

(* ---------- loops ---------- *)

(* what a loop does with the outcome of one run of its body *)
Inductive loop_action :=
| LoopNext                        (* completed or `continue`: go on with the next iteration *)
| LoopStop                        (* `break`: the loop ends with the empty result *)
| LoopExit (r : res value).       (* anything else leaves the loop unchanged *)

Definition loop_action_of (r : res value) : loop_action :=
  match r with
  | Ok _ => LoopNext
  | Err e =>
      match x_code e with
      | CBreak => LoopStop
      | CContinue => LoopNext
      | _ => LoopExit r
      end
  | _ => LoopExit r
  end.

(* ---------- catch ---------- *)

(* the number catch returns for an outcome *)
Definition catch_code (r : res value) : Z :=
  match r with
  | Err e => rcode_as_int (x_code e)
  | _ => 0%Z
  end.

(* the code an exception will have when it takes effect: the -code entry of its options *)
Definition effective_code (e : exn) : rcode :=
  match x_code e with CReturn => x_next e | c => c end.

(* the value stored under -code in the options dictionary (strings for error/break/continue,
   integers otherwise: this is what return_options builds) *)
Definition code_entry (e : exn) : value :=
  match x_code e with
  | CError => VStr (lit "1")
  | CBreak => VStr (lit "3")
  | CContinue => VStr (lit "4")
  | _ => VInt (rcode_as_int (effective_code e))
  end.

(* the usize level goes through an `as MoltInt` cast: it is stored wrapped to signed 64 bits *)
Definition level_entry (e : exn) : value := VInt (to_i64 (Z.of_N (x_level e))).

(* ---------- re-raising what catch stored ---------- *)

(* the exception `return -code (stored -code) -level (stored -level)
   ?-errorcode (stored) -errorinfo (stored)? (stored value)` builds *)
Definition reraise (e : exn) : exn :=
  let C := effective_code e in
  if rcode_eqb C CError then
    molt_return_err (x_value e) (x_level e)
      (option_map ed_code (x_data e)) (option_map (fun d => VStr (ed_info d)) (x_data e))
  else molt_return_ext (x_value e) (x_level e) C.

(* the exceptions the interpreter produces: a return in flight has a level left; everything
   else has none and its next code is its code; error data accompanies exactly the errors *)
Definition exn_wf (e : exn) : Prop :=
  x_code e <> COkay /\
  (x_code e = CReturn -> 1 <= x_level e) /\
  (x_code e <> CReturn -> x_level e = 0 /\ x_next e = x_code e) /\
  (effective_code e <> CError -> x_data e = None).

(* ---------- propagation through a stack of frames ---------- *)

Inductive frame :=
| FProc        (* a procedure body *)
| FLoop        (* the body of while / for / foreach *)
| FCatch       (* the script argument of catch *)
| FPlain.      (* a body that passes every outcome on unchanged (if, nested eval of a word) *)

(* What one frame does with the outcome of the code it encloses.  At this level of abstraction
   a loop frame stands for "the loop as a whole, when this run of its body is the one that ends
   it or lets it run to completion": break yields the empty result, and so does continue (the
   loop goes on and, if nothing else happens, completes with the empty result); a normal
   completion of the body likewise ends in the empty result.  Which iteration comes next is the
   business of the loop equations in Proofs/ExcFacts.v. *)
Definition frame_step (f : frame) (r : res value) : res value :=
  match f with
  | FProc => pb r
  | FLoop =>
      match loop_action_of r with
      | LoopNext | LoopStop => Ok v_empty
      | LoopExit r' => r'
      end
  | FCatch =>
      match r with
      | Ok _ => Ok (VInt 0)
      | Err e => Ok (VInt (rcode_as_int (x_code e)))
      | other => other
      end
  | FPlain => r
  end.

(* innermost frame first *)
Fixpoint propagate (fs : list frame) (r : res value) : res value :=
  match fs with
  | [] => r
  | f :: fs' => propagate fs' (frame_step f r)
  end.

Definition toplevel (fs : list frame) (r : res value) : res value := tb (propagate fs r).

(* the number of procedure boundaries in a stack *)
Fixpoint procs (fs : list frame) : nat :=
  match fs with
  | [] => O
  | FProc :: r => S (procs r)
  | _ :: r => procs r
  end.

Definition proc_or_plain (f : frame) : Prop := f = FProc \/ f = FPlain.
