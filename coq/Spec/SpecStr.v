(* SpecStr.v — C19: declarative specifications of the string and list utilities
   (string first/last/range/compare/equal/trim*/map/length/cat, lindex).  Definitions only;
   the proofs that the model functions of Model/Base.v and Model/Commands.v meet them are in
   Proofs/StrFacts.v.

   In the model a string is a [list char] and a [char] is one Unicode scalar value, so every
   index below counts CHARACTERS, never bytes: "indices count characters, not bytes" holds by
   construction of the model (the multi-byte string [233; 8364; 128512] (e-acute, euro sign, an emoji: 2, 3 and 4 bytes
   in UTF-8) has length 3). *)
From Molt Require Import Model.Base Model.Value Model.State Model.Commands.
Local Open Scope N_scope.

(* ---------- occurrences of a needle ---------- *)

(* [needle] occurs in [hay] at character index [i] (the executable reading) *)
Definition occurs_at (needle hay : str) (i : nat) : Prop :=
  (i <= length hay)%nat /\ starts_with needle (skipn i hay) = true.

(* the same, declaratively: hay = pre ++ needle ++ post with |pre| = i *)
Definition occurs_at_decl (needle hay : str) (i : nat) : Prop :=
  exists pre post, hay = pre ++ needle ++ post /\ length pre = i.

(* [i] is the least / the greatest index satisfying [P] *)
Definition least (P : nat -> Prop) (i : nat) : Prop := P i /\ forall j, (j < i)%nat -> ~ P j.
Definition greatest (P : nat -> Prop) (i : nat) : Prop := P i /\ forall j, P j -> (j <= i)%nat.

(* ---------- string first / string last (the branches of cmd_string as functions) ---------- *)

(* "string first needle hay ?start?": [start] is clamped at 0 (and, for execution, capped at
   the length: [to_nat_capped z cap = Nat.min (Z.to_nat z) cap]); copied from the "first" branch *)
Definition string_first (needle hay : str) (start : Z) : Z :=
  let st := to_nat_capped (clamp0 start) (length hay) in
  if Nat.leb (length hay) st then (-1)%Z
  else match find_from needle (skipn st hay) st with
       | Some n => Z.of_nat n
       | None => (-1)%Z
       end.

(* the part of [hay] that "string last needle hay last" searches (for [0 <= last]) *)
Definition last_slice (hay : str) (last : Z) : str :=
  if (Z.of_nat (length hay) <=? last)%Z then hay else firstn (S (Z.to_nat last)) hay.

(* "string last needle hay ?last?"; copied from the "last" branch *)
Definition string_last (needle hay : str) (last : option Z) : Z :=
  match last with
  | Some z =>
      if (z <? 0)%Z then (-1)%Z
      else match rfind_all needle (last_slice hay z) O None with
           | Some n => Z.of_nat n
           | None => (-1)%Z
           end
  | None => match rfind_all needle hay O None with
            | Some n => Z.of_nat n
            | None => (-1)%Z
            end
  end.

(* an occurrence that lies entirely inside the first [n] characters *)
Definition occurs_within (needle hay : str) (n i : nat) : Prop :=
  occurs_at needle hay i /\ (i + length needle <= n)%nat.

(* ---------- string range ---------- *)
Definition string_range (s : str) (first last : Z) : str :=
  if (last <? 0)%Z then []
  else
    let f := clamp0 first in
    if (last <? f)%Z then []
    else firstn (to_nat_capped (last - f + 1) (length s)) (skipn (to_nat_capped f (length s)) s).

(* ---------- compare ---------- *)

(* the operand of a comparison with "-length l" *)
Definition cut_len (len : option Z) (s : str) : str :=
  match len with
  | Some l => if (l <? 0)%Z then s else firstn (to_nat_capped l (length s)) s
  | None => s
  end.

Definition Z_of_comparison (c : comparison) : Z :=
  match c with Lt => (-1)%Z | Eq => 0%Z | Gt => 1%Z end.

(* ---------- trim ---------- *)
Definition all_white (s : str) : Prop := Forall (fun c => is_whitespace c = true) s.

(* [s] is empty or its first character is not white space *)
Definition no_white_start (s : str) : Prop :=
  match s with [] => True | c :: _ => is_whitespace c = false end.

(* [s] is empty or its last character is not white space *)
Definition no_white_end (s : str) : Prop := no_white_start (rev s).

(* [t] is [s] with leading / trailing / both kinds of white space removed *)
Definition is_trim_start (s t : str) : Prop :=
  exists pre, s = pre ++ t /\ all_white pre /\ no_white_start t.
Definition is_trim_end (s t : str) : Prop :=
  exists post, s = t ++ post /\ all_white post /\ no_white_end t.
Definition is_trim (s t : str) : Prop :=
  exists pre post, s = pre ++ t ++ post /\ all_white pre /\ all_white post
                   /\ no_white_start t /\ no_white_end t.

(* ---------- string map (case sensitive) ---------- *)

(* [(k, v)] is the first pair of the dictionary, in dictionary order, whose key is a prefix of [s] *)
Definition first_key (keys : list (str * str)) (s : str) (k v : str) : Prop :=
  exists before after,
    keys = before ++ (k, v) :: after
    /\ starts_with k s = true
    /\ forall kv, In kv before -> starts_with (fst kv) s = false.

Definition no_key (keys : list (str * str)) (s : str) : Prop :=
  forall kv, In kv keys -> starts_with (fst kv) s = false.

(* one left-to-right scan: at each position the first key that is a prefix of the remaining
   input is replaced by its value and the scan resumes after the key; otherwise the character
   is copied *)
Inductive map_rel (keys : list (str * str)) : str -> str -> Prop :=
| MR_nil : map_rel keys [] []
| MR_hit k v rest out :
    k ++ rest <> [] ->
    first_key keys (k ++ rest) k v ->
    map_rel keys rest out ->
    map_rel keys (k ++ rest) (v ++ out)
| MR_miss c rest out :
    no_key keys (c :: rest) ->
    map_rel keys rest out ->
    map_rel keys (c :: rest) (c :: out).

(* the same as a function with fuel (one unit per step) *)
Fixpoint spec_map (fuel : nat) (keys : list (str * str)) (s : str) : str :=
  match fuel with
  | O => []
  | S f =>
      match s with
      | [] => []
      | c :: r =>
          match find (fun kv => starts_with (fst kv) s) keys with
          | Some (k, v) => v ++ spec_map f keys (skipn (length k) s)
          | None => c :: spec_map f keys r
          end
      end
  end.

Definition keys_nonempty (keys : list (str * str)) : Prop :=
  Forall (fun kv => fst kv <> []) keys.

(* ---------- lindex ---------- *)

(* every index of the path reads as an integer *)
Definition all_int_indices (idx : list value) : Prop :=
  Forall (fun i => exists z, v_as_int i = inr z) idx.

(* one step of "lindex": the element selected by [z], the empty value when out of range *)
Definition lindex_step (l : list value) (z : Z) : value :=
  if (z <? 0)%Z || (Z.of_nat (length l) <=? z)%Z then v_empty else nth (Z.to_nat z) l v_empty.
