(* Spec/SpecGrammar.v — C02: the Tcl grammar as Molt documents it, as a concrete syntax tree.

   A script is described by a tree (commands, words, substitutions, separators, comments) and
   two functions that never look at any parser of the model:

     render   : the text of the tree,
     expected : the commands the tree invokes, in order, with their argument strings, the
                variables it leaves and its result, computed on the tree.

   The checker generates trees, renders them (independently, in Rust) and runs the text on the
   implementation; the oracle re-renders the tree here, insists on the same text, and compares
   what the implementation did with [expected].  Proofs/GrammarFacts.v relates the model's
   parser/evaluator to the same two functions.

   Vocabulary of commands in a tree: the recorder `rec` (returns its last word), `c` (a
   procedure forwarding its arguments to `rec c ...`) and `set` on scalar variables. *)
From Molt Require Import Model.Base.
Local Open Scope N_scope.

(* ---------- the tree ---------- *)
(* inside braces *)
Inductive bseg :=
| BText (s : str)           (* characters other than { } \ *)
| BNest (l : list bseg)     (* {...}: braces nest and are kept *)
| BEsc (c : char)           (* \c, c not a newline: kept verbatim, hides a brace *)
| BLine.                    (* backslash-newline: a space *)

Inductive seg :=
| SLit (s : str)
| SEsc (kind arg : N)       (* backslash substitution, see esc_text / esc_value *)
| SVar (name : str)         (* $name *)
| SBVar (name : str)        (* ${name} *)
| SArr (name : str) (idx : list seg)   (* $name(index) *)
| SCmd (sc : list item)     (* [script] *)
with wordc :=
| CBrace (b : list bseg)
| CQuote (l : list seg)
| CBare (l : list seg)
| CExpand (w : wordc)       (* {*}word *)
with item :=
| ICmd (pre : str) (words : list (str * wordc)) (post term : str)  (* gap before each word *)
| IComment (pre text term : str)
| IEmpty (pre term : str).

(* ---------- render ---------- *)
Definition hex_digit (n : N) : char := if n <? 10 then 48 + n else 87 + n.
Definition esc_text (kind arg : N) : str :=
  match kind with
  | 0 => [c_bslash; arg]                                  (* \a \b \f \n \r \t \v *)
  | 1 => [c_bslash; arg]                                  (* \<punctuation> *)
  | 2 => [c_bslash; 120; hex_digit (arg / 16); hex_digit (arg mod 16)]
  | 3 => [c_bslash; 117; hex_digit (arg / 4096); hex_digit ((arg / 256) mod 16);
          hex_digit ((arg / 16) mod 16); hex_digit (arg mod 16)]
  | _ => [c_bslash; 48 + arg / 64; 48 + (arg / 8) mod 8; 48 + arg mod 8]
  end.
Definition esc_value (kind arg : N) : char :=
  match kind with
  | 0 => if arg =? 97 then 7 else if arg =? 98 then 8 else if arg =? 102 then 12
         else if arg =? 110 then 10 else if arg =? 114 then 13 else if arg =? 116 then 9 else 11
  | _ => arg
  end.

Fixpoint render_bseg (b : bseg) : str :=
  match b with
  | BText s => s
  | BNest l => [c_lbrace] ++ flat_map render_bseg l ++ [c_rbrace]
  | BEsc c => [c_bslash; c]
  | BLine => [c_bslash; c_nl]
  end.

Fixpoint render_seg (s : seg) : str :=
  match s with
  | SLit t => t
  | SEsc k a => esc_text k a
  | SVar n => c_dollar :: n
  | SBVar n => [c_dollar; c_lbrace] ++ n ++ [c_rbrace]
  | SArr n idx => c_dollar :: n ++ [c_lparen] ++ flat_map render_seg idx ++ [c_rparen]
  | SCmd sc => [c_lbracket] ++ flat_map render_item sc ++ [c_rbracket]
  end
with render_word (w : wordc) : str :=
  match w with
  | CBrace b => [c_lbrace] ++ flat_map render_bseg b ++ [c_rbrace]
  | CQuote l => [c_dquote] ++ flat_map render_seg l ++ [c_dquote]
  | CBare l => flat_map render_seg l
  | CExpand w' => [c_lbrace; c_star; c_rbrace] ++ render_word w'
  end
with render_item (i : item) : str :=
  match i with
  | ICmd pre ws post term =>
      pre ++ flat_map (fun gw => match gw with (g, w) => g ++ render_word w end) ws ++ post ++ term
  | IComment pre text term => pre ++ [c_hash] ++ text ++ term
  | IEmpty pre term => pre ++ term
  end.
Definition render (sc : list item) : str := flat_map render_item sc.

(* ---------- expected behaviour ---------- *)
Record gst := { g_env : list (str * str); g_trace : list (list str) (* newest first *) }.

Fixpoint env_get (k : str) (e : list (str * str)) : option str :=
  match e with
  | [] => None
  | (k', v) :: r => if str_eqb k k' then Some v else env_get k r
  end.
Fixpoint env_set (k v : str) (e : list (str * str)) : list (str * str) :=
  match e with
  | [] => [(k, v)]
  | (k', v') :: r => if str_eqb k k' then (k, v) :: r else (k', v') :: env_set k v r
  end.

Fixpoint bseg_value (b : bseg) : str :=
  match b with
  | BText s => s
  | BNest l => [c_lbrace] ++ flat_map bseg_value l ++ [c_rbrace]
  | BEsc c => [c_bslash; c]
  | BLine => [c_space]
  end.

(* splitting the value of an expanded word: only values made of "simple" characters are
   split here (anything else is outside this specification: None) *)
Definition simple_char (c : char) : bool :=
  ((48 <=? c) && (c <=? 57)) || ((65 <=? c) && (c <=? 90)) || ((97 <=? c) && (c <=? 122))
  || (c =? c_underscore) || (c =? c_dot) || (c =? c_minus) || (128 <=? c) && negb (is_whitespace c).
Fixpoint split_simple (s : str) (cur : str) (acc : list str) : option (list str) :=
  match s with
  | [] => Some (rev (match cur with [] => acc | _ => rev cur :: acc end))
  | c :: r =>
      if c =? c_space then split_simple r [] (match cur with [] => acc | _ => rev cur :: acc end)
      else if simple_char c then split_simple r (c :: cur) acc
      else None
  end.

Definition has_char (c : char) (s : str) : bool := existsb (fun d => d =? c) s.

(* run one command *)
Definition run_command (st : gst) (argv : list str) : option (gst * str) :=
  match argv with
  | [] => None
  | name :: args =>
      if str_eqb name (lit "rec") then
        Some ({| g_env := g_env st; g_trace := argv :: g_trace st |}, last argv [])
      else if str_eqb name (lit "c") then
        let argv' := lit "rec" :: argv in
        Some ({| g_env := g_env st; g_trace := argv' :: g_trace st |}, last argv' [])
      else if str_eqb name (lit "set") then
        match args with
        | [n] => if has_char c_lparen n then None
                 else match env_get n (g_env st) with Some v => Some (st, v) | None => None end
        | [n; v] => if has_char c_lparen n then None
                    else Some ({| g_env := env_set n v (g_env st); g_trace := g_trace st |}, v)
        | _ => None
        end
      else None
  end.

Fixpoint eval_seg (st : gst) (s : seg) {struct s} : option (gst * str) :=
  match s with
  | SLit t => Some (st, t)
  | SEsc k a => Some (st, [esc_value k a])
  | SVar n => match env_get n (g_env st) with Some v => Some (st, v) | None => None end
  | SBVar n => match env_get n (g_env st) with Some v => Some (st, v) | None => None end
  | SArr n idx =>
      match (fix go (st : gst) (l : list seg) : option (gst * str) :=
               match l with
               | [] => Some (st, [])
               | x :: r => match eval_seg st x with
                           | Some (st1, v) => match go st1 r with
                                              | Some (st2, v2) => Some (st2, v ++ v2)
                                              | None => None
                                              end
                           | None => None
                           end
               end) st idx with
      | Some (st1, i) =>
          match env_get (n ++ [c_lparen] ++ i ++ [c_rparen]) (g_env st1) with
          | Some v => Some (st1, v)
          | None => None
          end
      | None => None
      end
  | SCmd sc =>
      (fix go (st : gst) (l : list item) (res : str) : option (gst * str) :=
         match l with
         | [] => Some (st, res)
         | x :: r => match eval_item st x with
                     | Some (st1, Some v) => go st1 r v
                     | Some (st1, None) => go st1 r res
                     | None => None
                     end
         end) st sc []
  end
with eval_word (st : gst) (w : wordc) {struct w} : option (gst * str) :=
  match w with
  | CBrace b => Some (st, flat_map bseg_value b)
  | CQuote l | CBare l =>
      (fix go (st : gst) (l : list seg) : option (gst * str) :=
         match l with
         | [] => Some (st, [])
         | x :: r => match eval_seg st x with
                     | Some (st1, v) => match go st1 r with
                                        | Some (st2, v2) => Some (st2, v ++ v2)
                                        | None => None
                                        end
                     | None => None
                     end
         end) st l
  | CExpand w' => eval_word st w'
  end
with eval_item (st : gst) (i : item) {struct i} : option (gst * option str) :=
  match i with
  | ICmd _ ws _ _ =>
      match (fix go (st : gst) (l : list (str * wordc)) : option (gst * list str) :=
               match l with
               | [] => Some (st, [])
               | (_, w) :: r =>
                   match eval_word st w with
                   | Some (st1, v) =>
                       match (match w with
                              | CExpand _ => split_simple v [] []
                              | _ => Some [v]
                              end) with
                       | Some vs => match go st1 r with
                                    | Some (st2, vs2) => Some (st2, vs ++ vs2)
                                    | None => None
                                    end
                       | None => None
                       end
                   | None => None
                   end
               end) st ws with
      | Some (st1, argv) =>
          match run_command st1 argv with
          | Some (st2, v) => Some (st2, Some v)
          | None => None
          end
      | None => None
      end
  | IComment _ _ _ => Some (st, None)
  | IEmpty _ _ => Some (st, None)
  end.

Fixpoint eval_items (st : gst) (l : list item) (res : str) : option (gst * str) :=
  match l with
  | [] => Some (st, res)
  | x :: r => match eval_item st x with
              | Some (st1, Some v) => eval_items st1 r v
              | Some (st1, None) => eval_items st1 r res
              | None => None
              end
  end.

(* expected : the trace (oldest first), the environment and the result of a script *)
Definition expected (env : list (str * str)) (sc : list item)
  : option (list (list str) * list (str * str) * str) :=
  match eval_items {| g_env := env; g_trace := [] |} sc [] with
  | Some (st, v) => Some (rev (g_trace st), g_env st, v)
  | None => None
  end.

(* ---------- well-formedness: what the generator promises about a tree ---------- *)
Definition ascii_name_char (c : char) : bool :=
  ((48 <=? c) && (c <=? 57)) || ((65 <=? c) && (c <=? 90)) || ((97 <=? c) && (c <=? 122))
  || (c =? c_underscore).
Definition name_char (c : char) : bool := ascii_name_char c || (c =? 233) || (c =? 252).
Definition is_gap_char (c : char) : bool := (c =? c_space) || (c =? c_tab).
Definition is_pre_char (c : char) : bool := (c =? c_space) || (c =? c_tab) || (c =? c_nl).

(* characters a literal segment may contain, by context *)
Definition bare_lit_char (c : char) : bool :=
  negb (is_whitespace c) &&
  negb ((c =? c_semi) || (c =? c_dquote) || (c =? c_lbrace) || (c =? c_rbrace) || (c =? c_bslash)
        || (c =? c_dollar) || (c =? c_lbracket) || (c =? c_rbracket)).
Definition index_lit_char (c : char) : bool :=
  bare_lit_char c && negb ((c =? c_lparen) || (c =? c_rparen)).
Definition quote_lit_char (c : char) : bool :=
  negb ((c =? c_dquote) || (c =? c_bslash) || (c =? c_dollar) || (c =? c_lbracket)).
Definition brace_text_char (c : char) : bool :=
  negb ((c =? c_lbrace) || (c =? c_rbrace) || (c =? c_bslash)).

Definition esc_ok (kind arg : N) : bool :=
  match kind with
  | 0 => (arg =? 97) || (arg =? 98) || (arg =? 102) || (arg =? 110) || (arg =? 114) || (arg =? 116)
         || (arg =? 118)
  | 1 => (32 <=? arg) && (arg <=? 126) && negb (ascii_name_char arg)
  | 2 => (1 <=? arg) && (arg <? 256)
  | 3 => (1 <=? arg) && (arg <? 65536) && negb ((55296 <=? arg) && (arg <=? 57343))
  | 4 => (1 <=? arg) && (arg <? 256)
  | _ => false
  end.

Fixpoint wf_bseg (b : bseg) : bool :=
  match b with
  | BText s => negb (match s with [] => true | _ => false end) && forallb brace_text_char s
  | BNest l => forallb wf_bseg l
  | BEsc c => negb (c =? c_nl)
  | BLine => true
  end.

(* the first character a segment renders to decides whether it may follow a $name *)
Definition may_follow_var (s : seg) : bool :=
  match s with
  | SLit (c :: _) => negb (name_char c || (c =? c_lparen) || (128 <=? c))
  | SLit [] => false
  | _ => true
  end.
Fixpoint adjacency_ok (l : list seg) : bool :=
  match l with
  | SVar _ :: ((x :: _) as r) => may_follow_var x && adjacency_ok r
  | _ :: r => adjacency_ok r
  | [] => true
  end.

Fixpoint wf_seg (lit_ok : char -> bool) (s : seg) {struct s} : bool :=
  match s with
  | SLit t => negb (match t with [] => true | _ => false end) && forallb lit_ok t
  | SEsc k a => esc_ok k a
  | SVar n => negb (match n with [] => true | _ => false end) && forallb name_char n
  | SBVar n => forallb (fun c => negb ((c =? c_rbrace) || (c =? c_lparen))) n
  | SArr n idx =>
      negb (match n with [] => true | _ => false end) && forallb name_char n
      && forallb (wf_seg index_lit_char) idx && adjacency_ok idx
  | SCmd sc =>
      (fix go (l : list item) : bool :=
         match l with
         | [] => true
         | x :: r => match r with
                     | [] => wf_item true true x
                     | _ :: _ => wf_item true false x && go r
                     end
         end) sc
  end
with wf_word (w : wordc) {struct w} : bool :=
  match w with
  | CBrace b => forallb wf_bseg b
  | CQuote l => forallb (wf_seg quote_lit_char) l && adjacency_ok l
  | CBare l => negb (match l with [] => true | _ => false end)
               && forallb (wf_seg bare_lit_char) l && adjacency_ok l
  | CExpand w' => match w' with CExpand _ => false | _ => wf_word w' end
  end
with wf_item (nested : bool) (last : bool) (i : item) {struct i} : bool :=
  match i with
  | ICmd pre ws post term =>
      forallb is_pre_char pre && forallb is_gap_char post
      && (str_eqb term [c_semi] || str_eqb term [c_nl] || (last && str_eqb term []))
      && match ws with
         | [] => false
         | (g, w) :: r =>
             str_eqb g [] && wf_word w
             && match w with
                | CExpand _ => false
                | CBare (SLit (c :: _) :: _) => negb (c =? c_hash)
                | _ => true
                end
             && forallb (fun gw => match gw with (g', w') =>
                           negb (str_eqb g' []) && forallb is_gap_char g' && wf_word w' end) r
         end
  | IComment pre text term =>
      forallb is_pre_char pre
      && forallb (fun c => negb ((c =? c_nl) || (c =? c_bslash))) text
      && (str_eqb term [c_nl] || (last && negb nested && str_eqb term []))
  | IEmpty pre term =>
      forallb is_pre_char pre && (str_eqb term [c_semi] || str_eqb term [c_nl])
  end.
Fixpoint wf_items (nested : bool) (l : list item) {struct l} : bool :=
  match l with
  | [] => true
  | x :: r => match r with
              | [] => wf_item nested true x
              | _ :: _ => wf_item nested false x && wf_items nested r
              end
  end.
Definition wf (sc : list item) : bool := wf_items false sc.

(* ---------- decoding a tree from the checker's generic term format ----------
   bseg: ("t" s) ("n" (bsegs)) ("e" #c) ("nl")
   seg : ("l" s) ("e" #kind #arg) ("v" name) ("bv" name) ("ar" name (segs)) ("c" (items))
   word: ("B" (bsegs)) ("Q" (segs)) ("W" (segs)) ("X" word)
   item: ("cmd" pre ((gap word) ...) post term) ("com" pre text term) ("emp" pre term) *)
Fixpoint map_opt {A B} (f : A -> option B) (l : list A) : option (list B) :=
  match l with
  | [] => Some []
  | x :: r => match f x, map_opt f r with
              | Some y, Some ys => Some (y :: ys)
              | _, _ => None
              end
  end.

Definition tag_is (t : term) (w : string) : bool := str_eqb (term_str (term_nth t 0)) (lit w).
Arguments tag_is t w%string.
Definition term_N (t : term) : N := Z.to_N (term_int t).

Fixpoint dec_bseg (fuel : nat) (t : term) : option bseg :=
  match fuel with
  | O => None
  | S f =>
      if tag_is t "t" then Some (BText (term_str (term_nth t 1)))
      else if tag_is t "n" then
        match map_opt (dec_bseg f) (term_list (term_nth t 1)) with Some l => Some (BNest l) | None => None end
      else if tag_is t "e" then Some (BEsc (term_N (term_nth t 1)))
      else if tag_is t "nl" then Some BLine
      else None
  end.

Fixpoint dec_seg (fuel : nat) (t : term) {struct fuel} : option seg :=
  match fuel with
  | O => None
  | S f =>
      if tag_is t "l" then Some (SLit (term_str (term_nth t 1)))
      else if tag_is t "e" then Some (SEsc (term_N (term_nth t 1)) (term_N (term_nth t 2)))
      else if tag_is t "v" then Some (SVar (term_str (term_nth t 1)))
      else if tag_is t "bv" then Some (SBVar (term_str (term_nth t 1)))
      else if tag_is t "ar" then
        match map_opt (dec_seg f) (term_list (term_nth t 2)) with
        | Some l => Some (SArr (term_str (term_nth t 1)) l)
        | None => None
        end
      else if tag_is t "c" then
        match map_opt (dec_item f) (term_list (term_nth t 1)) with Some l => Some (SCmd l) | None => None end
      else None
  end
with dec_word (fuel : nat) (t : term) {struct fuel} : option wordc :=
  match fuel with
  | O => None
  | S f =>
      if tag_is t "B" then
        match map_opt (dec_bseg f) (term_list (term_nth t 1)) with Some l => Some (CBrace l) | None => None end
      else if tag_is t "Q" then
        match map_opt (dec_seg f) (term_list (term_nth t 1)) with Some l => Some (CQuote l) | None => None end
      else if tag_is t "W" then
        match map_opt (dec_seg f) (term_list (term_nth t 1)) with Some l => Some (CBare l) | None => None end
      else if tag_is t "X" then
        match dec_word f (term_nth t 1) with Some w => Some (CExpand w) | None => None end
      else None
  end
with dec_item (fuel : nat) (t : term) {struct fuel} : option item :=
  match fuel with
  | O => None
  | S f =>
      if tag_is t "cmd" then
        match map_opt (fun gw => match dec_word f (term_nth gw 1) with
                                 | Some w => Some (term_str (term_nth gw 0), w)
                                 | None => None
                                 end) (term_list (term_nth t 2)) with
        | Some ws => Some (ICmd (term_str (term_nth t 1)) ws (term_str (term_nth t 3)) (term_str (term_nth t 4)))
        | None => None
        end
      else if tag_is t "com" then
        Some (IComment (term_str (term_nth t 1)) (term_str (term_nth t 2)) (term_str (term_nth t 3)))
      else if tag_is t "emp" then Some (IEmpty (term_str (term_nth t 1)) (term_str (term_nth t 2)))
      else None
  end.
Definition dec_script (t : term) : option (list item) := map_opt (dec_item 40) (term_list t).
