(* SpecCtl.v — C09: control structures and procedures execute per their operational semantics.
   Definitions only.  Everything is stated for an ARBITRARY evaluator of bodies and conditions
   [rec : recfns] ([r_eval rec] evaluates a script, [r_expr rec] an expression); the only
   things used of the model are [expr_bool] (evaluate a condition to a boolean), the monad
   ([bind], [ret], [ok_empty]) and, for foreach, [st_set_var]. *)
From Molt Require Import Model.Base Model.ListSyn Model.Float Model.Value Model.State Model.Script
  Model.Parser Model.Eval Model.Commands.
Local Open Scope N_scope.

(* ====================================================================================== *)
(* 1. if                                                                                  *)
(* ====================================================================================== *)

(* [is_kw "then" v]: the word [v] is spelled exactly like the keyword (the implementation
   compares string representations, so a braced or quoted word counts as well) *)
Definition is_kw (w : string) (v : value) : bool := str_eqb (as_str v) (lit w).

(* an optional leading "then" is dropped.  NB: a word spelled "then" in body position is always
   taken as the keyword. *)
Definition strip_then (l : list value) : list value :=
  match l with
  | t :: r => if is_kw "then" t then r else l
  | [] => l
  end.

(* The documented shape of the words after the command name:
       cond ?then? body (elseif cond ?then? body)* (?else? body)?
   [if_shape] returns the clauses (condition, body) and the optional else body; None when the
   words do not have this shape.  After the body of a clause:
     - nothing: no else body;
     - the word "elseif": another clause follows;
     - the word "else": exactly one more word, the else body;
     - any other word: it is the else body and must be the last word.
   (The model, like the Rust code, is more liberal in one respect: words after the else body are
   silently ignored.  [if_shape] excludes them; the liberal parse is [if_parse] below.) *)
Fixpoint if_shape (args : list value) {struct args} : option (list (value * value) * option value) :=
  match args with
  | [] => None
  | cond :: rest =>
      match strip_then rest with
      | [] => None
      | body :: rest2 =>
          match rest2 with
          | [] => Some ([(cond, body)], None)
          | k :: rest3 =>
              if is_kw "elseif" k then
                match if_shape rest3 with
                | Some (cl, e) => Some ((cond, body) :: cl, e)
                | None => None
                end
              else if is_kw "else" k then
                match rest3 with
                | [b] => Some ([(cond, body)], Some b)
                | _ => None
                end
              else
                match rest3 with
                | [] => Some ([(cond, body)], Some k)
                | _ => None
                end
          end
      end
  end.

(* big-step semantics of a well-shaped if: the conditions are evaluated in order; the first
   true one selects its body, whose outcome is the outcome of the command; when all are false
   the else body is evaluated, or the result is the empty string; a condition that does not
   evaluate to a boolean ends the command with its error (this is what [bind] does). *)
Fixpoint spec_if (rec : recfns) (st : interp) (clauses : list (value * value)) (els : option value)
  : M value :=
  match clauses with
  | [] =>
      match els with
      | Some b => r_eval rec st b
      | None => ok_empty st
      end
  | (c, b) :: r =>
      do (st, t) <- expr_bool rec st c;
      if t then r_eval rec st b else spec_if rec st r els
  end.

(* --- what the model does on EVERY argument list: it reads the words lazily, so a malformation
   is only discovered (and reported) when all the conditions before it were false. --- *)
Inductive if_tail :=
| IfEnd                      (* no else body *)
| IfElse (body : value)      (* an else body (words after it are ignored) *)
| IfBad (cond : option value) (msg : str).
                             (* malformed here; a condition without a body is still evaluated *)

Definition if_no_expr (prev : value) : str :=
  lit "wrong # args: no expression after """ ++ as_str prev ++ lit """ argument".
Definition if_no_script (prev : value) : str :=
  lit "wrong # args: no script following after """ ++ as_str prev ++ lit """ argument".

(* the word the "no script" message names: the "then" keyword if present, else the condition *)
Definition then_prev (cond : value) (rest : list value) : value :=
  match rest with
  | t :: _ => if is_kw "then" t then t else cond
  | [] => cond
  end.

(* the longest well-formed sequence of clauses, and what follows it; [prev] is the word before
   [args] (used in messages only) *)
Fixpoint if_parse (prev : value) (args : list value) {struct args} : list (value * value) * if_tail :=
  match args with
  | [] => ([], IfBad None (if_no_expr prev))
  | cond :: rest =>
      match strip_then rest with
      | [] => ([], IfBad (Some cond) (if_no_script (then_prev cond rest)))
      | body :: rest2 =>
          match rest2 with
          | [] => ([(cond, body)], IfEnd)
          | k :: rest3 =>
              if is_kw "elseif" k then
                let '(cl, t) := if_parse k rest3 in ((cond, body) :: cl, t)
              else if is_kw "else" k then
                match rest3 with
                | [] => ([(cond, body)], IfBad None (if_no_script k))
                | b :: _ => ([(cond, body)], IfElse b)
                end
              else ([(cond, body)], IfElse k)
          end
      end
  end.

Definition tail_of_else (els : option value) : if_tail :=
  match els with Some b => IfElse b | None => IfEnd end.

(* the semantics of the lazily parsed form *)
Fixpoint spec_if_tail (rec : recfns) (st : interp) (clauses : list (value * value)) (t : if_tail)
  : M value :=
  match clauses with
  | [] =>
      match t with
      | IfEnd => ok_empty st
      | IfElse b => r_eval rec st b
      | IfBad None msg => fail st msg
      | IfBad (Some c) msg => do (st, _) <- expr_bool rec st c; fail st msg
      end
  | (c, b) :: r =>
      do (st, x) <- expr_bool rec st c;
      if x then r_eval rec st b else spec_if_tail rec st r t
  end.

(* all the conditions of [clauses] evaluate to false, taking [st] to [st']; no body is run *)
Inductive skip_clauses (rec : recfns) : interp -> list (value * value) -> interp -> Prop :=
| SkipNil st : skip_clauses rec st [] st
| SkipCons st c b st1 r st' :
    expr_bool rec st c = (st1, Ok false) ->
    skip_clauses rec st1 r st' ->
    skip_clauses rec st ((c, b) :: r) st'.

(* ====================================================================================== *)
(* 2. while                                                                               *)
(* ====================================================================================== *)

(* what a loop does with the outcome of its body *)
Inductive body_class := BNormal | BContinue | BBreak | BOther.

Definition classify (r : res value) : body_class :=
  match r with
  | Ok _ => BNormal
  | Err e =>
      match x_code e with
      | CBreak => BBreak
      | CContinue => BContinue
      | _ => BOther
      end
  | _ => BOther
  end.

(* an outcome of another type, for outcomes that are not [Ok] *)
Definition coerce {A B} (r : res A) : res B :=
  match r with
  | Ok _ => Panic (lit "coerce Ok")
  | Err e => Err e
  | Panic p => Panic p
  | Fuel => Fuel
  end.

Definition is_ok {A} (r : res A) : bool := match r with Ok _ => true | _ => false end.

(* the fuelled specification: [n] bounds the number of tests *)
Fixpoint spec_while (rec : recfns) (n : nat) (st : interp) (test body : value) : M value :=
  match n with
  | O => (st, Fuel)
  | S k =>
      match expr_bool rec st test with
      | (st1, Ok false) => (st1, Ok v_empty)                 (* the loop ends: empty result *)
      | (st1, Ok true) =>
          let '(st2, r) := r_eval rec st1 body in
          match classify r with
          | BNormal | BContinue => spec_while rec k st2 test body
          | BBreak => (st2, Ok v_empty)
          | BOther => (st2, r)                               (* error, return, ... *)
          end
      | (st1, r) => (st1, coerce r)                          (* the condition failed *)
      end
  end.

(* the same as a big-step relation without fuel *)
Inductive while_eval (rec : recfns) (test body : value) : interp -> interp * res value -> Prop :=
| WhileCondErr st st1 r :
    expr_bool rec st test = (st1, r) -> is_ok r = false ->
    while_eval rec test body st (st1, coerce r)
| WhileFalse st st1 :
    expr_bool rec st test = (st1, Ok false) ->
    while_eval rec test body st (st1, Ok v_empty)
| WhileBreak st st1 st2 r :
    expr_bool rec st test = (st1, Ok true) ->
    r_eval rec st1 body = (st2, r) -> classify r = BBreak ->
    while_eval rec test body st (st2, Ok v_empty)
| WhileOther st st1 st2 r :
    expr_bool rec st test = (st1, Ok true) ->
    r_eval rec st1 body = (st2, r) -> classify r = BOther ->
    while_eval rec test body st (st2, r)
| WhileNext st st1 st2 r out :
    expr_bool rec st test = (st1, Ok true) ->
    r_eval rec st1 body = (st2, r) -> (classify r = BNormal \/ classify r = BContinue) ->
    while_eval rec test body st2 out ->
    while_eval rec test body st out.

(* the states in which the body was started *)
Fixpoint while_trace (rec : recfns) (n : nat) (st : interp) (test body : value) : list interp :=
  match n with
  | O => []
  | S k =>
      match expr_bool rec st test with
      | (st1, Ok true) =>
          st1 :: (let '(st2, r) := r_eval rec st1 body in
                  match classify r with
                  | BNormal | BContinue => while_trace rec k st2 test body
                  | _ => []
                  end)
      | _ => []
      end
  end.

(* [while_iters rec test body st l st']: starting in [st] the test is true and the body completes
   normally [length l] times in a row; [l] lists the states in which the body was started and
   [st'] is the state after the last body *)
Inductive while_iters (rec : recfns) (test body : value) : interp -> list interp -> interp -> Prop :=
| WItersNil st : while_iters rec test body st [] st
| WItersCons st st1 st2 v l st' :
    expr_bool rec st test = (st1, Ok true) ->
    r_eval rec st1 body = (st2, Ok v) ->
    while_iters rec test body st2 l st' ->
    while_iters rec test body st (st1 :: l) st'.

(* ====================================================================================== *)
(* 3. for                                                                                 *)
(* ====================================================================================== *)

Definition continue_outside_loop : str := lit "invoked ""continue"" outside of a loop".
Definition break_outside_loop : str := lit "invoked ""break"" outside of a loop".

(* [start] has already been evaluated (once, by cmd_for) *)
Fixpoint spec_for (rec : recfns) (n : nat) (st : interp) (test next body : value) : M value :=
  match n with
  | O => (st, Fuel)
  | S k =>
      match expr_bool rec st test with
      | (st1, Ok false) => (st1, Ok v_empty)
      | (st1, Ok true) =>
          let '(st2, r) := r_eval rec st1 body in
          match classify r with
          | BNormal | BContinue =>                            (* [next] runs, also after continue *)
              let '(st3, r3) := r_eval rec st2 next in
              match classify r3 with
              | BNormal => spec_for rec k st3 test next body
              | BBreak => (st3, Ok v_empty)
              | BContinue => (st3, err continue_outside_loop)
              | BOther => (st3, r3)
              end
          | BBreak => (st2, Ok v_empty)                       (* [next] does not run *)
          | BOther => (st2, r)
          end
      | (st1, r) => (st1, coerce r)
      end
  end.

Inductive for_eval (rec : recfns) (test next body : value) : interp -> interp * res value -> Prop :=
| ForCondErr st st1 r :
    expr_bool rec st test = (st1, r) -> is_ok r = false ->
    for_eval rec test next body st (st1, coerce r)
| ForFalse st st1 :
    expr_bool rec st test = (st1, Ok false) ->
    for_eval rec test next body st (st1, Ok v_empty)
| ForBreak st st1 st2 r :
    expr_bool rec st test = (st1, Ok true) ->
    r_eval rec st1 body = (st2, r) -> classify r = BBreak ->
    for_eval rec test next body st (st2, Ok v_empty)
| ForOther st st1 st2 r :
    expr_bool rec st test = (st1, Ok true) ->
    r_eval rec st1 body = (st2, r) -> classify r = BOther ->
    for_eval rec test next body st (st2, r)
| ForNextBreak st st1 st2 r st3 r3 :
    expr_bool rec st test = (st1, Ok true) ->
    r_eval rec st1 body = (st2, r) -> (classify r = BNormal \/ classify r = BContinue) ->
    r_eval rec st2 next = (st3, r3) -> classify r3 = BBreak ->
    for_eval rec test next body st (st3, Ok v_empty)
| ForNextContinue st st1 st2 r st3 r3 :
    expr_bool rec st test = (st1, Ok true) ->
    r_eval rec st1 body = (st2, r) -> (classify r = BNormal \/ classify r = BContinue) ->
    r_eval rec st2 next = (st3, r3) -> classify r3 = BContinue ->
    for_eval rec test next body st (st3, err continue_outside_loop)
| ForNextOther st st1 st2 r st3 r3 :
    expr_bool rec st test = (st1, Ok true) ->
    r_eval rec st1 body = (st2, r) -> (classify r = BNormal \/ classify r = BContinue) ->
    r_eval rec st2 next = (st3, r3) -> classify r3 = BOther ->
    for_eval rec test next body st (st3, r3)
| ForNext st st1 st2 r st3 r3 out :
    expr_bool rec st test = (st1, Ok true) ->
    r_eval rec st1 body = (st2, r) -> (classify r = BNormal \/ classify r = BContinue) ->
    r_eval rec st2 next = (st3, r3) -> classify r3 = BNormal ->
    for_eval rec test next body st3 out ->
    for_eval rec test next body st out.

(* the states in which the body was started, and those in which [next] was started *)
Fixpoint for_trace (rec : recfns) (n : nat) (st : interp) (test next body : value)
  : list interp * list interp :=
  match n with
  | O => ([], [])
  | S k =>
      match expr_bool rec st test with
      | (st1, Ok true) =>
          let '(st2, r) := r_eval rec st1 body in
          match classify r with
          | BNormal | BContinue =>
              let '(st3, r3) := r_eval rec st2 next in
              let '(bs, ns) := match classify r3 with
                               | BNormal => for_trace rec k st3 test next body
                               | _ => ([], [])
                               end in
              (st1 :: bs, st2 :: ns)
          | _ => ([st1], [])
          end
      | _ => ([], [])
      end
  end.

(* the test is true, the body completes normally or with continue, and [next] completes
   normally, [length bs] times in a row *)
Inductive for_iters (rec : recfns) (test next body : value)
  : interp -> list interp -> list interp -> interp -> Prop :=
| FItersNil st : for_iters rec test next body st [] [] st
| FItersCons st st1 st2 r st3 v bs ns st' :
    expr_bool rec st test = (st1, Ok true) ->
    r_eval rec st1 body = (st2, r) -> (classify r = BNormal \/ classify r = BContinue) ->
    r_eval rec st2 next = (st3, Ok v) ->
    for_iters rec test next body st3 bs ns st' ->
    for_iters rec test next body st (st1 :: bs) (st2 :: ns) st'.

(* ====================================================================================== *)
(* 4. foreach                                                                             *)
(* ====================================================================================== *)

(* assign the variables in order; the first failure ends it *)
Fixpoint set_vars (st : interp) (bindings : list (value * value)) : M unit :=
  match bindings with
  | [] => ret st tt
  | (x, v) :: r => do (st, _) <- st_set_var st x v; set_vars st r
  end.

(* iteration [k] binds variable [j] to element [k * |vars| + j] of the list, or to the empty
   string beyond its end *)
Definition chunk_bindings (vars l : list value) (k : nat) : list (value * value) :=
  map (fun j => (nth j vars v_empty, nth (k * length vars + j) l v_empty)) (seq 0 (length vars)).

Definition ceil_div (a b : nat) : nat := (a + b - 1) / b.

(* [iters] iterations starting with iteration number [k] *)
Fixpoint spec_foreach (rec : recfns) (iters : nat) (st : interp) (vars l : list value) (body : value)
  (k : nat) : M value :=
  match iters with
  | O => ok_empty st
  | S i =>
      do (st, _) <- set_vars st (chunk_bindings vars l k);
      let '(st1, r) := r_eval rec st body in
      match classify r with
      | BNormal | BContinue => spec_foreach rec i st1 vars l body (S k)
      | BBreak => ok_empty st1
      | BOther => (st1, r)
      end
  end.

(* [cnt] iterations in a row, starting with number [k], whose assignments succeed and whose
   bodies complete normally; the list has the states in which the bodies were started *)
Inductive foreach_iters (rec : recfns) (vars l : list value) (body : value)
  : nat -> interp -> list interp -> interp -> Prop :=
| EItersNil k st : foreach_iters rec vars l body k st [] st
| EItersCons k st st1 st2 v tr st' :
    set_vars st (chunk_bindings vars l k) = (st1, Ok tt) ->
    r_eval rec st1 body = (st2, Ok v) ->
    foreach_iters rec vars l body (S k) st2 tr st' ->
    foreach_iters rec vars l body k st (st1 :: tr) st'.

(* ====================================================================================== *)
(* 6. scripts                                                                             *)
(* ====================================================================================== *)

(* one command that completes normally: [r] is the result so far.  A command without words is
   skipped and leaves the result so far unchanged; otherwise the result is the command's *)
Inductive cmd_step (exec : executor) (ew : interp -> word -> interp * res value)
  : interp -> value -> list word -> interp -> value -> Prop :=
| StepEmpty st r ws st1 :
    eval_words_with ew st ws [] = (st1, Ok []) ->
    cmd_step exec ew st r ws st1 r
| StepCmd st r ws st1 name args cmd st2 v :
    eval_words_with ew st ws [] = (st1, Ok (name :: args)) ->
    assoc_get (as_str name) (i_cmds st1) = Some cmd ->
    exec st1 cmd (name :: args) = (st2, Ok v) ->
    cmd_step exec ew st r ws st2 v.

(* a sequence of commands all completing normally *)
Inductive cmds_run (exec : executor) (ew : interp -> word -> interp * res value)
  : interp -> value -> list (list word) -> interp -> value -> Prop :=
| RunNil st r : cmds_run exec ew st r [] st r
| RunCons st r ws st1 r1 rest st' r' :
    cmd_step exec ew st r ws st1 r1 ->
    cmds_run exec ew st1 r1 rest st' r' ->
    cmds_run exec ew st r (ws :: rest) st' r'.
