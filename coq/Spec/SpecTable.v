(* SpecTable.v — C18: the command table and the command contexts stay consistent.
   Definitions only (the proofs are in Proofs/TableFacts.v):
     - [users]      how many command names are bound to a native command carrying a context id,
     - [table_inv]  reference count = number of bound users, every context in use is live,
     - [tab_op], [apply_op]   the command-table operations of interp.rs as data,
     - [spec_apply] the abstract name map (bind / unbind / move) the table must refine. *)
From Molt Require Import Model.Base Model.Value Model.State Model.Eval Model.Commands.
Local Open Scope N_scope.

(* ---------- the invariant ---------- *)

(* does a command hold a reference to context [c]?  (procs hold none; a native command registered
   without context carries the id 0, which is never a live context) *)
Definition uses_ctx (cmd : command) (c : N) : bool :=
  match cmd with CmdNative _ ctx => N.eqb ctx c | _ => false end.

(* the number of command NAMES currently bound to a native command carrying context [c] *)
Definition users (cmds : list (str * command)) (c : N) : nat :=
  length (filter (fun kv => uses_ctx (snd kv) c) cmds).

Definition names_unique (cmds : list (str * command)) : Prop := NoDup (map fst cmds).

Definition table_inv (st : interp) : Prop :=
  names_unique (i_cmds st)
  /\ NoDup (map fst (i_ctx st))                                   (* one entry per live context *)
  /\ (forall c n, ctx_get (i_ctx st) c = Some n ->
        c <> 0 /\ c <= i_last_ctx st /\ n = N.of_nat (users (i_cmds st) c))
  /\ (forall name n c, assoc_get name (i_cmds st) = Some (CmdNative n c) -> c <> 0 ->
        ctx_get (i_ctx st) c <> None).

(* ---------- the operations ---------- *)

Inductive tab_op :=
| OpSaveContext                                               (* Interp::save_context *)
| OpAdd (name : str) (n : native)                             (* Interp::add_command *)
| OpAddCtx (name : str) (n : native) (ctx : N)                (* Interp::add_context_command *)
| OpProc (name : str) (parms : list value) (body : value)     (* Interp::add_proc *)
| OpRename (old new : str)                                    (* the rename command *)
| OpRemove (name : str).                                      (* Interp::remove_command *)

(* An operation whose outcome is not [Ok] (error or panic) leaves the state unchanged. *)
Definition commit (st : interp) (m : M unit) : interp :=
  match m with
  | (st', Ok _) => st'
  | _ => st
  end.

(* One operation.  [OpRename] is guarded exactly as [cmd_rename] guards [rename_command] (an
   unknown [old] is an error: nothing changes; an empty [new] removes); [OpRemove] is guarded by
   [has_command] (the unguarded Rust function panics on an unknown name).
   (The error messages of the guards are not built here: [err] formats values and thereby drags
   the axioms of the real numbers behind Flocq into every statement about [apply_op].) *)
Definition apply_op (st : interp) (o : tab_op) : interp :=
  match o with
  | OpSaveContext => fst (save_context st)
  | OpAdd name n => commit st (add_context_command st name n 0)
  | OpAddCtx name n ctx => commit st (add_context_command st name n ctx)
  | OpProc name parms body => add_proc st name parms body
  | OpRename old new =>
      if negb (has_command st old) then st
      else
        match new with
        | [] => commit st (remove_command st old)
        | _ => rename_command st old new
        end
  | OpRemove name =>
      if has_command st name then commit st (remove_command st name) else st
  end.

(* the only way an operation can fail although its name arguments are fine: a command is
   registered with a context id that is not live (Rust: panic "unknown context ID") *)
Definition op_defined (st : interp) (o : tab_op) : Prop :=
  match o with
  | OpAddCtx _ _ ctx => ctx = 0 \/ ctx_get (i_ctx st) ctx <> None
  | _ => True
  end.

(* ---------- the abstract name map ---------- *)

(* A name map is observed through [assoc_get] only.  Its updates are written independently of
   [assoc_set]/[assoc_remove]: unbinding drops EVERY entry for the name, binding unbinds and puts
   the new entry in front. *)
Definition spec_unbind (name : str) (m : list (str * command)) : list (str * command) :=
  filter (fun kv => negb (str_eqb (fst kv) name)) m.
Definition spec_bind (name : str) (cmd : command) (m : list (str * command)) : list (str * command) :=
  (name, cmd) :: spec_unbind name m.

Definition spec_apply (m : list (str * command)) (o : tab_op) : list (str * command) :=
  match o with
  | OpSaveContext => m
  | OpAdd name n => spec_bind name (CmdNative n 0) m
  | OpAddCtx name n ctx => spec_bind name (CmdNative n ctx) m
  | OpProc name parms body => spec_bind name (CmdProc parms body) m
  | OpRename old new =>
      match assoc_get old m with
      | None => m                                          (* error: nothing changes *)
      | Some cmd =>
          match new with
          | [] => spec_unbind old m                        (* rename to "" removes *)
          | _ => spec_bind new cmd (spec_unbind old m)     (* move *)
          end
      end
  | OpRemove name => spec_unbind name m
  end.
