(* SpecDict.v — C15: abstract specification of an insertion-ordered map with string keys.

   Definitions only; the proofs that the model's dictionary operations (Value.dict_insert,
   Commands.dict_get, Commands.dict_remove, Value.list_to_dict, ...) meet this specification are
   in Proofs/DictFacts.v.

   A dictionary is OBSERVED through two functions:
     keys_of d      the key STRINGS, in iteration order  (what `dict keys` prints)
     lookup d k     the value stored under the key string k, if any   (what `dict get` returns)
   and the operations are specified by equations over these observations, not by an algorithm.
   Keys are compared as strings: two values with the same string form are the same key
   (Rust: `impl Hash/Eq for Value` go through `as_str`). *)
From Molt Require Import Model.Base Model.Value.

Definition dict := list (value * value).

(* ---------- observations ---------- *)
Definition keys_of (d : dict) : list str := map (fun kv => as_str (fst kv)) d.
Definition vals_of (d : dict) : list value := map snd d.

(* one entry per key *)
Definition wf (d : dict) : Prop := NoDup (keys_of d).

(* the first entry carrying that key (for a wf dictionary: THE entry carrying that key) *)
Fixpoint lookup (d : dict) (k : str) : option value :=
  match d with
  | [] => None
  | (k', v) :: r => if str_eqb (as_str k') k then Some v else lookup r k
  end.

Definition mem (k : str) (l : list str) : bool := existsb (str_eqb k) l.
Definition without (k : str) (l : list str) : list str := filter (fun x => negb (str_eqb x k)) l.
Definition without_all (ks : list str) (l : list str) : list str := filter (fun x => negb (mem x ks)) l.

(* the key-string view of a dictionary; the observations determine it (DictFacts.observations_determine) *)
Definition abs (d : dict) : list (str * value) := map (fun kv => (as_str (fst kv), snd kv)) d.

(* ---------- operations, by their observations ---------- *)

(* [d'] is a result of inserting k := v into d: an existing key keeps its position, a new key
   goes last; k now maps to v, every other key maps to what it did *)
Record spec_insert (d : dict) (k : str) (v : value) (d' : dict) : Prop := {
  ins_wf : wf d';
  ins_keys : keys_of d' = if mem k (keys_of d) then keys_of d else keys_of d ++ [k];
  ins_lookup : forall k', lookup d' k' = if str_eqb k k' then Some v else lookup d k' }.

(* [d'] is a result of removing k from d: the other keys keep their relative order and values *)
Record spec_remove (d : dict) (k : str) (d' : dict) : Prop := {
  rem_wf : wf d';
  rem_keys : keys_of d' = without k (keys_of d);
  rem_lookup : forall k', lookup d' k' = if str_eqb k k' then None else lookup d k' }.

(* removing several keys *)
Record spec_remove_all (d : dict) (ks : list str) (d' : dict) : Prop := {
  rema_wf : wf d';
  rema_keys : keys_of d' = without_all ks (keys_of d);
  rema_lookup : forall k', lookup d' k' = if mem k' ks then None else lookup d k' }.

(* ---------- building a dictionary from a flat list k1 v1 k2 v2 ... ---------- *)

(* keys of a flat list, in order, with repetitions (a trailing unpaired element is ignored;
   `dict create` and the string->dict conversion reject odd lengths before getting here) *)
Fixpoint flat_keys (l : list value) : list str :=
  match l with
  | k :: _ :: r => as_str k :: flat_keys r
  | _ => []
  end.

(* the value paired with the LAST occurrence of k *)
Fixpoint flat_last (l : list value) (k : str) : option value :=
  match l with
  | k' :: v :: r =>
      match flat_last r k with
      | Some x => Some x
      | None => if str_eqb (as_str k') k then Some v else None
      end
  | _ => None
  end.

(* keeps the FIRST occurrence of every string *)
Fixpoint nodup_first (l : list str) : list str :=
  match l with
  | [] => []
  | x :: r => x :: without x (nodup_first r)
  end.

Record spec_of_list (l : list value) (d' : dict) : Prop := {
  ofl_wf : wf d';
  ofl_keys : keys_of d' = nodup_first (flat_keys l);
  ofl_lookup : forall k, lookup d' k = flat_last l k }.
