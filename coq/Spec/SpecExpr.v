(* SpecExpr.v — reference evaluator of expression TREES (the documented grammar: structure is
   given by the tree, not by precedence climbing over text).  Leaves carry the value a
   variable or command substitution yields.  Shares with the model only the reading of a
   number from a string and the arithmetic of a single operator. *)
From Molt Require Import Model.Base Model.ListSyn Model.Float Model.Value Model.State Model.Expr.
Local Open Scope Z_scope.

Definition op_is (op : str) (s : string) : bool := str_eqb op (lit s).
Arguments op_is op s%string.

Definition tok_of_binop (op : str) : Z :=
  if op_is op "*" then T_MULT else if op_is op "/" then T_DIVIDE else if op_is op "%" then T_MOD
  else if op_is op "+" then T_PLUS else if op_is op "-" then T_MINUS else if op_is op "<<" then T_LEFT_SHIFT
  else if op_is op ">>" then T_RIGHT_SHIFT else if op_is op "<" then T_LESS else if op_is op ">" then T_GREATER
  else if op_is op "<=" then T_LEQ else if op_is op ">=" then T_GEQ else if op_is op "==" then T_EQUAL
  else if op_is op "!=" then T_NEQ else if op_is op "eq" then T_STRING_EQ else if op_is op "ne" then T_STRING_NE
  else if op_is op "in" then T_IN else if op_is op "ni" then T_NI else if op_is op "&" then T_BIT_AND
  else if op_is op "^" then T_BIT_XOR else if op_is op "|" then T_BIT_OR else if op_is op "&&" then T_AND
  else if op_is op "||" then T_OR else T_UNKNOWN.

(* truth value of a condition operand: numbers only *)
Definition truth (d : datum) : res bool :=
  match d with
  | DInt z => Ok (negb (z =? 0))
  | DFlt f => Ok (negb (f_is_zero f))
  | DStr _ => err (lit "non-numeric condition")
  end.

Definition spec_unary (op : str) (v : datum) : res datum :=
  if op_is op "-" then
    match v with
    | DInt z => if in_i64 (- z) then Ok (DInt (- z)) else err (lit "integer overflow")
    | DFlt x => Ok (DFlt (fneg x))
    | DStr _ => err (lit "type")
    end
  else if op_is op "+" then match v with DStr _ => err (lit "type") | _ => Ok v end
  else if op_is op "!" then
    match v with
    | DInt z => Ok (DInt (if z =? 0 then 1 else 0))
    | DFlt x => Ok (DInt (if f_is_zero x then 1 else 0))
    | DStr _ => err (lit "type")
    end
  else match v with DInt z => Ok (DInt (Z.lnot z)) | _ => err (lit "type") end.


Fixpoint eval_ast (t : term) : res datum :=
  match t with
  | TList [TStr tg; TInt z] => Ok (DInt z)
  | TList [TStr tg; TStr s] =>
      if str_eqb tg (lit "flt") then
        match get_float s with Some f => Ok (DFlt f) | None => err (lit "bad float literal") end
      else if str_eqb tg (lit "bool") then
        Ok (DInt (if str_eqb s (lit "true") || str_eqb s (lit "yes") || str_eqb s (lit "on") then 1 else 0))
      else expr_parse_string s                                  (* str, brc, cmd *)
  | TList [TStr tg; TStr a; (TStr s) as b] =>                   (* var name value *)
      if str_eqb tg (lit "var") then expr_parse_string s else err (lit "bad tree")
  | TList [TStr tg; TStr op; a] =>                              (* un op a / fn name a *)
      match eval_ast a with
      | Ok v =>
          if str_eqb tg (lit "un") then spec_unary op v
          else match v with
               | DStr _ => err (lit "argument to math function didn't have numeric value")
               | _ => call_func op v
               end
      | other => other
      end
  | TList [TStr tg; TStr op; a; b] =>                           (* bin op a b *)
      if str_eqb op (lit "&&") || str_eqb op (lit "||") then
        match eval_ast a with
        | Ok va =>
            match truth va with
            | Ok ta =>
                if str_eqb op (lit "&&") && negb ta then Ok (DInt 0)
                else if str_eqb op (lit "||") && ta then Ok (DInt 1)
                else
                  match eval_ast b with
                  | Ok vb => match truth vb with
                             | Ok tb => Ok (DInt (if tb then 1 else 0))
                             | Err e => Err e | Panic p => Panic p | Fuel => Fuel
                             end
                  | other => other
                  end
            | Err e => Err e | Panic p => Panic p | Fuel => Fuel
            end
        | other => other
        end
      else
        match eval_ast a with
        | Ok va =>
            match eval_ast b with
            | Ok vb => apply_binop (tok_of_binop op) va vb
            | other => other
            end
        | other => other
        end
  | TList [TStr tg; (TList _) as c; a; b] =>                    (* cond c a b *)
      match eval_ast c with
      | Ok vc =>
          match truth vc with
          | Ok tc => if tc then eval_ast a else eval_ast b
          | Err e => Err e | Panic p => Panic p | Fuel => Fuel
          end
      | other => other
      end
  | _ => err (lit "bad tree")
  end.

Definition datum_str (d : datum) : str :=
  match d with DInt z => show_Z z | DFlt f => fmt_float f | DStr s => s end.

(* ---------- the same reference evaluator with side effects (C12) ----------
   Extra leaves: ("rec" k value) records the call k and yields value - ("qrec" k value) is the
   same call inside a double-quoted operand, ("qunset" n) an unset variable inside one;
   ("unset" n) is an unset
   variable and ("badcmd") an unknown command: evaluating them is an error; ("raw" text) is
   malformed text (the tree has no value: [contains_raw]).  The result is the list of recorded
   calls, in order, and the value or error.  An operand that C semantics does not require is
   not evaluated: it contributes no call and no error. *)
Definition tr_bind (m : list str * res datum) (k : datum -> list str * res datum) : list str * res datum :=
  match m with
  | (t, Ok v) => let '(t2, r) := k v in (t ++ t2, r)
  | (t, other) => (t, other)
  end.

Fixpoint eval_tr (t : term) : list str * res datum :=
  match t with
  | TList [TStr tg; TInt z] =>
      if str_eqb tg (lit "unset") || str_eqb tg (lit "qunset")
      then ([], err (lit "no such variable")) else ([], Ok (DInt z))
  | TList [TStr tg] => ([], err (lit "failing command"))                    (* badcmd *)
  | TList [TStr tg; TStr s] =>
      if str_eqb tg (lit "raw") then ([], err (lit "malformed"))
      else ([], eval_ast t)
  | TList [TStr tg; TInt k; TStr v] =>                                         (* rec k value *)
      ([lit "k" ++ show_Z k], expr_parse_string v)
  | TList [TStr tg; TStr a; (TStr s) as b] => ([], eval_ast t)                 (* var name value *)
  | TList [TStr tg; TStr op; a] =>
      tr_bind (eval_tr a) (fun v =>
        ([], if str_eqb tg (lit "un") then spec_unary op v
             else match v with
                  | DStr _ => err (lit "argument to math function didn't have numeric value")
                  | _ => call_func op v
                  end))
  | TList [TStr tg; TStr op; a; b] =>
      if str_eqb op (lit "&&") || str_eqb op (lit "||") then
        tr_bind (eval_tr a) (fun va =>
          match truth va with
          | Ok ta =>
              if str_eqb op (lit "&&") && negb ta then ([], Ok (DInt 0))
              else if str_eqb op (lit "||") && ta then ([], Ok (DInt 1))
              else tr_bind (eval_tr b) (fun vb =>
                     ([], match truth vb with
                          | Ok tb => Ok (DInt (if tb then 1 else 0))
                          | Err e => Err e | Panic p => Panic p | Fuel => Fuel
                          end))
          | Err e => ([], Err e) | Panic p => ([], Panic p) | Fuel => ([], Fuel)
          end)
      else
        tr_bind (eval_tr a) (fun va =>
          tr_bind (eval_tr b) (fun vb => ([], apply_binop (tok_of_binop op) va vb)))
  | TList [TStr tg; (TList _) as c; a; b] =>
      tr_bind (eval_tr c) (fun vc =>
        match truth vc with
        | Ok tc => if tc then eval_tr a else eval_tr b
        | Err e => ([], Err e) | Panic p => ([], Panic p) | Fuel => ([], Fuel)
        end)
  | _ => ([], err (lit "bad tree"))
  end.

Fixpoint contains_raw (t : term) : bool :=
  match t with
  | TList (TStr tg :: rest) =>
      str_eqb tg (lit "raw")
      || (fix go (l : list term) : bool := match l with [] => false | x :: r => contains_raw x || go r end) rest
  | _ => false
  end.
