(* SpecVars.v — C07: variables live in the right scope and keep one shape.  Definitions only:
   the invariant of the scope stack, the abstract shape of a variable, the one-hop reading of
   links that the invariant justifies, and the relation "a step that touches only locals". *)
From Molt Require Import Model.Base Model.ListSyn Model.Float Model.Value Model.State.
Local Open Scope N_scope.

(* the entry stored for [n] in frame [k] (frames beyond the stack are empty) *)
Definition ent (ss : scopes) (k : nat) (n : str) : option var := assoc_get n (sc_get_scope ss k).

(* an entry (n, x) stored in frame k is acceptable when it is not the placeholder Var::New and,
   if it is a link, the link goes strictly down and its target entry is not itself a link *)
Definition entry_ok (ss : scopes) (k : nat) (n : str) (x : var) : Prop :=
  match x with
  | VarNew => False
  | VarUpvar l => (l < k)%nat /\ forall y, In (n, y) (sc_get_scope ss l) -> is_upvar y = false
  | _ => True
  end.

Definition scope_inv (ss : scopes) : Prop :=
  ss <> [] /\
  (forall k, NoDup (map fst (sc_get_scope ss k))) /\        (* a name has one entry per frame *)
  (forall k n x, In (n, x) (sc_get_scope ss k) -> entry_ok ss k n x).

(* the abstract view of a variable, as seen from the current frame *)
Inductive shape :=
| Unset
| Scalar (v : value)
| Array (m : list (str * value)).

Definition shape_of (ss : scopes) (name : str) : shape :=
  match sc_lookup ss name with
  | Some (VarScalar v) => Scalar v
  | Some (VarArray m) => Array m
  | _ => Unset
  end.

(* Under the invariant a link is followed at most once: *)
Definition spec_target (ss : scopes) (n : str) : nat :=
  match ent ss (sc_current ss) n with
  | Some (VarUpvar l) => l
  | _ => sc_current ss
  end.

Definition spec_lookup (ss : scopes) (n : str) : option var :=
  match ent ss (sc_current ss) n with
  | Some (VarUpvar l) => ent ss l n
  | o => o
  end.

(* [n] is not a link in the current frame *)
Definition unlinked (ss : scopes) (n : str) : Prop :=
  forall l, ent ss (sc_current ss) n <> Some (VarUpvar l).

(* one operation on a name that is not linked; sequences of them *)
Inductive local_step : scopes -> scopes -> Prop :=
| LS_set ss n v : unlinked ss n -> local_step ss (fst (sc_set ss n v))
| LS_set_elem ss n i v : unlinked ss n -> local_step ss (fst (sc_set_elem ss n i v))
| LS_array_set ss n kv : unlinked ss n -> local_step ss (fst (sc_array_set ss n kv))
| LS_unset ss n : unlinked ss n -> local_step ss (sc_unset ss n)
| LS_array_unset ss n : unlinked ss n -> local_step ss (sc_array_unset ss n)
| LS_unset_element ss n i : unlinked ss n -> local_step ss (sc_unset_element ss n i).

Inductive local_steps : scopes -> scopes -> Prop :=
| LS_refl ss : local_steps ss ss
| LS_step ss1 ss2 ss3 : local_step ss1 ss2 -> local_steps ss2 ss3 -> local_steps ss1 ss3.
