(* BindFacts.v — C10: procedure arguments bind per the declared signature. *)
From Molt Require Import Model.Base Model.Tokenizer Model.ListSyn Model.Float Model.Value
  Model.State Model.Script Model.Parser Model.Eval Model.Commands.
From Molt Require Import Proofs.BaseFacts Spec.SpecBind.
From Coq Require Import Lia.

Arguments N.eqb : simpl never.
Arguments N.leb : simpl never.
Arguments N.ltb : simpl never.

Local Open Scope N_scope.

(* ---------- association lists ---------- *)

Lemma str_eqb_neq a b : a <> b -> str_eqb a b = false.
Proof.
  intros Hne. destruct (str_eqb a b) eqn:E; [|reflexivity].
  apply str_eqb_eq in E. contradiction.
Qed.

Lemma assoc_get_set_same {A} k (a : A) m : assoc_get k (assoc_set k a m) = Some a.
Proof.
  induction m as [|[k' a'] m IH]; cbn [assoc_set assoc_get].
  - now rewrite str_eqb_refl.
  - destruct (str_eqb k' k) eqn:E; cbn [assoc_get]; rewrite E; [reflexivity|exact IH].
Qed.

Lemma assoc_get_set_other {A} k k2 (a : A) m :
  k <> k2 -> assoc_get k2 (assoc_set k a m) = assoc_get k2 m.
Proof.
  intros Hne. induction m as [|[k' a'] m IH]; cbn [assoc_set assoc_get].
  - now rewrite (str_eqb_neq _ _ Hne).
  - destruct (str_eqb k' k) eqn:E; cbn [assoc_get].
    + apply str_eqb_eq in E. subst k'. now rewrite (str_eqb_neq _ _ Hne).
    + now rewrite IH.
Qed.

Lemma assoc_get_in {A} k (a : A) m : assoc_get k m = Some a -> exists k', In (k', a) m.
Proof.
  induction m as [|[k' a'] m IH]; cbn [assoc_get]; [discriminate|].
  destruct (str_eqb k' k).
  - intros H. injection H as ->. exists k'. now left.
  - intros H. destruct (IH H) as [k2 Hin]. exists k2. now right.
Qed.

Lemma all_scalars_get sc n x : all_scalars sc -> assoc_get n sc = Some x -> exists v, x = VarScalar v.
Proof.
  intros Hall Hget. destruct (assoc_get_in _ _ _ Hget) as [k Hin].
  unfold all_scalars in Hall. rewrite Forall_forall in Hall. exact (Hall _ Hin).
Qed.

Lemma all_scalars_set sc n v : all_scalars sc -> all_scalars (assoc_set n (VarScalar v) sc).
Proof.
  unfold all_scalars. induction sc as [|[k a] sc IH]; intros Hall; cbn [assoc_set].
  - constructor; [now exists v|constructor].
  - inversion Hall as [|x l Hx Hl]; subst. destruct (str_eqb k n).
    + constructor; [now exists v|exact Hl].
    + constructor; [exact Hx|exact (IH Hl)].
Qed.

Lemma all_scalars_bind_scope bs sc : all_scalars sc -> all_scalars (bind_scope bs sc).
Proof.
  revert sc. induction bs as [|[n v] bs IH]; intros sc Hall; cbn [bind_scope fold_left]; [exact Hall|].
  apply IH. now apply all_scalars_set.
Qed.

(* ---------- update_nth ---------- *)

Lemma length_update_nth {A} n (f : A -> A) l : length (update_nth n f l) = length l.
Proof.
  revert n. induction l as [|x l IH]; intros [|n]; cbn [update_nth length]; try reflexivity.
  now rewrite IH.
Qed.

Lemma nth_update_nth_same {A} n (f : A -> A) l d :
  (n < length l)%nat -> nth n (update_nth n f l) d = f (nth n l d).
Proof.
  revert n. induction l as [|x l IH]; intros [|n] Hlt; cbn [update_nth nth length] in *; try lia.
  - reflexivity.
  - apply IH. lia.
Qed.

Lemma nth_update_nth_other {A} n k (f : A -> A) l d :
  n <> k -> nth k (update_nth n f l) d = nth k l d.
Proof.
  revert n k. induction l as [|x l IH]; intros [|n] [|k] Hne; cbn [update_nth nth]; try reflexivity.
  - contradiction.
  - apply IH. lia.
Qed.

Lemma update_nth_compose {A} n (f g : A -> A) l :
  update_nth n g (update_nth n f l) = update_nth n (fun x => g (f x)) l.
Proof.
  revert n. induction l as [|x l IH]; intros [|n]; cbn [update_nth]; try reflexivity.
  now rewrite IH.
Qed.

Lemma update_nth_id {A} n (l : list A) : update_nth n (fun x => x) l = l.
Proof.
  revert n. induction l as [|x l IH]; intros [|n]; cbn [update_nth]; try reflexivity.
  now rewrite IH.
Qed.

Lemma update_nth_last {A} (f : A -> A) l x : update_nth (length l) f (l ++ [x]) = l ++ [f x].
Proof.
  induction l as [|y l IH]; cbn [update_nth length app]; [reflexivity|now rewrite IH].
Qed.

Lemma sc_current_push ss : sc_current (sc_push ss) = length ss.
Proof. unfold sc_current, sc_push. rewrite app_length. cbn [length]. lia. Qed.

Lemma sc_get_scope_push_current ss : sc_get_scope (sc_push ss) (length ss) = [].
Proof. unfold sc_get_scope, sc_push. rewrite app_nth2 by lia. now rewrite Nat.sub_diag. Qed.

Lemma sc_pop_push_upd ss sc : sc_pop (ss ++ [sc]) = ss.
Proof. unfold sc_pop. apply removelast_last. Qed.

Lemma sc_current_lt ss : ss <> [] -> (sc_current ss < length ss)%nat.
Proof. destruct ss; [contradiction|]. unfold sc_current. cbn [length]. lia. Qed.

(* ---------- interpreter state after binding ---------- *)

(* [bound st bs]: st with the bindings bs stored, in order, as scalars of the current scope;
   every other scope and every other component of the interpreter is as in st *)
Definition bound (st : interp) (bs : list (str * value)) : interp :=
  set_scopes st (update_nth (sc_current (i_scopes st)) (bind_scope bs) (i_scopes st)).

Lemma set_scopes_self st : set_scopes st (i_scopes st) = st.
Proof. now destruct st. Qed.

Lemma bound_nil st : bound st [] = st.
Proof.
  unfold bound. change (bind_scope []) with (fun sc : scope => sc).
  rewrite update_nth_id. apply set_scopes_self.
Qed.

Lemma i_scopes_bound st bs :
  i_scopes (bound st bs) = update_nth (sc_current (i_scopes st)) (bind_scope bs) (i_scopes st).
Proof. reflexivity. Qed.

Lemma sc_current_bound st bs : sc_current (i_scopes (bound st bs)) = sc_current (i_scopes st).
Proof. rewrite i_scopes_bound. unfold sc_current. now rewrite length_update_nth. Qed.

Lemma bound_cons st n v bs : bound (bound st [(n, v)]) bs = bound st ((n, v) :: bs).
Proof.
  unfold bound at 1. rewrite sc_current_bound. rewrite i_scopes_bound.
  rewrite update_nth_compose. reflexivity.
Qed.

Lemma current_scope_bound st bs :
  i_scopes st <> [] ->
  sc_get_scope (i_scopes (bound st bs)) (sc_current (i_scopes (bound st bs)))
  = bind_scope bs (sc_get_scope (i_scopes st) (sc_current (i_scopes st))).
Proof.
  intros Hne. rewrite sc_current_bound, i_scopes_bound. unfold sc_get_scope.
  apply nth_update_nth_same. now apply sc_current_lt.
Qed.

Lemma other_scope_bound st bs k :
  k <> sc_current (i_scopes st) ->
  sc_get_scope (i_scopes (bound st bs)) k = sc_get_scope (i_scopes st) k.
Proof.
  intros Hne. rewrite i_scopes_bound. unfold sc_get_scope. apply nth_update_nth_other. congruence.
Qed.

Lemma bound_nonempty st bs : i_scopes st <> [] -> i_scopes (bound st bs) <> [].
Proof.
  intros Hne Heq. apply (f_equal (@length _)) in Heq. rewrite i_scopes_bound, length_update_nth in Heq.
  destruct (i_scopes st); [contradiction|discriminate].
Qed.

(* the other components *)
Lemma bound_cmds st bs : i_cmds (bound st bs) = i_cmds st.
Proof. reflexivity. Qed.

(* storing a scalar when the current scope holds scalars only *)
Lemma st_set_scalar_scalars st n v :
  i_scopes st <> [] ->
  all_scalars (sc_get_scope (i_scopes st) (sc_current (i_scopes st))) ->
  st_set_scalar st n v = (bound st [(n, v)], Ok tt).
Proof.
  intros Hne Hall. unfold st_set_scalar, sc_set, sc_target.
  set (ss := i_scopes st) in *. set (cur := sc_current ss) in *.
  assert (sc_resolve (S cur) ss cur n = cur) as Hres.
  { cbn [sc_resolve]. destruct (assoc_get n (sc_get_scope ss cur)) as [x|] eqn:Hget; [|reflexivity].
    destruct (all_scalars_get _ _ _ Hall Hget) as [w ->]. reflexivity. }
  rewrite Hres. unfold sc_set_at.
  destruct (assoc_get n (sc_get_scope ss cur)) as [x|] eqn:Hget.
  - destruct (all_scalars_get _ _ _ Hall Hget) as [w ->]. reflexivity.
  - reflexivity.
Qed.

Lemma bound_all_scalars st bs :
  i_scopes st <> [] ->
  all_scalars (sc_get_scope (i_scopes st) (sc_current (i_scopes st))) ->
  all_scalars (sc_get_scope (i_scopes (bound st bs)) (sc_current (i_scopes (bound st bs)))).
Proof.
  intros Hne Hall. rewrite current_scope_bound by exact Hne. now apply all_scalars_bind_scope.
Qed.

(* ---------- parse_specs ---------- *)

Lemma parse_specs_cons p r ps :
  parse_specs (p :: r) = Some ps ->
  exists s ss, parse_spec (Nat.eqb (length r) 0) p = Some s /\ parse_specs r = Some ss /\ ps = s :: ss.
Proof.
  cbn [parse_specs]. destruct (parse_spec _ p) as [s|]; [|discriminate].
  destruct (parse_specs r) as [ss|]; [|discriminate].
  intros H. injection H as <-. now exists s, ss.
Qed.

Lemma parse_spec_inv b p s :
  parse_spec b p = Some s ->
  (exists n, v_as_list p = inr [n] /\ s = if is_args_name n && b then PArgs else PReq (as_str n)) \/
  (exists n d, v_as_list p = inr [n; d] /\ s = if is_args_name n && b then PArgs else POpt (as_str n) d).
Proof.
  unfold parse_spec. destruct (v_as_list p) as [m|[|n [|d [|e l]]]]; try discriminate.
  - intros H. injection H as <-. left. now exists n.
  - intros H. injection H as <-. right. now exists n, d.
Qed.

Lemma parse_specs_wf parms ps : parse_specs parms = Some ps -> specs_wf ps.
Proof.
  revert ps. induction parms as [|p r IH]; intros ps Hp.
  - injection Hp as <-. exact I.
  - destruct (parse_specs_cons _ _ _ Hp) as (s & ss & Hs & Hss & ->).
    cbn [specs_wf]. specialize (IH _ Hss).
    destruct (parse_spec_inv _ _ _ Hs) as [(n & _ & ->)|(n & d & _ & ->)].
    + destruct (is_args_name n && Nat.eqb (length r) 0) eqn:E; [|exact IH].
      apply andb_true_iff in E. destruct E as [_ E]. apply Nat.eqb_eq in E.
      destruct r; [|discriminate]. now injection Hss as <-.
    + destruct (is_args_name n && Nat.eqb (length r) 0) eqn:E; [|exact IH].
      apply andb_true_iff in E. destruct E as [_ E]. apply Nat.eqb_eq in E.
      destruct r; [|discriminate]. now injection Hss as <-.
Qed.

(* ---------- 1. bind_parms implements spec_bind ---------- *)

Lemma bind_parms_spec_gen name all parms :
  forall st args ps,
  i_scopes st <> [] ->
  all_scalars (sc_get_scope (i_scopes st) (sc_current (i_scopes st))) ->
  parse_specs parms = Some ps ->
  match spec_bind ps args with
  | Some bs => bind_parms st name all parms args = (bound st bs, Ok tt)
  | None => exists bs', bind_parms st name all parms args
                        = (bound st bs', Err (molt_err (proc_wrong_args name all)))
  end.
Proof.
  induction parms as [|p r IH]; intros st args ps Hne Hall Hp.
  - injection Hp as <-. cbn [spec_bind bind_parms]. destruct args as [|a ar].
    + now rewrite bound_nil.
    + exists []. now rewrite bound_nil.
  - destruct (parse_specs_cons _ _ _ Hp) as (s & ss & Hs & Hss & ->).
    assert (forall n v ar,
              match spec_bind ss ar with
              | Some bs => bind_parms (bound st [(n, v)]) name all r ar = (bound st ((n, v) :: bs), Ok tt)
              | None => exists bs', bind_parms (bound st [(n, v)]) name all r ar
                                    = (bound st bs', Err (molt_err (proc_wrong_args name all)))
              end) as Hrec.
    { intros n v ar.
      specialize (IH (bound st [(n, v)]) ar ss (bound_nonempty _ _ Hne) (bound_all_scalars _ _ Hne Hall) Hss).
      destruct (spec_bind ss ar) as [bs|].
      - now rewrite IH, bound_cons.
      - destruct IH as [bs' IH]. exists ((n, v) :: bs'). now rewrite IH, bound_cons. }
    cbn [bind_parms].
    destruct (parse_spec_inv _ _ _ Hs) as [(n & Hvl & ->)|(n & d & Hvl & ->)]; rewrite Hvl;
      change (str_eqb (as_str n) (lit "args")) with (is_args_name n);
      destruct (is_args_name n && Nat.eqb (length r) 0) eqn:E.
    + (* [args], last *)
      apply andb_true_iff in E. destruct E as [_ E]. apply Nat.eqb_eq in E.
      destruct r; [|discriminate]. injection Hss as <-. cbn [spec_bind].
      rewrite (st_set_scalar_scalars _ _ _ Hne Hall). reflexivity.
    + (* required *)
      cbn [spec_bind]. destruct args as [|a ar].
      * exists []. now rewrite bound_nil.
      * rewrite (st_set_scalar_scalars _ _ _ Hne Hall). cbn [bind].
        specialize (Hrec (as_str n) a ar). destruct (spec_bind ss ar) as [bs|]; cbn [option_map]; exact Hrec.
    + (* [{args d}], last *)
      apply andb_true_iff in E. destruct E as [_ E]. apply Nat.eqb_eq in E.
      destruct r; [|discriminate]. injection Hss as <-. cbn [spec_bind].
      rewrite (st_set_scalar_scalars _ _ _ Hne Hall). reflexivity.
    + (* optional *)
      cbn [spec_bind]. destruct args as [|a ar].
      * rewrite (st_set_scalar_scalars _ _ _ Hne Hall). cbn [bind].
        specialize (Hrec (as_str n) d []). destruct (spec_bind ss []) as [bs|]; cbn [option_map]; exact Hrec.
      * rewrite (st_set_scalar_scalars _ _ _ Hne Hall). cbn [bind].
        specialize (Hrec (as_str n) a ar). destruct (spec_bind ss ar) as [bs|]; cbn [option_map]; exact Hrec.
Qed.

(* ---------- what the bound scope contains ---------- *)

Lemma assoc_get_bind_scope n bs : forall sc,
  assoc_get n (bind_scope bs sc)
  = match bs_lookup n bs with Some v => Some (VarScalar v) | None => assoc_get n sc end.
Proof.
  induction bs as [|[k v] bs IH]; intros sc; [reflexivity|].
  change (bind_scope ((k, v) :: bs) sc) with (bind_scope bs (assoc_set k (VarScalar v) sc)).
  rewrite IH. cbn [bs_lookup]. destruct (bs_lookup n bs) as [w|]; [reflexivity|].
  destruct (str_eqb k n) eqn:E.
  - apply str_eqb_eq in E. subst k. apply assoc_get_set_same.
  - apply assoc_get_set_other. intros Heq. subst k. now rewrite str_eqb_refl in E.
Qed.

Lemma bound_push st bs :
  bound (push_scope st) bs = set_scopes st (i_scopes st ++ [bind_scope bs []]).
Proof.
  unfold bound, push_scope. cbn [i_scopes set_scopes]. rewrite sc_current_push.
  unfold sc_push. now rewrite update_nth_last.
Qed.

Lemma pop_bound_push st bs : pop_scope (bound (push_scope st) bs) = st.
Proof.
  rewrite bound_push. unfold pop_scope. cbn [i_scopes set_scopes]. rewrite sc_pop_push_upd.
  now destruct st.
Qed.

Lemma push_scope_nonempty st : i_scopes (push_scope st) <> [].
Proof. unfold push_scope, sc_push. cbn [i_scopes set_scopes]. now destruct (i_scopes st). Qed.

Lemma push_scope_fresh st :
  sc_get_scope (i_scopes (push_scope st)) (sc_current (i_scopes (push_scope st))) = [].
Proof.
  unfold push_scope. cbn [i_scopes set_scopes]. rewrite sc_current_push. apply sc_get_scope_push_current.
Qed.

(* Main theorem 1.  In a state whose current scope is fresh, binding succeeds exactly when the
   specification says so; the resulting state [bound st bs] is st with the bindings stored in
   order as scalars of the current scope (a later binding of a name overrides an earlier one) and
   NOTHING else changed: the other scopes, and the other components of the interpreter, are those
   of st.  When the specification reports an arity mismatch the result is the "wrong # args"
   error for the full declared list [all].
   [i_scopes st <> []] is needed because the model's scope stack is a plain list: on the empty
   stack (never reached; the interpreter starts with the global scope) stores are dropped. *)
Theorem bind_parms_spec st name all parms args ps :
  i_scopes st <> [] ->
  sc_get_scope (i_scopes st) (sc_current (i_scopes st)) = [] ->
  parse_specs parms = Some ps ->
  (forall bs, spec_bind ps args = Some bs ->
     bind_parms st name all parms args = (bound st bs, Ok tt) /\
     (* the current scope holds exactly the bindings *)
     sc_get_scope (i_scopes (bound st bs)) (sc_current (i_scopes (bound st bs))) = bind_scope bs [] /\
     (forall n, assoc_get n (sc_get_scope (i_scopes (bound st bs)) (sc_current (i_scopes (bound st bs))))
                = option_map VarScalar (bs_lookup n bs)) /\
     (forall n v, bs_lookup n bs = Some v -> st_scalar (bound st bs) n = Ok v) /\
     (* everything else is unchanged *)
     length (i_scopes (bound st bs)) = length (i_scopes st) /\
     (forall k, k <> sc_current (i_scopes st) ->
                sc_get_scope (i_scopes (bound st bs)) k = sc_get_scope (i_scopes st) k) /\
     bound st bs = set_scopes st (i_scopes (bound st bs))) /\
  (spec_bind ps args = None ->
     exists st'', bind_parms st name all parms args = (st'', Err (molt_err (proc_wrong_args name all)))).
Proof.
  intros Hne Hfresh Hp.
  assert (all_scalars (sc_get_scope (i_scopes st) (sc_current (i_scopes st)))) as Hall.
  { rewrite Hfresh. constructor. }
  pose proof (bind_parms_spec_gen name all parms st args ps Hne Hall Hp) as Hgen.
  split.
  - intros bs Hbs. rewrite Hbs in Hgen.
    assert (sc_get_scope (i_scopes (bound st bs)) (sc_current (i_scopes (bound st bs))) = bind_scope bs [])
      as Hcur.
    { rewrite current_scope_bound by exact Hne. now rewrite Hfresh. }
    assert (forall n, assoc_get n (sc_get_scope (i_scopes (bound st bs)) (sc_current (i_scopes (bound st bs))))
                      = option_map VarScalar (bs_lookup n bs)) as Hget.
    { intros n. rewrite Hcur, assoc_get_bind_scope. now destruct (bs_lookup n bs). }
    repeat split.
    + exact Hgen.
    + exact Hcur.
    + exact Hget.
    + intros n v Hn. unfold st_scalar, sc_get, sc_lookup. cbn [sc_var].
      rewrite Hget, Hn. reflexivity.
    + rewrite i_scopes_bound. apply length_update_nth.
    + intros k Hk. now apply other_scope_bound.
  - intros Hnone. rewrite Hnone in Hgen. destruct Hgen as [bs' Hgen]. now exists (bound st bs').
Qed.
Print Assumptions bind_parms_spec.

(* the form in which proc_execute uses it: the scope just pushed *)
Theorem bind_parms_pushed st name all parms args ps :
  parse_specs parms = Some ps ->
  match spec_bind ps args with
  | Some bs => bind_parms (push_scope st) name all parms args
               = (set_scopes st (i_scopes st ++ [bind_scope bs []]), Ok tt)
  | None => exists sc, bind_parms (push_scope st) name all parms args
               = (set_scopes st (i_scopes st ++ [sc]), Err (molt_err (proc_wrong_args name all)))
  end.
Proof.
  intros Hp.
  assert (all_scalars (sc_get_scope (i_scopes (push_scope st)) (sc_current (i_scopes (push_scope st)))))
    as Hall.
  { rewrite push_scope_fresh. constructor. }
  pose proof (bind_parms_spec_gen name all parms (push_scope st) args ps
                (push_scope_nonempty st) Hall Hp) as Hgen.
  destruct (spec_bind ps args) as [bs|].
  - now rewrite Hgen, bound_push.
  - destruct Hgen as [bs' Hgen]. exists (bind_scope bs' []). now rewrite Hgen, bound_push.
Qed.
Print Assumptions bind_parms_pushed.

(* ---------- 2. proc_execute ---------- *)

(* a successful call: the body runs in the stack extended by exactly the scope of the bindings *)
Theorem proc_execute_bound rec st parms body argv ps bs :
  parse_specs parms = Some ps ->
  spec_bind ps (skipn 1 argv) = Some bs ->
  proc_execute rec st parms body argv
  = let '(st3, r) := r_eval rec (set_scopes st (i_scopes st ++ [bind_scope bs []])) body in
    proc_boundary (pop_scope st3) r.
Proof.
  intros Hp Hbs. unfold proc_execute.
  pose proof (bind_parms_pushed st (arg argv 0) parms parms (skipn 1 argv) ps Hp) as H.
  rewrite Hbs in H. rewrite H. reflexivity.
Qed.
Print Assumptions proc_execute_bound.

(* an arity mismatch: the error names the signature, the interpreter state is EXACTLY the one
   before the call (in particular i_scopes: the pushed scope is gone), and the body is not run *)
Theorem proc_execute_arity_error rec st parms body argv ps :
  parse_specs parms = Some ps ->
  spec_bind ps (skipn 1 argv) = None ->
  proc_execute rec st parms body argv = (st, Err (molt_err (proc_wrong_args (arg argv 0) parms))).
Proof.
  intros Hp Hnone. unfold proc_execute.
  pose proof (bind_parms_pushed st (arg argv 0) parms parms (skipn 1 argv) ps Hp) as H.
  rewrite Hnone in H. destruct H as [sc H]. rewrite H.
  unfold pop_scope. cbn [i_scopes set_scopes]. rewrite sc_pop_push_upd. now destruct st.
Qed.
Print Assumptions proc_execute_arity_error.

Corollary proc_execute_arity_error_scopes rec st parms body argv ps :
  parse_specs parms = Some ps ->
  spec_bind ps (skipn 1 argv) = None ->
  exists st' e, proc_execute rec st parms body argv = (st', Err e) /\ i_scopes st' = i_scopes st.
Proof.
  intros Hp Hnone. exists st, (molt_err (proc_wrong_args (arg argv 0) parms)).
  split; [now apply (proc_execute_arity_error rec st parms body argv ps)|reflexivity].
Qed.

(* the body evaluator is not consulted *)
Corollary proc_execute_arity_error_no_eval rec1 rec2 st parms body argv ps :
  parse_specs parms = Some ps ->
  spec_bind ps (skipn 1 argv) = None ->
  proc_execute rec1 st parms body argv = proc_execute rec2 st parms body argv.
Proof.
  intros Hp Hnone.
  rewrite (proc_execute_arity_error rec1 st parms body argv ps Hp Hnone).
  now rewrite (proc_execute_arity_error rec2 st parms body argv ps Hp Hnone).
Qed.
Print Assumptions proc_execute_arity_error_no_eval.

(* ---------- 3. the message names the signature ---------- *)

Definition pwa_go : list value -> str :=
  fix go (ps : list value) : str :=
     match ps with
     | [] => []
     | [p] => if str_eqb (as_str p) (lit "args") then lit " ?arg ...?"
              else [c_space] ++ match v_as_list p with
                                | inr [n] => as_str n
                                | inr (n :: _) => lit "?" ++ as_str n ++ lit "?"
                                | _ => []
                                end
     | p :: r => [c_space] ++ match v_as_list p with
                              | inr [n] => as_str n
                              | inr (n :: _) => lit "?" ++ as_str n ++ lit "?"
                              | _ => []
                              end ++ go r
     end.

Lemma proc_wrong_args_unfold name parms :
  proc_wrong_args name parms = lit "wrong # args: should be """ ++ as_str name ++ pwa_go parms ++ lit """".
Proof. reflexivity. Qed.

Lemma msg_spec_last p :
  msg_spec true p = if str_eqb (as_str p) (lit "args") then MArgs
                    else match v_as_list p with
                         | inr [n] => MReq (as_str n)
                         | inr (n :: _) => MOpt (as_str n)
                         | _ => MNone
                         end.
Proof. unfold msg_spec. now rewrite andb_true_r. Qed.

Lemma msg_spec_inner p :
  msg_spec false p = match v_as_list p with
                     | inr [n] => MReq (as_str n)
                     | inr (n :: _) => MOpt (as_str n)
                     | _ => MNone
                     end.
Proof. unfold msg_spec. now rewrite andb_false_r. Qed.

Lemma pwa_go_render parms : pwa_go parms = concat (map render (msg_specs parms)).
Proof.
  induction parms as [|p r IH]; [reflexivity|].
  destruct r as [|q r'].
  - cbn [pwa_go msg_specs map concat length Nat.eqb]. rewrite msg_spec_last, app_nil_r.
    destruct (str_eqb (as_str p) (lit "args")); [reflexivity|].
    destruct (v_as_list p) as [m|[|n [|d l]]]; reflexivity.
  - change (pwa_go (p :: q :: r'))
      with ([c_space] ++ match v_as_list p with
                         | inr [n] => as_str n
                         | inr (n :: _) => lit "?" ++ as_str n ++ lit "?"
                         | _ => []
                         end ++ pwa_go (q :: r')).
    rewrite IH.
    change (msg_specs (p :: q :: r')) with (msg_spec false p :: msg_specs (q :: r')).
    rewrite msg_spec_inner. cbn [map concat].
    destruct (v_as_list p) as [m|[|n [|d l]]]; cbn [render]; rewrite <- ?app_assoc; reflexivity.
Qed.

(* Main theorem 3: unconditionally, the message lists the declared parameters as proc_wrong_args
   reads them (msg_specs): required ones by name, optional ones as ?name?, a trailing parameter
   that IS the string "args" as ?arg ...? *)
Theorem proc_wrong_args_render name parms :
  proc_wrong_args name parms
  = lit "wrong # args: should be """ ++ as_str name ++ concat (map render (msg_specs parms)) ++ lit """".
Proof. rewrite proc_wrong_args_unfold. now rewrite pwa_go_render. Qed.
Print Assumptions proc_wrong_args_render.

(* the message reading and the binder's reading coincide when they agree on what a trailing
   collecting parameter is *)
Lemma msg_specs_parse parms : forall ps,
  parse_specs parms = Some ps -> args_agree parms -> msg_specs parms = map mspec_of ps.
Proof.
  induction parms as [|p r IH]; intros ps Hp Hag.
  - now injection Hp as <-.
  - destruct (parse_specs_cons _ _ _ Hp) as (s & ss & Hs & Hss & ->).
    destruct r as [|q r'].
    + injection Hss as <-. cbn [msg_specs map length Nat.eqb] in *. f_equal.
      unfold args_agree in Hag. cbn [last] in Hag. rewrite msg_spec_last.
      destruct (parse_spec_inv _ _ _ Hs) as [(n & Hvl & ->)|(n & d & Hvl & ->)];
        rewrite Hvl in *; rewrite andb_true_r, <- Hag; now destruct (is_args_name n).
    + change (msg_specs (p :: q :: r')) with (msg_spec false p :: msg_specs (q :: r')).
      rewrite (IH ss Hss).
      2:{ unfold args_agree in *. exact Hag. }
      cbn [map]. f_equal. cbn [length Nat.eqb] in Hs. rewrite msg_spec_inner.
      destruct (parse_spec_inv _ _ _ Hs) as [(n & Hvl & ->)|(n & d & Hvl & ->)];
        rewrite Hvl; rewrite andb_false_r; reflexivity.
Qed.

Theorem proc_wrong_args_signature name parms ps :
  parse_specs parms = Some ps -> args_agree parms ->
  proc_wrong_args name parms
  = lit "wrong # args: should be """ ++ as_str name
    ++ concat (map render (map mspec_of ps)) ++ lit """".
Proof. intros Hp Hag. rewrite proc_wrong_args_render. now rewrite (msg_specs_parse parms ps Hp Hag). Qed.
Print Assumptions proc_wrong_args_signature.

(* [args_agree] cannot be dropped: the binder treats a last specifier whose FIRST FIELD is "args"
   as collecting, the message only one that IS the string "args". *)
Example args_disagree_braced :
  let parms := [VStr (lit "a"); VStr (lit "{args}")] in
  parse_specs parms = Some [PReq (lit "a"); PArgs] /\
  msg_specs parms = [MReq (lit "a"); MReq (lit "args")] /\
  proc_wrong_args (VStr (lit "p")) parms = lit "wrong # args: should be ""p a args""".
Proof. vm_compute. repeat split. Qed.

Example args_disagree_default :
  let parms := [VStr (lit "a"); VStr (lit "args 1")] in
  parse_specs parms = Some [PReq (lit "a"); PArgs] /\
  msg_specs parms = [MReq (lit "a"); MOpt (lit "args")] /\
  proc_wrong_args (VStr (lit "p")) parms = lit "wrong # args: should be ""p a ?args?""".
Proof. vm_compute. repeat split. Qed.

(* ---------- 4. cmd_proc refuses malformed specifiers and defines nothing ---------- *)

Lemma check_args_proc4 a b c d : check_args "cmd_proc" [a; b; c; d] = Ok tt.
Proof. vm_compute. reflexivity. Qed.

Definition proc_check : list value -> res unit :=
  fix go (l : list value) : res unit :=
    match l with
    | [] => Ok tt
    | a :: r =>
        match v_as_list a with
        | inl m => err m
        | inr [] => err (lit "argument with no name")
        | inr (_ :: _ :: _ :: _) =>
            err (lit "too many fields in argument specifier """ ++ as_str a ++ lit """")
        | inr _ => go r
        end
    end.

Lemma proc_check_first_bad specs :
  proc_check specs = match first_bad specs with Some m => err m | None => Ok tt end.
Proof.
  induction specs as [|a r IH]; [reflexivity|].
  cbn [first_bad proc_check]. destruct (v_as_list a) as [m|[|n [|d [|e l]]]]; try reflexivity; exact IH.
Qed.

Theorem cmd_proc_spec st name specs body :
  cmd_proc st [VStr (lit "proc"); name; VList specs; body]
  = match first_bad specs with
    | Some m => (st, Err (molt_err m))
    | None => (add_proc st (as_str name) specs body, Ok v_empty)
    end.
Proof.
  unfold cmd_proc. rewrite check_args_proc4. cbn [lift bind arg nth v_as_list lift_sum of_sum].
  change (match proc_check specs with
          | Ok _ => ok_empty (add_proc st (as_str name) specs body)
          | Err e => (st, Err e)
          | Panic p => (st, Panic p)
          | Fuel => (st, Fuel)
          end
          = match first_bad specs with
            | Some m => (st, Err (molt_err m))
            | None => (add_proc st (as_str name) specs body, Ok v_empty)
            end).
  rewrite proc_check_first_bad. now destruct (first_bad specs).
Qed.
Print Assumptions cmd_proc_spec.

Lemma first_bad_exists specs : Exists bad_spec specs -> exists m, first_bad specs = Some m.
Proof.
  induction 1 as [a r Hbad|a r Hex IH]; cbn [first_bad]; unfold bad_spec in *.
  - destruct (v_as_list a) as [m|[|n [|d [|e l]]]]; try contradiction; eexists; reflexivity.
  - destruct (v_as_list a) as [m|[|n [|d [|e l]]]]; try (eexists; reflexivity); exact IH.
Qed.

(* a parameter list with an empty specifier, one with more than two fields, or one that is not a
   list at all is refused, and the interpreter (in particular i_cmds) is unchanged *)
Theorem cmd_proc_rejects st name specs body :
  Exists bad_spec specs ->
  exists e, cmd_proc st [VStr (lit "proc"); name; VList specs; body] = (st, Err e).
Proof.
  intros Hex. destruct (first_bad_exists specs Hex) as [m Hm].
  exists (molt_err m). now rewrite cmd_proc_spec, Hm.
Qed.
Print Assumptions cmd_proc_rejects.

Corollary cmd_proc_rejects_cmds st name specs body :
  Exists bad_spec specs ->
  exists st' e, cmd_proc st [VStr (lit "proc"); name; VList specs; body] = (st', Err e)
                /\ i_cmds st' = i_cmds st.
Proof.
  intros Hex. destruct (cmd_proc_rejects st name specs body Hex) as [e He]. now exists st, e.
Qed.

(* the two named cases, with their messages, when they are the first offence *)
Lemma cmd_proc_empty_spec st name pre a post body :
  first_bad pre = None -> v_as_list a = inr [] ->
  cmd_proc st [VStr (lit "proc"); name; VList (pre ++ a :: post); body]
  = (st, Err (molt_err (lit "argument with no name"))).
Proof.
  intros Hpre Ha. rewrite cmd_proc_spec.
  assert (first_bad (pre ++ a :: post) = Some (lit "argument with no name")) as ->; [|reflexivity].
  induction pre as [|b pre IH]; cbn [app first_bad] in *; [now rewrite Ha|].
  destruct (v_as_list b) as [m|[|n [|d [|e l]]]]; try discriminate; now apply IH.
Qed.

Lemma cmd_proc_long_spec st name pre a x y z l post body :
  first_bad pre = None -> v_as_list a = inr (x :: y :: z :: l) ->
  cmd_proc st [VStr (lit "proc"); name; VList (pre ++ a :: post); body]
  = (st, Err (molt_err (lit "too many fields in argument specifier """ ++ as_str a ++ lit """"))).
Proof.
  intros Hpre Ha. rewrite cmd_proc_spec.
  assert (first_bad (pre ++ a :: post)
          = Some (lit "too many fields in argument specifier """ ++ as_str a ++ lit """")) as ->;
    [|reflexivity].
  induction pre as [|b pre IH]; cbn [app first_bad] in *; [now rewrite Ha|].
  destruct (v_as_list b) as [m|[|n [|d [|e l']]]]; try discriminate; now apply IH.
Qed.

(* conversely: what cmd_proc accepts always parses, so bind_parms_spec applies to every
   procedure that cmd_proc defined *)
Lemma first_bad_none_parses specs : first_bad specs = None -> exists ps, parse_specs specs = Some ps.
Proof.
  induction specs as [|a r IH]; intros Hfb; [now exists []|].
  cbn [first_bad] in Hfb. cbn [parse_specs]. unfold parse_spec.
  destruct (v_as_list a) as [m|[|n [|d [|e l]]]]; try discriminate;
    destruct (IH Hfb) as [ps ->]; eexists; reflexivity.
Qed.

Theorem cmd_proc_defines_parsable st name specs body st' v :
  cmd_proc st [VStr (lit "proc"); name; VList specs; body] = (st', Ok v) ->
  (exists ps, parse_specs specs = Some ps) /\ st' = add_proc st (as_str name) specs body.
Proof.
  rewrite cmd_proc_spec. destruct (first_bad specs) as [m|] eqn:Hfb; [discriminate|].
  intros H. injection H as <- _. split; [now apply first_bad_none_parses|reflexivity].
Qed.
Print Assumptions cmd_proc_defines_parsable.

(* ---------- the arity a signature accepts ---------- *)

Lemma option_map_some {A B} (f : A -> B) o : (exists b, option_map f o = Some b) <-> (exists a, o = Some a).
Proof.
  destruct o as [a|]; cbn [option_map]; split; intros [x Hx]; try discriminate; eexists; reflexivity.
Qed.

(* binding succeeds exactly when the number of arguments lies between the number of required
   parameters and the number of all parameters (unbounded with a trailing args) *)
Theorem spec_bind_arity ps : specs_wf ps -> forall args,
  (exists bs, spec_bind ps args = Some bs) <->
  (min_args ps <= length args)%nat /\
  match max_args ps with Some m => (length args <= m)%nat | None => True end.
Proof.
  induction ps as [|s r IH]; intros Hwf args.
  - cbn [spec_bind min_args max_args]. destruct args as [|a ar]; cbn [length]; split.
    + intros _. split; lia.
    + intros _. now exists [].
    + intros [bs Hbs]. discriminate.
    + intros [_ H]. lia.
  - destruct s as [n|n d|].
    + cbn [specs_wf] in Hwf. specialize (IH Hwf). cbn [spec_bind min_args max_args].
      destruct args as [|a ar]; cbn [length].
      * split; [intros [bs Hbs]; discriminate|intros [H _]; lia].
      * rewrite option_map_some, (IH ar). destruct (max_args r) as [m|]; cbn [option_map]; split; intros [H1 H2]; split; try lia; exact I.
    + cbn [specs_wf] in Hwf. specialize (IH Hwf). cbn [spec_bind min_args max_args].
      destruct args as [|a ar]; cbn [length].
      * rewrite option_map_some, (IH []). cbn [length].
        destruct (max_args r) as [m|]; destruct (min_args r) as [|k]; cbn [option_map];
          split; intros [H1 H2]; split; try lia; exact I.
      * rewrite option_map_some, (IH ar).
        destruct (max_args r) as [m|]; destruct (min_args r) as [|k]; cbn [option_map];
          split; intros [H1 H2]; split; try lia; exact I.
    + cbn [specs_wf] in Hwf. subst r. cbn [spec_bind min_args max_args]. split.
      * intros _. split; [lia|exact I].
      * intros _. eexists; reflexivity.
Qed.
Print Assumptions spec_bind_arity.
