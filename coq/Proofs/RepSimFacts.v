(* RepSimFacts.v — C13 for WHOLE PROGRAMS: "everything except floats is a string".

   Proofs/RepFacts.v shows, value by value, that two well-formed values with the same string are
   read identically by the model (except floats).  This file lifts that to whole programs.

   1. [vrel], a binary logical relation on values: two values are related when they are
      IDENTICAL (any value, floats included), or have the same string and are both float-free
      with well-formed typed data ([RepFacts.good]), or are typed lists / dictionaries of pairwise
      related components (so identical floats may sit inside differently represented
      containers).  Related values have the same string; [vrel] is an equivalence relation
      ([vrel_refl], [vrel_sym], [vrel_trans]).
   2. The relation is lifted to variables (scalars, arrays, upvar links), scopes, the command
      table (procedure parameter lists and bodies are values), exceptions ([xrel]: value and
      error code related, trace strings equal), results ([rrel]) and interpreter states
      ([strel]: related scopes and commands, equal levels / limit / contexts / trace / counters).
   3. A proof engine ([rs_tac]) that walks the same code on both sides in lock step.
   4-8. Every command of the model (ALL natives, the harness commands and `test` included), the
      word / script evaluator, the expression evaluator (whose datum results are EQUAL on both
      sides) and the knot are relational.  THE FUNDAMENTAL LEMMA:

        [run_exec_rel]   related states, related commands, related argument vectors
                         ==> [run_exec U fuel] gives related final states and related results
                             (Ok values related, Err exceptions related, same Panic, both Fuel),

      proved for two related executors / [rec]s ([knot_level_rel]), by induction on the fuel.
      No invariant on typed data is needed alongside the relation.
   9. Corollaries: [eval_rel], [expr_rel]; related outcomes are identical once every value is
      replaced by its string ([mrel_observable]); the float-keeping identity command
      [ident_keepfloat] relates every value with in-range integers to its copy
      ([vrel_ident_keepfloat]); C13 for a command invocation / a script run from a state whose
      values (and arguments) are all replaced by identity copies ([C13_invocation], [C13_script]);
      and C13 FOR WHOLE PROGRAMS as a statement about an instrumented interpreter in which
      every command invocation at every depth receives identity copies of its arguments and
      returns an identity copy of its result ([run_exec_T_rel], [C13_program]).
   10. The side conditions are needed (computed examples): floats (known); [ints_ok] for the
      identity copy of a value.  A former finding (`return -level -1` + `catch` built the typed
      integer 2^64-1, whose representation was observable) is repaired in the model: the level
      is stored through [to_i64] and the examples now show agreement.
   11. The checker's observations (Check/ScriptObs.v: outcomes, recorder trace, probed variables)
      of two histories run from related states coincide ([history_observation_rel]).

   Print Assumptions: every theorem below prints "Closed under the global context". *)
From Molt Require Import Model.Base Model.Tokenizer Model.ListSyn Model.Float Model.Value
  Model.State Model.Script Model.Parser Model.Eval Model.Expr Model.Commands Model.Harness
  Model.Unicode Model.Interp.
From Molt Require Import Spec.SpecDict.
From Molt Require Import Proofs.BaseFacts Proofs.ValueFacts Proofs.DictFacts Proofs.RepFacts
  Proofs.NoEvalFacts.
From Molt Require Proofs.CtlFacts.
From Molt Require Check.ScriptObs.
From Coq Require Import Lia ZifyBool ZifyN.

Arguments N.eqb : simpl never.
Arguments N.leb : simpl never.
Arguments N.ltb : simpl never.
Arguments Z.eqb : simpl never.
Arguments Z.leb : simpl never.
Arguments Z.ltb : simpl never.

Local Open Scope N_scope.

(* ====================================================================================== *)
(* 1. The relation on values                                                               *)
(* ====================================================================================== *)

(* Two values are related when
     - they are identical (any value at all, floats included), or
     - they have the same string and both are float-free with well-formed typed data
       ([RepFacts.good]: no VFlt inside, every VInt an i64, every VDict with distinct keys), or
     - they are typed lists of pairwise related elements, or typed dictionaries of pairwise
       related keys and values (so identical floats may sit inside differently represented
       containers). *)
Definition pair_rel (R : value -> value -> Prop) (p q : value * value) : Prop :=
  R (fst p) (fst q) /\ R (snd p) (snd q).

Inductive vrel : value -> value -> Prop :=
| vrel_refl v : vrel v v
| vrel_str v w : as_str v = as_str w -> good v -> good w -> vrel v w
| vrel_list l l' : Forall2 vrel l l' -> vrel (VList l) (VList l')
| vrel_dict d d' : Forall2 (pair_rel vrel) d d' -> vrel (VDict d) (VDict d').

Section VrelInd.
Variable P : value -> value -> Prop.
Hypothesis Hrefl : forall v, P v v.
Hypothesis Hstr : forall v w, as_str v = as_str w -> good v -> good w -> P v w.
Hypothesis Hlist : forall l l', Forall2 vrel l l' -> Forall2 P l l' -> P (VList l) (VList l').
Hypothesis Hdict : forall d d', Forall2 (pair_rel vrel) d d' -> Forall2 (pair_rel P) d d' ->
  P (VDict d) (VDict d').

Fixpoint vrel_ind2 (v w : value) (H : vrel v w) {struct H} : P v w :=
  match H in vrel v0 w0 return P v0 w0 with
  | vrel_refl v0 => Hrefl v0
  | vrel_str v0 w0 a b c => Hstr v0 w0 a b c
  | vrel_list l l' Hl =>
      Hlist l l' Hl
        ((fix go (l l' : list value) (Hl : Forall2 vrel l l') {struct Hl} : Forall2 P l l' :=
            match Hl in Forall2 _ l0 l0' return Forall2 P l0 l0' with
            | Forall2_nil _ => Forall2_nil _
            | Forall2_cons x y hx hr => Forall2_cons x y (vrel_ind2 x y hx) (go _ _ hr)
            end) l l' Hl)
  | vrel_dict d d' Hd =>
      Hdict d d' Hd
        ((fix go (d d' : list (value * value)) (Hd : Forall2 (pair_rel vrel) d d') {struct Hd}
            : Forall2 (pair_rel P) d d' :=
            match Hd in Forall2 _ d0 d0' return Forall2 (pair_rel P) d0 d0' with
            | Forall2_nil _ => Forall2_nil _
            | Forall2_cons x y hx hr =>
                Forall2_cons x y
                  (match hx with
                   | conj h1 h2 => conj (vrel_ind2 _ _ h1) (vrel_ind2 _ _ h2)
                   end) (go _ _ hr)
            end) d d' Hd)
  end.
End VrelInd.

(* induction on values through the nested lists *)
Section ValueInd.
Variable P : value -> Prop.
Hypothesis HS : forall s, P (VStr s).
Hypothesis HI : forall z, P (VInt z).
Hypothesis HF : forall f, P (VFlt f).
Hypothesis HB : forall b, P (VBool b).
Hypothesis HL : forall l, Forall P l -> P (VList l).
Hypothesis HD : forall d, Forall (fun kv => P (fst kv) /\ P (snd kv)) d -> P (VDict d).

Fixpoint value_ind2 (v : value) : P v :=
  match v with
  | VStr s => HS s
  | VInt z => HI z
  | VFlt f => HF f
  | VBool b => HB b
  | VList l =>
      HL l ((fix go (l : list value) : Forall P l :=
               match l with
               | [] => Forall_nil _
               | x :: r => Forall_cons x (value_ind2 x) (go r)
               end) l)
  | VDict d =>
      HD d ((fix go (d : list (value * value)) : Forall (fun kv => P (fst kv) /\ P (snd kv)) d :=
               match d with
               | [] => Forall_nil _
               | (k, x) :: r => Forall_cons (k, x) (conj (value_ind2 k) (value_ind2 x)) (go r)
               end) d)
  end.
End ValueInd.


Lemma Forall2_refl {A} (R : A -> A -> Prop) l : (forall x, R x x) -> Forall2 R l l.
Proof. intros H. induction l; constructor; auto. Qed.

Lemma lrel_refl l : Forall2 vrel l l.
Proof. apply Forall2_refl. exact vrel_refl. Qed.

Lemma drel_refl d : Forall2 (pair_rel vrel) d d.
Proof. apply Forall2_refl. intros x. split; apply vrel_refl. Qed.

Lemma Forall2_length {A B} (R : A -> B -> Prop) l l' : Forall2 R l l' -> length l' = length l.
Proof. induction 1; cbn [length]; congruence. Qed.

Lemma Forall2_map_eq {A B C} (R : A -> B -> Prop) (f : A -> C) (g : B -> C) l l' :
  (forall a b, R a b -> g b = f a) -> Forall2 R l l' -> map g l' = map f l.
Proof. intros H. induction 1 as [|a b r r' Hab Hr IH]; cbn [map]; [reflexivity|]. rewrite IH, (H a b Hab). reflexivity. Qed.

Lemma dict_strs_eq d d' :
  Forall2 (fun p q : value * value => as_str (fst q) = as_str (fst p) /\ as_str (snd q) = as_str (snd p)) d d' ->
  flat_strs d' = flat_strs d.
Proof.
  induction 1 as [|[k x] [k' x'] r r' [H1 H2] Hr IH]; cbn [flat_strs]; [reflexivity|].
  cbn [fst snd] in H1, H2. rewrite H1, H2, IH. reflexivity.
Qed.

(* related values have the same string *)
Theorem vrel_as_str v w : vrel v w -> as_str w = as_str v.
Proof.
  intros H. induction H as [v|v w E _ _|l l' _ IH|d d' _ IH] using vrel_ind2.
  - reflexivity.
  - symmetry. exact E.
  - cbn [as_str]. f_equal. induction IH as [|a b r r' Hab _ IHr]; cbn [map]; [reflexivity|].
    rewrite Hab, IHr. reflexivity.
  - rewrite !as_str_dict. f_equal. apply dict_strs_eq.
    induction IH as [|a b r r' [H1 H2] _ IHr]; constructor; [split; assumption|exact IHr].
Qed.

Print Assumptions vrel_as_str.

Lemma lrel_strs l l' : Forall2 vrel l l' -> map as_str l' = map as_str l.
Proof. apply Forall2_map_eq. exact vrel_as_str. Qed.

Lemma lrel_length l l' : Forall2 vrel l l' -> length l' = length l.
Proof. apply Forall2_length. Qed.

Lemma drel_length d d' : Forall2 (pair_rel vrel) d d' -> length d' = length d.
Proof. apply Forall2_length. Qed.

Lemma vrel_sym v w : vrel v w -> vrel w v.
Proof.
  intros H. induction H as [v|v w E Hv Hw|l l' _ IH|d d' _ IH] using vrel_ind2.
  - apply vrel_refl.
  - apply vrel_str; [symmetry; exact E|exact Hw|exact Hv].
  - apply vrel_list. induction IH; constructor; assumption.
  - apply vrel_dict. induction IH as [|a b r r' [H1 H2] _ IHr]; constructor; [split; assumption|exact IHr].
Qed.

Lemma v_eqb_rel a a' b b' : vrel a a' -> vrel b b' -> v_eqb a' b' = v_eqb a b.
Proof. intros Ha Hb. unfold v_eqb. rewrite (vrel_as_str _ _ Ha), (vrel_as_str _ _ Hb). reflexivity. Qed.

(* ---------- good values ---------- *)
Lemma good_str s : good (VStr s).
Proof. repeat split. Qed.

Lemma good_list_inv l : good (VList l) -> Forall good l.
Proof.
  intros (H1 & H2 & H3). cbn [float_free ints_ok dicts_ok] in *.
  rewrite forallb_forall in H1, H2, H3. apply Forall_forall. intros x Hx.
  repeat split; auto.
Qed.

Lemma good_dict_inv d : good (VDict d) -> Forall (fun kv => good (fst kv) /\ good (snd kv)) d.
Proof.
  intros (H1 & H2 & H3). cbn [float_free ints_ok dicts_ok] in *.
  apply andb_true_iff in H3. destruct H3 as [_ H3].
  rewrite forallb_forall in H1, H2, H3. apply Forall_forall. intros [k x] Hx. cbn [fst snd].
  specialize (H1 _ Hx). specialize (H2 _ Hx). specialize (H3 _ Hx). cbn beta iota in H1, H2, H3.
  apply andb_true_iff in H1, H2, H3. unfold good. tauto.
Qed.

Lemma good_map_VStr l : Forall good (map VStr l).
Proof. apply Forall_forall. intros x Hx. apply in_map_iff in Hx. destruct Hx as (y & <- & _). apply good_str. Qed.

Lemma v_as_list_good v l : good v -> v_as_list v = inr l -> Forall good l.
Proof.
  intros Hv H. destruct v as [s|z|f|b|l0|d];
    try (change (v_as_list ?x) with (str_as_list (as_str x)) in H; unfold str_as_list in H;
         destruct (get_list _) as [[e|l1]|]; inversion H; subst; apply good_map_VStr).
  cbn [v_as_list] in H. inversion H; subst. apply good_list_inv. exact Hv.
Qed.

Lemma vstr_pair_good d : Forall vstr_pair d -> Forall (fun kv => good (fst kv) /\ good (snd kv)) d.
Proof.
  intros H. eapply Forall_impl; [|exact H]. intros [k v] [Hk Hv]. cbn [fst snd] in *.
  destruct k, v; cbn [is_vstr] in *; try contradiction. split; apply good_str.
Qed.

Lemma v_as_dict_good v d : good v -> v_as_dict v = inr d -> Forall (fun kv => good (fst kv) /\ good (snd kv)) d.
Proof.
  intros Hv H. destruct v as [s|z|f|b|l|d0].
  6:{ cbn [v_as_dict] in H. inversion H; subst. apply good_dict_inv. exact Hv. }
  all: apply vstr_pair_good; match type of H with v_as_dict ?x = _ =>
         apply (str_dict_vstr (as_str x)) end; exact H.
Qed.

Lemma good_same v w : as_str v = as_str w -> good v -> good w -> same v w.
Proof. intros E Hv Hw. split; [exact E|]. split; apply good_typed_ok; assumption. Qed.

(* ---------- the typed views of related values ---------- *)
Theorem v_as_int_rel v w : vrel v w -> v_as_int w = v_as_int v.
Proof.
  intros H. pose proof (vrel_as_str _ _ H) as E. destruct H as [v|v w E' Hv Hw|l l' Hl|d d' Hd].
  - reflexivity.
  - symmetry. apply v_as_int_same. apply good_same; assumption.
  - unfold v_as_int. rewrite E. reflexivity.
  - unfold v_as_int. rewrite E. reflexivity.
Qed.

Theorem expr_parse_value_rel v w : vrel v w -> expr_parse_value w = expr_parse_value v.
Proof.
  intros H. pose proof (vrel_as_str _ _ H) as E. destruct H as [v|v w E' Hv Hw|l l' Hl|d d' Hd].
  - reflexivity.
  - symmetry. apply expr_parse_value_same; [apply Hv|apply Hw|apply good_same; assumption].
  - unfold expr_parse_value. cbn [already_number]. rewrite E. reflexivity.
  - unfold expr_parse_value. cbn [already_number]. rewrite E. reflexivity.
Qed.

Lemma Forall2_same_good l l' : Forall2 same l l' -> Forall good l -> Forall good l' -> Forall2 vrel l l'.
Proof.
  induction 1 as [|x y r r' Hxy Hr IH]; intros Hl Hl'; [constructor|].
  inversion Hl; subst. inversion Hl'; subst. constructor; [|apply IH; assumption].
  apply vrel_str; [apply Hxy|assumption|assumption].
Qed.

Theorem v_as_list_rel v w : vrel v w -> sum_rel (Forall2 vrel) (v_as_list v) (v_as_list w).
Proof.
  intros H. pose proof (vrel_as_str _ _ H) as E. destruct H as [v|v w E' Hv Hw|l l' Hl|d d' Hd].
  - destruct (v_as_list v); cbn [sum_rel]; [reflexivity|apply lrel_refl].
  - pose proof (v_as_list_same v w (good_same _ _ E' Hv Hw)) as S.
    pose proof (v_as_list_good v) as Gv. pose proof (v_as_list_good w) as Gw.
    destruct (v_as_list v) as [m|l], (v_as_list w) as [m'|l']; cbn [sum_rel] in *; try contradiction;
      [exact S|]. apply Forall2_same_good; [exact S|apply Gv|apply Gw]; auto.
  - exact Hl.
  - change (sum_rel (Forall2 vrel) (str_as_list (as_str (VDict d))) (str_as_list (as_str (VDict d')))).
    rewrite E. destruct (str_as_list _); cbn [sum_rel]; [reflexivity|apply lrel_refl].
Qed.

Lemma Forall2_same_pair_good d d' :
  Forall2 same_pair d d' ->
  Forall (fun kv => good (fst kv) /\ good (snd kv)) d ->
  Forall (fun kv => good (fst kv) /\ good (snd kv)) d' -> Forall2 (pair_rel vrel) d d'.
Proof.
  induction 1 as [|x y r r' [H1 H2] Hr IH]; intros Hl Hl'; [constructor|].
  inversion Hl as [|? ? [A1 A2] A3]; subst. inversion Hl' as [|? ? [B1 B2] B3]; subst.
  constructor; [|apply IH; assumption].
  split; apply vrel_str; try assumption; [apply H1|apply H2].
Qed.

Theorem v_as_dict_rel v w : vrel v w -> sum_rel (Forall2 (pair_rel vrel)) (v_as_dict v) (v_as_dict w).
Proof.
  intros H. pose proof (vrel_as_str _ _ H) as E. destruct H as [v|v w E' Hv Hw|l l' Hl|d d' Hd].
  - destruct (v_as_dict v); cbn [sum_rel]; [reflexivity|apply drel_refl].
  - pose proof (v_as_dict_same v w (good_same _ _ E' Hv Hw)) as S.
    pose proof (v_as_dict_good v) as Gv. pose proof (v_as_dict_good w) as Gw.
    destruct (v_as_dict v) as [m|l], (v_as_dict w) as [m'|l']; cbn [sum_rel] in *; try contradiction;
      [exact S|]. apply Forall2_same_pair_good; [exact S|apply Gv|apply Gw]; auto.
  - unfold v_as_dict. rewrite E. destruct (str_as_list _) as [m|l0]; cbn [sum_rel]; [reflexivity|].
    destruct (Nat.even (length l0)); cbn [sum_rel]; [apply drel_refl|reflexivity].
  - exact Hd.
Qed.

(* ====================================================================================== *)
(* 2. Exceptions, results, variables, scopes, command tables, interpreter states           *)
(* ====================================================================================== *)

(* Convention: every equation between the two sides is oriented  primed = unprimed. *)

Definition edrel (d d' : errdata) : Prop :=
  vrel (ed_code d) (ed_code d') /\ ed_trace d' = ed_trace d /\ ed_new d' = ed_new d.

Definition xrel (e e' : exn) : Prop :=
  x_code e' = x_code e /\ vrel (x_value e) (x_value e') /\ x_level e' = x_level e /\
  x_next e' = x_next e /\ opt_rel edrel (x_data e) (x_data e').

Definition rrel {A} (R : A -> A -> Prop) (r r' : res A) : Prop :=
  match r, r' with
  | Ok a, Ok a' => R a a'
  | Err e, Err e' => xrel e e'
  | Panic p, Panic p' => p' = p
  | Fuel, Fuel => True
  | _, _ => False
  end.

Definition eqr {A} (a b : A) : Prop := b = a.

(* association lists with equal keys and related data *)
Definition arel {A} (R : A -> A -> Prop) (m m' : list (str * A)) : Prop :=
  Forall2 (fun p q => fst q = fst p /\ R (snd p) (snd q)) m m'.

Inductive varrel : var -> var -> Prop :=
| vr_scalar v w : vrel v w -> varrel (VarScalar v) (VarScalar w)
| vr_array m m' : arel vrel m m' -> varrel (VarArray m) (VarArray m')
| vr_upvar n : varrel (VarUpvar n) (VarUpvar n)
| vr_new : varrel VarNew VarNew.

Definition screl : scope -> scope -> Prop := arel varrel.
Definition ssrel : scopes -> scopes -> Prop := Forall2 screl.


Inductive cmdrel : command -> command -> Prop :=
| cr_native n ctx : cmdrel (CmdNative n ctx) (CmdNative n ctx)
| cr_proc p b p' b' : Forall2 vrel p p' -> vrel b b' -> cmdrel (CmdProc p b) (CmdProc p' b').

Definition strel (st st' : interp) : Prop :=
  arel cmdrel (i_cmds st) (i_cmds st') /\ ssrel (i_scopes st) (i_scopes st') /\
  i_limit st' = i_limit st /\ i_levels st' = i_levels st /\ i_ctx st' = i_ctx st /\
  i_last_ctx st' = i_last_ctx st /\ i_trace st' = i_trace st /\ i_test st' = i_test st.

Definition mrel {A} (R : A -> A -> Prop) (m m' : interp * res A) : Prop :=
  strel (fst m) (fst m') /\ rrel R (snd m) (snd m').

Definition srel {A} (R : A -> A -> Prop) (m m' : scopes * res A) : Prop :=
  ssrel (fst m) (fst m') /\ rrel R (snd m) (snd m').

(* ---------- reflexivity ---------- *)
Lemma edrel_refl d : edrel d d.
Proof. split; [apply vrel_refl|split; reflexivity]. Qed.

Lemma xrel_refl e : xrel e e.
Proof.
  unfold xrel. repeat split; try reflexivity; try apply vrel_refl.
  destruct (x_data e); cbn [opt_rel]; [apply edrel_refl|exact I].
Qed.

Lemma rrel_refl {A} (R : A -> A -> Prop) r : (forall a, R a a) -> rrel R r r.
Proof. intros H. destruct r; cbn [rrel]; auto using xrel_refl. Qed.

Lemma rrel_weaken {A} (R R' : A -> A -> Prop) r r' :
  (forall a b, R a b -> R' a b) -> rrel R r r' -> rrel R' r r'.
Proof. intros H. destruct r, r'; cbn [rrel]; auto. Qed.

Lemma mrel_weaken {A} (R R' : A -> A -> Prop) m m' :
  (forall a b, R a b -> R' a b) -> mrel R m m' -> mrel R' m m'.
Proof. intros H [H1 H2]. split; [exact H1|]. eapply rrel_weaken; eassumption. Qed.

Lemma eqr_vrel a b : eqr a b -> vrel a b.
Proof. intros ->. apply vrel_refl. Qed.

(* ---------- association lists ---------- *)
Section Assoc.
Context {A : Type} (R : A -> A -> Prop).

Lemma assoc_get_rel k m m' : arel R m m' -> opt_rel R (assoc_get k m) (assoc_get k m').
Proof.
  induction 1 as [|[k1 a] [k2 a'] r r' [E Ha] Hr IH]; cbn [assoc_get]; [exact I|].
  cbn [fst snd] in E, Ha. subst k2. destruct (str_eqb k1 k); [exact Ha|exact IH].
Qed.

Lemma assoc_set_rel k a a' m m' : arel R m m' -> R a a' -> arel R (assoc_set k a m) (assoc_set k a' m').
Proof.
  intros Hm Ha. induction Hm as [|[k1 b] [k2 b'] r r' [E Hb] Hr IH]; cbn [assoc_set].
  - constructor; [split; [reflexivity|exact Ha]|constructor].
  - cbn [fst snd] in E, Hb. subst k2. destruct (str_eqb k1 k).
    + constructor; [split; [reflexivity|exact Ha]|exact Hr].
    + constructor; [split; [reflexivity|exact Hb]|exact IH].
Qed.

Lemma assoc_remove_rel k m m' : arel R m m' -> arel R (assoc_remove k m) (assoc_remove k m').
Proof.
  induction 1 as [|[k1 b] [k2 b'] r r' [E Hb] Hr IH]; cbn [assoc_remove]; [constructor|].
  cbn [fst snd] in E, Hb. subst k2. destruct (str_eqb k1 k); [exact Hr|].
  constructor; [split; [reflexivity|exact Hb]|exact IH].
Qed.

Lemma arel_keys m m' : arel R m m' -> map fst m' = map fst m.
Proof. apply Forall2_map_eq. intros a b [E _]. exact E. Qed.

Lemma arel_length m m' : arel R m m' -> length m' = length m.
Proof. apply Forall2_length. Qed.

Lemma arel_nil : arel R [] [].
Proof. constructor. Qed.

Lemma arel_refl m : (forall a, R a a) -> arel R m m.
Proof. intros H. apply Forall2_refl. intros x. split; [reflexivity|apply H]. Qed.

Lemma arel_filter (f : str * A -> bool) m m' :
  (forall p q, fst q = fst p -> R (snd p) (snd q) -> f q = f p) ->
  arel R m m' -> arel R (filter f m) (filter f m').
Proof.
  intros Hf. induction 1 as [|p q r r' [E Hb] Hr IH]; cbn [filter]; [constructor|].
  rewrite (Hf p q E Hb). destruct (f p); [constructor; [split; assumption|exact IH]|exact IH].
Qed.
End Assoc.

Lemma Forall2_nth {A} (R : A -> A -> Prop) d d' l l' n :
  R d d' -> Forall2 R l l' -> R (nth n l d) (nth n l' d').
Proof.
  intros Hd H. revert n. induction H as [|x y r r' Hxy Hr IH]; intros [|n]; cbn [nth]; auto.
Qed.

Lemma update_nth_rel {A} (R : A -> A -> Prop) n f f' l l' :
  (forall x x', R x x' -> R (f x) (f' x')) -> Forall2 R l l' ->
  Forall2 R (update_nth n f l) (update_nth n f' l').
Proof.
  intros Hf H. revert n. induction H as [|x y r r' Hxy Hr IH]; intros [|n]; cbn [update_nth];
    constructor; auto.
Qed.

Lemma Forall2_app' {A} (R : A -> A -> Prop) l1 l1' l2 l2' :
  Forall2 R l1 l1' -> Forall2 R l2 l2' -> Forall2 R (l1 ++ l2) (l1' ++ l2').
Proof. intros H1 H2. induction H1; cbn [app]; [exact H2|constructor; assumption]. Qed.

Lemma Forall2_rev' {A} (R : A -> A -> Prop) l l' : Forall2 R l l' -> Forall2 R (rev l) (rev l').
Proof.
  induction 1 as [|x y r r' Hxy Hr IH]; cbn [rev]; [constructor|].
  apply Forall2_app'; [exact IH|constructor; [exact Hxy|constructor]].
Qed.

Lemma Forall2_removelast {A} (R : A -> A -> Prop) l l' :
  Forall2 R l l' -> Forall2 R (removelast l) (removelast l').
Proof.
  induction 1 as [|x y r r' Hxy Hr IH]; cbn [removelast]; [constructor|].
  destruct Hr as [|x2 y2 r2 r2' H2 Hr2]; [constructor|]. constructor; [exact Hxy|exact IH].
Qed.

Lemma Forall2_last {A} (R : A -> A -> Prop) d d' l l' :
  R d d' -> Forall2 R l l' -> R (last l d) (last l' d').
Proof.
  intros Hd. induction 1 as [|x y r r' Hxy Hr IH]; cbn [last]; [exact Hd|].
  destruct Hr as [|x2 y2 r2 r2' H2 Hr2]; [exact Hxy|exact IH].
Qed.

Lemma Forall2_skipn {A} (R : A -> A -> Prop) n l l' : Forall2 R l l' -> Forall2 R (skipn n l) (skipn n l').
Proof.
  intros H. revert n. induction H as [|x y r r' Hxy Hr IH]; intros [|n]; cbn [skipn]; try constructor; auto.
Qed.

Lemma Forall2_firstn {A} (R : A -> A -> Prop) n l l' : Forall2 R l l' -> Forall2 R (firstn n l) (firstn n l').
Proof.
  intros H. revert n. induction H as [|x y r r' Hxy Hr IH]; intros [|n]; cbn [firstn]; constructor; auto.
Qed.

Lemma Forall2_map2 {A B} (R : A -> A -> Prop) (S : B -> B -> Prop) (f g : A -> B) l l' :
  (forall a b, R a b -> S (f a) (g b)) -> Forall2 R l l' -> Forall2 S (map f l) (map g l').
Proof. intros H. induction 1; cbn [map]; constructor; auto. Qed.

(* ---------- the scope stack ---------- *)
Lemma ssrel_length ss ss' : ssrel ss ss' -> length ss' = length ss.
Proof. apply Forall2_length. Qed.

Lemma sc_current_rel ss ss' : ssrel ss ss' -> sc_current ss' = sc_current ss.
Proof. intros H. unfold sc_current. rewrite (ssrel_length _ _ H). reflexivity. Qed.

Lemma sc_get_scope_rel ss ss' level : ssrel ss ss' -> screl (sc_get_scope ss level) (sc_get_scope ss' level).
Proof. intros H. unfold sc_get_scope. apply Forall2_nth; [constructor|exact H]. Qed.

Ltac orel H :=
  match type of H with
  | opt_rel _ ?X ?Y =>
      let x := fresh "x" in let y := fresh "y" in
      destruct X as [x|] eqn:?, Y as [y|] eqn:?; cbn [opt_rel] in H; try contradiction
  end.

Lemma scope_var_rel ss ss' level name : ssrel ss ss' ->
  opt_rel varrel (assoc_get name (sc_get_scope ss level)) (assoc_get name (sc_get_scope ss' level)).
Proof. intros H. apply assoc_get_rel. apply sc_get_scope_rel. exact H. Qed.

Lemma sc_var_rel fuel : forall ss ss' level name, ssrel ss ss' ->
  opt_rel varrel (sc_var fuel ss level name) (sc_var fuel ss' level name).
Proof.
  induction fuel as [|f IH]; intros ss ss' level name H; cbn [sc_var]; [exact I|].
  pose proof (scope_var_rel ss ss' level name H) as G. orel G; [|exact I].
  destruct G as [v w Hv|m m' Hm|n|]; cbn [opt_rel]; try (constructor; assumption).
  apply IH. exact H.
Qed.

Lemma sc_lookup_rel ss ss' name : ssrel ss ss' -> opt_rel varrel (sc_lookup ss name) (sc_lookup ss' name).
Proof. intros H. unfold sc_lookup. rewrite (sc_current_rel _ _ H). apply sc_var_rel. exact H. Qed.

Lemma sc_resolve_rel fuel : forall ss ss' level name, ssrel ss ss' ->
  sc_resolve fuel ss' level name = sc_resolve fuel ss level name.
Proof.
  induction fuel as [|f IH]; intros ss ss' level name H; cbn [sc_resolve]; [reflexivity|].
  pose proof (scope_var_rel ss ss' level name H) as G. orel G; [|reflexivity].
  destruct G as [v w Hv|m m' Hm|n|]; try reflexivity. apply IH. exact H.
Qed.

Lemma sc_target_rel ss ss' name : ssrel ss ss' -> sc_target ss' name = sc_target ss name.
Proof. intros H. unfold sc_target. rewrite (sc_current_rel _ _ H). apply sc_resolve_rel. exact H. Qed.

Lemma sc_put_rel ss ss' level name v v' : ssrel ss ss' -> varrel v v' ->
  ssrel (sc_put ss level name v) (sc_put ss' level name v').
Proof.
  intros H Hv. unfold sc_put. apply update_nth_rel; [|exact H].
  intros x x' Hx. apply assoc_set_rel; assumption.
Qed.

Lemma sc_del_rel ss ss' level name : ssrel ss ss' -> ssrel (sc_del ss level name) (sc_del ss' level name).
Proof.
  intros H. unfold sc_del. apply update_nth_rel; [|exact H].
  intros x x' Hx. apply assoc_remove_rel; assumption.
Qed.

Lemma xrel_molt_err m : xrel (molt_err m) (molt_err m).
Proof. apply xrel_refl. Qed.

Lemma rrel_err {A} (R : A -> A -> Prop) m : rrel R (err m) (err m).
Proof. apply xrel_refl. Qed.

Lemma sc_get_rel ss ss' name : ssrel ss ss' -> rrel vrel (sc_get ss name) (sc_get ss' name).
Proof.
  intros H. unfold sc_get. pose proof (sc_lookup_rel ss ss' name H) as G. orel G; [|apply rrel_err].
  destruct G as [v w Hv|m m' Hm|n|]; cbn [rrel]; try reflexivity; try apply rrel_err. exact Hv.
Qed.

Lemma sc_get_elem_rel ss ss' name idx : ssrel ss ss' ->
  rrel vrel (sc_get_elem ss name idx) (sc_get_elem ss' name idx).
Proof.
  intros H. unfold sc_get_elem. pose proof (sc_lookup_rel ss ss' name H) as G. orel G; [|apply rrel_err].
  destruct G as [v w Hv|m m' Hm|n|]; cbn [rrel]; try reflexivity; try apply rrel_err.
  pose proof (assoc_get_rel vrel idx m m' Hm) as G2. orel G2; [exact G2|apply rrel_err].
Qed.

Lemma sc_set_at_rel ss ss' level name v v' : ssrel ss ss' -> vrel v v' ->
  srel eqr (sc_set_at ss level name v) (sc_set_at ss' level name v').
Proof.
  intros H Hv. unfold sc_set_at. pose proof (scope_var_rel ss ss' level name H) as G.
  assert (P : ssrel (sc_put ss level name (VarScalar v)) (sc_put ss' level name (VarScalar v')))
    by (apply sc_put_rel; [exact H|constructor; exact Hv]).
  orel G; [|split; [exact P|reflexivity]].
  destruct G as [a w Ha|m m' Hm|n|]; (split; cbn [fst snd]; [try exact P; try exact H|]);
    cbn [rrel]; try reflexivity; apply rrel_err.
Qed.

Lemma sc_set_rel ss ss' name v v' : ssrel ss ss' -> vrel v v' ->
  srel eqr (sc_set ss name v) (sc_set ss' name v').
Proof. intros H Hv. unfold sc_set. rewrite (sc_target_rel _ _ name H). apply sc_set_at_rel; assumption. Qed.

Lemma sc_set_global_rel ss ss' name v v' : ssrel ss ss' -> vrel v v' ->
  srel eqr (sc_set_global ss name v) (sc_set_global ss' name v').
Proof. intros H Hv. apply sc_set_at_rel; assumption. Qed.

Lemma sc_set_elem_rel ss ss' name idx v v' : ssrel ss ss' -> vrel v v' ->
  srel eqr (sc_set_elem ss name idx v) (sc_set_elem ss' name idx v').
Proof.
  intros H Hv. unfold sc_set_elem. rewrite (sc_target_rel _ _ name H).
  pose proof (scope_var_rel ss ss' (sc_target ss name) name H) as G.
  assert (P : ssrel (sc_put ss (sc_target ss name) name (VarArray [(idx, v)]))
                    (sc_put ss' (sc_target ss name) name (VarArray [(idx, v')]))).
  { apply sc_put_rel; [exact H|]. constructor. constructor; [split; [reflexivity|exact Hv]|constructor]. }
  orel G; [|split; [exact P|reflexivity]].
  destruct G as [a w Ha|m m' Hm|n|]; (split; cbn [fst snd]; [try exact P; try exact H|]);
    cbn [rrel]; try reflexivity; try apply rrel_err.
  apply sc_put_rel; [exact H|]. constructor. apply assoc_set_rel; assumption.
Qed.

Lemma sc_exists_rel ss ss' name : ssrel ss ss' -> sc_exists ss' name = sc_exists ss name.
Proof. intros H. unfold sc_exists. pose proof (sc_lookup_rel ss ss' name H) as G. orel G; reflexivity. Qed.

Lemma sc_elem_exists_rel ss ss' name idx : ssrel ss ss' -> sc_elem_exists ss' name idx = sc_elem_exists ss name idx.
Proof.
  intros H. unfold sc_elem_exists. pose proof (sc_get_elem_rel ss ss' name idx H) as G.
  destruct (sc_get_elem ss name idx), (sc_get_elem ss' name idx); cbn [rrel] in G; try contradiction; reflexivity.
Qed.

Lemma sc_unset_at_rel fuel : forall ss ss' level name ao, ssrel ss ss' ->
  ssrel (sc_unset_at fuel ss level name ao) (sc_unset_at fuel ss' level name ao).
Proof.
  induction fuel as [|f IH]; intros ss ss' level name ao H; cbn [sc_unset_at]; [exact H|].
  set (ss1 := match assoc_get name (sc_get_scope ss level) with
              | Some (VarUpvar at_) => sc_unset_at f ss at_ name ao | _ => ss end).
  set (ss1' := match assoc_get name (sc_get_scope ss' level) with
               | Some (VarUpvar at_) => sc_unset_at f ss' at_ name ao | _ => ss' end).
  assert (H1 : ssrel ss1 ss1').
  { subst ss1 ss1'. pose proof (scope_var_rel ss ss' level name H) as G. orel G; [|exact H].
    destruct G as [a w Ha|m m' Hm|n|]; try exact H. apply IH. exact H. }
  destruct ao; [|apply sc_del_rel; exact H1].
  pose proof (scope_var_rel ss1 ss1' level name H1) as G. orel G; [|exact H1].
  destruct G as [a w Ha|m m' Hm|n|]; try exact H1. apply sc_del_rel; exact H1.
Qed.

Lemma sc_unset_rel ss ss' name : ssrel ss ss' -> ssrel (sc_unset ss name) (sc_unset ss' name).
Proof. intros H. unfold sc_unset. rewrite (sc_current_rel _ _ H). apply sc_unset_at_rel. exact H. Qed.

Lemma sc_array_unset_rel ss ss' name : ssrel ss ss' -> ssrel (sc_array_unset ss name) (sc_array_unset ss' name).
Proof. intros H. unfold sc_array_unset. rewrite (sc_current_rel _ _ H). apply sc_unset_at_rel. exact H. Qed.

Lemma sc_unset_element_rel ss ss' name idx : ssrel ss ss' ->
  ssrel (sc_unset_element ss name idx) (sc_unset_element ss' name idx).
Proof.
  intros H. unfold sc_unset_element. rewrite (sc_target_rel _ _ name H).
  pose proof (scope_var_rel ss ss' (sc_target ss name) name H) as G. orel G; [|exact H].
  destruct G as [a w Ha|m m' Hm|n|]; try exact H.
  apply sc_put_rel; [exact H|]. constructor. apply assoc_remove_rel. exact Hm.
Qed.

Lemma sc_upvar_rel ss ss' level name : ssrel ss ss' -> ssrel (sc_upvar ss level name) (sc_upvar ss' level name).
Proof. intros H. unfold sc_upvar. rewrite (sc_current_rel _ _ H). apply sc_put_rel; [exact H|constructor]. Qed.

Lemma sc_push_rel ss ss' : ssrel ss ss' -> ssrel (sc_push ss) (sc_push ss').
Proof. intros H. unfold sc_push. apply Forall2_app'; [exact H|constructor; [constructor|constructor]]. Qed.

Lemma sc_pop_rel ss ss' : ssrel ss ss' -> ssrel (sc_pop ss) (sc_pop ss').
Proof. intros H. unfold sc_pop. apply Forall2_removelast. exact H. Qed.

Lemma sc_vars_in_scope_rel ss ss' : ssrel ss ss' -> sc_vars_in_scope ss' = sc_vars_in_scope ss.
Proof.
  intros H. unfold sc_vars_in_scope. rewrite (sc_current_rel _ _ H).
  apply (arel_keys varrel). apply sc_get_scope_rel. exact H.
Qed.

Lemma sc_vars_in_global_rel ss ss' : ssrel ss ss' -> sc_vars_in_global ss' = sc_vars_in_global ss.
Proof. intros H. unfold sc_vars_in_global. apply (arel_keys varrel). apply sc_get_scope_rel. exact H. Qed.

Lemma sc_vars_in_local_rel ss ss' : ssrel ss ss' -> sc_vars_in_local ss' = sc_vars_in_local ss.
Proof.
  intros H. unfold sc_vars_in_local. rewrite (sc_current_rel _ _ H). destruct (sc_current ss); [reflexivity|].
  apply (arel_keys varrel). apply arel_filter; [|apply sc_get_scope_rel; exact H].
  intros p q _ Hv. destruct Hv; reflexivity.
Qed.

Lemma sc_array_exists_rel ss ss' name : ssrel ss ss' -> sc_array_exists ss' name = sc_array_exists ss name.
Proof.
  intros H. unfold sc_array_exists. pose proof (sc_lookup_rel ss ss' name H) as G. orel G; [|reflexivity].
  destruct G; reflexivity.
Qed.

Lemma sc_array_map_rel ss ss' name : ssrel ss ss' -> arel vrel (sc_array_map ss name) (sc_array_map ss' name).
Proof.
  intros H. unfold sc_array_map. pose proof (sc_lookup_rel ss ss' name H) as G. orel G; [|constructor].
  destruct G; try constructor. assumption.
Qed.

Lemma insert_kvlist_rel l l' : Forall2 vrel l l' -> forall m m', arel vrel m m' ->
  arel vrel (insert_kvlist m l) (insert_kvlist m' l').
Proof.
  intros H. revert l' H. induction l as [|x|k v r IH] using pair_ind; intros l' H m m' Hm.
  - inversion H; subst. exact Hm.
  - inversion H as [|? ? ? ? ? H2]; subst. inversion H2; subst. exact Hm.
  - inversion H as [|? k' ? ? Hk H2]; subst. inversion H2 as [|? v' ? r' Hv H3]; subst.
    cbn [insert_kvlist]. apply IH; [exact H3|]. rewrite (vrel_as_str _ _ Hk).
    apply assoc_set_rel; assumption.
Qed.

Lemma sc_array_set_rel ss ss' name l l' : ssrel ss ss' -> Forall2 vrel l l' ->
  srel eqr (sc_array_set ss name l) (sc_array_set ss' name l').
Proof.
  intros H Hl. unfold sc_array_set. rewrite (sc_target_rel _ _ name H).
  pose proof (scope_var_rel ss ss' (sc_target ss name) name H) as G.
  assert (P : ssrel (sc_put ss (sc_target ss name) name (VarArray (insert_kvlist [] l)))
                    (sc_put ss' (sc_target ss name) name (VarArray (insert_kvlist [] l')))).
  { apply sc_put_rel; [exact H|]. constructor. apply insert_kvlist_rel; [exact Hl|constructor]. }
  orel G; [|split; [exact P|reflexivity]].
  destruct G as [a w Ha|m m' Hm|n|]; (split; cbn [fst snd]; [try exact P; try exact H|]);
    cbn [rrel]; try reflexivity; try apply rrel_err.
  apply sc_put_rel; [exact H|]. constructor. apply insert_kvlist_rel; assumption.
Qed.

(* ---------- interpreter states ---------- *)
Lemma cmdrel_refl c : cmdrel c c.
Proof. destruct c; constructor; [apply lrel_refl|apply vrel_refl]. Qed.

Lemma cmds_refl (cmds : list (str * command)) : arel cmdrel cmds cmds.
Proof. apply arel_refl. exact cmdrel_refl. Qed.

Lemma strel_scopes st st' : strel st st' -> ssrel (i_scopes st) (i_scopes st').
Proof. intros H. apply H. Qed.

Lemma strel_cmds st st' : strel st st' -> arel cmdrel (i_cmds st) (i_cmds st').
Proof. intros H. apply H. Qed.

Lemma strel_levels st st' : strel st st' -> i_levels st' = i_levels st.
Proof. intros H. apply H. Qed.

Lemma strel_limit st st' : strel st st' -> i_limit st' = i_limit st.
Proof. intros H. apply H. Qed.

Lemma strel_ctx st st' : strel st st' -> i_ctx st' = i_ctx st.
Proof. intros H. apply H. Qed.

Lemma strel_last_ctx st st' : strel st st' -> i_last_ctx st' = i_last_ctx st.
Proof. intros H. apply H. Qed.

Lemma strel_trace st st' : strel st st' -> i_trace st' = i_trace st.
Proof. intros H. apply H. Qed.

Lemma strel_test st st' : strel st st' -> i_test st' = i_test st.
Proof. intros H. apply H. Qed.

Lemma strel_set_scopes st st' ss ss' : strel st st' -> ssrel ss ss' -> strel (set_scopes st ss) (set_scopes st' ss').
Proof. intros (H1 & H2 & H3) H. split; [exact H1|split; [exact H|exact H3]]. Qed.

Lemma strel_set_levels st st' n : strel st st' -> strel (set_levels st n) (set_levels st' n).
Proof. intros (H1 & H2 & H3 & H4 & H5). repeat split; try assumption; try apply H5. Qed.

Lemma strel_set_cmds st st' c c' : strel st st' -> arel cmdrel c c' -> strel (set_cmds st c) (set_cmds st' c').
Proof. intros (H1 & H2) H. split; [exact H|exact H2]. Qed.

Lemma strel_set_ctx st st' c l : strel st st' -> strel (set_ctx st c l) (set_ctx st' c l).
Proof. intros (H1 & H2 & H3 & H4 & H5 & H6 & H7). repeat split; try assumption; apply H7. Qed.

Lemma strel_set_trace st st' t : strel st st' -> strel (set_trace st t) (set_trace st' t).
Proof. intros (H1 & H2 & H3 & H4 & H5 & H6 & H7 & H8). repeat split; assumption. Qed.

Lemma strel_set_test st st' t : strel st st' -> strel (set_test st t) (set_test st' t).
Proof. intros (H1 & H2 & H3 & H4 & H5 & H6 & H7 & H8). repeat split; assumption. Qed.

Lemma strel_set_limit st st' t : strel st st' -> strel (set_limit st t) (set_limit st' t).
Proof. intros (H1 & H2 & H3 & H4 & H5 & H6 & H7 & H8). repeat split; assumption. Qed.

(* ---------- variable access through the interpreter ---------- *)
Lemma st_scalar_rel st st' name : strel st st' -> rrel vrel (st_scalar st name) (st_scalar st' name).
Proof. intros H. apply sc_get_rel. apply H. Qed.

Lemma st_element_rel st st' name idx : strel st st' -> rrel vrel (st_element st name idx) (st_element st' name idx).
Proof. intros H. apply sc_get_elem_rel. apply H. Qed.

Lemma srel_to_mrel {A} (R : A -> A -> Prop) st st' (m m' : scopes * res A) :
  strel st st' -> srel R m m' ->
  mrel R (let '(ss, r) := m in (set_scopes st ss, r)) (let '(ss, r) := m' in (set_scopes st' ss, r)).
Proof.
  intros H [H1 H2]. destruct m as [ss r], m' as [ss' r']. cbn [fst snd] in *.
  split; [apply strel_set_scopes; assumption|exact H2].
Qed.

Lemma st_set_scalar_rel st st' name v v' : strel st st' -> vrel v v' ->
  mrel eqr (st_set_scalar st name v) (st_set_scalar st' name v').
Proof. intros H Hv. unfold st_set_scalar. apply srel_to_mrel; [exact H|]. apply sc_set_rel; [apply H|exact Hv]. Qed.

Lemma st_set_element_rel st st' name idx v v' : strel st st' -> vrel v v' ->
  mrel eqr (st_set_element st name idx v) (st_set_element st' name idx v').
Proof. intros H Hv. unfold st_set_element. apply srel_to_mrel; [exact H|]. apply sc_set_elem_rel; [apply H|exact Hv]. Qed.

Lemma as_var_name_rel a a' : vrel a a' -> as_var_name a' = as_var_name a.
Proof. intros H. unfold as_var_name. rewrite (vrel_as_str _ _ H). reflexivity. Qed.

Lemma st_var_rel st st' a a' : strel st st' -> vrel a a' -> rrel vrel (st_var st a) (st_var st' a').
Proof.
  intros H Ha. unfold st_var. rewrite (as_var_name_rel _ _ Ha). destruct (as_var_name a) as [n [i|]];
    [apply st_element_rel|apply st_scalar_rel]; exact H.
Qed.

Lemma st_set_var_rel st st' a a' v v' : strel st st' -> vrel a a' -> vrel v v' ->
  mrel eqr (st_set_var st a v) (st_set_var st' a' v').
Proof.
  intros H Ha Hv. unfold st_set_var. rewrite (as_var_name_rel _ _ Ha). destruct (as_var_name a) as [n [i|]];
    [apply st_set_element_rel|apply st_set_scalar_rel]; assumption.
Qed.

Lemma st_var_exists_rel st st' a a' : strel st st' -> vrel a a' -> st_var_exists st' a' = st_var_exists st a.
Proof.
  intros H Ha. unfold st_var_exists. rewrite (as_var_name_rel _ _ Ha). destruct (as_var_name a) as [n [i|]];
    [apply sc_elem_exists_rel|apply sc_exists_rel]; apply H.
Qed.

Lemma st_unset_var_rel st st' a a' : strel st st' -> vrel a a' -> strel (st_unset_var st a) (st_unset_var st' a').
Proof.
  intros H Ha. unfold st_unset_var. rewrite (as_var_name_rel _ _ Ha). destruct (as_var_name a) as [n [i|]];
    apply strel_set_scopes; try exact H; [apply sc_unset_element_rel|apply sc_unset_rel]; apply H.
Qed.

(* ---------- the command table ---------- *)
Lemma cmds_get_rel st st' name : strel st st' ->
  opt_rel cmdrel (assoc_get name (i_cmds st)) (assoc_get name (i_cmds st')).
Proof. intros H. apply assoc_get_rel. apply H. Qed.

Lemma release_binding_rel st st' name : strel st st' -> strel (release_binding st name) (release_binding st' name).
Proof.
  intros H. unfold release_binding. pose proof (cmds_get_rel st st' name H) as G. orel G; [|exact H].
  destruct G as [n ctx|]; [|exact H]. destruct (ctx =? 0); [exact H|].
  rewrite (strel_ctx _ _ H), (strel_last_ctx _ _ H). apply strel_set_ctx. exact H.
Qed.

Lemma add_proc_rel st st' name p p' b b' : strel st st' -> Forall2 vrel p p' -> vrel b b' ->
  strel (add_proc st name p b) (add_proc st' name p' b').
Proof.
  intros H Hp Hb. unfold add_proc. pose proof (release_binding_rel st st' name H) as H0.
  apply strel_set_cmds; [exact H0|]. apply assoc_set_rel; [apply H0|constructor; assumption].
Qed.

Lemma has_command_rel st st' name : strel st st' -> has_command st' name = has_command st name.
Proof. intros H. unfold has_command. pose proof (cmds_get_rel st st' name H) as G. orel G; reflexivity. Qed.

Lemma rename_command_rel st st' old new : strel st st' ->
  strel (rename_command st old new) (rename_command st' old new).
Proof.
  intros H. unfold rename_command. pose proof (cmds_get_rel st st' old H) as G. orel G; [|exact H].
  assert (H1 : strel (set_cmds st (assoc_remove old (i_cmds st))) (set_cmds st' (assoc_remove old (i_cmds st')))).
  { apply strel_set_cmds; [exact H|]. apply assoc_remove_rel. apply H. }
  pose proof (release_binding_rel _ _ new H1) as H0.
  apply strel_set_cmds; [exact H0|]. apply assoc_set_rel; [apply H0|exact G].
Qed.

Lemma remove_command_rel st st' name : strel st st' -> mrel eqr (remove_command st name) (remove_command st' name).
Proof.
  intros H. unfold remove_command. pose proof (cmds_get_rel st st' name H) as G. orel G.
  - pose proof (release_binding_rel st st' name H) as H0. split; [|reflexivity]. cbn [ret fst].
    apply strel_set_cmds; [exact H0|]. apply assoc_remove_rel. apply H0.
  - split; [exact H|reflexivity].
Qed.

(* ---------- argument vectors ---------- *)
Lemma arg_rel argv argv' n : Forall2 vrel argv argv' -> vrel (arg argv n) (arg argv' n).
Proof. intros H. unfold arg. apply Forall2_nth; [apply vrel_refl|exact H]. Qed.

Lemma check_args_raw_rel namec minv maxv sig argv argv' : Forall2 vrel argv argv' ->
  check_args_raw namec minv maxv sig argv' = check_args_raw namec minv maxv sig argv.
Proof.
  intros H. unfold check_args_raw, wrong_args_msg. rewrite (lrel_length _ _ H).
  rewrite (lrel_strs _ _ (Forall2_firstn _ namec _ _ H)). reflexivity.
Qed.

Lemma check_args_rel name argv argv' : Forall2 vrel argv argv' -> check_args name argv' = check_args name argv.
Proof.
  intros H. unfold check_args. destruct (args_spec name) as [[[[a b] c] sig]|]; [|reflexivity].
  apply check_args_raw_rel. exact H.
Qed.

Lemma check_subcommand_rel argv argv' : Forall2 vrel argv argv' -> check_subcommand argv' = check_subcommand argv.
Proof. apply check_args_raw_rel. Qed.

Lemma is_sub_rel argv argv' name : Forall2 vrel argv argv' -> is_sub argv' name = is_sub argv name.
Proof. intros H. unfold is_sub. rewrite (vrel_as_str _ _ (arg_rel _ _ 1 H)). reflexivity. Qed.

Lemma is_word_rel argv argv' i w : Forall2 vrel argv argv' -> is_word argv' i w = is_word argv i w.
Proof. intros H. unfold is_word. rewrite (vrel_as_str _ _ (arg_rel _ _ i H)). reflexivity. Qed.

Lemma of_sum_rel {A} (R : A -> A -> Prop) r r' : sum_rel R r r' -> rrel R (of_sum r) (of_sum r').
Proof. destruct r, r'; cbn [sum_rel of_sum rrel]; try contradiction; [intros ->; apply rrel_err|auto]. Qed.

Lemma v_as_int_srel v w : vrel v w -> sum_rel eqr (v_as_int v) (v_as_int w).
Proof. intros H. rewrite (v_as_int_rel _ _ H). destruct (v_as_int v); cbn [sum_rel]; reflexivity. Qed.

(* ====================================================================================== *)
(* 3. The proof engine: lock-step traversal of the same code on related data               *)
(* ====================================================================================== *)

Create HintDb rs.

Definition prod_rel {A B} (RA : A -> A -> Prop) (RB : B -> B -> Prop) (p q : A * B) : Prop :=
  RA (fst p) (fst q) /\ RB (snd p) (snd q).
Lemma prod_rel_intro {A B} (RA : A -> A -> Prop) (RB : B -> B -> Prop) a a' b b' :
  RA a a' -> RB b b' -> prod_rel RA RB (a, b) (a', b').
Proof. intros. split; assumption. Qed.
Lemma prod_rel_fst_eq {A B} (RB : B -> B -> Prop) (p q : A * B) : prod_rel eqr RB p q -> fst q = fst p.
Proof. intros [H _]. exact H. Qed.
Lemma prod_rel_snd_v {A} (RA : A -> A -> Prop) (p q : A * value) : prod_rel RA vrel p q -> vrel (snd p) (snd q).
Proof. intros [_ H]. exact H. Qed.
Lemma edrel_code d d' : edrel d d' -> vrel (ed_code d) (ed_code d').
Proof. intros H. apply H. Qed.
Lemma edrel_info d d' : edrel d d' -> ed_info d' = ed_info d.
Proof. intros (_ & H & _). unfold ed_info. rewrite H. reflexivity. Qed.

Definition ro_rel (o o' : ret_opts) : Prop :=
  ro_code o' = ro_code o /\ ro_level o' = ro_level o /\
  opt_rel vrel (ro_ecode o) (ro_ecode o') /\ opt_rel vrel (ro_einfo o) (ro_einfo o').
Lemma ro_rel_code o o' : ro_rel o o' -> ro_code o' = ro_code o. Proof. intros H; apply H. Qed.
Lemma ro_rel_level o o' : ro_rel o o' -> ro_level o' = ro_level o. Proof. intros H; apply H. Qed.
Lemma ro_rel_ecode o o' : ro_rel o o' -> opt_rel vrel (ro_ecode o) (ro_ecode o'). Proof. intros H; apply H. Qed.
Lemma ro_rel_einfo o o' : ro_rel o o' -> opt_rel vrel (ro_einfo o) (ro_einfo o'). Proof. intros H; apply H. Qed.

Lemma eqr_refl {A} (a : A) : eqr a a.
Proof. reflexivity. Qed.

Lemma mrel_pair {A} (R : A -> A -> Prop) st st' r r' : strel st st' -> rrel R r r' -> mrel R (st, r) (st', r').
Proof. intros H1 H2. split; assumption. Qed.

Lemma srel_pair {A} (R : A -> A -> Prop) st st' r r' : ssrel st st' -> rrel R r r' -> srel R (st, r) (st', r').
Proof. intros H1 H2. split; assumption. Qed.

Lemma rrel_ok {A} (R : A -> A -> Prop) a a' : R a a' -> rrel R (Ok a) (Ok a').
Proof. intros H. exact H. Qed.

Lemma rrel_Err {A} (R : A -> A -> Prop) e e' : xrel e e' -> rrel R (Err e) (Err e').
Proof. intros H. exact H. Qed.

Lemma rrel_fuel {A} (R : A -> A -> Prop) : rrel R Fuel Fuel.
Proof. exact I. Qed.

Lemma rrel_panic {A} (R : A -> A -> Prop) p : rrel R (Panic p) (Panic p).
Proof. reflexivity. Qed.

Lemma rrel_refl_eqr {A} (r : res A) : rrel eqr r r.
Proof. apply rrel_refl. reflexivity. Qed.

Lemma rrel_refl_vrel (r : res value) : rrel vrel r r.
Proof. apply rrel_refl. exact vrel_refl. Qed.

Lemma vrel_list_cons x y l l' : vrel x y -> Forall2 vrel l l' -> Forall2 vrel (x :: l) (y :: l').
Proof. intros. constructor; assumption. Qed.

Lemma Forall2_nil' {A} (R : A -> A -> Prop) : Forall2 R [] [].
Proof. constructor. Qed.

Lemma last_rel l l' : Forall2 vrel l l' -> vrel (last l v_empty) (last l' v_empty).
Proof. apply Forall2_last. apply vrel_refl. Qed.

Lemma nth_rel l l' n : Forall2 vrel l l' -> vrel (nth n l v_empty) (nth n l' v_empty).
Proof. apply Forall2_nth. apply vrel_refl. Qed.

Lemma pair_rel_intro (R : value -> value -> Prop) a a' b b' : R a a' -> R b b' -> pair_rel R (a, b) (a', b').
Proof. intros. split; assumption. Qed.

#[export] Hint Resolve eqr_refl vrel_refl xrel_refl lrel_refl drel_refl rrel_err rrel_fuel rrel_panic
  mrel_pair srel_pair rrel_ok rrel_Err rrel_refl_eqr rrel_refl_vrel
  vrel_list vrel_dict vrel_list_cons Forall2_nil' pair_rel_intro
  strel_scopes strel_cmds strel_set_scopes strel_set_levels strel_set_cmds strel_set_ctx
  strel_set_trace strel_set_test strel_set_limit
  sc_get_scope_rel scope_var_rel sc_var_rel sc_lookup_rel sc_put_rel sc_del_rel sc_get_rel sc_get_elem_rel
  sc_set_at_rel sc_set_rel sc_set_global_rel sc_set_elem_rel sc_unset_at_rel sc_unset_rel
  sc_array_unset_rel sc_unset_element_rel sc_upvar_rel sc_push_rel sc_pop_rel sc_array_map_rel
  insert_kvlist_rel sc_array_set_rel
  st_scalar_rel st_element_rel st_set_scalar_rel st_set_element_rel st_var_rel st_set_var_rel
  st_unset_var_rel cmds_get_rel release_binding_rel add_proc_rel rename_command_rel remove_command_rel
  arg_rel of_sum_rel v_as_int_srel v_as_list_rel v_as_dict_rel
  Forall2_app' Forall2_rev' Forall2_removelast last_rel nth_rel Forall2_skipn Forall2_firstn : rs.

(* ---------- exceptions ---------- *)
Lemma xrel_molt_err_v a a' : vrel a a' -> xrel (molt_err_v a) (molt_err_v a').
Proof.
  intros H. unfold xrel, molt_err_v. cbn [x_code x_value x_level x_next x_data opt_rel].
  rewrite (vrel_as_str _ _ H). repeat split; try reflexivity; try apply vrel_refl. exact H.
Qed.

Lemma xrel_molt_err2 c c' a a' : vrel c c' -> vrel a a' -> xrel (molt_err2 c a) (molt_err2 c' a').
Proof.
  intros Hc H. unfold xrel, molt_err2. cbn [x_code x_value x_level x_next x_data opt_rel].
  rewrite (vrel_as_str _ _ H). repeat split; try reflexivity; assumption.
Qed.

Lemma xrel_molt_return_ext v v' l n : vrel v v' -> xrel (molt_return_ext v l n) (molt_return_ext v' l n).
Proof.
  intros H. unfold molt_return_ext. destruct ((l =? 0) && rcode_eqb n CReturn);
    unfold xrel; cbn [x_code x_value x_level x_next x_data opt_rel]; repeat split; try reflexivity; exact H.
Qed.

Lemma xrel_molt_return_err v v' l c c' i i' :
  vrel v v' -> opt_rel vrel c c' -> opt_rel vrel i i' ->
  xrel (molt_return_err v l c i) (molt_return_err v' l c' i').
Proof.
  intros H Hc Hi. unfold molt_return_err, xrel. cbn [x_code x_value x_level x_next x_data opt_rel].
  split; [reflexivity|]. split; [exact H|]. split; [reflexivity|]. split; [reflexivity|].
  assert (C : vrel match c with Some c0 => c0 | None => v_NONE end match c' with Some c0 => c0 | None => v_NONE end).
  { destruct c, c'; cbn [opt_rel] in Hc; try contradiction; [exact Hc|apply vrel_refl]. }
  destruct i, i'; cbn [opt_rel] in Hi; try contradiction.
  - unfold ed_rethrow, edrel. cbn [ed_code ed_trace ed_new]. rewrite (vrel_as_str _ _ Hi).
    split; [exact C|split; reflexivity].
  - unfold ed_new_data, edrel. cbn [ed_code ed_trace ed_new]. rewrite (vrel_as_str _ _ H).
    split; [exact C|split; reflexivity].
Qed.

Lemma xrel_add_error_info e e' line : xrel e e' -> xrel (add_error_info e line) (add_error_info e' line).
Proof.
  intros (H1 & H2 & H3 & H4 & H5). unfold xrel, add_error_info. cbn [x_code x_value x_level x_next x_data].
  repeat split; try assumption.
  destruct (x_data e) as [d|], (x_data e') as [d'|]; cbn [opt_rel] in *; try contradiction; [|exact I].
  destruct H5 as (A & B & C). unfold edrel, ed_add_info. cbn [ed_code ed_trace ed_new]. rewrite B.
  repeat split; try reflexivity. exact A.
Qed.

Lemma xrel_decrement_level e e' : xrel e e' -> xrel (decrement_level e) (decrement_level e').
Proof.
  intros (H1 & H2 & H3 & H4 & H5). unfold decrement_level. rewrite H3, H4.
  destruct (x_level e - 1 =? 0); [destruct (rcode_eqb (x_next e) CReturn)|];
    unfold xrel; cbn [x_code x_value x_level x_next x_data]; repeat split; try reflexivity; assumption.
Qed.

Lemma xrel_code e e' : xrel e e' -> x_code e' = x_code e.
Proof. intros H. apply H. Qed.

Lemma xrel_value e e' : xrel e e' -> vrel (x_value e) (x_value e').
Proof. intros H. apply H. Qed.

Lemma xrel_level e e' : xrel e e' -> x_level e' = x_level e.
Proof. intros H. apply H. Qed.

Lemma xrel_next e e' : xrel e e' -> x_next e' = x_next e.
Proof. intros H. apply H. Qed.

Lemma xrel_data e e' : xrel e e' -> opt_rel edrel (x_data e) (x_data e').
Proof. intros H. apply H. Qed.

Lemma is_new_error_rel e e' : xrel e e' -> is_new_error e' = is_new_error e.
Proof.
  intros H. unfold is_new_error. pose proof (xrel_data _ _ H) as D.
  destruct (x_data e), (x_data e'); cbn [opt_rel] in D; try contradiction; [apply D|reflexivity].
Qed.

#[export] Hint Resolve xrel_molt_err_v xrel_molt_err2 xrel_molt_return_ext xrel_molt_return_err
  xrel_add_error_info xrel_decrement_level xrel_value xrel_data ro_rel_ecode ro_rel_einfo
  prod_rel_intro prod_rel_snd_v edrel_code xrel_code strel_test strel_levels strel_limit : rs.

Ltac rs_solve := solve [eauto 14 with rs].

Ltac rs_red :=
  cbv beta iota zeta delta [bind ret fail lift lift_sum ok_empty st_set_var_return
                            loop_body_outcome lift_p v_eqb].

(* rewrite the strings / lengths / integer views of primed data into the unprimed ones *)
Ltac rs_norm1 :=
  match goal with
  | H : Forall2 vrel ?a ?a' |- context [check_args ?n ?a'] => rewrite (check_args_rel n a a' H)
  | H : Forall2 vrel ?a ?a' |- context [check_subcommand ?a'] => rewrite (check_subcommand_rel a a' H)
  | H : Forall2 vrel ?a ?a' |- context [check_args_raw ?x ?y ?z ?s ?a'] =>
      rewrite (check_args_raw_rel x y z s a a' H)
  | H : Forall2 vrel ?a ?a' |- context [is_sub ?a' ?n] => rewrite (is_sub_rel a a' n H)
  | H : Forall2 vrel ?a ?a' |- context [is_word ?a' ?i ?w] => rewrite (is_word_rel a a' i w H)
  | H : Forall2 vrel ?a ?a' |- context [length ?a'] => rewrite (lrel_length a a' H)
  | H : Forall2 (pair_rel vrel) ?a ?a' |- context [length ?a'] => rewrite (drel_length a a' H)
  | H : Forall2 vrel ?a ?a' |- context [as_str (arg ?a' ?n)] =>
      rewrite (vrel_as_str _ _ (arg_rel a a' n H))
  | H : Forall2 vrel ?a ?a' |- context [v_as_int (arg ?a' ?n)] =>
      rewrite (v_as_int_rel _ _ (arg_rel a a' n H))
  | H : Forall2 vrel ?a ?a' |- context [map as_str ?a'] => rewrite (lrel_strs a a' H)
  | H : Forall2 vrel ?a ?a' |- context [map as_str (skipn ?n ?a')] =>
      rewrite (lrel_strs _ _ (Forall2_skipn vrel n a a' H))
  | H : Forall2 vrel ?a ?a' |- context [map as_str (firstn ?n ?a')] =>
      rewrite (lrel_strs _ _ (Forall2_firstn vrel n a a' H))
  | H : vrel ?v ?w |- context [as_str ?w] => rewrite (vrel_as_str v w H)
  | H : vrel ?v ?w |- context [v_as_int ?w] => rewrite (v_as_int_rel v w H)
  | H : vrel ?v ?w |- context [expr_parse_value ?w] => rewrite (expr_parse_value_rel v w H)
  | H : Forall2 vrel ?a ?a' |- context [as_var_name (arg ?a' ?n)] =>
      rewrite (as_var_name_rel _ _ (arg_rel a a' n H))
  | H : vrel ?v ?w |- context [as_var_name ?w] => rewrite (as_var_name_rel v w H)
  | H : prod_rel eqr _ ?p ?q |- context [fst ?q] => rewrite (prod_rel_fst_eq _ p q H)
  | H : edrel ?d ?d' |- context [ed_info ?d'] => rewrite (edrel_info d d' H)
  | H : ro_rel ?o ?o' |- context [ro_code ?o'] => rewrite (ro_rel_code o o' H)
  | H : ro_rel ?o ?o' |- context [ro_level ?o'] => rewrite (ro_rel_level o o' H)
  | H : xrel ?e ?e' |- context [x_code ?e'] => rewrite (xrel_code e e' H)
  | H : xrel ?e ?e' |- context [x_level ?e'] => rewrite (xrel_level e e' H)
  | H : xrel ?e ?e' |- context [x_next ?e'] => rewrite (xrel_next e e' H)
  | H : xrel ?e ?e' |- context [is_new_error ?e'] => rewrite (is_new_error_rel e e' H)
  | H : xrel ?e ?e' |- context [as_str (x_value ?e')] => rewrite (vrel_as_str _ _ (xrel_value e e' H))
  | H : strel ?s ?s' |- context [i_levels ?s'] => rewrite (strel_levels s s' H)
  | H : strel ?s ?s' |- context [i_limit ?s'] => rewrite (strel_limit s s' H)
  | H : strel ?s ?s' |- context [i_ctx ?s'] => rewrite (strel_ctx s s' H)
  | H : strel ?s ?s' |- context [i_last_ctx ?s'] => rewrite (strel_last_ctx s s' H)
  | H : strel ?s ?s' |- context [i_trace ?s'] => rewrite (strel_trace s s' H)
  | H : strel ?s ?s' |- context [i_test ?s'] => rewrite (strel_test s s' H)
  | H : strel ?s ?s' |- context [sc_current (i_scopes ?s')] =>
      rewrite (sc_current_rel _ _ (strel_scopes s s' H))
  | H : strel ?s ?s' |- context [sc_array_exists (i_scopes ?s') ?n] =>
      rewrite (sc_array_exists_rel _ _ n (strel_scopes s s' H))
  | H : strel ?s ?s' |- context [sc_vars_in_scope (i_scopes ?s')] =>
      rewrite (sc_vars_in_scope_rel _ _ (strel_scopes s s' H))
  | H : strel ?s ?s' |- context [sc_vars_in_global (i_scopes ?s')] =>
      rewrite (sc_vars_in_global_rel _ _ (strel_scopes s s' H))
  | H : strel ?s ?s' |- context [sc_vars_in_local (i_scopes ?s')] =>
      rewrite (sc_vars_in_local_rel _ _ (strel_scopes s s' H))
  | H : strel ?s ?s' |- context [has_command ?s' ?n] => rewrite (has_command_rel s s' n H)
  | H : strel ?s ?s', Ha : Forall2 vrel ?a ?a' |- context [st_var_exists ?s' (arg ?a' ?n)] =>
      rewrite (st_var_exists_rel s s' _ _ H (arg_rel a a' n Ha))
  end.
Ltac rs_norm := repeat (progress rs_norm1).

Ltac crel T :=
  lazymatch T with
  | option ?A => let r := crel A in constr:(opt_rel r)
  | prod ?A ?B =>
      let ra := crel A in let rb := crel B in
      lazymatch ra with
      | @eqr _ => lazymatch rb with
                  | @eqr _ => constr:(@eqr T)
                  | _ => constr:(prod_rel ra rb)
                  end
      | _ => constr:(prod_rel ra rb)
      end
  | value => constr:(vrel)
  | list value => constr:(Forall2 vrel)
  | list (value * value)%type => constr:(Forall2 (pair_rel vrel))
  | ret_opts => constr:(ro_rel)
  | var => constr:(varrel)
  | command => constr:(cmdrel)
  | exn => constr:(xrel)
  | errdata => constr:(edrel)
  | _ => constr:(@eqr T)
  end.

Ltac rs_unfold_eqr :=
  repeat match goal with
         | H : eqr ?a ?b |- _ => unfold eqr in H; first [subst b | subst a | idtac]
         end.

(* [rs_scrut X X' k]: relate the two scrutinees, destruct them in lock step, continue with [k] *)
Ltac rs_sub k := first [ rs_solve | k ].

Ltac rs_scrut X X' k :=
  let T := type of X in
  let T' := eval cbv beta delta [M eres scopes scope str char] in T in
  lazymatch T' with
  | prod interp (res ?A) =>
      let RA0 := crel A in
      let RA := lazymatch X with
                | r_expr _ _ _ => constr:(@eqr A)
                | expr_eval _ _ _ _ _ => constr:(@eqr A)
                | expr_with _ _ _ _ => constr:(@eqr A)
                | _ => RA0
                end in
      let P := fresh "P" in
      assert (P : mrel RA X X');
      [ rs_sub k
      | let st1 := fresh "st" in let st1' := fresh "st'" in
        let r1 := fresh "r" in let r1' := fresh "r'" in
        let Hst := fresh "Hst" in let Hr := fresh "Hr" in
        revert P; generalize X, X'; intros [st1 r1] [st1' r1'] [Hst Hr]; cbn [fst snd] in Hst, Hr;
        destruct r1, r1'; cbn [rrel] in Hr; try contradiction; rs_unfold_eqr; k ]
  | prod (list (list (prod (list N) var))) (res ?A) =>
      let RA := crel A in
      let P := fresh "P" in
      assert (P : srel RA X X');
      [ rs_sub k
      | let st1 := fresh "ss" in let st1' := fresh "ss'" in
        let r1 := fresh "r" in let r1' := fresh "r'" in
        let Hst := fresh "Hss" in let Hr := fresh "Hr" in
        revert P; generalize X, X'; intros [st1 r1] [st1' r1'] [Hst Hr]; cbn [fst snd] in Hst, Hr;
        destruct r1, r1'; cbn [rrel] in Hr; try contradiction; rs_unfold_eqr; k ]
  | res ?A =>
      let RA := crel A in
      let P := fresh "P" in
      assert (P : rrel RA X X');
      [ rs_sub k
      | let r1 := fresh "r" in let r1' := fresh "r'" in
        revert P; generalize X, X'; intros r1 r1' P;
        destruct r1, r1'; cbn [rrel] in P; try contradiction; rs_unfold_eqr; k ]
  | sum (list N) ?A =>
      let RA := crel A in
      let P := fresh "P" in
      assert (P : sum_rel RA X X');
      [ rs_sub k
      | let r1 := fresh "r" in let r1' := fresh "r'" in
        revert P; generalize X, X'; intros r1 r1' P;
        destruct r1, r1'; cbn [sum_rel] in P; try contradiction; rs_unfold_eqr;
        try match type of P with ?a = ?b => first [subst b | subst a] end; k ]
  | option ?A =>
      let RA := crel A in
      let P := fresh "P" in
      assert (P : opt_rel RA X X');
      [ rs_sub k
      | let r1 := fresh "r" in let r1' := fresh "r'" in
        revert P; generalize X, X'; intros r1 r1' P;
        destruct r1, r1'; cbn [opt_rel] in P; try contradiction; rs_unfold_eqr; k ]
  | list _ =>
      lazymatch goal with
      | H : Forall2 _ X X' |- _ =>
          let H' := fresh "HF" in pose proof H as H'; destruct H'; k
      end
  | _ =>
      first
        [ lazymatch goal with
          | H : cmdrel X X' |- _ => destruct H; k
          | H : varrel X X' |- _ => destruct H; k
          end
        | let E := fresh "E" in
          assert (E : X' = X);
          [ try reflexivity; try rs_solve
          | rewrite E; clear E; destruct X eqn:?; k ] ]
  end.

Ltac rs_fin := cbn [rrel opt_rel sum_rel]; try reflexivity; try rs_solve; try exact I.
Ltac rs_leaf :=
  lazymatch goal with
  | |- mrel _ (_, _) (_, _) => try (apply mrel_pair; [try rs_solve | rs_fin])
  | |- srel _ (_, _) (_, _) => try (apply srel_pair; [try rs_solve | rs_fin])
  | |- _ => rs_fin
  end.

Ltac rs_tac :=
  rs_red; rs_norm;
  lazymatch goal with
  | |- _ (match ?X with _ => _ end) (match ?X' with _ => _ end) =>
      first [ constr_eq X X'; destruct X eqn:?; rs_tac
            | rs_scrut X X' ltac:(rs_tac) ]
  | |- _ => rs_leaf
  end.


(* ====================================================================================== *)
(* 4. The commands that do not evaluate scripts                                            *)
(* ====================================================================================== *)

Definition cmd_rel2 (f f' : interp -> list value -> M value) : Prop :=
  forall st st' argv argv', strel st st' -> Forall2 vrel argv argv' -> mrel vrel (f st argv) (f' st' argv').
Definition cmd_rel (f : interp -> list value -> M value) : Prop := cmd_rel2 f f.

Ltac cmd_rs f := intros st st' argv argv' H Ha; unfold f; rs_tac.

Lemma old_str_rel r r' : rrel vrel r r' ->
  match r' with Ok v => as_str v | _ => [] end = match r with Ok v => as_str v | _ => [] end.
Proof. destruct r, r'; cbn [rrel]; try contradiction; try reflexivity. apply vrel_as_str. Qed.

Lemma cmd_append_rel : cmd_rel cmd_append.
Proof.
  intros st st' argv argv' H Ha; unfold cmd_append. rs_red. rs_norm.
  destruct (check_args "cmd_append" argv); rs_tac.
  all: rewrite (old_str_rel _ _ (st_var_rel st st' _ _ H (arg_rel _ _ 1 Ha))); rs_tac.
Qed.

Lemma fold_upvar_rel l l' : Forall2 vrel l l' -> forall ss ss', ssrel ss ss' ->
  ssrel (fold_left (fun ss n => sc_upvar ss O (as_str n)) l ss)
        (fold_left (fun ss n => sc_upvar ss O (as_str n)) l' ss').
Proof.
  induction 1 as [|x y r r' Hxy Hr IH]; intros ss ss' Hs; cbn [fold_left]; [exact Hs|].
  apply IH. rewrite (vrel_as_str _ _ Hxy). apply sc_upvar_rel. exact Hs.
Qed.

Lemma cmd_global_rel : cmd_rel cmd_global.
Proof.
  cmd_rs cmd_global. apply strel_set_scopes; [exact H|]. apply fold_upvar_rel; [|apply H].
  apply Forall2_skipn. exact Ha.
Qed.

Lemma lindex_into_rel idx idx' : Forall2 vrel idx idx' -> forall v w, vrel v w ->
  rrel vrel (lindex_into v idx) (lindex_into w idx').
Proof.
  induction 1 as [|i i' r r' Hi Hr IH]; intros v w Hv; cbn [lindex_into]; [exact Hv|].
  rs_tac.
Qed.
#[export] Hint Resolve lindex_into_rel : rs.

Lemma cmd_lindex_rel : cmd_rel cmd_lindex.
Proof. cmd_rs cmd_lindex. Qed.

Lemma unset_go_rel l l' : Forall2 vrel l l' -> forall st st' b, strel st st' ->
  strel
    ((fix go (st0 : interp) (l : list value) (options_ok : bool) {struct l} : interp :=
        match l with
        | [] => st0
        | a0 :: r =>
            if options_ok && str_eqb (as_str a0) (lit "--") then go st0 r false
            else if options_ok && str_eqb (as_str a0) (lit "-nocomplain") then go st0 r true
            else go (st_unset_var st0 a0) r options_ok
        end) st l b)
    ((fix go (st0 : interp) (l : list value) (options_ok : bool) {struct l} : interp :=
        match l with
        | [] => st0
        | a0 :: r =>
            if options_ok && str_eqb (as_str a0) (lit "--") then go st0 r false
            else if options_ok && str_eqb (as_str a0) (lit "-nocomplain") then go st0 r true
            else go (st_unset_var st0 a0) r options_ok
        end) st' l' b).
Proof.
  induction 1 as [|x y r r' Hxy Hr IH]; intros st st' b H; [exact H|].
  rewrite (vrel_as_str _ _ Hxy).
  destruct (b && str_eqb (as_str x) (lit "--")); [apply IH; exact H|].
  destruct (b && str_eqb (as_str x) (lit "-nocomplain")); [apply IH; exact H|].
  apply IH. apply st_unset_var_rel; assumption.
Qed.

Lemma cmd_unset_rel : cmd_rel cmd_unset.
Proof. cmd_rs cmd_unset. apply unset_go_rel; [apply Forall2_skipn; exact Ha|exact H]. Qed.
Lemma cmd_puts_rel : cmd_rel cmd_puts. Proof. cmd_rs cmd_puts. Qed.
Lemma cmd_set_rel : cmd_rel cmd_set. Proof. cmd_rs cmd_set. Qed.
Lemma cmd_assert_eq_rel : cmd_rel cmd_assert_eq. Proof. cmd_rs cmd_assert_eq. Qed.
Lemma cmd_break_rel : cmd_rel cmd_break. Proof. cmd_rs cmd_break. Qed.
Lemma cmd_error_rel : cmd_rel cmd_error. Proof. cmd_rs cmd_error. Qed.
Lemma cmd_join_rel : cmd_rel cmd_join. Proof. cmd_rs cmd_join. Qed.
Lemma cmd_lappend_rel : cmd_rel cmd_lappend. Proof. cmd_rs cmd_lappend. Qed.
Lemma cmd_list_rel : cmd_rel cmd_list. Proof. cmd_rs cmd_list. Qed.
Lemma cmd_llength_rel : cmd_rel cmd_llength. Proof. cmd_rs cmd_llength. Qed.
Lemma cmd_throw_rel : cmd_rel cmd_throw. Proof. cmd_rs cmd_throw. Qed.
Lemma cmd_recorder_rel : cmd_rel cmd_recorder. Proof. cmd_rs cmd_recorder. Qed.
Lemma cmd_incr_rel : cmd_rel cmd_incr. Proof. cmd_rs cmd_incr. Qed.
Lemma cmd_continue_rel : cmd_rel cmd_continue. Proof. cmd_rs cmd_continue. Qed.
Lemma cmd_rename_rel : cmd_rel cmd_rename. Proof. cmd_rs cmd_rename. Qed.

Lemma proc_bad_rel l l' : Forall2 vrel l l' ->
  rrel eqr
    ((fix go (l : list value) : res unit :=
        match l with
        | [] => Ok tt
        | a2 :: r =>
            match v_as_list a2 with
            | inl m => err m
            | inr [] => err (lit "argument with no name")
            | inr (_ :: _ :: _ :: _) =>
                err (lit "too many fields in argument specifier """ ++ as_str a2 ++ lit """")
            | _ => go r
            end
        end) l)
    ((fix go (l : list value) : res unit :=
        match l with
        | [] => Ok tt
        | a2 :: r =>
            match v_as_list a2 with
            | inl m => err m
            | inr [] => err (lit "argument with no name")
            | inr (_ :: _ :: _ :: _) =>
                err (lit "too many fields in argument specifier """ ++ as_str a2 ++ lit """")
            | _ => go r
            end
        end) l').
Proof.
  induction 1 as [|x y r r' Hxy Hr IH]; [reflexivity|]. rs_tac.
Qed.
#[export] Hint Resolve proc_bad_rel : rs.
Lemma cmd_proc_rel : cmd_rel cmd_proc. Proof. cmd_rs cmd_proc. Qed.


Lemma return_options_parse_rel : forall n l l', (length l <= n)%nat -> Forall2 vrel l l' -> forall o o',
  ro_rel o o' -> rrel ro_rel (return_options_parse l o) (return_options_parse l' o').
Proof.
  induction n as [|n IH]; intros l l' Hn H o o' (H1 & H2 & H3 & H4).
  - destruct H; [cbn; unfold ro_rel; auto|cbn [length] in Hn; lia].
  - destruct H as [|k k' r r' Hk Hr]; [cbn; unfold ro_rel; auto|].
    destruct Hr as [|v v' r2 r2' Hv Hr2]; [cbn; unfold ro_rel; auto|].
    cbn [length] in Hn. cbn [return_options_parse]. rs_norm.
    destruct (str_eqb (as_str k) (lit "-code")).
    { destruct (rcode_from_str (as_str v)); [|apply rrel_err]. apply IH; [lia|exact Hr2|]; unfold ro_rel; cbn; auto. }
    destruct (str_eqb (as_str k) (lit "-errorcode")).
    { apply IH; [lia|exact Hr2|]; unfold ro_rel; cbn; auto. }
    destruct (str_eqb (as_str k) (lit "-errorinfo")).
    { apply IH; [lia|exact Hr2|]; unfold ro_rel; cbn; auto. }
    destruct (str_eqb (as_str k) (lit "-level")); [|apply rrel_err].
    destruct (v_as_int v); [apply rrel_err|]. apply IH; [lia|exact Hr2|]; unfold ro_rel; cbn; auto.
Qed.

Lemma return_options_parse_rel' l l' o : Forall2 vrel l l' ->
  rrel ro_rel (return_options_parse l o) (return_options_parse l' o).
Proof.
  intros H. apply (return_options_parse_rel (length l)); [lia|exact H|].
  unfold ro_rel. repeat split; try reflexivity; [destruct (ro_ecode o)|destruct (ro_einfo o)]; cbn; auto with rs.
Qed.
#[export] Hint Resolve return_options_parse_rel' : rs.

Lemma cmd_return_rel : cmd_rel cmd_return.
Proof.
  intros st st' argv argv' H Ha; unfold cmd_return. rs_red. rs_norm.
  destruct (Nat.even (length argv)); rs_tac.
Qed.


Lemma arel_names (m m' : list (str * value)) : arel vrel m m' ->
  map (fun kv : str * value => VStr (fst kv)) m' = map (fun kv => VStr (fst kv)) m.
Proof. apply Forall2_map_eq. intros a b [E _]. rewrite E. reflexivity. Qed.

Lemma arel_flat (m m' : list (str * value)) : arel vrel m m' ->
  Forall2 vrel (flat_map (fun kv : str * value => [VStr (fst kv); snd kv]) m)
               (flat_map (fun kv : str * value => [VStr (fst kv); snd kv]) m').
Proof.
  induction 1 as [|p q r r' [E Hv] Hr IH]; cbn [flat_map app]; [constructor|].
  rewrite E. constructor; [apply vrel_refl|]. constructor; [exact Hv|exact IH].
Qed.

Lemma cmd_array_rel : cmd_rel cmd_array.
Proof.
  cmd_rs cmd_array.
  - rewrite (arel_names _ _ (sc_array_map_rel _ _ (as_str (arg argv 2)) (strel_scopes _ _ H))). apply vrel_refl.
  - apply vrel_list. apply arel_flat. apply sc_array_map_rel. apply H.
  - rewrite (arel_length _ _ _ (sc_array_map_rel _ _ (as_str (arg argv 2)) (strel_scopes _ _ H))). apply vrel_refl.
Qed.

Lemma keep_strip_as_str v : as_str (keep_strip v) = as_str v.
Proof.
  induction v as [s|z|f|b|l IH|d IH] using value_ind2; cbn [keep_strip]; try reflexivity.
  - destruct (looks_integral (as_str (VFlt f))); reflexivity.
  - cbn [as_str]. f_equal. rewrite map_map. induction IH as [|x r Hx Hr IHr]; cbn [map]; [reflexivity|].
    rewrite Hx, IHr. reflexivity.
  - rewrite !as_str_dict. f_equal. induction IH as [|[k x] r [Hk Hx] Hr IHr]; cbn [map flat_strs]; [reflexivity|].
    cbn [fst snd] in *. rewrite Hk, Hx, IHr. reflexivity.
Qed.

Lemma forallb_map' {A B} (f : B -> bool) (g : A -> B) l : forallb f (map g l) = forallb (fun x => f (g x)) l.
Proof. induction l as [|x r IH]; cbn [map forallb]; [reflexivity|]. rewrite IH. reflexivity. Qed.

Lemma forallb_impl' {A} (f g : A -> bool) l :
  Forall (fun x => f x = true -> g x = true) l -> forallb f l = true -> forallb g l = true.
Proof.
  induction 1 as [|x r Hx Hr IH]; cbn [forallb]; [reflexivity|]. intros H. apply andb_true_iff in H.
  destruct H as [H1 H2]. rewrite (Hx H1), (IH H2). reflexivity.
Qed.

Lemma keep_strip_float_free v : float_free v = true -> float_free (keep_strip v) = true.
Proof.
  induction v as [s|z|f|b|l IH|d IH] using value_ind2; cbn [keep_strip float_free]; try reflexivity.
  - discriminate.
  - rewrite forallb_map'. apply forallb_impl'. exact IH.
  - rewrite forallb_map'. apply forallb_impl'. eapply Forall_impl; [|exact IH].
    intros [k x] [Hk Hx] H. cbn [fst snd] in *. apply andb_true_iff in H. destruct H as [H1 H2].
    rewrite (Hk H1), (Hx H2). reflexivity.
Qed.

Lemma keep_strip_ints_ok v : ints_ok v = true -> ints_ok (keep_strip v) = true.
Proof.
  induction v as [s|z|f|b|l IH|d IH] using value_ind2; cbn [keep_strip ints_ok]; try reflexivity.
  - intros _. destruct (looks_integral _); reflexivity.
  - rewrite forallb_map'. apply forallb_impl'. exact IH.
  - rewrite forallb_map'. apply forallb_impl'. eapply Forall_impl; [|exact IH].
    intros [k x] [Hk Hx] H. cbn [fst snd] in *. apply andb_true_iff in H. destruct H as [H1 H2].
    rewrite (Hk H1), (Hx H2). reflexivity.
Qed.

Lemma keep_strip_dicts_ok v : dicts_ok v = true -> dicts_ok (keep_strip v) = true.
Proof.
  induction v as [s|z|f|b|l IH|d IH] using value_ind2; cbn [keep_strip dicts_ok]; try reflexivity.
  - intros _. destruct (looks_integral _); reflexivity.
  - rewrite forallb_map'. apply forallb_impl'. exact IH.
  - intros H. apply andb_true_iff in H. destruct H as [H1 H2]. apply andb_true_iff. split.
    + rewrite map_map. erewrite map_ext; [exact H1|]. intros [k x]. cbn [fst]. apply keep_strip_as_str.
    + rewrite forallb_map'. revert H2. apply forallb_impl'. eapply Forall_impl; [|exact IH].
      intros [k x] [Hk Hx] H. cbn [fst snd] in *. apply andb_true_iff in H. destruct H as [H3 H4].
      rewrite (Hk H3), (Hx H4). reflexivity.
Qed.

Lemma keep_strip_good v : good v -> good (keep_strip v).
Proof.
  intros (H1 & H2 & H3). split; [|split];
    [apply keep_strip_float_free|apply keep_strip_ints_ok|apply keep_strip_dicts_ok]; assumption.
Qed.

Lemma keep_strip_rel v w : vrel v w -> vrel (keep_strip v) (keep_strip w).
Proof.
  intros H. induction H as [v|v w E Hv Hw|l l' _ IH|d d' _ IH] using vrel_ind2.
  - apply vrel_refl.
  - apply vrel_str; [rewrite !keep_strip_as_str; exact E|apply keep_strip_good; exact Hv|apply keep_strip_good; exact Hw].
  - cbn [keep_strip]. apply vrel_list. induction IH; cbn [map]; constructor; assumption.
  - cbn [keep_strip]. apply vrel_dict.
    induction IH as [|[k x] [k' x'] r r' [Hk Hx] _ IHr]; cbn [map]; constructor; [|exact IHr].
    split; assumption.
Qed.
#[export] Hint Resolve keep_strip_rel : rs.

Lemma cmd_ident_rel : cmd_rel cmd_ident.
Proof. cmd_rs cmd_ident. Qed.

Lemma arel_names' {A} (R : A -> A -> Prop) (m m' : list (str * A)) : arel R m m' ->
  map (fun kv : str * A => VStr (fst kv)) m' = map (fun kv => VStr (fst kv)) m.
Proof. apply Forall2_map_eq. intros a b [E _]. rewrite E. reflexivity. Qed.

Lemma spec_name_rel p p' : vrel p p' -> vrel (spec_name p) (spec_name p').
Proof. intros H. unfold spec_name. rs_tac. Qed.

Lemma info_default_rel a3 ps ps' : Forall2 vrel ps ps' ->
  rrel (opt_rel (opt_rel vrel))
   ((fix go (ps : list value) : res (option (option value)) :=
       match ps with
       | [] => Ok None
       | p0 :: r =>
           match v_as_list p0 with
           | inl m => err m
           | inr [] => Panic (lit "proc_default: empty spec")
           | inr (n :: rest) =>
               if str_eqb (as_str n) a3
               then match rest with [d] => Ok (Some (Some d)) | _ => Ok (Some None) end
               else go r
           end
       end) ps)
   ((fix go (ps : list value) : res (option (option value)) :=
       match ps with
       | [] => Ok None
       | p0 :: r =>
           match v_as_list p0 with
           | inl m => err m
           | inr [] => Panic (lit "proc_default: empty spec")
           | inr (n :: rest) =>
               if str_eqb (as_str n) a3
               then match rest with [d] => Ok (Some (Some d)) | _ => Ok (Some None) end
               else go r
           end
       end) ps').
Proof.
  induction 1 as [|x y r r' Hxy Hr IH]; [exact I|]. rs_tac.
Qed.
#[export] Hint Resolve info_default_rel : rs.

Lemma cmd_info_rel U : cmd_rel (cmd_info U).
Proof.
  cmd_rs cmd_info.
  - apply vrel_list. eapply Forall2_map2; [|eassumption]. exact spec_name_rel.
  - rewrite (arel_names' _ _ _ (strel_cmds _ _ H)). apply vrel_refl.
  - rewrite (arel_names' cmdrel (filter (fun kv => is_proc (snd kv)) (i_cmds st)) (filter (fun kv => is_proc (snd kv)) (i_cmds st'))); [apply vrel_refl|].
    apply arel_filter; [|apply H]. intros p q _ Hc. destruct Hc; reflexivity.
Qed.

Lemma dict_get_rel d d' k k' : Forall2 (pair_rel vrel) d d' -> vrel k k' ->
  opt_rel vrel (dict_get d k) (dict_get d' k').
Proof.
  intros Hd Hk. induction Hd as [|[a x] [a' x'] r r' [Ha Hx] Hr IH]; cbn [dict_get]; [exact I|].
  cbn [fst snd] in Ha, Hx. rewrite (v_eqb_rel _ _ _ _ Ha Hk). destruct (v_eqb a k); [exact Hx|exact IH].
Qed.

Lemma dict_insert_rel d d' k k' v v' : Forall2 (pair_rel vrel) d d' -> vrel k k' -> vrel v v' ->
  Forall2 (pair_rel vrel) (dict_insert d k v) (dict_insert d' k' v').
Proof.
  intros Hd Hk Hv. induction Hd as [|[a x] [a' x'] r r' [Ha Hx] Hr IH]; cbn [dict_insert].
  - constructor; [split; assumption|constructor].
  - cbn [fst snd] in Ha, Hx. rewrite (v_eqb_rel _ _ _ _ Ha Hk). destruct (v_eqb a k).
    + constructor; [split; assumption|exact Hr].
    + constructor; [split; assumption|exact IH].
Qed.

Lemma dict_remove_rel d d' k k' : Forall2 (pair_rel vrel) d d' -> vrel k k' ->
  Forall2 (pair_rel vrel) (dict_remove d k) (dict_remove d' k').
Proof.
  intros Hd Hk. induction Hd as [|[a x] [a' x'] r r' [Ha Hx] Hr IH]; cbn [dict_remove]; [constructor|].
  cbn [fst snd] in Ha, Hx. rewrite (v_eqb_rel _ _ _ _ Ha Hk). destruct (v_eqb a k); [exact Hr|].
  constructor; [split; assumption|exact IH].
Qed.

Lemma list_to_dict_acc_rel l l' : Forall2 vrel l l' -> forall acc acc', Forall2 (pair_rel vrel) acc acc' ->
  Forall2 (pair_rel vrel) (list_to_dict_acc l acc) (list_to_dict_acc l' acc').
Proof.
  intros H. revert l' H. induction l as [|x|k v r IH] using pair_ind; intros l' H acc acc' Hacc.
  - inversion H; subst. exact Hacc.
  - inversion H as [|? ? ? ? ? H2]; subst. inversion H2; subst. exact Hacc.
  - inversion H as [|? k' ? ? Hk H2]; subst. inversion H2 as [|? v' ? r' Hv H3]; subst.
    cbn [list_to_dict_acc]. apply IH; [exact H3|]. apply dict_insert_rel; assumption.
Qed.

Lemma list_to_dict_rel l l' : Forall2 vrel l l' -> Forall2 (pair_rel vrel) (list_to_dict l) (list_to_dict l').
Proof. intros H. apply list_to_dict_acc_rel; [exact H|constructor]. Qed.

Lemma fold_dict_remove_rel ks ks' : Forall2 vrel ks ks' -> forall d d', Forall2 (pair_rel vrel) d d' ->
  Forall2 (pair_rel vrel) (fold_left dict_remove ks d) (fold_left dict_remove ks' d').
Proof.
  induction 1 as [|k k' r r' Hk Hr IH]; intros d d' Hd; cbn [fold_left]; [exact Hd|].
  apply IH. apply dict_remove_rel; assumption.
Qed.

Lemma drel_map_fst d d' : Forall2 (pair_rel vrel) d d' -> Forall2 vrel (map fst d) (map fst d').
Proof. apply Forall2_map2. intros a b [H _]. exact H. Qed.
Lemma drel_map_snd d d' : Forall2 (pair_rel vrel) d d' -> Forall2 vrel (map snd d) (map snd d').
Proof. apply Forall2_map2. intros a b [_ H]. exact H. Qed.

#[export] Hint Resolve dict_get_rel dict_insert_rel dict_remove_rel list_to_dict_rel fold_dict_remove_rel
  drel_map_fst drel_map_snd : rs.

Lemma old_dict_rel r r' : rrel vrel r r' ->
  vrel match r with Ok o => o | _ => VDict [] end match r' with Ok o => o | _ => VDict [] end.
Proof. destruct r, r'; cbn [rrel]; try contradiction; auto with rs. Qed.

Lemma dict_exists_go_rel ks ks' : Forall2 vrel ks ks' -> forall v v', vrel v v' ->
  (fix go (v : value) (ks : list value) {struct ks} : bool :=
     match ks with
     | [] => true
     | k :: r => match v_as_dict v with
                 | inl _ => false
                 | inr d => match dict_get d k with Some x => go x r | None => false end
                 end
     end) v' ks' =
  (fix go (v : value) (ks : list value) {struct ks} : bool :=
     match ks with
     | [] => true
     | k :: r => match v_as_dict v with
                 | inl _ => false
                 | inr d => match dict_get d k with Some x => go x r | None => false end
                 end
     end) v ks.
Proof.
  induction 1 as [|k k' r r' Hk Hr IH]; intros v v' Hv; [reflexivity|].
  pose proof (v_as_dict_rel _ _ Hv) as D.
  destruct (v_as_dict v) as [m|d], (v_as_dict v') as [m'|d']; cbn [sum_rel] in D; try contradiction; [reflexivity|].
  pose proof (dict_get_rel _ _ _ _ D Hk) as G.
  destruct (dict_get d k), (dict_get d' k'); cbn [opt_rel] in G; try contradiction; [|reflexivity].
  apply IH. exact G.
Qed.

Lemma dict_get_go_rel ks ks' : Forall2 vrel ks ks' -> forall v v', vrel v v' ->
  rrel vrel
  ((fix go (v : value) (ks : list value) {struct ks} : res value :=
     match ks with
     | [] => Ok v
     | k :: r => match v_as_dict v with
                 | inl m => err m
                 | inr d => match dict_get d k with Some x => go x r | None => err (key_not_known k) end
                 end
     end) v ks)
  ((fix go (v : value) (ks : list value) {struct ks} : res value :=
     match ks with
     | [] => Ok v
     | k :: r => match v_as_dict v with
                 | inl m => err m
                 | inr d => match dict_get d k with Some x => go x r | None => err (key_not_known k) end
                 end
     end) v' ks').
Proof.
  induction 1 as [|k k' r r' Hk Hr IH]; intros v v' Hv; [exact Hv|]. unfold key_not_known. rs_tac.
Qed.

Lemma sub_dict_rel o o' : opt_rel vrel o o' ->
  vrel match o with Some x => x | None => VDict [] end match o' with Some x => x | None => VDict [] end.
Proof. destruct o, o'; cbn [opt_rel]; try contradiction; auto with rs. Qed.

Lemma dict_path_insert_rel ks ks' : Forall2 vrel ks ks' -> forall dv dv' v v', vrel dv dv' -> vrel v v' ->
  rrel vrel (dict_path_insert dv ks v) (dict_path_insert dv' ks' v').
Proof.
  induction 1 as [|k k' r r' Hk Hr IH]; intros dv dv' v v' Hd Hv; cbn [dict_path_insert]; [reflexivity|].
  rs_tac. apply IH; [|exact Hv]. apply sub_dict_rel. apply dict_get_rel; assumption.
Qed.

Lemma dict_path_remove_rel ks ks' : Forall2 vrel ks ks' -> forall dv dv', vrel dv dv' ->
  rrel vrel (dict_path_remove dv ks) (dict_path_remove dv' ks').
Proof.
  induction 1 as [|k k' r r' Hk Hr IH]; intros dv dv' Hd; cbn [dict_path_remove]; [reflexivity|].
  unfold key_not_known. rs_tac.
Qed.
#[export] Hint Resolve old_dict_rel dict_get_go_rel dict_path_insert_rel dict_path_remove_rel : rs.

Lemma cmd_dict_rel : cmd_rel cmd_dict.
Proof.
  cmd_rs cmd_dict.
  - rewrite (dict_exists_go_rel _ _ (Forall2_skipn _ 3 _ _ Ha) _ _ (arg_rel _ _ 2 Ha)). apply vrel_refl.
Qed.

Lemma compare_options_rel sub : forall n l l', (length l <= n)%nat -> Forall2 vrel l l' ->
  forall o, compare_options sub l' o = compare_options sub l o.
Proof.
  induction n as [|n IH]; intros l l' Hn H o.
  - destruct H; [reflexivity|cbn [length] in Hn; lia].
  - destruct H as [|k k' r r' Hk Hr]; [reflexivity|]. cbn [length] in Hn.
    cbn [compare_options]. rs_norm.
    destruct (str_eqb (as_str k) (lit "-nocase")); [apply IH; [lia|exact Hr]|].
    destruct (str_eqb (as_str k) (lit "-length")); [|reflexivity].
    destruct Hr as [|v v' r2 r2' Hv Hr2]; [reflexivity|]. rs_norm.
    destruct (v_as_int v) as [m|z]; [reflexivity|].
    apply IH; [cbn [length] in Hn; lia|exact Hr2].
Qed.

Lemma string_compare_rel U sub st st' argv argv' : strel st st' -> Forall2 vrel argv argv' ->
  mrel eqr (string_compare U sub st argv) (string_compare U sub st' argv').
Proof.
  intros H Ha. unfold string_compare. rs_norm.
  rewrite (compare_options_rel sub _ _ _ (le_n _) (Forall2_firstn _ (length argv - 4) _ _ (Forall2_skipn _ 2 _ _ Ha))).
  rs_tac.
Qed.
#[export] Hint Resolve string_compare_rel : rs.

Lemma drel_map_strs (f : str -> str) d d' : Forall2 (pair_rel vrel) d d' ->
  map (fun kv : value * value => (f (as_str (fst kv)), as_str (snd kv))) d' =
  map (fun kv : value * value => (f (as_str (fst kv)), as_str (snd kv))) d.
Proof.
  apply Forall2_map_eq. intros a b [H1 H2]. rewrite (vrel_as_str _ _ H1), (vrel_as_str _ _ H2). reflexivity.
Qed.

Lemma cmd_string_rel U : cmd_rel (cmd_string U).
Proof.
  cmd_rs cmd_string. destruct a1.
  - rewrite (drel_map_strs (u_lower U) _ _ P). apply vrel_refl.
  - rewrite (drel_map_strs (fun x => x) _ _ P). apply vrel_refl.
Qed.

(* ====================================================================================== *)
(* 5. The commands that evaluate scripts and expressions, against a related [rec]          *)
(* ====================================================================================== *)


Lemma return_options_rel r r' : rrel vrel r r' -> rrel vrel (return_options r) (return_options r').
Proof.
  intros H. destruct r as [v|e|p|], r' as [v'|e'|p'|]; cbn [rrel] in H; try contradiction; cbn [return_options];
    try subst; try (cbn; auto with rs; fail).
  unfold opt. rs_tac.
Qed.
#[export] Hint Resolve return_options_rel : rs.

Section WithRecRel.
Variable U : uni.
Variables rec rec' : recfns.
Hypothesis Heval : forall st st' v v', strel st st' -> vrel v v' ->
  mrel vrel (r_eval rec st v) (r_eval rec' st' v').
Hypothesis Hexpr : forall st st' v v', strel st st' -> vrel v v' ->
  mrel eqr (r_expr rec st v) (r_expr rec' st' v').
Hypothesis Hloop : r_loop rec' = r_loop rec.
Lemma Hexpr_v : forall st st' v v', strel st st' -> vrel v v' ->
  mrel vrel (r_expr rec st v) (r_expr rec' st' v').
Proof. intros. eapply mrel_weaken; [exact eqr_vrel|]. apply Hexpr; assumption. Qed.
#[local] Hint Resolve Heval Hexpr Hexpr_v : rs.

Lemma cmd_catch_rel : cmd_rel2 (cmd_catch rec) (cmd_catch rec').
Proof. cmd_rs cmd_catch. Qed.

Lemma cmd_expr_rel : cmd_rel2 (cmd_expr rec) (cmd_expr rec').
Proof. cmd_rs cmd_expr. Qed.

Lemma expr_bool_rel st st' e e' : strel st st' -> vrel e e' ->
  mrel eqr (expr_bool rec st e) (expr_bool rec' st' e').
Proof. intros H He. unfold expr_bool. rs_tac. Qed.
#[local] Hint Resolve expr_bool_rel : rs.

Lemma while_loop_rel n : forall st st' t t' b b', strel st st' -> vrel t t' -> vrel b b' ->
  mrel vrel (while_loop rec n st t b) (while_loop rec' n st' t' b').
Proof. induction n as [|k IH]; intros st st' t t' b b' H Ht Hb; cbn [while_loop]; rs_tac. Qed.
#[local] Hint Resolve while_loop_rel : rs.

Lemma cmd_while_rel : cmd_rel2 (cmd_while rec) (cmd_while rec').
Proof. intros st st' argv argv' H Ha; unfold cmd_while; rewrite Hloop; rs_tac. Qed.

Lemma for_loop_rel n : forall st st' t t' x x' b b', strel st st' -> vrel t t' -> vrel x x' -> vrel b b' ->
  mrel vrel (for_loop rec n st t x b) (for_loop rec' n st' t' x' b').
Proof. induction n as [|k IH]; intros st st' t t' x x' b b' H Ht Hx Hb; cbn [for_loop]; rs_tac. Qed.
#[local] Hint Resolve for_loop_rel : rs.

Lemma cmd_for_rel : cmd_rel2 (cmd_for rec) (cmd_for rec').
Proof. intros st st' argv argv' H Ha; unfold cmd_for; rewrite Hloop; rs_tac. Qed.

Lemma assign_vars_rel vars vars' : Forall2 vrel vars vars' -> forall st st' l l', strel st st' ->
  Forall2 vrel l l' -> mrel (Forall2 vrel) (assign_vars st vars l) (assign_vars st' vars' l').
Proof. induction 1 as [|v v' r r' Hv Hr IH]; intros st st' l l' H Hl; cbn [assign_vars]; rs_tac. Qed.
#[local] Hint Resolve assign_vars_rel : rs.

Lemma foreach_loop_rel n : forall st st' vars vars' l l' b b', strel st st' -> Forall2 vrel vars vars' ->
  Forall2 vrel l l' -> vrel b b' ->
  mrel vrel (foreach_loop rec n st vars l b) (foreach_loop rec' n st' vars' l' b').
Proof. induction n as [|k IH]; intros st st' vars vars' l l' b b' H Hv Hl Hb; cbn [foreach_loop]; rs_tac. Qed.
#[local] Hint Resolve foreach_loop_rel : rs.

Lemma cmd_foreach_rel : cmd_rel2 (cmd_foreach rec) (cmd_foreach rec').
Proof. cmd_rs cmd_foreach. Qed.

Lemma if_machine_rel n : forall st st' argv argv' argi wants, strel st st' -> Forall2 vrel argv argv' ->
  mrel vrel (if_machine rec n st argv argi wants) (if_machine rec' n st' argv' argi wants).
Proof. induction n as [|k IH]; intros st st' argv argv' argi wants H Ha; cbn [if_machine]; rs_tac. Qed.
#[local] Hint Resolve if_machine_rel : rs.

Lemma cmd_if_rel : cmd_rel2 (cmd_if rec) (cmd_if rec').
Proof. cmd_rs cmd_if. Qed.

Definition pwa_spec (p : value) : str :=
  match v_as_list p with
  | inr [n] => as_str n
  | inr (n :: _) => lit "?" ++ as_str n ++ lit "?"
  | _ => []
  end.
Fixpoint pwa_go (ps : list value) : str :=
  match ps with
  | [] => []
  | [p] => if str_eqb (as_str p) (lit "args") then lit " ?arg ...?" else [c_space] ++ pwa_spec p
  | p :: r => [c_space] ++ pwa_spec p ++ pwa_go r
  end.
Lemma proc_wrong_args_eq n ps :
  proc_wrong_args n ps = lit "wrong # args: should be """ ++ as_str n ++ pwa_go ps ++ lit """".
Proof. reflexivity. Qed.

Lemma pwa_spec_rel p p' : vrel p p' -> pwa_spec p' = pwa_spec p.
Proof.
  intros Hpp. unfold pwa_spec. pose proof (v_as_list_rel _ _ Hpp) as L.
  destruct (v_as_list p) as [m|l], (v_as_list p') as [m'|l']; cbn [sum_rel] in L; try contradiction; [reflexivity|].
  destruct L as [|x y t t' Hxy Ht]; [reflexivity|]. rs_norm. destruct Ht; reflexivity.
Qed.

Lemma pwa_go_rel ps ps' : Forall2 vrel ps ps' -> pwa_go ps' = pwa_go ps.
Proof.
  induction 1 as [|p p' r r' Hpp Hr IH]; [reflexivity|]. cbn [pwa_go].
  rewrite (pwa_spec_rel _ _ Hpp), IH. rs_norm. destruct Hr; reflexivity.
Qed.

Lemma proc_wrong_args_rel n n' ps ps' : vrel n n' -> Forall2 vrel ps ps' ->
  proc_wrong_args n' ps' = proc_wrong_args n ps.
Proof.
  intros Hn Hp. rewrite !proc_wrong_args_eq. rewrite (pwa_go_rel _ _ Hp). rs_norm. reflexivity.
Qed.

Lemma bind_parms_rel parms parms' : Forall2 vrel parms parms' ->
  forall st st' name name' all all' args args', strel st st' -> vrel name name' -> Forall2 vrel all all' ->
  Forall2 vrel args args' ->
  mrel eqr (bind_parms st name all parms args) (bind_parms st' name' all' parms' args').
Proof.
  induction 1 as [|p p' r r' Hp Hr IH]; intros st st' name name' all all' args args' H Hn Hall Hargs;
    cbn [bind_parms].
  - destruct Hargs; [rs_tac|]. rewrite (proc_wrong_args_rel _ _ _ _ Hn Hall). rs_tac.
  - rewrite (proc_wrong_args_rel _ _ _ _ Hn Hall). rs_tac.
Qed.
#[local] Hint Resolve bind_parms_rel : rs.

Lemma proc_boundary_rel st st' r r' : strel st st' -> rrel vrel r r' ->
  mrel vrel (proc_boundary st r) (proc_boundary st' r').
Proof.
  intros H Hr. unfold proc_boundary. rs_tac.
Qed.
#[local] Hint Resolve proc_boundary_rel : rs.

Lemma strel_push st st' : strel st st' -> strel (push_scope st) (push_scope st').
Proof. intros H. unfold push_scope. apply strel_set_scopes; [exact H|]. apply sc_push_rel. apply H. Qed.
Lemma strel_pop st st' : strel st st' -> strel (pop_scope st) (pop_scope st').
Proof. intros H. unfold pop_scope. apply strel_set_scopes; [exact H|]. apply sc_pop_rel. apply H. Qed.
#[local] Hint Resolve strel_push strel_pop : rs.

Lemma proc_execute_rel st st' parms parms' body body' argv argv' :
  strel st st' -> Forall2 vrel parms parms' -> vrel body body' -> Forall2 vrel argv argv' ->
  mrel vrel (proc_execute rec st parms body argv) (proc_execute rec' st' parms' body' argv').
Proof. intros H Hp Hb Ha. unfold proc_execute. rs_tac. Qed.

Lemma incr_errors_rel st st' : strel st st' -> strel (incr_errors st) (incr_errors st').
Proof.
  intros H. unfold incr_errors. rewrite (strel_test _ _ H). destruct (i_test st) as [[[t p] f] e].
  apply strel_set_test. exact H.
Qed.
#[local] Hint Resolve incr_errors_rel : rs.

Lemma swallow_rel m m' : mrel vrel m m' -> mrel eqr (swallow m) (swallow m').
Proof.
  intros [H1 H2]. destruct m as [st r], m' as [st' r']. cbn [fst snd] in *.
  destruct r, r'; cbn [rrel] in H2; try contradiction; cbn [swallow]; subst; auto with rs.
Qed.
#[local] Hint Resolve swallow_rel : rs.

Lemma run_test_rel st st' info : strel st st' -> mrel eqr (run_test rec st info) (run_test rec' st' info).
Proof. intros H. unfold run_test. rs_tac. Qed.
#[local] Hint Resolve run_test_rel : rs.

Lemma fancy_options_rel : forall n l l', (length l <= n)%nat -> Forall2 vrel l l' ->
  forall info, fancy_options l' info = fancy_options l info.
Proof.
  induction n as [|n IH]; intros l l' Hn H info.
  - destruct H; [reflexivity|cbn [length] in Hn; lia].
  - destruct H as [|o o' r r' Ho Hr]; [reflexivity|].
    destruct Hr as [|v v' r2 r2' Hv Hr2]; [reflexivity|].
    cbn [length] in Hn. cbn [fancy_options]. rs_norm.
    repeat match goal with |- (if ?b then _ else _) = _ => destruct b; [apply IH; [lia|exact Hr2]|] end.
    reflexivity.
Qed.

Lemma cmd_test_rel : cmd_rel2 (cmd_test rec) (cmd_test rec').
Proof.
  intros st st' argv argv' H Ha. unfold cmd_test, fancy_test, simple_test.
  rewrite (fancy_options_rel _ _ _ (le_n _) (Forall2_skipn _ 3 _ _ Ha)). rs_tac.
Qed.


Lemma run_native_rel n : cmd_rel2 (run_native U rec n) (run_native U rec' n).
Proof.
  destruct n; cbn [run_native];
    first [ exact cmd_append_rel | exact cmd_array_rel | exact cmd_assert_eq_rel | exact cmd_break_rel
          | exact cmd_catch_rel | exact cmd_continue_rel | exact cmd_dict_rel | exact cmd_error_rel
          | exact cmd_expr_rel | exact cmd_for_rel | exact cmd_foreach_rel | exact cmd_global_rel
          | exact cmd_if_rel | exact cmd_incr_rel | exact (cmd_info_rel U) | exact cmd_join_rel
          | exact cmd_lappend_rel | exact cmd_lindex_rel | exact cmd_list_rel | exact cmd_llength_rel
          | exact cmd_proc_rel | exact cmd_puts_rel | exact cmd_rename_rel | exact cmd_return_rel
          | exact cmd_set_rel | exact (cmd_string_rel U) | exact cmd_throw_rel | exact cmd_unset_rel
          | exact cmd_while_rel | exact cmd_recorder_rel | exact cmd_ident_rel | exact cmd_test_rel
          | (intros st st' argv argv' H Ha; rs_tac) ].
Qed.

End WithRecRel.

(* ====================================================================================== *)
(* 6. Eval.v: words and scripts, for a related executor                                    *)
(* ====================================================================================== *)

Definition exec_rel2 (exec exec' : executor) : Prop :=
  forall st st' c c' argv argv', strel st st' -> cmdrel c c' -> Forall2 vrel argv argv' ->
  mrel vrel (exec st c argv) (exec' st' c' argv').
Definition exec_rel (exec : executor) : Prop := exec_rel2 exec exec.

Lemma is_proc_rel c c' : cmdrel c c' -> is_proc c' = is_proc c.
Proof. intros []; reflexivity. Qed.

Section WithExecRel.
Variables exec exec' : executor.
Hypothesis Hexec : exec_rel2 exec exec'.
#[local] Hint Resolve Hexec : rs.

Definition ew_rel (ew ew' : interp -> word -> interp * res value) (w : word) : Prop :=
  forall st st', strel st st' -> mrel vrel (ew st w) (ew' st' w).
Definition ew_rel2 (ew ew' : interp -> word -> interp * res value) (w : word) : Prop :=
  ew_rel ew ew' w /\ (forall w', w = WExpand w' -> ew_rel ew ew' w').

Lemma eval_words_with_rel ew ew' ws : Forall (ew_rel2 ew ew') ws ->
  forall st st' acc acc', strel st st' -> Forall2 vrel acc acc' ->
  mrel (Forall2 vrel) (eval_words_with ew st ws acc) (eval_words_with ew' st' ws acc').
Proof.
  induction 1 as [|w r [Hw Hw'] Hr IH]; intros st st' acc acc' H Hacc; cbn [eval_words_with]; [rs_tac|].
  destruct w as [s|n|n i|cmds|ws|w1|s];
    try solve [assert (P0 := Hw st st' H); rs_tac].
  assert (P0 := Hw' w1 eq_refl st st' H). rs_tac.
Qed.

Lemma command_outcome_rel st st' c c' name argv argv' e e' :
  strel st st' -> cmdrel c c' -> Forall2 vrel argv argv' -> xrel e e' ->
  mrel vrel (command_outcome st c name argv e) (command_outcome st' c' name argv' e').
Proof.
  intros H Hc Ha He. unfold command_outcome. rewrite (is_proc_rel _ _ Hc). rs_tac.
Qed.
#[local] Hint Resolve command_outcome_rel : rs.

Lemma eval_cmds_with_rel ew ew' cmds : Forall (Forall (ew_rel2 ew ew')) cmds ->
  forall st st' r r', strel st st' -> vrel r r' ->
  mrel vrel (eval_cmds_with exec ew st cmds r) (eval_cmds_with exec' ew' st' cmds r').
Proof.
  induction 1 as [|ws rest Hws Hr IH]; intros st st' r r' H Hres; cbn [eval_cmds_with]; [rs_tac|].
  assert (Hw := eval_words_with_rel ew ew' ws Hws).
  rs_tac.
Qed.

Lemma eval_word_rel2 w : ew_rel2 (eval_word exec) (eval_word exec') w.
Proof.
  induction w as [s|n|n i IHi|cmds IHc|ws IHw|w IHw|s] using CtlFacts.word_ind2;
    (split; [|intros w' Hw'; try discriminate Hw']).
  - intros st st' H. cbn [eval_word]. rs_tac.
  - intros st st' H. cbn [eval_word]. rs_tac.
  - intros st st' H. cbn [eval_word]. destruct IHi as [IHi _]. assert (P0 := IHi st st' H). rs_tac.
  - intros st st' H. cbn [eval_word]. apply eval_cmds_with_rel; auto with rs.
  - intros st st' H. cbn [eval_word]. assert (Hw := eval_words_with_rel _ _ ws IHw). unfold concat_values. rs_tac.
  - intros st st' H. cbn [eval_word]. rs_tac.
  - inversion Hw'; subst. exact (proj1 IHw).
  - intros st st' H. cbn [eval_word]. rs_tac.
Qed.

Lemma eval_word_rel st st' w : strel st st' -> mrel vrel (eval_word exec st w) (eval_word exec' st' w).
Proof. intros H. apply (proj1 (eval_word_rel2 w)). exact H. Qed.

Lemma eval_script_rel st st' sc : strel st st' -> mrel vrel (eval_script exec st sc) (eval_script exec' st' sc).
Proof.
  intros H. unfold eval_script, eval_cmds. apply eval_cmds_with_rel; [|exact H|apply vrel_refl].
  apply Forall_forall. intros ws _. apply Forall_forall. intros w _. apply eval_word_rel2.
Qed.

End WithExecRel.

(* ====================================================================================== *)
(* 7. Expr.v: the expression evaluator; datum results are EQUAL on both sides              *)
(* ====================================================================================== *)
Local Open Scope Z_scope.

Section ExprRel.
Variable ia ib : char -> bool.
Variables exec exec' : executor.
Hypothesis Hexec : exec_rel2 exec exec'.
Variable orig : str.

Local Notation GV := (expr_get_value ia ib exec orig).
Local Notation LOOP := (expr_loop ia ib exec orig).
Local Notation LEX := (expr_lex ia ib exec orig).
Local Notation MF := (expr_math_func ia ib exec orig).
Local Notation GV' := (expr_get_value ia ib exec' orig).
Local Notation LOOP' := (expr_loop ia ib exec' orig).
Local Notation LEX' := (expr_lex ia ib exec' orig).
Local Notation MF' := (expr_math_func ia ib exec' orig).

Definition GV_rel f := forall st st' info pr, strel st st' -> mrel eqr (GV f st info pr) (GV' f st' info pr).
Definition LOOP_rel f := forall st st' info pr v, strel st st' -> mrel eqr (LOOP f st info pr v) (LOOP' f st' info pr v).
Definition LEX_rel f := forall st st' info, strel st st' -> mrel eqr (LEX f st info) (LEX' f st' info).
Definition MF_rel f := forall st st' info name, strel st st' -> mrel eqr (MF f st info name) (MF' f st' info name).

#[local] Hint Resolve Hexec : rs.
Lemma Hew st st' w : strel st st' -> mrel vrel (eval_word exec st w) (eval_word exec' st' w).
Proof. apply eval_word_rel. exact Hexec. Qed.
Lemma Hes st st' sc : strel st st' -> mrel vrel (eval_script exec st sc) (eval_script exec' st' sc).
Proof. apply eval_script_rel. exact Hexec. Qed.
#[local] Hint Resolve Hew Hes : rs.

Lemma lex_value_of_rel info st st' rv rv' rest b : strel st st' -> rrel vrel rv rv' ->
  mrel eqr (lex_value_of info st rv rest b) (lex_value_of info st' rv' rest b).
Proof.
  intros H Hr. unfold lex_value_of. destruct b; rs_tac.
Qed.
#[local] Hint Resolve lex_value_of_rel : rs.

Lemma lex_step f : MF_rel f -> LEX_rel (S f).
Proof.
  intros IHmf st st' info H. rewrite !expr_lex_S. cbv zeta. rs_tac.
Qed.

Lemma mf_step f : GV_rel f -> LEX_rel f -> MF_rel (S f).
Proof.
  intros IHgv IHlex st st' info name H. rewrite !expr_math_func_S. rs_tac.
Qed.

Lemma gv_first_rel f : GV_rel f -> forall st st' v0 i1, strel st st' ->
  mrel eqr (gv_first ia ib exec orig f st v0 i1) (gv_first ia ib exec' orig f st' v0 i1).
Proof. intros IHgv st st' v0 i1 H. unfold gv_first. rs_tac. Qed.

Lemma gv_step f : GV_rel f -> LOOP_rel f -> LEX_rel f -> GV_rel (S f).
Proof.
  intros IHgv IHloop IHlex st st' info pr H. rewrite !expr_get_value_S.
  pose proof (gv_first_rel f IHgv) as Hfirst. rs_tac.
Qed.

Lemma loop_after_rel f : LOOP_rel f -> forall op pr st st' i2 v1 v2, strel st st' ->
  mrel eqr (loop_after ia ib exec orig f op pr st i2 v1 v2) (loop_after ia ib exec' orig f op pr st' i2 v1 v2).
Proof. intros IHloop op pr st st' i2 v1 v2 H. unfold loop_after. rs_tac. Qed.

Lemma loop_step f : GV_rel f -> LOOP_rel f -> LOOP_rel (S f).
Proof.
  intros IHgv IHloop st st' info pr v H. rewrite !expr_loop_S. cbv zeta.
  pose proof (loop_after_rel f IHloop) as Hafter.
  unfold loop_plain, loop_skip_right, loop_questy_true, loop_questy_false. rs_tac.
Qed.

Lemma expr_all_rel fuel : GV_rel fuel /\ LOOP_rel fuel /\ LEX_rel fuel /\ MF_rel fuel.
Proof.
  induction fuel as [|f (IH1 & IH2 & IH3 & IH4)].
  - split; [|split; [|split]]; intro; intros; cbn; rs_tac.
  - assert (L : LEX_rel (S f)) by (apply lex_step; assumption).
    split; [|split; [|split]].
    + apply gv_step; assumption.
    + apply loop_step; assumption.
    + exact L.
    + apply mf_step; assumption.
Qed.

End ExprRel.

Lemma expr_eval_rel alnum alpha exec exec' : exec_rel2 exec exec' ->
  forall st st' e e', strel st st' -> as_str e' = as_str e ->
  mrel eqr (expr_eval alnum alpha exec st e) (expr_eval alnum alpha exec' st' e').
Proof.
  intros Hexec st st' e e' H He. unfold expr_eval. rewrite He.
  assert (P0 := proj1 (expr_all_rel alnum alpha exec exec' Hexec (as_str e) (expr_fuel (as_str e)))
                  st st' {| e_rest := as_str e; e_token := -1; e_noeval := 0 |} (-1) H).
  rs_tac.
Qed.


(* ====================================================================================== *)
(* 8. Interp.v: the knot                                                                   *)
(* ====================================================================================== *)
Local Open Scope N_scope.

Lemma set_global_error_data_rel st st' e e' : strel st st' -> xrel e e' ->
  mrel eqr (set_global_error_data st e) (set_global_error_data st' e').
Proof. intros H He. unfold set_global_error_data. rs_tac. Qed.
#[export] Hint Resolve set_global_error_data_rel : rs.

Lemma toplevel_boundary_rel r r' : rrel vrel r r' -> rrel vrel (toplevel_boundary r) (toplevel_boundary r').
Proof.
  intros H. destruct r as [v|e|p|], r' as [v'|e'|p'|]; cbn [rrel] in H; try contradiction;
    cbn [toplevel_boundary]; try exact H.
  assert (X : xrel match x_code e with CReturn => decrement_level e | _ => e end
                   match x_code e' with CReturn => decrement_level e' | _ => e' end).
  { rewrite (xrel_code _ _ H). destruct (x_code e); auto with rs. }
  revert X. generalize (match x_code e with CReturn => decrement_level e | _ => e end).
  generalize (match x_code e' with CReturn => decrement_level e' | _ => e' end).
  intros e1' e1 X. rs_tac.
Qed.
#[export] Hint Resolve toplevel_boundary_rel : rs.

Section InterpRel.
Variable U : uni.

Lemma eval_value_with_rel exec exec' : exec_rel2 exec exec' ->
  forall st st' v v', strel st st' -> as_str v' = as_str v ->
  mrel vrel (eval_value_with U exec st v) (eval_value_with U exec' st' v').
Proof.
  intros Hexec st st' v v' H Hv. unfold eval_value_with. rewrite Hv.
  pose proof (eval_script_rel exec exec' Hexec) as Hs.
  assert (H1 : strel (set_levels st (i_levels st + 1)) (set_levels st' (i_levels st' + 1)))
    by (rewrite (strel_levels _ _ H); apply strel_set_levels; exact H).
  revert H1. generalize (set_levels st (i_levels st + 1)) (set_levels st' (i_levels st' + 1)).
  intros st1 st1' H1. cbv zeta. rs_norm.
  destruct (i_limit st1 <? i_levels st1); [rs_tac|].
  destruct (parse (u_alnum U) (as_str v)) as [sc rest|m|]; [|rs_tac|rs_tac].
  pose proof (Hs st1 st1' sc H1) as P. revert P.
  generalize (eval_script exec st1 sc) (eval_script exec' st1' sc). intros [st2 r] [st2' r'] [P1 P2].
  cbn [fst snd] in P1, P2.
  assert (H3 : strel (set_levels st2 (i_levels st2 - 1)) (set_levels st2' (i_levels st2' - 1)))
    by (rewrite (strel_levels _ _ P1); apply strel_set_levels; exact P1).
  revert H3. generalize (set_levels st2 (i_levels st2 - 1)) (set_levels st2' (i_levels st2' - 1)).
  intros st3 st3' H3. rs_norm.
  assert (R : rrel vrel (if i_levels st3 =? 0 then toplevel_boundary r else r)
                        (if i_levels st3 =? 0 then toplevel_boundary r' else r')).
  { destruct (i_levels st3 =? 0); auto with rs. }
  revert R. generalize (if i_levels st3 =? 0 then toplevel_boundary r else r)
                       (if i_levels st3 =? 0 then toplevel_boundary r' else r').
  intros q q' R. rs_tac.
Qed.

Lemma expr_with_rel exec exec' : exec_rel2 exec exec' ->
  forall st st' e e', strel st st' -> as_str e' = as_str e ->
  mrel eqr (expr_with U exec st e) (expr_with U exec' st' e').
Proof.
  intros Hexec st st' e e' H He. unfold expr_with.
  assert (P0 := expr_eval_rel (u_alnum U) (u_alpha U) exec exec' Hexec st st' e e' H He).
  rs_tac.
Qed.

(* one level of the knot, for two related executors *)
Definition knot_level (ex : executor) (n : nat) : executor :=
  fun st cmd argv =>
    let rec := {| r_eval := eval_value_with U ex; r_expr := expr_with U ex; r_loop := n |} in
    match cmd with
    | CmdNative nat _ => run_native U rec nat st argv
    | CmdProc parms body => proc_execute rec st parms body argv
    end.

Lemma knot_level_rel ex ex' n : exec_rel2 ex ex' -> exec_rel2 (knot_level ex n) (knot_level ex' n).
Proof.
  intros IH st st' c c' argv argv' H Hc Ha. unfold knot_level.
  set (rec := {| r_eval := eval_value_with U ex; r_expr := expr_with U ex; r_loop := n |}).
  set (rec' := {| r_eval := eval_value_with U ex'; r_expr := expr_with U ex'; r_loop := n |}).
  assert (Heval : forall st st' v v', strel st st' -> vrel v v' ->
            mrel vrel (r_eval rec st v) (r_eval rec' st' v')).
  { intros s s' v v' Hs Hv. cbn [r_eval rec rec']. apply eval_value_with_rel; [exact IH|exact Hs|].
    apply vrel_as_str. exact Hv. }
  assert (Hexpr : forall st st' v v', strel st st' -> vrel v v' ->
            mrel eqr (r_expr rec st v) (r_expr rec' st' v')).
  { intros s s' v v' Hs Hv. cbn [r_expr rec rec']. apply expr_with_rel; [exact IH|exact Hs|].
    apply vrel_as_str. exact Hv. }
  destruct Hc as [nat ctx|p b p' b' Hp Hb].
  - apply (run_native_rel U rec rec'); try assumption. reflexivity.
  - apply (proc_execute_rel rec rec'); assumption.
Qed.

Lemma run_exec_S fuel : run_exec U (S fuel) = knot_level (run_exec U fuel) (S fuel).
Proof. reflexivity. Qed.

(* THE FUNDAMENTAL LEMMA *)
Theorem run_exec_rel fuel : exec_rel (run_exec U fuel).
Proof.
  induction fuel as [|f IH].
  - intros st st' c c' argv argv' H Hc Ha. split; [exact H|exact I].
  - rewrite run_exec_S. apply knot_level_rel. exact IH.
Qed.

End InterpRel.
Print Assumptions run_exec_rel.



(* ====================================================================================== *)
(* 9. Corollaries                                                                          *)
(* ====================================================================================== *)

(* ---------- the relations are reflexive: every state is related to itself ---------- *)
Lemma varrel_refl x : varrel x x.
Proof. destruct x; constructor; [apply vrel_refl|apply arel_refl; exact vrel_refl]. Qed.

Lemma ssrel_refl ss : ssrel ss ss.
Proof. apply Forall2_refl. intros sc. apply arel_refl. exact varrel_refl. Qed.

Lemma strel_refl st : strel st st.
Proof. split; [apply cmds_refl|]. split; [apply ssrel_refl|]. repeat split; reflexivity. Qed.

Section Corollaries.
Variable U : uni.

(* two values with the same string are the same script, in related states *)
Theorem eval_rel fuel st st' v w : strel st st' -> as_str v = as_str w ->
  mrel vrel (eval_value U fuel st v) (eval_value U fuel st' w).
Proof.
  intros H E. unfold eval_value. apply eval_value_with_rel; [apply run_exec_rel|exact H|symmetry; exact E].
Qed.

(* ... and the same expression; the result VALUES are then identical *)
Theorem expr_rel fuel st st' v w : strel st st' -> as_str v = as_str w ->
  mrel eqr (expr U fuel st v) (expr U fuel st' w).
Proof.
  intros H E. unfold expr. apply expr_with_rel; [apply run_exec_rel|exact H|symmetry; exact E].
Qed.

Theorem eval_str_rel fuel st st' s : strel st st' -> mrel vrel (eval U fuel st s) (eval U fuel st' s).
Proof. intros H. unfold eval. apply eval_rel; [exact H|reflexivity]. Qed.

End Corollaries.
Print Assumptions eval_rel.
Print Assumptions expr_rel.

(* ---------- what related outcomes have in common: everything a script can observe ---------- *)

(* apply [f] to every value stored in a variable / scope stack / command / state *)
Definition map_var (f : value -> value) (x : var) : var :=
  match x with
  | VarScalar v => VarScalar (f v)
  | VarArray m => VarArray (map (fun kv => (fst kv, f (snd kv))) m)
  | other => other
  end.
Definition map_scopes (f : value -> value) (ss : scopes) : scopes :=
  map (map (fun kv => (fst kv, map_var f (snd kv)))) ss.
Definition map_cmd (f : value -> value) (c : command) : command :=
  match c with
  | CmdProc p b => CmdProc (map f p) (f b)
  | other => other
  end.
Definition map_state (f : value -> value) (st : interp) : interp :=
  set_cmds (set_scopes st (map_scopes f (i_scopes st)))
           (map (fun kv => (fst kv, map_cmd f (snd kv))) (i_cmds st)).

(* erase every representation: keep the strings *)
Definition strip_var := map_var strip.
Definition strip_scopes := map_scopes strip.
Definition strip_cmd := map_cmd strip.
Definition strip_state := map_state strip.
Definition strip_ed (d : errdata) : errdata :=
  {| ed_code := strip (ed_code d); ed_trace := ed_trace d; ed_new := ed_new d |}.
Definition strip_exn (e : exn) : exn :=
  {| x_code := x_code e; x_value := strip (x_value e); x_level := x_level e; x_next := x_next e;
     x_data := option_map strip_ed (x_data e) |}.
Definition strip_res (r : res value) : res value :=
  match r with
  | Ok v => Ok (strip v)
  | Err e => Err (strip_exn e)
  | other => other
  end.

Lemma vrel_strip v w : vrel v w -> strip w = strip v.
Proof. intros H. unfold strip. rewrite (vrel_as_str _ _ H). reflexivity. Qed.

Lemma arel_strip_vals (m m' : list (str * value)) : arel vrel m m' ->
  map (fun kv => (fst kv, strip (snd kv))) m' = map (fun kv => (fst kv, strip (snd kv))) m.
Proof. apply Forall2_map_eq. intros a b [E H]. rewrite E, (vrel_strip _ _ H). reflexivity. Qed.

Lemma varrel_strip x y : varrel x y -> strip_var y = strip_var x.
Proof.
  intros []; unfold strip_var; cbn [map_var]; try reflexivity.
  - rewrite (vrel_strip _ _ H). reflexivity.
  - rewrite (arel_strip_vals _ _ H). reflexivity.
Qed.

Lemma ssrel_strip ss ss' : ssrel ss ss' -> strip_scopes ss' = strip_scopes ss.
Proof.
  unfold strip_scopes, map_scopes. apply Forall2_map_eq. intros a b H. revert H. apply Forall2_map_eq.
  intros p q [E H]. fold strip_var. rewrite E, (varrel_strip _ _ H). reflexivity.
Qed.

Lemma cmdrel_strip c c' : cmdrel c c' -> strip_cmd c' = strip_cmd c.
Proof.
  intros [|p b p' b' Hp Hb]; unfold strip_cmd; cbn [map_cmd]; [reflexivity|].
  rewrite (vrel_strip _ _ Hb). f_equal. revert Hp. apply Forall2_map_eq. exact vrel_strip.
Qed.

Theorem strel_strip st st' : strel st st' -> strip_state st' = strip_state st.
Proof.
  intros (H1 & H2 & H3 & H4 & H5 & H6 & H7 & H8). unfold strip_state, map_state, set_cmds, set_scopes.
  cbn [i_cmds i_scopes i_limit i_levels i_ctx i_last_ctx i_trace i_test].
  fold strip_scopes. rewrite (ssrel_strip _ _ H2), H3, H4, H5, H6, H7, H8. f_equal.
  revert H1. apply Forall2_map_eq. intros p q [E H]. fold strip_cmd. rewrite E, (cmdrel_strip _ _ H). reflexivity.
Qed.

Lemma xrel_strip e e' : xrel e e' -> strip_exn e' = strip_exn e.
Proof.
  intros (H1 & H2 & H3 & H4 & H5). unfold strip_exn. rewrite H1, (vrel_strip _ _ H2), H3, H4. f_equal.
  destruct (x_data e) as [d|], (x_data e') as [d'|]; cbn [opt_rel] in H5; try contradiction; [|reflexivity].
  destruct H5 as (A & B & C). cbn [option_map]. unfold strip_ed. rewrite (vrel_strip _ _ A), B, C. reflexivity.
Qed.

Theorem rrel_strip r r' : rrel vrel r r' -> strip_res r' = strip_res r.
Proof.
  destruct r, r'; cbn [rrel]; try contradiction; cbn [strip_res]; intros H.
  - rewrite (vrel_strip _ _ H). reflexivity.
  - rewrite (xrel_strip _ _ H). reflexivity.
  - rewrite H. reflexivity.
  - reflexivity.
Qed.

(* related outcomes are IDENTICAL up to representations: same final state and same result once
   every value is replaced by its string *)
Theorem mrel_observable m m' : mrel vrel m m' ->
  strip_state (fst m') = strip_state (fst m) /\ strip_res (snd m') = strip_res (snd m).
Proof. intros [H1 H2]. split; [apply strel_strip; exact H1|apply rrel_strip; exact H2]. Qed.

Print Assumptions mrel_observable.

Corollary mrel_out_str m m' : mrel vrel m m' -> out_str m' = out_str m.
Proof.
  intros [_ H]. unfold out_str. destruct (snd m), (snd m'); cbn [rrel] in H; try contradiction; try reflexivity.
  - rewrite (vrel_as_str _ _ H). reflexivity.
  - rewrite (vrel_as_str _ _ (xrel_value _ _ H)). reflexivity.
Qed.

(* ---------- the checker's identity command that KEEPS floats ---------- *)

(* a fresh value with the same string, except that a float keeps its type; lifted through typed
   lists and dictionaries (so a float inside a list is kept as well) *)
Fixpoint ident_keepfloat (v : value) : value :=
  match v with
  | VFlt _ => v
  | VList l => VList (map ident_keepfloat l)
  | VDict d => VDict (map (fun kv => match kv with (k, x) => (ident_keepfloat k, ident_keepfloat x) end) d)
  | _ => VStr (as_str v)
  end.

(* the same, but a container without floats inside becomes one plain string *)
Fixpoint ident_min (v : value) : value :=
  match v with
  | VFlt _ => v
  | VList l => if float_free v then VStr (as_str v) else VList (map ident_min l)
  | VDict d => if float_free v then VStr (as_str v)
               else VDict (map (fun kv => match kv with (k, x) => (ident_min k, ident_min x) end) d)
  | _ => VStr (as_str v)
  end.

Lemma ints_ok_list_inv l : ints_ok (VList l) = true -> Forall (fun x => ints_ok x = true) l.
Proof. cbn [ints_ok]. rewrite forallb_forall, Forall_forall. auto. Qed.

Lemma ints_ok_dict_inv d : ints_ok (VDict d) = true ->
  Forall (fun kv => ints_ok (fst kv) = true /\ ints_ok (snd kv) = true) d.
Proof.
  cbn [ints_ok]. rewrite forallb_forall, Forall_forall. intros H [k x] Hx. specialize (H _ Hx).
  cbn beta iota in H. apply andb_true_iff in H. exact H.
Qed.

Lemma dicts_ok_list_inv l : dicts_ok (VList l) = true -> Forall (fun x => dicts_ok x = true) l.
Proof. cbn [dicts_ok]. rewrite forallb_forall, Forall_forall. auto. Qed.

Lemma dicts_ok_dict_inv d : dicts_ok (VDict d) = true ->
  Forall (fun kv => dicts_ok (fst kv) = true /\ dicts_ok (snd kv) = true) d.
Proof.
  cbn [dicts_ok]. intros H. apply andb_true_iff in H. destruct H as [_ H]. revert H.
  rewrite forallb_forall, Forall_forall. intros H [k x] Hx. specialize (H _ Hx).
  cbn beta iota in H. apply andb_true_iff in H. exact H.
Qed.

(* THE lemma asked for: a value and its identity copy are related *)
Theorem vrel_ident_keepfloat v : ints_ok v = true -> vrel v (ident_keepfloat v).
Proof.
  induction v as [s|z|f|b|l IH|d IH] using value_ind2; intros Hi; cbn [ident_keepfloat].
  - apply vrel_refl.
  - apply vrel_str; [reflexivity| |apply good_str]. repeat split. exact Hi.
  - apply vrel_refl.
  - apply vrel_str; [reflexivity| |apply good_str]. repeat split.
  - apply vrel_list. apply ints_ok_list_inv in Hi.
    induction IH as [|x r Hx Hr IHr]; cbn [map]; constructor; inversion Hi; subst; auto.
  - apply vrel_dict. apply ints_ok_dict_inv in Hi.
    induction IH as [|[k x] r [Hk Hx] Hr IHr]; cbn [map]; constructor; inversion Hi as [|? ? [A B] C]; subst; auto.
    split; cbn [fst snd] in *; auto.
Qed.

Corollary ident_keepfloat_as_str v : ints_ok v = true -> as_str (ident_keepfloat v) = as_str v.
Proof. intros H. apply vrel_as_str. apply vrel_ident_keepfloat. exact H. Qed.

(* a float-free well-formed value is related to its plain string copy *)
Theorem vrel_strip_good v : good v -> vrel v (strip v).
Proof. intros H. apply vrel_str; [reflexivity|exact H|apply good_str]. Qed.

Theorem vrel_ident_min v : ints_ok v = true -> dicts_ok v = true -> vrel v (ident_min v).
Proof.
  induction v as [s|z|f|b|l IH|d IH] using value_ind2; intros Hi Hd; cbn [ident_min].
  - apply vrel_refl.
  - apply vrel_str; [reflexivity| |apply good_str]. repeat split. exact Hi.
  - apply vrel_refl.
  - apply vrel_str; [reflexivity| |apply good_str]. repeat split.
  - destruct (float_free (VList l)) eqn:F; [apply vrel_strip_good; repeat split; assumption|].
    apply vrel_list. apply ints_ok_list_inv in Hi. apply dicts_ok_list_inv in Hd. clear F.
    induction IH as [|x r Hx Hr IHr]; cbn [map]; constructor; inversion Hi; inversion Hd; subst; auto.
  - destruct (float_free (VDict d)) eqn:F; [apply vrel_strip_good; repeat split; assumption|].
    apply vrel_dict. apply ints_ok_dict_inv in Hi. apply dicts_ok_dict_inv in Hd. clear F.
    induction IH as [|[k x] r [Hk Hx] Hr IHr]; cbn [map]; constructor;
      inversion Hi as [|? ? [A B] C]; inversion Hd as [|? ? [A' B'] C']; subst; auto.
    split; cbn [fst snd] in *; auto.
Qed.

(* the model's own [ident] with the keep-integral-floats switch relates its results on related
   arguments (it does NOT relate a value to its copy: it strips floats such as 2.5) *)
Theorem keep_strip_related v w : vrel v w -> vrel (keep_strip v) (keep_strip w).
Proof. apply keep_strip_rel. Qed.

(* ---------- replacing every value of a state by a related copy ---------- *)
Definition var_all (P : value -> Prop) (x : var) : Prop :=
  match x with
  | VarScalar v => P v
  | VarArray m => Forall (fun kv => P (snd kv)) m
  | _ => True
  end.
Definition cmd_all (P : value -> Prop) (c : command) : Prop :=
  match c with
  | CmdProc p b => Forall P p /\ P b
  | _ => True
  end.
Definition state_all (P : value -> Prop) (st : interp) : Prop :=
  Forall (Forall (fun kv => var_all P (snd kv))) (i_scopes st) /\
  Forall (fun kv => cmd_all P (snd kv)) (i_cmds st).

Section MapState.
Variable P : value -> Prop.
Variable f : value -> value.
Hypothesis Hf : forall v, P v -> vrel v (f v).

Lemma Forall2_map_r {A} (R : A -> A -> Prop) (Q : A -> Prop) (g : A -> A) l :
  (forall a, Q a -> R a (g a)) -> Forall Q l -> Forall2 R l (map g l).
Proof. intros H. induction 1; cbn [map]; constructor; auto. Qed.

Lemma map_var_rel x : var_all P x -> varrel x (map_var f x).
Proof.
  destruct x as [v|m|n|]; cbn [var_all map_var]; intros H; constructor; [apply Hf; exact H|].
  apply (Forall2_map_r _ (fun kv => P (snd kv))); [|exact H]. intros [k v] Hv. split; [reflexivity|apply Hf; exact Hv].
Qed.

Lemma map_cmd_rel c : cmd_all P c -> cmdrel c (map_cmd f c).
Proof.
  destruct c as [n ctx|p b]; cbn [cmd_all map_cmd]; [constructor|]. intros [Hp Hb].
  constructor; [|apply Hf; exact Hb]. apply (Forall2_map_r _ P); assumption.
Qed.

Theorem map_state_rel st : state_all P st -> strel st (map_state f st).
Proof.
  intros [Hs Hc]. unfold map_state, set_cmds, set_scopes. split; [|split; [|repeat split; reflexivity]];
    cbn [i_cmds i_scopes].
  - apply (Forall2_map_r _ (fun kv => cmd_all P (snd kv))); [|exact Hc].
    intros [k c] H. split; [reflexivity|apply map_cmd_rel; exact H].
  - unfold map_scopes. apply (Forall2_map_r _ (Forall (fun kv => var_all P (snd kv)))); [|exact Hs].
    intros sc Hsc. apply (Forall2_map_r _ (fun kv => var_all P (snd kv))); [|exact Hsc].
    intros [k x] H. split; [reflexivity|apply map_var_rel; exact H].
Qed.

Lemma map_args_rel l : Forall P l -> Forall2 vrel l (map f l).
Proof. apply Forall2_map_r. exact Hf. Qed.
End MapState.

Definition int_ok (v : value) : Prop := ints_ok v = true.

Section C13.
Variable U : uni.

(* C13 for one command invocation: pass every argument, every stored variable value and every
   procedure definition through the float-keeping identity; nothing observable changes *)
Theorem C13_invocation fuel st cmd argv :
  state_all int_ok st -> cmd_all int_ok cmd -> Forall int_ok argv ->
  mrel vrel (run_exec U fuel st cmd argv)
            (run_exec U fuel (map_state ident_keepfloat st) (map_cmd ident_keepfloat cmd)
                      (map ident_keepfloat argv)).
Proof.
  intros Hs Hc Ha. apply run_exec_rel.
  - apply (map_state_rel int_ok); [exact vrel_ident_keepfloat|exact Hs].
  - apply (map_cmd_rel int_ok); [exact vrel_ident_keepfloat|exact Hc].
  - apply (map_args_rel int_ok); [exact vrel_ident_keepfloat|exact Ha].
Qed.

(* C13 for a whole script: the script value itself and the whole state pass through the identity *)
Theorem C13_script fuel st v :
  state_all int_ok st -> int_ok v ->
  mrel vrel (eval_value U fuel st v) (eval_value U fuel (map_state ident_keepfloat st) (ident_keepfloat v)).
Proof.
  intros Hs Hv. apply eval_rel.
  - apply (map_state_rel int_ok); [exact vrel_ident_keepfloat|exact Hs].
  - symmetry. apply ident_keepfloat_as_str. exact Hv.
Qed.

(* and what that means for an observer: same result string / error, same final variables as strings *)
Corollary C13_script_observable fuel st v :
  state_all int_ok st -> int_ok v ->
  let m := eval_value U fuel st v in
  let m' := eval_value U fuel (map_state ident_keepfloat st) (ident_keepfloat v) in
  strip_state (fst m') = strip_state (fst m) /\ strip_res (snd m') = strip_res (snd m) /\
  out_str m' = out_str m.
Proof.
  intros Hs Hv m m'. pose proof (C13_script fuel st v Hs Hv) as R.
  destruct (mrel_observable _ _ R) as [A B]. split; [exact A|split; [exact B|apply mrel_out_str; exact R]].
Qed.

(* a state without floats: every value may be replaced by its plain string *)
Theorem C13_script_strip fuel st s :
  state_all good st ->
  mrel vrel (eval U fuel st s) (eval U fuel (strip_state st) s).
Proof.
  intros Hs. apply eval_str_rel. apply (map_state_rel good); [exact vrel_strip_good|exact Hs].
Qed.

End C13.
Print Assumptions vrel_ident_keepfloat.
Print Assumptions vrel_ident_min.
Print Assumptions keep_strip_related.
Print Assumptions C13_invocation.
Print Assumptions C13_script.
Print Assumptions C13_script_observable.
Print Assumptions C13_script_strip.


(* ---------- vrel is an equivalence relation ---------- *)
Lemma good_list_intro l : Forall good l -> good (VList l).
Proof.
  intros H. unfold good. cbn [float_free ints_ok dicts_ok]. rewrite !forallb_forall.
  rewrite Forall_forall in H. repeat split; intros x Hx; apply (H x Hx).
Qed.

Lemma good_dict_intro d :
  distinct_strs (map (fun kv => as_str (fst kv)) d) = true ->
  Forall (fun kv => good (fst kv) /\ good (snd kv)) d -> good (VDict d).
Proof.
  intros Hk H. unfold good. cbn [float_free ints_ok dicts_ok]. rewrite Hk. cbn [andb].
  rewrite !forallb_forall. rewrite Forall_forall in H.
  repeat split; intros [k x] Hx; destruct (H _ Hx) as [(A1 & A2 & A3) (B1 & B2 & B3)]; cbn [fst snd] in *;
    apply andb_true_iff; split; assumption.
Qed.

Lemma good_dict_keys d : good (VDict d) -> distinct_strs (map (fun kv => as_str (fst kv)) d) = true.
Proof. intros (_ & _ & H). cbn [dicts_ok] in H. apply andb_true_iff in H. apply H. Qed.

Lemma good_vrel v w : vrel v w -> good v -> good w.
Proof.
  intros H. induction H as [v|v w E Hv Hw|l l' _ IH|d d' Hd IH] using vrel_ind2; intros G; auto.
  - apply good_list_intro. apply good_list_inv in G.
    induction IH as [|x y r r' Hxy _ IHr]; [constructor|]. inversion G; subst. constructor; auto.
  - apply good_dict_intro.
    + rewrite <- (good_dict_keys _ G). f_equal. revert Hd. apply Forall2_map_eq. intros a b [H _].
      apply vrel_as_str. exact H.
    + apply good_dict_inv in G. clear Hd.
      induction IH as [|x y r r' [H1 H2] _ IHr]; [constructor|]. inversion G as [|? ? [A B] C]; subst.
      constructor; auto.
Qed.

Theorem vrel_trans a b c : vrel a b -> vrel b c -> vrel a c.
Proof.
  intros H. revert c. induction H as [v|v w E Hv Hw|l l' Hl IH|d d' Hd IH] using vrel_ind2; intros c Hbc.
  - exact Hbc.
  - apply vrel_str; [|exact Hv|exact (good_vrel _ _ Hbc Hw)].
    rewrite E. symmetry. apply vrel_as_str. exact Hbc.
  - inversion Hbc as [v0|v0 w0 E Hv Hw|l0 l'' Hl2|]; subst.
    + apply vrel_list. exact Hl.
    + apply vrel_str; [|apply (good_vrel _ _ (vrel_sym _ _ (vrel_list _ _ Hl)) Hv)|exact Hw].
      rewrite <- E. symmetry. apply (vrel_as_str _ _ (vrel_list _ _ Hl)).
    + apply vrel_list. clear Hl Hbc. revert l'' Hl2.
      induction IH as [|x y r r' Hxy _ IHr]; intros l'' Hl2; inversion Hl2; subst; constructor; auto.
  - inversion Hbc as [v0|v0 w0 E Hv Hw| |d0 d'' Hd2]; subst.
    + apply vrel_dict. exact Hd.
    + apply vrel_str; [|apply (good_vrel _ _ (vrel_sym _ _ (vrel_dict _ _ Hd)) Hv)|exact Hw].
      rewrite <- E. symmetry. apply (vrel_as_str _ _ (vrel_dict _ _ Hd)).
    + apply vrel_dict. clear Hd Hbc. revert d'' Hd2.
      induction IH as [|x y r r' [H1 H2] _ IHr]; intros d'' Hd2; inversion Hd2 as [|? z ? ? [A B] C]; subst;
        constructor; auto. split; auto.
Qed.
Print Assumptions vrel_trans.

Lemma lrel_trans l1 l2 l3 : Forall2 vrel l1 l2 -> Forall2 vrel l2 l3 -> Forall2 vrel l1 l3.
Proof.
  intros H. revert l3. induction H as [|x y r r' Hxy Hr IH]; intros l3 H2; inversion H2; subst; constructor.
  - eapply vrel_trans; eassumption.
  - apply IH. assumption.
Qed.

(* ---------- the identity command as a TOTAL function related to the identity ---------- *)
(* [ident_keepfloat], except that an integer outside i64 (which no well-formed value carries)
   is left alone; on well-formed values the two coincide *)
Fixpoint ident_keep (v : value) : value :=
  match v with
  | VFlt _ => v
  | VInt z => if in_i64 z then VStr (show_Z z) else v
  | VList l => VList (map ident_keep l)
  | VDict d => VDict (map (fun kv => match kv with (k, x) => (ident_keep k, ident_keep x) end) d)
  | _ => VStr (as_str v)
  end.

Theorem vrel_ident_keep v : vrel v (ident_keep v).
Proof.
  induction v as [s|z|f|b|l IH|d IH] using value_ind2; cbn [ident_keep].
  - apply vrel_refl.
  - destruct (in_i64 z) eqn:E; [|apply vrel_refl].
    apply vrel_str; [reflexivity| |apply good_str]. repeat split. exact E.
  - apply vrel_refl.
  - apply vrel_str; [reflexivity| |apply good_str]. repeat split.
  - apply vrel_list. induction IH as [|x r Hx Hr IHr]; cbn [map]; constructor; auto.
  - apply vrel_dict. induction IH as [|[k x] r [Hk Hx] Hr IHr]; cbn [map]; constructor; auto.
    split; assumption.
Qed.

Lemma ident_keep_keepfloat v : ints_ok v = true -> ident_keep v = ident_keepfloat v.
Proof.
  induction v as [s|z|f|b|l IH|d IH] using value_ind2; intros Hi; cbn [ident_keep ident_keepfloat]; try reflexivity.
  - cbn [ints_ok] in Hi. rewrite Hi. reflexivity.
  - f_equal. apply ints_ok_list_inv in Hi. induction IH as [|x r Hx Hr IHr]; [reflexivity|].
    inversion Hi; subst. cbn [map]. rewrite Hx, IHr by assumption. reflexivity.
  - f_equal. apply ints_ok_dict_inv in Hi. induction IH as [|[k x] r [Hk Hx] Hr IHr]; [reflexivity|].
    inversion Hi as [|? ? [A B] C]; subst. cbn [map fst snd] in *. rewrite Hk, Hx, IHr by assumption. reflexivity.
Qed.

(* ---------- C13 for whole programs: the instrumented interpreter ---------- *)

(* [wrap_exec T ex] runs a command on the T-copies of its arguments and returns the T-copy of its
   result (or of the value of its exception): the semantic counterpart of rewriting every
   command  cmd a b ...  of a program into  [ident [cmd [ident a] [ident b] ...]] *)
Definition map_xvalue (T : value -> value) (e : exn) : exn :=
  {| x_code := x_code e; x_value := T (x_value e); x_level := x_level e; x_next := x_next e;
     x_data := x_data e |}.
Definition wrap_exec (T : value -> value) (ex : executor) : executor :=
  fun st c argv =>
    let '(st1, r) := ex st c (map T argv) in
    (st1, match r with Ok v => Ok (T v) | Err e => Err (map_xvalue T e) | other => other end).

Section Instrumented.
Variable T : value -> value.
Hypothesis HT : forall v, vrel v (T v).
Variable U : uni.

(* the interpreter in which EVERY command invocation, at every nesting depth (bodies of if, while,
   procedures, command substitutions inside expressions, ...), is wrapped *)
Fixpoint run_exec_T (fuel : nat) : executor :=
  match fuel with
  | O => fun st _ _ => (st, Fuel)
  | S f => wrap_exec T (knot_level U (run_exec_T f) (S f))
  end.
Definition eval_value_T (fuel : nat) : interp -> value -> M value := eval_value_with U (run_exec_T fuel).

Lemma xrel_map_xvalue e e' : xrel e e' -> xrel e (map_xvalue T e').
Proof.
  intros (H1 & H2 & H3 & H4 & H5). unfold xrel, map_xvalue. cbn [x_code x_value x_level x_next x_data].
  repeat split; try assumption. eapply vrel_trans; [exact H2|apply HT].
Qed.

Lemma wrap_exec_rel ex ex' : exec_rel2 ex ex' -> exec_rel2 ex (wrap_exec T ex').
Proof.
  intros H st st' c c' argv argv' Hs Hc Ha. unfold wrap_exec.
  assert (Ha' : Forall2 vrel argv (map T argv')).
  { eapply lrel_trans; [exact Ha|]. apply (Forall2_map_r _ (fun _ => True)); [intros a _; apply HT|].
    apply Forall_forall. intros; exact I. }
  pose proof (H st st' c c' argv (map T argv') Hs Hc Ha') as P.
  destruct (ex st c argv) as [s1 r1], (ex' st' c' (map T argv')) as [s1' r1']. destruct P as [P1 P2].
  cbn [fst snd] in P1, P2. split; [exact P1|]. cbn [snd].
  destruct r1, r1'; cbn [rrel] in P2 |- *; try contradiction; try exact P2.
  - eapply vrel_trans; [exact P2|apply HT].
  - apply xrel_map_xvalue. exact P2.
Qed.

(* C13_program: the program as written and the instrumented program are related *)
Theorem run_exec_T_rel fuel : exec_rel2 (run_exec U fuel) (run_exec_T fuel).
Proof.
  induction fuel as [|f IH].
  - intros st st' c c' argv argv' H Hc Ha. split; [exact H|exact I].
  - rewrite run_exec_S. cbn [run_exec_T]. apply wrap_exec_rel. apply knot_level_rel. exact IH.
Qed.

Theorem C13_program fuel st st' v w : strel st st' -> as_str v = as_str w ->
  mrel vrel (eval_value U fuel st v) (eval_value_T fuel st' w).
Proof.
  intros H E. unfold eval_value, eval_value_T.
  apply eval_value_with_rel; [apply run_exec_T_rel|exact H|symmetry; exact E].
Qed.

Corollary C13_program_observable fuel st s :
  let m := eval U fuel st s in
  let m' := eval_value_T fuel st (VStr s) in
  strip_state (fst m') = strip_state (fst m) /\ strip_res (snd m') = strip_res (snd m) /\
  out_str m' = out_str m.
Proof.
  intros m m'. assert (R : mrel vrel m m') by (apply C13_program; [apply strel_refl|reflexivity]).
  destruct (mrel_observable _ _ R) as [A B]. split; [exact A|split; [exact B|apply mrel_out_str; exact R]].
Qed.

End Instrumented.

(* instances: the total identity, and (they coincide on well-formed values) the float-keeping one *)
Corollary C13_program_ident_keep U fuel st s :
  let m := eval U fuel st s in
  let m' := eval_value_T ident_keep U fuel st (VStr s) in
  strip_state (fst m') = strip_state (fst m) /\ strip_res (snd m') = strip_res (snd m) /\
  out_str m' = out_str m.
Proof. apply C13_program_observable. exact vrel_ident_keep. Qed.

Print Assumptions vrel_ident_keep.
Print Assumptions run_exec_T_rel.
Print Assumptions C13_program.
Print Assumptions C13_program_ident_keep.

(* ====================================================================================== *)
(* 10. The side conditions are needed: whole-program counterexamples (by computation)      *)
(* ====================================================================================== *)

Definition obs (m : M value) : option (str + str) := out_str m.

(* (a) the known exception, as a whole program: a variable holding the float 5.0 against the
   same variable holding its string "5" *)
Definition st_with_x (v : value) : interp := fst (st_set_scalar interp_new (lit "x") v).

Example float_program_observable :
  obs (eval std_uni 50 (st_with_x (VFlt f_five)) (lit "expr {$x / 2}")) = Some (inr (lit "2.5")) /\
  obs (eval std_uni 50 (st_with_x (strip (VFlt f_five))) (lit "expr {$x / 2}")) = Some (inr (lit "2")).
Proof. split; vm_compute; reflexivity. Qed.

(* (b) A former FINDING, now repaired in the model.  `return -level -1` makes an exception whose
   level is 2^64-1 (the i64 -> usize cast).  [return_options] used to store it in the options
   dictionary of `catch` as the typed integer VInt (2^64-1), outside i64, and the representation
   of that value was observable (`incr` overflowed on the typed value and said "expected integer"
   on its string copy).  The implementation prints the level through `as MoltInt`; the model now
   does the same ([to_i64]): the stored level is the typed integer -1, an i64, and the program
   and the program with an identity copy agree. *)
Definition st_level : interp :=
  fst (eval std_uni 50 interp_new (lit "catch {return -level -1 x} r o; set l [dict get $o -level]")).

Example level_int_in_range :
  st_scalar st_level (lit "o") = Ok (VDict [(VStr (lit "-code"), VInt 0); (VStr (lit "-level"), VInt (-1))]) /\
  st_scalar st_level (lit "l") = Ok (VInt (-1)) /\ ints_ok (VInt (-1)) = true.
Proof. repeat split; vm_compute; reflexivity. Qed.

Example level_int_rep_unobservable :
  obs (eval std_uni 50 st_level (lit "incr l 0")) = Some (inr (lit "-1")) /\
  obs (eval std_uni 50 (map_state ident_keepfloat st_level) (lit "incr l 0")) = Some (inr (lit "-1")).
Proof. split; vm_compute; reflexivity. Qed.

(* the same in the checker's own terms (Check/C13.v): the program, and the program in which the
   substitution passes through the model's `ident` *)
Definition run_two (setup script : string) : option (str + str) :=
  let st1 := fst (eval std_uni 50 (Check.ScriptObs.harness_interp 0) (lit setup)) in
  obs (eval std_uni 50 st1 (lit script)).

Example level_int_checker_case :
  run_two "catch {return -level -1 x} r o" "set l [dict get $o -level]; incr l 0" = Some (inr (lit "-1")) /\
  run_two "catch {return -level -1 x} r o" "set l [ident [dict get $o -level]]; incr l 0" = Some (inr (lit "-1")).
Proof. split; vm_compute; reflexivity. Qed.

(* re-raising what catch stored: -level -1 is read back through `as usize` ([level_of_int]), i.e.
   as 2^64-1 again, so `return {*}$o $r` rebuilds the very same exception (same options) *)
Example level_reraise :
  run_two "catch {return -level -1 x} r o" "list [catch {return {*}$o $r} r2 o2] $r2 $o2 [expr {$o eq $o2}]"
    = Some (inr (lit "2 x {-code 0 -level -1} 1")).
Proof. vm_compute. reflexivity. Qed.

(* (c) the hypothesis [ints_ok] of [vrel_ident_keepfloat] is needed at the level of values: an
   out-of-range typed integer is not related to its string copy (no command is known to build
   one any more, lengths of more than 2^63 elements aside) *)
Example ints_ok_needed_for_ident :
  ~ vrel (VInt (i64_max + 1)) (ident_keepfloat (VInt (i64_max + 1))).
Proof.
  intros H. apply v_as_int_rel in H. vm_compute in H. discriminate H.
Qed.

(* ====================================================================================== *)
(* 11. The checker's observations of related runs coincide                                 *)
(* ====================================================================================== *)


(* ---------- the checker's observations (Check/ScriptObs.v) of related runs coincide ---------- *)
Import Check.ScriptObs.

Lemma obs_exn_rel e e' : xrel e e' -> obs_exn e' = obs_exn e.
Proof.
  intros H. unfold obs_exn. rs_norm. pose proof (xrel_data _ _ H) as D.
  destruct (x_data e) as [d|], (x_data e') as [d'|]; cbn [opt_rel] in D; try contradiction; [|reflexivity].
  rewrite (vrel_as_str _ _ (edrel_code _ _ D)), (edrel_info _ _ D). reflexivity.
Qed.

Lemma obs_res_rel r r' : rrel vrel r r' -> obs_res r' = obs_res r.
Proof.
  destruct r, r'; cbn [rrel]; try contradiction; cbn [obs_res]; intros H.
  - rewrite (vrel_as_str _ _ H). reflexivity.
  - apply obs_exn_rel. exact H.
  - rewrite H. reflexivity.
  - reflexivity.
Qed.

Lemma obs_var_rel st st' name : strel st st' -> obs_var st' name = obs_var st name.
Proof.
  intros H. unfold obs_var. pose proof (sc_lookup_rel _ _ name (strel_scopes _ _ H)) as G.
  destruct (sc_lookup (i_scopes st) name) as [x|], (sc_lookup (i_scopes st') name) as [x'|];
    cbn [opt_rel] in G; try contradiction; [|reflexivity].
  destruct G as [v w Hv|m m' Hm|n|]; try reflexivity.
  - rewrite (vrel_as_str _ _ Hv). reflexivity.
  - f_equal. f_equal. f_equal. f_equal. revert Hm. apply Forall2_map_eq.
    intros [k a] [k' b] [E Hv]. cbn [fst snd] in *. rewrite E, (vrel_as_str _ _ Hv). reflexivity.
Qed.

(* a whole history of scripts (the checker's [run_history]) from related states: same observed
   outcomes, related final states *)
Theorem run_history_rel scripts : forall st st' acc, strel st st' ->
  strel (fst (run_history st scripts acc)) (fst (run_history st' scripts acc)) /\
  snd (run_history st' scripts acc) = snd (run_history st scripts acc).
Proof.
  induction scripts as [|s r IH]; intros st st' acc H; cbn [run_history]; [split; [exact H|reflexivity]|].
  pose proof (eval_str_rel std_uni model_fuel st st' s H) as P.
  destruct (eval std_uni model_fuel st s) as [st1 r1], (eval std_uni model_fuel st' s) as [st1' r1'].
  destruct P as [P1 P2]. cbn [fst snd] in P1, P2. rewrite (obs_res_rel _ _ P2). apply IH. exact P1.
Qed.
Print Assumptions run_history_rel.

(* the script-level observation of the checker (outcomes, recorder trace, probed variables, scope
   depth) does not depend on the representations in the initial state *)
Theorem history_observation_rel scripts probes st st' : strel st st' ->
  let '(s1, outs) := run_history st scripts [] in
  let '(s1', outs') := run_history st' scripts [] in
  outs' = outs /\ i_trace s1' = i_trace s1 /\ map (obs_var s1') probes = map (obs_var s1) probes /\
  sc_current (i_scopes s1') = sc_current (i_scopes s1).
Proof.
  intros H. pose proof (run_history_rel scripts st st' [] H) as [A B].
  destruct (run_history st scripts []) as [s1 outs], (run_history st' scripts []) as [s1' outs'].
  cbn [fst snd] in A, B. split; [exact B|]. split; [apply strel_trace; exact A|]. split.
  - apply map_ext. intros n. apply obs_var_rel. exact A.
  - apply sc_current_rel. apply A.
Qed.
Print Assumptions history_observation_rel.
