(* DepthFacts.v — C16: the nesting limit is exact.

   For a family of scripts that nest evaluations to an arbitrary depth,
       nestk [k1; ..; kd]  =  w_k1 { w_k2 { .. w_kd { rec deep } .. } }
   where each wrapper w_k is `if 1 {..}`, `catch {..}` or `foreach v 1 {..}` (the constructs of
   the checker's nest builder, Check/C16.v), the script needs exactly d+1 evaluation levels:
   started at level l with limit N it reaches the recorder iff l + d + 1 <= N; otherwise the
   evaluation at level N+1 is refused with the 'too many nested calls' error, which is an
   ordinary error: `if` and `foreach` pass it on, the innermost `catch` that was entered absorbs
   it.  In every case the level counter, the limit and the command table are as before, so the
   full depth is available again.

   Contents
     1. the family of scripts; its text is brace balanced
     2. the reader on one wrapper
     3. one evaluation level ([eval_value_with] on a script of one command of literal words)
     4. recording the error in the globals errorInfo / errorCode; the loop variable
     5. the commands `rec`, `if`, `catch`, `foreach`
     6. nests of `if` and `catch` (no variable is touched): exact final state
     7. nests of all three wrappers
     8. C16 for the `if` nest (the statement of the task), the `catch` nest, the `foreach` nest
     9. the checker's interpreter; instances by computation; necessity of the hypothesis *)
From Molt Require Import Model.Base Model.Tokenizer Model.ListSyn Model.Float Model.Value
  Model.State Model.Script Model.Parser Model.Eval Model.Expr Model.Commands Model.Unicode
  Model.Interp.
From Molt Require Import Spec.SpecCtl Spec.SpecVars.
From Molt Require Import Proofs.BaseFacts Proofs.ListSynFacts Proofs.ListAsCommandFacts
  Proofs.InterpFacts Proofs.ErrFacts Proofs.ScopeFacts Proofs.CtlStructFacts.
From Molt Require Check.ScriptObs Check.C16.
From Coq Require Import Lia ZifyBool ZifyN.

Arguments N.eqb : simpl never.
Arguments N.leb : simpl never.
Arguments N.ltb : simpl never.

Local Open Scope N_scope.

(* ====================================================================================== *)
(* 1. the family of scripts                                                               *)
(* ====================================================================================== *)

Inductive kind := KIf | KCatch | KForeach.

(* the variable of the `foreach` wrapper *)
Definition loop_var : str := lit "v".

Definition innermost : str := lit "rec deep".

Definition wrap (k : kind) (s : str) : str :=
  match k with
  | KIf => lit "if 1 {" ++ s ++ lit "}"
  | KCatch => lit "catch {" ++ s ++ lit "}"
  | KForeach => lit "foreach v 1 {" ++ s ++ lit "}"
  end.

Fixpoint nestk (ks : list kind) : str :=
  match ks with
  | [] => innermost
  | k :: r => wrap k (nestk r)
  end.

Fixpoint nest_if (d : nat) : str :=
  match d with
  | O => lit "rec deep"
  | S d' => lit "if 1 {" ++ nest_if d' ++ lit "}"
  end.

Fixpoint nest_catch (d : nat) : str :=
  match d with
  | O => lit "rec deep"
  | S d' => lit "catch {" ++ nest_catch d' ++ lit "}"
  end.

Lemma nest_if_nestk d : nest_if d = nestk (repeat KIf d).
Proof. induction d as [|d IH]; [reflexivity|]. cbn [nest_if repeat nestk wrap]. rewrite IH. reflexivity. Qed.

Lemma nest_catch_nestk d : nest_catch d = nestk (repeat KCatch d).
Proof. induction d as [|d IH]; [reflexivity|]. cbn [nest_catch repeat nestk wrap]. rewrite IH. reflexivity. Qed.

Fixpoint nest_foreach (d : nat) : str :=
  match d with
  | O => lit "rec deep"
  | S d' => lit "foreach v 1 {" ++ nest_foreach d' ++ lit "}"
  end.

Lemma nest_foreach_nestk d : nest_foreach d = nestk (repeat KForeach d).
Proof. induction d as [|d IH]; [reflexivity|]. cbn [nest_foreach repeat nestk wrap]. rewrite IH. reflexivity. Qed.

(* ---- the text of a nest is brace balanced, without backslashes ---- *)

Lemma nestk_brace_ok_app : forall ks r e, brace_ok (nestk ks ++ r) e = brace_ok r e.
Proof.
  induction ks as [|k ks IH]; intros r e.
  - reflexivity.
  - destruct k; cbn [nestk wrap]; rewrite <- !app_assoc.
    + change (brace_ok (lit "if 1 {" ++ nestk ks ++ lit "}" ++ r) e)
        with (brace_ok (nestk ks ++ lit "}" ++ r) (S e)).
      rewrite IH. reflexivity.
    + change (brace_ok (lit "catch {" ++ nestk ks ++ lit "}" ++ r) e)
        with (brace_ok (nestk ks ++ lit "}" ++ r) (S e)).
      rewrite IH. reflexivity.
    + change (brace_ok (lit "foreach v 1 {" ++ nestk ks ++ lit "}" ++ r) e)
        with (brace_ok (nestk ks ++ lit "}" ++ r) (S e)).
      rewrite IH. reflexivity.
Qed.

Lemma nestk_brace_ok ks : brace_ok (nestk ks) O = true.
Proof. rewrite <- (app_nil_r (nestk ks)). rewrite nestk_brace_ok_app. reflexivity. Qed.

(* the first character of a nest is a letter *)
Lemma nestk_head ks : exists c t, nestk ks = c :: t /\ (c = 105 \/ c = 99 \/ c = 102 \/ c = 114).
Proof.
  destruct ks as [|[| |] ks]; cbn [nestk wrap]; eexists; eexists; (split; [reflexivity|]); vm_compute; tauto.
Qed.

Lemma nestk_not_star ks : nestk ks <> [c_star].
Proof.
  destruct (nestk_head ks) as (c & t & E & H). rewrite E. intros X. inversion X as [[X1 X2]].
  unfold c_star in X1. lia.
Qed.

Lemma nestk_not_then ks : str_eqb (nestk ks) (lit "then") = false.
Proof.
  destruct (nestk_head ks) as (c & t & E & H). rewrite E.
  change (lit "then") with (116 :: lit "hen"). cbn [str_eqb].
  destruct (N.eqb_spec c 116) as [X|X]; [lia|reflexivity].
Qed.

(* ====================================================================================== *)
(* 2. the reader on `if 1 {body}` and `catch {body}`                                      *)
(* ====================================================================================== *)

Section Reader.
Variable isa : char -> bool.

Lemma parse_words_end f acc : parse_words isa (S f) false [] acc = POk (rev acc) [].
Proof. reflexivity. Qed.

(* the last word of a command: a braced body *)
Lemma parse_words_last_braced f body acc :
  brace_ok body O = true -> body <> [c_star] ->
  parse_words isa (S (S (S f))) false (c_lbrace :: body ++ [c_rbrace]) acc
  = POk (rev (WValue body :: acc)) [].
Proof.
  intros Hb Hs. rewrite parse_words_eq.
  change (at_end_of_command false (c_lbrace :: body ++ [c_rbrace])) with false. cbn iota.
  pose proof (next_word_braced isa (S f) body [] Hb Hs word_end_nil) as H.
  unfold brace_item in H. rewrite app_nil_r in H. rewrite H.
  change (skip_while is_line_white []) with (@nil char).
  apply parse_words_end.
Qed.

(* a bare word of ordinary characters followed by a space *)
Lemma parse_words_bare f w c t rest acc :
  w = c :: t -> escape_chars w = w -> (c =? c_nl) = false -> (c =? c_semi) = false ->
  (length w < f)%nat ->
  parse_words isa (S (S f)) false (w ++ c_space :: rest) acc
  = parse_words isa (S f) false (skip_while is_line_white rest) (WValue w :: acc).
Proof.
  intros Hw He Hn Hsemi Hf. rewrite parse_words_eq.
  assert (A : at_end_of_command false (w ++ c_space :: rest) = false).
  { rewrite Hw. cbn [app at_end_of_command andb]. rewrite Hn, Hsemi. reflexivity. }
  rewrite A. cbn iota.
  pose proof (next_word_escaped isa f w (c_space :: rest)) as H. rewrite He in H.
  rewrite H; [|rewrite Hw; discriminate|apply word_end_space|exact Hf].
  reflexivity.
Qed.

Lemma parse_one_command s c t ws :
  s = c :: t -> is_whitespace c = false -> (c =? c_hash) = false ->
  (forall f, parse_words isa (S (S (S (S (S (S (S (S (S (S (S (S (S (S (S (S (S (S (S (S f)))))))))))))))))))) false s [] = POk ws []) ->
  parse isa s = POk [ws] [].
Proof.
  intros Hs Hw Hh Hp. unfold parse.
  assert (Hfuel : exists f, parse_fuel s = S (S (S (S (S (S (S (S (S (S (S (S (S (S (S (S (S (S (S (S (S (S f)))))))))))))))))))))).
  { exists (8 * length t + 2)%nat. unfold parse_fuel. rewrite Hs. cbn [length]. lia. }
  destruct Hfuel as (f & ->).
  rewrite parse_script_eq. rewrite Hs at 1. cbn [at_end_of_script andb].
  rewrite parse_command_eq. cbv zeta.
  rewrite (skip_to_command_head _ _ c t Hs Hw Hh).
  rewrite Hp. rewrite parse_script_eq. reflexivity.
Qed.

Lemma parse_wrap_if body :
  brace_ok body O = true -> body <> [c_star] ->
  parse isa (wrap KIf body) = POk [map WValue [lit "if"; lit "1"; body]] [].
Proof.
  intros Hb Hs.
  apply (parse_one_command _ 105 (lit "f 1 {" ++ body ++ lit "}")); try reflexivity.
  intros f. cbn [wrap map].
  change (lit "if 1 {" ++ body ++ lit "}")
    with (lit "if" ++ c_space :: (lit "1" ++ c_space :: (c_lbrace :: body ++ [c_rbrace]))).
  rewrite (parse_words_bare _ (lit "if") 105 (lit "f")); try reflexivity; [|cbn; lia].
  change (skip_while is_line_white (lit "1" ++ c_space :: c_lbrace :: body ++ [c_rbrace]))
    with (lit "1" ++ c_space :: (c_lbrace :: body ++ [c_rbrace])).
  rewrite (parse_words_bare _ (lit "1") 49 []); try reflexivity; [|cbn; lia].
  change (skip_while is_line_white (c_lbrace :: body ++ [c_rbrace]))
    with (c_lbrace :: body ++ [c_rbrace]).
  rewrite parse_words_last_braced by assumption. reflexivity.
Qed.

Lemma parse_wrap_catch body :
  brace_ok body O = true -> body <> [c_star] ->
  parse isa (wrap KCatch body) = POk [map WValue [lit "catch"; body]] [].
Proof.
  intros Hb Hs.
  apply (parse_one_command _ 99 (lit "atch {" ++ body ++ lit "}")); try reflexivity.
  intros f. cbn [wrap map].
  change (lit "catch {" ++ body ++ lit "}")
    with (lit "catch" ++ c_space :: (c_lbrace :: body ++ [c_rbrace])).
  rewrite (parse_words_bare _ (lit "catch") 99 (lit "atch")); try reflexivity; [|cbn; lia].
  change (skip_while is_line_white (c_lbrace :: body ++ [c_rbrace]))
    with (c_lbrace :: body ++ [c_rbrace]).
  rewrite parse_words_last_braced by assumption. reflexivity.
Qed.

Lemma parse_wrap_foreach body :
  brace_ok body O = true -> body <> [c_star] ->
  parse isa (wrap KForeach body) = POk [map WValue [lit "foreach"; loop_var; lit "1"; body]] [].
Proof.
  intros Hb Hs.
  apply (parse_one_command _ 102 (lit "oreach v 1 {" ++ body ++ lit "}")); try reflexivity.
  intros f. cbn [wrap map].
  change (lit "foreach v 1 {" ++ body ++ lit "}")
    with (lit "foreach" ++ c_space :: (lit "v" ++ c_space :: (lit "1" ++ c_space :: (c_lbrace :: body ++ [c_rbrace])))).
  rewrite (parse_words_bare _ (lit "foreach") 102 (lit "oreach")); try reflexivity; [|cbn; lia].
  change (skip_while is_line_white (lit "v" ++ c_space :: lit "1" ++ c_space :: c_lbrace :: body ++ [c_rbrace]))
    with (lit "v" ++ c_space :: (lit "1" ++ c_space :: (c_lbrace :: body ++ [c_rbrace]))).
  rewrite (parse_words_bare _ (lit "v") 118 []); try reflexivity; [|cbn; lia].
  change (skip_while is_line_white (lit "1" ++ c_space :: c_lbrace :: body ++ [c_rbrace]))
    with (lit "1" ++ c_space :: (c_lbrace :: body ++ [c_rbrace])).
  rewrite (parse_words_bare _ (lit "1") 49 []); try reflexivity; [|cbn; lia].
  change (skip_while is_line_white (c_lbrace :: body ++ [c_rbrace]))
    with (c_lbrace :: body ++ [c_rbrace]).
  rewrite parse_words_last_braced by assumption. reflexivity.
Qed.

Lemma parse_innermost : parse isa innermost = POk [map WValue [lit "rec"; lit "deep"]] [].
Proof. vm_compute. reflexivity. Qed.

End Reader.

(* ====================================================================================== *)
(* 3. one evaluation level                                                                *)
(* ====================================================================================== *)

(* what eval_value does once the script has been run one level deeper *)
Definition wrap_up (p : interp * res value) : M value :=
  let '(st2, r) := p in
  let st3 := set_levels st2 (i_levels st2 - 1) in
  let r' := if i_levels st3 =? 0 then toplevel_boundary r else r in
  match r' with
  | Err e =>
      if rcode_eqb (x_code e) CError then
        do (st4, _) <- set_global_error_data st3 e; (st4, Err e)
      else (st3, r')
  | _ => (st3, r')
  end.

Definition enter (st : interp) : interp := set_levels st (i_levels st + 1).

(* the outcome of a script that consists of one command of literal words *)
Definition one_command (exec : executor) (st : interp) (cmd : command) (w : str) (r : list str)
  : interp * res value :=
  match exec st cmd (map VStr (w :: r)) with
  | (st2, Ok v) => (st2, Ok v)
  | (st2, Err e) => command_outcome st2 cmd w (map VStr (w :: r)) e
  | (st2, Panic p) => (st2, Panic p)
  | (st2, Fuel) => (st2, Fuel)
  end.

Section Level.
Variable U : uni.

Lemma eval_level exec st s sc :
  i_levels st < i_limit st ->
  parse (u_alnum U) s = POk sc [] ->
  eval_value_with U exec st (VStr s) = wrap_up (eval_script exec (enter st) sc).
Proof.
  intros H P. unfold eval_value_with. cbn [i_limit i_levels set_levels as_str].
  destruct (N.ltb_spec (i_limit st) (i_levels st + 1)) as [C|_]; [lia|].
  rewrite P. fold (enter st).
  destruct (eval_script exec (enter st) sc) as [st2 r]. reflexivity.
Qed.

Lemma eval_level_command exec st s w r cmd :
  i_levels st < i_limit st ->
  parse (u_alnum U) s = POk [map WValue (w :: r)] [] ->
  assoc_get w (i_cmds st) = Some cmd ->
  eval_value_with U exec st (VStr s) = wrap_up (one_command exec (enter st) cmd w r).
Proof.
  intros H P C. rewrite (eval_level exec st s _ H P). rewrite eval_list_command.
  change (i_cmds (enter st)) with (i_cmds st). rewrite C. reflexivity.
Qed.

Lemma wrap_up_ok st2 v : wrap_up (st2, Ok v) = (set_levels st2 (i_levels st2 - 1), Ok v).
Proof. unfold wrap_up. cbn [toplevel_boundary]. destruct (_ =? 0); reflexivity. Qed.

Lemma wrap_up_error st2 e :
  x_code e = CError ->
  wrap_up (st2, Err e) =
  do (st4, _) <- set_global_error_data (set_levels st2 (i_levels st2 - 1)) e; (st4, Err e).
Proof.
  intros C. unfold wrap_up. cbn zeta.
  assert (T : toplevel_boundary (Err e) = Err e).
  { unfold toplevel_boundary. rewrite C. rewrite C. reflexivity. }
  destruct (_ =? 0); rewrite ?T; rewrite C; reflexivity.
Qed.

End Level.

(* ====================================================================================== *)
(* 4. recording an error in the globals errorInfo / errorCode                             *)
(* ====================================================================================== *)

(* the global variable [name] can be assigned a scalar: it is not an array (the global scope
   holds no links) *)
Definition gvar_settable (ss : scopes) (name : str) : Prop :=
  match assoc_get name (sc_get_scope ss O) with
  | Some (VarArray _) | Some (VarUpvar _) => False
  | _ => True
  end.

Definition errvars_ok (ss : scopes) : Prop :=
  gvar_settable ss (lit "errorInfo") /\ gvar_settable ss (lit "errorCode").

Lemma sc_set_global_ok ss name v :
  gvar_settable ss name -> sc_set_global ss name v = (sc_put ss O name (VarScalar v), Ok tt).
Proof.
  unfold gvar_settable, sc_set_global, sc_set_at.
  destruct (assoc_get name (sc_get_scope ss 0)) as [[x|m|l|]|]; intros H; try reflexivity; contradiction.
Qed.

Lemma global_scope_put ss name x :
  sc_get_scope (sc_put ss O name x) O = match ss with [] => [] | g :: _ => assoc_set name x g end.
Proof. destruct ss; reflexivity. Qed.

Lemma gvar_settable_put_same ss name v : gvar_settable (sc_put ss O name (VarScalar v)) name.
Proof.
  unfold gvar_settable. rewrite global_scope_put. destruct ss as [|g r]; [exact I|].
  rewrite assoc_get_set_same. exact I.
Qed.

Lemma gvar_settable_put_other ss name x name' :
  str_eqb name' name = false -> str_eqb name name' = false ->
  gvar_settable ss name' -> gvar_settable (sc_put ss O name x) name'.
Proof.
  intros A B. unfold gvar_settable. rewrite global_scope_put. destruct ss as [|g r]; [intros _; exact I|].
  rewrite assoc_get_set_other by assumption. cbn [sc_get_scope nth]. intros H; exact H.
Qed.

Lemma set_scopes_same st : set_scopes st (i_scopes st) = st.
Proof. destruct st; reflexivity. Qed.

Lemma set_global_error_data_ok st e :
  errvars_ok (i_scopes st) ->
  exists ss', set_global_error_data st e = (set_scopes st ss', Ok tt) /\ errvars_ok ss'.
Proof.
  intros [Hi Hc]. unfold set_global_error_data. destruct (x_data e) as [d|].
  - rewrite (sc_set_global_ok _ _ _ Hi).
    assert (Hc1 : gvar_settable (sc_put (i_scopes st) O (lit "errorInfo") (VarScalar (VStr (ed_info d))))
                                (lit "errorCode")).
    { apply gvar_settable_put_other; [reflexivity|reflexivity|exact Hc]. }
    rewrite (sc_set_global_ok _ _ _ Hc1).
    eexists. split; [reflexivity|]. split.
    + apply gvar_settable_put_other; [reflexivity|reflexivity|]. apply gvar_settable_put_same.
    + apply gvar_settable_put_same.
  - exists (i_scopes st). rewrite set_scopes_same. split; [reflexivity|]. split; assumption.
Qed.

(* ---- with the `foreach` wrapper the loop variable is assigned as well ---- *)

Lemma gvar_settable_put_level ss L name x name' :
  str_eqb name' name = false -> str_eqb name name' = false ->
  gvar_settable ss name' -> gvar_settable (sc_put ss L name x) name'.
Proof.
  intros A B H. destruct L as [|l].
  - apply gvar_settable_put_other; assumption.
  - unfold gvar_settable, sc_put. rewrite frame_update_other by discriminate. exact H.
Qed.

(* the loop variable, seen from the current frame, is not an array *)
Definition loop_var_ok (ss : scopes) : Prop := forall m, shape_of ss loop_var <> Array m.

(* what the nests with `foreach` need of the variables: the scope stack is well formed
   (Spec/SpecVars.v), errorInfo / errorCode and the loop variable can be assigned *)
Definition scopes_ready (ss : scopes) : Prop := scope_inv ss /\ errvars_ok ss /\ loop_var_ok ss.

Lemma loop_var_ok_put_other ss L name x :
  name <> loop_var -> loop_var_ok ss -> loop_var_ok (sc_put ss L name x).
Proof.
  intros Hne H m. unfold shape_of. rewrite lookup_put_other by exact Hne. exact (H m).
Qed.

Lemma set_global_error_data_ready st e :
  scopes_ready (i_scopes st) ->
  exists ss', set_global_error_data st e = (set_scopes st ss', Ok tt) /\ scopes_ready ss'.
Proof.
  intros (Hinv & [Hi Hc] & Hv). unfold set_global_error_data. destruct (x_data e) as [d|].
  - rewrite (sc_set_global_ok _ _ _ Hi).
    set (ss1 := sc_put (i_scopes st) O (lit "errorInfo") (VarScalar (VStr (ed_info d)))).
    assert (Hc1 : gvar_settable ss1 (lit "errorCode")).
    { apply gvar_settable_put_other; [reflexivity|reflexivity|exact Hc]. }
    rewrite (sc_set_global_ok _ _ _ Hc1).
    eexists. split; [reflexivity|]. split; [|split; [split|]].
    + apply inv_put_plain; [|reflexivity|discriminate].
      apply inv_put_plain; [exact Hinv|reflexivity|discriminate].
    + apply gvar_settable_put_other; [reflexivity|reflexivity|]. apply gvar_settable_put_same.
    + apply gvar_settable_put_same.
    + apply loop_var_ok_put_other; [intros X; vm_compute in X; discriminate|].
      apply loop_var_ok_put_other; [intros X; vm_compute in X; discriminate|exact Hv].
  - exists (i_scopes st). rewrite set_scopes_same. split; [reflexivity|].
    split; [exact Hinv|]. split; [split; assumption|exact Hv].
Qed.

Lemma set_loop_var_ready st x :
  scopes_ready (i_scopes st) ->
  exists ss', st_set_var st (VStr loop_var) x = (set_scopes st ss', Ok tt) /\ scopes_ready ss'.
Proof.
  intros (Hinv & [Hi Hc] & Hv). unfold st_set_var.
  change (as_var_name (VStr loop_var)) with (loop_var, @None str).
  unfold st_set_scalar.
  destruct (sc_set_on_unset_or_scalar _ loop_var x Hinv Hv) as [E Sh]. rewrite E.
  eexists. split; [reflexivity|]. split; [|split; [split|]].
  - apply inv_put_plain; [exact Hinv|reflexivity|discriminate].
  - apply gvar_settable_put_level; [reflexivity|reflexivity|exact Hi].
  - apply gvar_settable_put_level; [reflexivity|reflexivity|exact Hc].
  - intros m. rewrite Sh. discriminate.
Qed.

(* ====================================================================================== *)
(* 5. the commands                                                                          *)
(* ====================================================================================== *)

Definition deep_call : list str := [lit "rec"; lit "deep"].

Lemma expr_one ia ib exec st : expr_eval ia ib exec st (VStr (lit "1")) = (st, Ok (VInt 1)).
Proof. vm_compute. reflexivity. Qed.

Lemma command_outcome_keeps st2 cmd name argv e :
  exists e', command_outcome st2 cmd name argv e = (st2, Err e')
             /\ x_code e' = x_code e /\ x_value e' = x_value e.
Proof.
  unfold command_outcome. destruct (x_code e) eqn:C;
    try (exists e; repeat split; assumption).
  destruct (is_new_error e).
  - eexists. split; [reflexivity|]. cbn [add_error_info x_code x_value]. split; [exact C|reflexivity].
  - destruct (is_proc cmd).
    + eexists. split; [reflexivity|]. cbn [add_error_info x_code x_value]. split; [exact C|reflexivity].
    + exists e. repeat split. exact C.
Qed.

Section Commands.
Variable U : uni.

Lemma exec_rec f st ctx :
  run_exec U (S f) st (CmdNative NRecorder ctx) (map VStr deep_call)
  = (set_trace st (deep_call :: i_trace st), Ok (VStr (lit "deep"))).
Proof. reflexivity. Qed.

Lemma exec_if f st ctx body :
  str_eqb body (lit "then") = false ->
  run_exec U (S f) st (CmdNative NIf ctx) (map VStr [lit "if"; lit "1"; body])
  = eval_value_with U (run_exec U f) st (VStr body).
Proof.
  intros Hthen.
  rewrite (real_if_spec U f st ctx _ [(VStr (lit "1"), VStr body)] None).
  - cbn [spec_if]. unfold expr_bool. cbn [real_rec r_expr r_eval]. unfold expr_with.
    rewrite expr_one. reflexivity.
  - cbn [map tl if_shape strip_then]. unfold is_kw. cbn [as_str]. rewrite Hthen. reflexivity.
Qed.

Lemma exec_catch_ok f st ctx body st1 v :
  eval_value_with U (run_exec U f) st (VStr body) = (st1, Ok v) ->
  run_exec U (S f) st (CmdNative NCatch ctx) (map VStr [lit "catch"; body]) = (st1, Ok (VInt 0)).
Proof.
  intros H. cbn [run_exec run_native]. unfold cmd_catch.
  change (check_args "cmd_catch" (map VStr [lit "catch"; body])) with (@Ok unit tt).
  unfold lift. rewrite bind_ok. cbn [r_eval map arg nth]. rewrite H. reflexivity.
Qed.

Lemma exec_catch_error f st ctx body st1 e :
  eval_value_with U (run_exec U f) st (VStr body) = (st1, Err e) -> x_code e = CError ->
  run_exec U (S f) st (CmdNative NCatch ctx) (map VStr [lit "catch"; body]) = (st1, Ok (VInt 1)).
Proof.
  intros H C. cbn [run_exec run_native]. unfold cmd_catch.
  change (check_args "cmd_catch" (map VStr [lit "catch"; body])) with (@Ok unit tt).
  unfold lift. rewrite bind_ok. cbn [r_eval map arg nth]. rewrite H. rewrite C. reflexivity.
Qed.

Lemma exec_foreach f st ctx body :
  run_exec U (S f) st (CmdNative NForeach ctx) (map VStr [lit "foreach"; loop_var; lit "1"; body])
  = do (st1, _) <- st_set_var st (VStr loop_var) (VStr (lit "1"));
    let '(st2, r) := eval_value_with U (run_exec U f) st1 (VStr body) in
    match classify r with
    | BNormal | BContinue | BBreak => ok_empty st2
    | BOther => (st2, r)
    end.
Proof.
  rewrite (real_foreach_spec U f st ctx _ [VStr loop_var] [VStr (lit "1")]);
    [|reflexivity|vm_compute; reflexivity|vm_compute; reflexivity|discriminate].
  cbn [map arg nth length]. change (ceil_div 1 1) with 1%nat.
  cbn [spec_foreach].
  change (chunk_bindings [VStr loop_var] [VStr (lit "1")] 0) with [(VStr loop_var, VStr (lit "1"))].
  cbn [set_vars].
  destruct (st_set_var st (VStr loop_var) (VStr (lit "1"))) as [st1 [[]|e|p|]]; reflexivity.
Qed.

End Commands.

(* ====================================================================================== *)
(* 6. the level arithmetic: a nest of [length ks] wrappers needs [length ks + 1] levels   *)
(*    (wrappers `if` and `catch`: no variable is touched)                                 *)
(* ====================================================================================== *)

Definition kind_bound (st : interp) (k : kind) : Prop :=
  match k with
  | KIf => exists ctx, assoc_get (lit "if") (i_cmds st) = Some (CmdNative NIf ctx)
  | KCatch => exists ctx, assoc_get (lit "catch") (i_cmds st) = Some (CmdNative NCatch ctx)
  | KForeach => exists ctx, assoc_get (lit "foreach") (i_cmds st) = Some (CmdNative NForeach ctx)
  end.

Definition rec_bound (st : interp) : Prop :=
  exists ctx, assoc_get (lit "rec") (i_cmds st) = Some (CmdNative NRecorder ctx).

Definition no_var (k : kind) : Prop := k <> KForeach.

(* the value of a nest that fits *)
Fixpoint val (ks : list kind) : value :=
  match ks with
  | [] => VStr (lit "deep")
  | KIf :: r => val r
  | KCatch :: _ => VInt 0
  | KForeach :: _ => v_empty
  end.

(* the outcome of a nest when [a] more levels are available *)
Inductive outcome := OFail | OVal (v : value).

Fixpoint out (a : nat) (ks : list kind) : outcome :=
  match a with
  | O => OFail
  | S a' =>
      match ks with
      | [] => OVal (VStr (lit "deep"))
      | KIf :: r => out a' r
      | KCatch :: r => match out a' r with OFail => OVal (VInt 1) | OVal _ => OVal (VInt 0) end
      | KForeach :: r => match out a' r with OFail => OFail | OVal _ => OVal v_empty end
      end
  end.

Definition is_too_many (r : res value) : Prop :=
  exists e, r = Err e /\ x_code e = CError /\ x_value e = VStr too_many_nested.

Definition matches (o : outcome) (r : res value) : Prop :=
  match o with OFail => is_too_many r | OVal v => r = Ok v end.

(* everything but the variables is as before *)
Definition same_but_scopes (st st' : interp) : Prop := st' = set_scopes st (i_scopes st').

Lemma out_fits : forall ks a, (length ks + 1 <= a)%nat -> out a ks = OVal (val ks).
Proof.
  induction ks as [|k r IH]; intros a H; (destruct a as [|a]; [cbn in H; lia|]).
  - reflexivity.
  - cbn [length] in H. destruct k; cbn [out val].
    + apply IH. lia.
    + rewrite IH by lia. reflexivity.
    + rewrite IH by lia. reflexivity.
Qed.

Lemma leave_enter_trace st t :
  set_levels (set_trace (enter st) t) (i_levels (set_trace (enter st) t) - 1) = set_trace st t.
Proof. destruct st; unfold enter, set_trace, set_levels; cbn. f_equal. lia. Qed.

Lemma leave_enter_scopes st ss :
  set_levels (set_scopes (enter st) ss) (i_levels (set_scopes (enter st) ss) - 1) = set_scopes st ss.
Proof. destruct st; unfold enter, set_scopes, set_levels; cbn. f_equal. lia. Qed.

Lemma leave_enter_both st ss t :
  set_levels (set_trace (set_scopes (enter st) ss) t)
             (i_levels (set_trace (set_scopes (enter st) ss) t) - 1)
  = set_trace (set_scopes st ss) t.
Proof. destruct st; unfold enter, set_scopes, set_trace, set_levels; cbn. f_equal. lia. Qed.

Lemma set_scopes_twice st ss ss' : set_scopes (set_scopes st ss) ss' = set_scopes st ss'.
Proof. reflexivity. Qed.

Section Nest.
Variable U : uni.

(* ---- a nest that fits runs to the recorder and comes back with every field but the trace
        unchanged ---- *)
Theorem nest_fits : forall ks fuel st,
  Forall no_var ks ->
  Forall (kind_bound st) ks -> rec_bound st ->
  i_levels st + N.of_nat (length ks) + 1 <= i_limit st ->
  (length ks + 1 <= fuel)%nat ->
  eval_value_with U (run_exec U fuel) st (VStr (nestk ks))
  = (set_trace st (deep_call :: i_trace st), Ok (val ks)).
Proof.
  induction ks as [|k r IH]; intros fuel st Hp Hk Hr Hl Hf;
    (destruct fuel as [|f]; [cbn in Hf; lia|]).
  - destruct Hr as (ctx & Hr). cbn [nestk].
    rewrite (eval_level_command U _ st innermost (lit "rec") [lit "deep"] (CmdNative NRecorder ctx));
      [|cbn [length] in Hl; lia|apply parse_innermost|exact Hr].
    unfold one_command. fold deep_call. rewrite exec_rec.
    rewrite wrap_up_ok. change (i_trace (enter st)) with (i_trace st).
    rewrite leave_enter_trace. reflexivity.
  - cbn [length] in Hl, Hf. inversion Hk as [|k' r' Hk1 Hk2]; subst k' r'.
    inversion Hp as [|k' r' Hp1 Hp2]; subst k' r'.
    assert (IH' : eval_value_with U (run_exec U f) (enter st) (VStr (nestk r))
                  = (set_trace (enter st) (deep_call :: i_trace st), Ok (val r))).
    { apply (IH f (enter st)); [exact Hp2|exact Hk2|exact Hr|cbn [enter i_levels i_limit set_levels]; lia|lia]. }
    destruct k; cbn [nestk]; [| |elim Hp1; reflexivity]; destruct Hk1 as (ctx & Hk1).
    + rewrite (eval_level_command U _ st _ (lit "if") [lit "1"; nestk r] (CmdNative NIf ctx));
        [|lia|apply parse_wrap_if; [apply nestk_brace_ok|apply nestk_not_star]|exact Hk1].
      unfold one_command. rewrite exec_if by apply nestk_not_then. rewrite IH'.
      rewrite wrap_up_ok. rewrite leave_enter_trace. reflexivity.
    + rewrite (eval_level_command U _ st _ (lit "catch") [nestk r] (CmdNative NCatch ctx));
        [|lia|apply parse_wrap_catch; [apply nestk_brace_ok|apply nestk_not_star]|exact Hk1].
      unfold one_command. rewrite (exec_catch_ok U f _ ctx _ _ _ IH').
      rewrite wrap_up_ok. rewrite leave_enter_trace. reflexivity.
Qed.

(* ---- a nest that does not fit: the recorder is not reached; the outcome is [out] ---- *)
Theorem nest_too_deep : forall ks a fuel st,
  Forall no_var ks ->
  Forall (kind_bound st) ks ->
  errvars_ok (i_scopes st) ->
  a = N.to_nat (i_limit st - i_levels st) ->
  (a < length ks + 1)%nat ->
  (length ks + 1 <= fuel)%nat ->
  exists st' r,
    eval_value_with U (run_exec U fuel) st (VStr (nestk ks)) = (st', r)
    /\ matches (out a ks) r
    /\ same_but_scopes st st'
    /\ errvars_ok (i_scopes st').
Proof.
  induction ks as [|k r IH]; intros a fuel st Hp Hk He Ha Hlt Hf;
    (destruct fuel as [|f]; [cbn in Hf; lia|]).
  - (* no wrapper: a = 0 *)
    assert (H : a = 0%nat) by (cbn in Hlt; lia). subst a.
    rewrite eval_at_limit by lia.
    exists st, (Err (molt_err too_many_nested)). split; [reflexivity|]. split.
    + rewrite H. cbn [out matches]. exists (molt_err too_many_nested). split; [reflexivity|]. split; reflexivity.
    + split; [unfold same_but_scopes; rewrite set_scopes_same; reflexivity|exact He].
  - destruct a as [|a].
    + (* at the limit already *)
      rewrite eval_at_limit by lia.
      exists st, (Err (molt_err too_many_nested)). split; [reflexivity|]. split.
      * cbn [out matches]. exists (molt_err too_many_nested). split; [reflexivity|]. split; reflexivity.
      * split; [unfold same_but_scopes; rewrite set_scopes_same; reflexivity|exact He].
    + cbn [length] in Hlt, Hf. inversion Hk as [|k' r' Hk1 Hk2]; subst k' r'.
      inversion Hp as [|k' r' Hp1 Hp2]; subst k' r'.
      assert (Hlev : i_levels st < i_limit st) by lia.
      destruct (IH a f (enter st)) as (st1 & r1 & E1 & M1 & S1 & V1);
        [exact Hp2|exact Hk2|exact He|cbn [enter i_levels i_limit set_levels]; lia|lia|lia|].
      unfold same_but_scopes in S1.
      destruct k; cbn [nestk]; [| |elim Hp1; reflexivity]; destruct Hk1 as (ctx & Hk1).
      * (* if: value and error pass through *)
        rewrite (eval_level_command U _ st _ (lit "if") [lit "1"; nestk r] (CmdNative NIf ctx));
          [|exact Hlev|apply parse_wrap_if; [apply nestk_brace_ok|apply nestk_not_star]|exact Hk1].
        unfold one_command. rewrite exec_if by apply nestk_not_then. rewrite E1.
        cbn [out]. destruct (out a r) as [|v]; cbn [matches] in M1 |- *.
        -- destruct M1 as (e & -> & C & X).
           destruct (command_outcome_keeps st1 (CmdNative NIf ctx) (lit "if")
                       (map VStr [lit "if"; lit "1"; nestk r]) e) as (e' & -> & C' & X').
           rewrite wrap_up_error by congruence.
           rewrite S1. rewrite leave_enter_scopes.
           destruct (set_global_error_data_ok (set_scopes st (i_scopes st1)) e' V1) as (ss' & -> & V').
           rewrite bind_ok. rewrite set_scopes_twice.
           eexists. eexists. split; [reflexivity|]. split.
           ++ exists e'. split; [reflexivity|]. split; congruence.
           ++ split; [reflexivity|exact V'].
        -- subst r1. rewrite wrap_up_ok. rewrite S1. rewrite leave_enter_scopes.
           eexists. eexists. split; [reflexivity|]. split; [reflexivity|].
           split; [reflexivity|exact V1].
      * (* catch: absorbs the error *)
        rewrite (eval_level_command U _ st _ (lit "catch") [nestk r] (CmdNative NCatch ctx));
          [|exact Hlev|apply parse_wrap_catch; [apply nestk_brace_ok|apply nestk_not_star]|exact Hk1].
        unfold one_command.
        cbn [out]. destruct (out a r) as [|v]; cbn [matches] in M1 |- *.
        -- destruct M1 as (e & -> & C & X).
           rewrite (exec_catch_error U f _ ctx _ _ _ E1 C).
           rewrite wrap_up_ok. rewrite S1. rewrite leave_enter_scopes.
           eexists. eexists. split; [reflexivity|]. split; [reflexivity|].
           split; [reflexivity|exact V1].
        -- subst r1. rewrite (exec_catch_ok U f _ ctx _ _ _ E1).
           rewrite wrap_up_ok. rewrite S1. rewrite leave_enter_scopes.
           eexists. eexists. split; [reflexivity|]. split; [reflexivity|].
           split; [reflexivity|exact V1].
Qed.

End Nest.

Print Assumptions nest_fits.
Print Assumptions nest_too_deep.

(* ====================================================================================== *)
(* 7. nests of all three wrappers (`foreach` assigns its variable at every level)         *)
(* ====================================================================================== *)

(* everything but the variables and the trace is as before; the trace is [t] *)
Definition same_but (st st' : interp) (t : list (list str)) : Prop :=
  st' = set_trace (set_scopes st (i_scopes st')) t.

(* the recorder is reached iff the nest fits *)
Definition trace_after (a : nat) (ks : list kind) (t : list (list str)) : list (list str) :=
  if Nat.ltb (length ks) a then deep_call :: t else t.

Section NestAny.
Variable U : uni.

Theorem nest_any : forall ks a fuel st,
  Forall (kind_bound st) ks -> rec_bound st ->
  scopes_ready (i_scopes st) ->
  a = N.to_nat (i_limit st - i_levels st) ->
  (length ks + 1 <= fuel)%nat ->
  exists st' r,
    eval_value_with U (run_exec U fuel) st (VStr (nestk ks)) = (st', r)
    /\ matches (out a ks) r
    /\ same_but st st' (trace_after a ks (i_trace st))
    /\ scopes_ready (i_scopes st').
Proof.
  induction ks as [|k r IH]; intros a fuel st Hk Hr He Ha Hf;
    (destruct fuel as [|f]; [cbn in Hf; lia|]);
    (destruct a as [|a];
     [ (* at the limit already *)
       rewrite eval_at_limit by lia;
       exists st, (Err (molt_err too_many_nested)); split; [reflexivity|]; split;
       [ cbn [out matches]; exists (molt_err too_many_nested); split; [reflexivity|]; split; reflexivity
       | split; [unfold same_but, trace_after; destruct st; reflexivity|exact He] ]
     | ]);
    assert (Hlev : i_levels st < i_limit st) by lia.
  - (* the recorder *)
    destruct Hr as (ctx & Hr). cbn [nestk].
    rewrite (eval_level_command U _ st innermost (lit "rec") [lit "deep"] (CmdNative NRecorder ctx));
      [|exact Hlev|apply parse_innermost|exact Hr].
    unfold one_command. fold deep_call. rewrite exec_rec.
    rewrite wrap_up_ok. change (i_trace (enter st)) with (i_trace st).
    rewrite leave_enter_trace.
    eexists. eexists. split; [reflexivity|]. split; [reflexivity|]. split; [|exact He].
    unfold same_but, trace_after. destruct st; reflexivity.
  - cbn [length] in Hf. inversion Hk as [|k' r' Hk1 Hk2]; subst k' r'.
    assert (Htr : forall t, trace_after (S a) (k :: r) t = trace_after a r t) by reflexivity.
    destruct k; cbn [nestk]; destruct Hk1 as (ctx & Hk1).
    + (* if *)
      destruct (IH a f (enter st)) as (st1 & r1 & E1 & M1 & S1 & V1);
        [exact Hk2|exact Hr|exact He|cbn [enter i_levels i_limit set_levels]; lia|lia|].
      unfold same_but in S1. change (i_trace (enter st)) with (i_trace st) in S1.
      rewrite (eval_level_command U _ st _ (lit "if") [lit "1"; nestk r] (CmdNative NIf ctx));
        [|exact Hlev|apply parse_wrap_if; [apply nestk_brace_ok|apply nestk_not_star]|exact Hk1].
      unfold one_command. rewrite exec_if by apply nestk_not_then. rewrite E1.
      rewrite Htr. cbn [out]. destruct (out a r) as [|v]; cbn [matches] in M1 |- *.
      * destruct M1 as (e & -> & C & X).
        destruct (command_outcome_keeps st1 (CmdNative NIf ctx) (lit "if")
                    (map VStr [lit "if"; lit "1"; nestk r]) e) as (e' & -> & C' & X').
        rewrite wrap_up_error by congruence.
        rewrite S1. rewrite leave_enter_both.
        destruct (set_global_error_data_ready
                    (set_trace (set_scopes st (i_scopes st1)) (trace_after a r (i_trace st))) e' V1)
          as (ss' & -> & V').
        rewrite bind_ok.
        eexists. eexists. split; [reflexivity|]. split.
        -- exists e'. split; [reflexivity|]. split; congruence.
        -- split; [reflexivity|exact V'].
      * subst r1. rewrite wrap_up_ok. rewrite S1. rewrite leave_enter_both.
        eexists. eexists. split; [reflexivity|]. split; [reflexivity|].
        split; [reflexivity|exact V1].
    + (* catch *)
      destruct (IH a f (enter st)) as (st1 & r1 & E1 & M1 & S1 & V1);
        [exact Hk2|exact Hr|exact He|cbn [enter i_levels i_limit set_levels]; lia|lia|].
      unfold same_but in S1. change (i_trace (enter st)) with (i_trace st) in S1.
      rewrite (eval_level_command U _ st _ (lit "catch") [nestk r] (CmdNative NCatch ctx));
        [|exact Hlev|apply parse_wrap_catch; [apply nestk_brace_ok|apply nestk_not_star]|exact Hk1].
      unfold one_command.
      rewrite Htr. cbn [out]. destruct (out a r) as [|v]; cbn [matches] in M1 |- *.
      * destruct M1 as (e & -> & C & X).
        rewrite (exec_catch_error U f _ ctx _ _ _ E1 C).
        rewrite wrap_up_ok. rewrite S1. rewrite leave_enter_both.
        eexists. eexists. split; [reflexivity|]. split; [reflexivity|].
        split; [reflexivity|exact V1].
      * subst r1. rewrite (exec_catch_ok U f _ ctx _ _ _ E1).
        rewrite wrap_up_ok. rewrite S1. rewrite leave_enter_both.
        eexists. eexists. split; [reflexivity|]. split; [reflexivity|].
        split; [reflexivity|exact V1].
    + (* foreach: the variable is assigned, then the body runs one level deeper *)
      destruct (set_loop_var_ready (enter st) (VStr (lit "1")) He) as (ssv & Ev & Vv).
      destruct (IH a f (set_scopes (enter st) ssv)) as (st1 & r1 & E1 & M1 & S1 & V1);
        [exact Hk2|exact Hr|exact Vv|cbn [enter i_levels i_limit set_levels set_scopes]; lia|lia|].
      unfold same_but in S1. rewrite set_scopes_twice in S1.
      change (i_trace (set_scopes (enter st) ssv)) with (i_trace st) in S1.
      rewrite (eval_level_command U _ st _ (lit "foreach") [loop_var; lit "1"; nestk r] (CmdNative NForeach ctx));
        [|exact Hlev|apply parse_wrap_foreach; [apply nestk_brace_ok|apply nestk_not_star]|exact Hk1].
      unfold one_command. rewrite exec_foreach. rewrite Ev. rewrite bind_ok. rewrite E1.
      rewrite Htr. cbn [out]. destruct (out a r) as [|v]; cbn [matches] in M1 |- *.
      * destruct M1 as (e & -> & C & X).
        unfold classify. rewrite C.
        destruct (command_outcome_keeps st1 (CmdNative NForeach ctx) (lit "foreach")
                    (map VStr [lit "foreach"; loop_var; lit "1"; nestk r]) e) as (e' & -> & C' & X').
        rewrite wrap_up_error by congruence.
        rewrite S1. rewrite leave_enter_both.
        destruct (set_global_error_data_ready
                    (set_trace (set_scopes st (i_scopes st1)) (trace_after a r (i_trace st))) e' V1)
          as (ss' & -> & V').
        rewrite bind_ok.
        eexists. eexists. split; [reflexivity|]. split.
        -- exists e'. split; [reflexivity|]. split; congruence.
        -- split; [reflexivity|exact V'].
      * subst r1. cbn [classify]. unfold ok_empty, ret.
        rewrite wrap_up_ok. rewrite S1. rewrite leave_enter_both.
        eexists. eexists. split; [reflexivity|]. split; [reflexivity|].
        split; [reflexivity|exact V1].
Qed.

End NestAny.

Print Assumptions nest_any.

(* ====================================================================================== *)
(* 8. C16 for the checker's families: the threshold is exactly the limit                  *)
(* ====================================================================================== *)

Lemma same_but_scopes_fields st st' :
  same_but_scopes st st' ->
  i_levels st' = i_levels st /\ i_limit st' = i_limit st /\ i_cmds st' = i_cmds st
  /\ i_trace st' = i_trace st /\ i_ctx st' = i_ctx st /\ i_test st' = i_test st.
Proof. unfold same_but_scopes. intros ->. repeat split. Qed.

Lemma same_but_fields st st' t :
  same_but st st' t ->
  i_levels st' = i_levels st /\ i_limit st' = i_limit st /\ i_cmds st' = i_cmds st
  /\ i_trace st' = t /\ i_ctx st' = i_ctx st /\ i_test st' = i_test st.
Proof. unfold same_but. intros ->. repeat split. Qed.

Lemma Forall_repeat {A} (P : A -> Prop) x n : P x -> Forall P (repeat x n).
Proof. intros H. induction n; cbn [repeat]; constructor; assumption. Qed.

Lemma val_if d : val (repeat KIf d) = VStr (lit "deep").
Proof. induction d as [|d IH]; [reflexivity|exact IH]. Qed.

Lemma out_if_fail : forall d a, (a < d + 1)%nat -> out a (repeat KIf d) = OFail.
Proof.
  induction d as [|d IH]; intros a H; (destruct a as [|a]; [reflexivity|]).
  - lia.
  - cbn [repeat out]. apply IH. lia.
Qed.

Lemma val_catch d : val (repeat KCatch d) = match d with O => VStr (lit "deep") | S _ => VInt 0 end.
Proof. destruct d; reflexivity. Qed.

Lemma out_catch_absorbs : forall d a, (1 <= a)%nat -> (a < d + 1)%nat ->
  out a (repeat KCatch d) = OVal (VInt (if Nat.eqb a 1 then 1 else 0)).
Proof.
  induction d as [|d IH]; intros a H1 H2; [lia|].
  destruct a as [|a]; [lia|]. cbn [repeat out].
  destruct a as [|a].
  - reflexivity.
  - rewrite IH by lia. reflexivity.
Qed.

Lemma val_foreach d : val (repeat KForeach d) = match d with O => VStr (lit "deep") | S _ => v_empty end.
Proof. destruct d; reflexivity. Qed.

Lemma out_foreach_fail : forall d a, (a < d + 1)%nat -> out a (repeat KForeach d) = OFail.
Proof.
  induction d as [|d IH]; intros a H; (destruct a as [|a]; [reflexivity|]).
  - lia.
  - cbn [repeat out]. rewrite IH by lia. reflexivity.
Qed.

Definition if_bound (st : interp) : Prop := kind_bound st KIf.
Definition catch_bound (st : interp) : Prop := kind_bound st KCatch.
Definition foreach_bound (st : interp) : Prop := kind_bound st KForeach.

Section C16.
Variable U : uni.

(* ---- any mixture of `if 1 {..}` and `catch {..}` wrappers, from any level ---- *)
Theorem C16_nest_exact : forall ks fuel st,
  Forall no_var ks ->
  Forall (kind_bound st) ks -> rec_bound st ->
  (length ks + 1 <= fuel)%nat ->
  (* it fits: the recorder runs exactly once and nothing else changes *)
  (i_levels st + N.of_nat (length ks) + 1 <= i_limit st ->
     eval U fuel st (nestk ks) = (set_trace st (deep_call :: i_trace st), Ok (val ks)))
  /\
  (* one level too many (or more): the recorder does not run; the innermost `catch` that was
     entered absorbs the error, otherwise the script fails with the error *)
  (i_limit st < i_levels st + N.of_nat (length ks) + 1 ->
   errvars_ok (i_scopes st) ->
     exists st' r,
       eval U fuel st (nestk ks) = (st', r)
       /\ matches (out (N.to_nat (i_limit st - i_levels st)) ks) r
       /\ i_trace st' = i_trace st /\ i_levels st' = i_levels st /\ i_limit st' = i_limit st
       /\ i_cmds st' = i_cmds st /\ errvars_ok (i_scopes st')).
Proof.
  intros ks fuel st Hp Hk Hr Hf. split.
  - intros Hl. apply nest_fits; assumption.
  - intros Hl He.
    destruct (nest_too_deep U ks _ fuel st Hp Hk He eq_refl) as (st' & r & E & M & S & V); [lia|exact Hf|].
    destruct (same_but_scopes_fields _ _ S) as (A & B & C & D & _).
    exists st', r. split; [exact E|]. split; [exact M|]. split; [exact D|]. split; [exact A|].
    split; [exact B|]. split; [exact C|exact V].
Qed.

(* ---- any mixture of the three wrappers, from any level ---- *)
Theorem C16_nest_exact_loops : forall ks fuel st,
  Forall (kind_bound st) ks -> rec_bound st ->
  scopes_ready (i_scopes st) ->
  (length ks + 1 <= fuel)%nat ->
  exists st' r,
    eval U fuel st (nestk ks) = (st', r)
    /\ i_levels st' = i_levels st /\ i_limit st' = i_limit st /\ i_cmds st' = i_cmds st
    /\ scopes_ready (i_scopes st')
    /\ (i_levels st + N.of_nat (length ks) + 1 <= i_limit st ->
          r = Ok (val ks) /\ i_trace st' = deep_call :: i_trace st)
    /\ (i_limit st < i_levels st + N.of_nat (length ks) + 1 ->
          matches (out (N.to_nat (i_limit st - i_levels st)) ks) r /\ i_trace st' = i_trace st).
Proof.
  intros ks fuel st Hk Hr He Hf.
  destruct (nest_any U ks _ fuel st Hk Hr He eq_refl Hf) as (st' & r & E & M & S & V).
  destruct (same_but_fields _ _ _ S) as (A & B & C & D & _).
  exists st', r. split; [exact E|]. split; [exact A|]. split; [exact B|]. split; [exact C|].
  split; [exact V|]. unfold trace_after in D. split.
  - intros Hl. rewrite out_fits in M by lia. split; [exact M|].
    destruct (Nat.ltb_spec (length ks) (N.to_nat (i_limit st - i_levels st))) as [Q|Q]; [exact D|lia].
  - intros Hl. split; [exact M|].
    destruct (Nat.ltb_spec (length ks) (N.to_nat (i_limit st - i_levels st))) as [Q|Q]; [lia|exact D].
Qed.

(* ---- the `if` nest: the statement of the task, from any level ---- *)
Theorem C16_if_nest_exact_from : forall (d fuel : nat) st,
  if_bound st -> rec_bound st ->
  (d + 1 <= fuel)%nat ->
  (i_levels st + N.of_nat d + 1 <= i_limit st ->
     eval U fuel st (nest_if d)
     = (set_trace st (deep_call :: i_trace st), Ok (VStr (lit "deep"))))
  /\
  (i_limit st < i_levels st + N.of_nat d + 1 ->
   errvars_ok (i_scopes st) ->
     exists st' e,
       eval U fuel st (nest_if d) = (st', Err e)
       /\ x_code e = CError /\ x_value e = VStr too_many_nested
       /\ i_trace st' = i_trace st /\ i_levels st' = i_levels st /\ i_limit st' = i_limit st
       /\ i_cmds st' = i_cmds st /\ errvars_ok (i_scopes st')).
Proof.
  intros d fuel st Hi Hr Hf.
  destruct (C16_nest_exact (repeat KIf d) fuel st) as [Fit Deep];
    [apply Forall_repeat; discriminate|apply Forall_repeat; exact Hi|exact Hr
    |rewrite repeat_length; exact Hf|].
  rewrite repeat_length in Fit, Deep. rewrite <- nest_if_nestk in Fit, Deep. split.
  - intros Hl. rewrite (Fit Hl). rewrite val_if. reflexivity.
  - intros Hl He. destruct (Deep Hl He) as (st' & r & E & M & T).
    rewrite out_if_fail in M by lia. destruct M as (e & -> & C & X).
    destruct T as (T & L & M' & K & V).
    exists st', e. split; [exact E|]. split; [exact C|]. split; [exact X|]. split; [exact T|].
    split; [exact L|]. split; [exact M'|]. split; [exact K|exact V].
Qed.

(* ---- at the top level: nesting depth d+1 succeeds iff d+1 <= N ---- *)
Theorem C16_if_nest_exact : forall (N : N) (d fuel : nat) st,
  i_levels st = 0 -> i_limit st = N ->
  if_bound st -> rec_bound st ->
  (d + 1 <= fuel)%nat ->
  (N.of_nat d + 1 <= N ->
     exists st',
       eval U fuel st (nest_if d) = (st', Ok (VStr (lit "deep")))
       /\ i_levels st' = 0 /\ i_limit st' = N /\ i_cmds st' = i_cmds st
       /\ i_scopes st' = i_scopes st
       /\ i_trace st' = deep_call :: i_trace st)
  /\
  (N < N.of_nat d + 1 ->
   errvars_ok (i_scopes st) ->
     exists st' e,
       eval U fuel st (nest_if d) = (st', Err e)
       /\ x_code e = CError /\ x_value e = VStr too_many_nested
       /\ i_levels st' = 0 /\ i_limit st' = N /\ i_cmds st' = i_cmds st
       /\ i_trace st' = i_trace st /\ errvars_ok (i_scopes st')).
Proof.
  intros N d fuel st H0 HN Hi Hr Hf.
  destruct (C16_if_nest_exact_from d fuel st Hi Hr Hf) as [Fit Deep]. split.
  - intros Hl. rewrite Fit by lia. eexists. split; [reflexivity|].
    cbn [set_trace i_levels i_limit i_cmds i_scopes i_trace]. repeat split; assumption.
  - intros Hl He. destruct (Deep ltac:(lia) He) as (st' & e & E & C & X & T & L & M & K & V).
    exists st', e. split; [exact E|]. split; [exact C|]. split; [exact X|]. split; [congruence|].
    split; [congruence|]. split; [exact K|]. split; [exact T|exact V].
Qed.

(* ---- recoverability: after the failing run the full depth N is available again ---- *)
Theorem C16_if_nest_recovers : forall (N : N) (d fuel : nat) st st' r,
  i_levels st = 0 -> i_limit st = N -> 1 <= N ->
  if_bound st -> rec_bound st -> errvars_ok (i_scopes st) ->
  (d + 1 <= fuel)%nat ->
  N < N.of_nat d + 1 ->
  eval U fuel st (nest_if d) = (st', r) ->
  i_trace st' = i_trace st /\
  forall fuel', (N.to_nat N <= fuel')%nat ->
    exists st'',
      eval U fuel' st' (nest_if (N.to_nat N - 1)) = (st'', Ok (VStr (lit "deep")))
      /\ i_levels st'' = 0 /\ i_limit st'' = N
      /\ i_trace st'' = deep_call :: i_trace st.
Proof.
  intros N d fuel st st' r H0 HN H1 Hi Hr He Hf Hl E.
  destruct (C16_if_nest_exact N d fuel st H0 HN Hi Hr Hf) as [_ Deep].
  destruct (Deep Hl He) as (st1 & e & E1 & C & X & L & M & K & T & V).
  rewrite E in E1. inversion E1; subst st1 r. clear E1.
  split; [exact T|]. intros fuel' Hf'.
  assert (Hi' : if_bound st') by (unfold if_bound, kind_bound; rewrite K; exact Hi).
  assert (Hr' : rec_bound st') by (unfold rec_bound; rewrite K; exact Hr).
  destruct (C16_if_nest_exact N (N.to_nat N - 1) fuel' st' L M Hi' Hr' ltac:(lia)) as [Fit _].
  destruct (Fit ltac:(lia)) as (st'' & E2 & L2 & M2 & K2 & S2 & T2).
  exists st''. repeat split; try assumption. rewrite T2, T. reflexivity.
Qed.

(* ---- the `catch` nest: every level is guarded, so a nest that is too deep still succeeds,
        but the recorder is not reached: the catch at level N reports code 1 ---- *)
Theorem C16_catch_nest_exact : forall (N : N) (d fuel : nat) st,
  i_levels st = 0 -> i_limit st = N -> 1 <= N ->
  catch_bound st -> rec_bound st ->
  (d + 1 <= fuel)%nat ->
  (N.of_nat d + 1 <= N ->
     eval U fuel st (nest_catch d)
     = (set_trace st (deep_call :: i_trace st),
        Ok (match d with O => VStr (lit "deep") | S _ => VInt 0 end)))
  /\
  (N < N.of_nat d + 1 ->
   errvars_ok (i_scopes st) ->
     exists st',
       eval U fuel st (nest_catch d) = (st', Ok (VInt (if N =? 1 then 1 else 0)))
       /\ i_levels st' = 0 /\ i_limit st' = N /\ i_cmds st' = i_cmds st
       /\ i_trace st' = i_trace st /\ errvars_ok (i_scopes st')).
Proof.
  intros N d fuel st H0 HN H1 Hc Hr Hf.
  destruct (C16_nest_exact (repeat KCatch d) fuel st) as [Fit Deep];
    [apply Forall_repeat; discriminate|apply Forall_repeat; exact Hc|exact Hr
    |rewrite repeat_length; exact Hf|].
  rewrite repeat_length in Fit, Deep. rewrite <- nest_catch_nestk in Fit, Deep. split.
  - intros Hl. rewrite Fit by lia. rewrite val_catch. reflexivity.
  - intros Hl He. destruct (Deep ltac:(lia) He) as (st' & r & E & M & T & L & M' & K & V).
    rewrite out_catch_absorbs in M by lia. cbn [matches] in M. subst r.
    exists st'. split.
    + rewrite E. do 3 f_equal.
      destruct (Nat.eqb_spec (N.to_nat (i_limit st - i_levels st)) 1) as [Q|Q];
        destruct (N.eqb_spec N 1) as [Q'|Q']; try reflexivity; lia.
    + split; [congruence|]. split; [congruence|]. split; [exact K|]. split; [exact T|exact V].
Qed.

(* ---- the `foreach` nest (a loop body at every level; the loop variable is [v]) ---- *)
Theorem C16_foreach_nest_exact : forall (N : N) (d fuel : nat) st,
  i_levels st = 0 -> i_limit st = N ->
  foreach_bound st -> rec_bound st ->
  scopes_ready (i_scopes st) ->
  (d + 1 <= fuel)%nat ->
  exists st' r,
    eval U fuel st (nest_foreach d) = (st', r)
    /\ i_levels st' = 0 /\ i_limit st' = N /\ i_cmds st' = i_cmds st
    /\ scopes_ready (i_scopes st')
    /\ (N.of_nat d + 1 <= N ->
          r = Ok (match d with O => VStr (lit "deep") | S _ => v_empty end)
          /\ i_trace st' = deep_call :: i_trace st)
    /\ (N < N.of_nat d + 1 ->
          (exists e, r = Err e /\ x_code e = CError /\ x_value e = VStr too_many_nested)
          /\ i_trace st' = i_trace st).
Proof.
  intros N d fuel st H0 HN Hc Hr He Hf.
  destruct (C16_nest_exact_loops (repeat KForeach d) fuel st) as (st' & r & E & L & M & K & V & Fit & Deep);
    [apply Forall_repeat; exact Hc|exact Hr|exact He|rewrite repeat_length; exact Hf|].
  rewrite repeat_length in Fit, Deep. rewrite <- nest_foreach_nestk in E.
  exists st', r. split; [exact E|]. split; [congruence|]. split; [congruence|]. split; [exact K|].
  split; [exact V|]. split.
  - intros Hl. destruct (Fit ltac:(lia)) as [R T]. rewrite val_foreach in R. split; assumption.
  - intros Hl. destruct (Deep ltac:(lia)) as [R T]. rewrite out_foreach_fail in R by lia.
    split; [exact R|exact T].
Qed.

End C16.

Print Assumptions C16_nest_exact.
Print Assumptions C16_nest_exact_loops.
Print Assumptions C16_if_nest_exact_from.
Print Assumptions C16_if_nest_exact.
Print Assumptions C16_if_nest_recovers.
Print Assumptions C16_catch_nest_exact.
Print Assumptions C16_foreach_nest_exact.

(* ====================================================================================== *)
(* 9. the checker's interpreter                                                           *)
(* ====================================================================================== *)

Import Check.ScriptObs.

(* the interpreter of Check/C16: Interp::new() plus the harness commands, with limit N *)
Definition limited (n : N) : interp := set_limit (harness_interp 0) n.

Lemma limited_scopes n : i_scopes (limited n) = sc_put [[]] O (lit "errorInfo") (VarScalar v_empty).
Proof. reflexivity. Qed.

Lemma limited_ok n :
  i_levels (limited n) = 0 /\ i_limit (limited n) = n
  /\ if_bound (limited n) /\ catch_bound (limited n) /\ foreach_bound (limited n)
  /\ rec_bound (limited n)
  /\ scopes_ready (i_scopes (limited n)).
Proof.
  split; [reflexivity|]. split; [reflexivity|].
  split; [exists 0; vm_compute; reflexivity|].
  split; [exists 0; vm_compute; reflexivity|].
  split; [exists 0; vm_compute; reflexivity|].
  split; [exists 0; vm_compute; reflexivity|].
  split; [|split].
  - rewrite limited_scopes. apply inv_put_plain; [exact scope_inv_init|reflexivity|discriminate].
  - split; vm_compute; exact I.
  - intros m. vm_compute. discriminate.
Qed.

(* C16 on the checker's interpreter, for every limit N >= 1 and every depth *)
Theorem C16_harness_if_nest : forall (N : N) (d fuel : nat),
  1 <= N -> (d + 1 <= fuel)%nat ->
  (N.of_nat d + 1 <= N ->
     exists st',
       eval std_uni fuel (limited N) (nest_if d) = (st', Ok (VStr (lit "deep")))
       /\ i_levels st' = 0 /\ i_limit st' = N /\ i_trace st' = [deep_call])
  /\
  (N < N.of_nat d + 1 ->
     exists st' e,
       eval std_uni fuel (limited N) (nest_if d) = (st', Err e)
       /\ x_code e = CError /\ x_value e = VStr too_many_nested
       /\ i_levels st' = 0 /\ i_limit st' = N /\ i_trace st' = []
       /\ (* afterwards the full depth is available again *)
          forall fuel', (N.to_nat N <= fuel')%nat ->
            exists st'',
              eval std_uni fuel' st' (nest_if (N.to_nat N - 1)) = (st'', Ok (VStr (lit "deep")))
              /\ i_levels st'' = 0 /\ i_trace st'' = [deep_call]).
Proof.
  intros N d fuel H1 Hf.
  destruct (limited_ok N) as (L & M & Hi & Hc & Hfe & Hr & (_ & He & _)).
  destruct (C16_if_nest_exact std_uni N d fuel (limited N) L M Hi Hr Hf) as [Fit Deep]. split.
  - intros Hl. destruct (Fit Hl) as (st' & E & L' & M' & K & S & T).
    exists st'. repeat split; assumption.
  - intros Hl. destruct (Deep Hl He) as (st' & e & E & C & X & L' & M' & K & T & V).
    exists st', e. split; [exact E|]. split; [exact C|]. split; [exact X|]. split; [exact L'|].
    split; [exact M'|]. split; [exact T|].
    intros fuel' Hf'.
    destruct (C16_if_nest_recovers std_uni N d fuel (limited N) st' (Err e) L M H1 Hi Hr He Hf Hl E)
      as (_ & Rec).
    destruct (Rec fuel' Hf') as (st'' & E2 & L2 & M2 & T2).
    exists st''. repeat split; assumption.
Qed.

Print Assumptions C16_harness_if_nest.

(* ---- instances by computation: N = 3 ---- *)
Example if_nest_limit3_depth2 :
  let '(st', r) := eval std_uni 10 (limited 3) (nest_if 2) in
  r = Ok (VStr (lit "deep")) /\ i_trace st' = [deep_call] /\ i_levels st' = 0.
Proof. vm_compute. repeat split. Qed.

Example if_nest_limit3_depth3 :
  let '(st', r) := eval std_uni 10 (limited 3) (nest_if 3) in
  (exists e, r = Err e /\ x_code e = CError /\ x_value e = VStr too_many_nested)
  /\ i_trace st' = [] /\ i_levels st' = 0
  /\ snd (eval std_uni 10 st' (nest_if 2)) = Ok (VStr (lit "deep")).
Proof. vm_compute. split; [eexists; repeat split|repeat split]. Qed.

Example catch_nest_limit3 :
  snd (eval std_uni 10 (limited 3) (nest_catch 2)) = Ok (VInt 0)
  /\ i_trace (fst (eval std_uni 10 (limited 3) (nest_catch 2))) = [deep_call]
  /\ snd (eval std_uni 10 (limited 3) (nest_catch 3)) = Ok (VInt 0)
  /\ i_trace (fst (eval std_uni 10 (limited 3) (nest_catch 3))) = []
  /\ snd (eval std_uni 10 (limited 1) (nest_catch 3)) = Ok (VInt 1).
Proof. vm_compute. repeat split. Qed.

Example foreach_nest_limit3 :
  snd (eval std_uni 10 (limited 3) (nest_foreach 2)) = Ok v_empty
  /\ i_trace (fst (eval std_uni 10 (limited 3) (nest_foreach 2))) = [deep_call]
  /\ (exists e, snd (eval std_uni 10 (limited 3) (nest_foreach 3)) = Err e
                /\ x_code e = CError /\ x_value e = VStr too_many_nested)
  /\ i_trace (fst (eval std_uni 10 (limited 3) (nest_foreach 3))) = [].
Proof. vm_compute. split; [reflexivity|]. split; [reflexivity|]. split; [eexists; repeat split|reflexivity]. Qed.

(* a mixture: the catch entered at level 2 absorbs the refusal of level 4 *)
Example mixed_nest_limit3 :
  snd (eval std_uni 10 (limited 3) (nestk [KIf; KCatch; KForeach; KIf])) = Ok (VInt 1)
  /\ out 3 [KIf; KCatch; KForeach; KIf] = OVal (VInt 1)
  /\ i_trace (fst (eval std_uni 10 (limited 3) (nestk [KIf; KCatch; KForeach; KIf]))) = [].
Proof. vm_compute. repeat split. Qed.

(* ---- the hypothesis [errvars_ok] cannot be dropped: when the global errorInfo is an array
        the error that comes out of a too deep nest is the failure to record the error ---- *)
Example errorInfo_array_changes_the_error :
  let st := fst (eval std_uni 10 (limited 3) (lit "unset errorInfo; array set errorInfo {a b}")) in
  i_levels st = 0 /\ i_limit st = 3 /\ if_bound st /\ rec_bound st
  /\ ~ errvars_ok (i_scopes st)
  /\ exists e, snd (eval std_uni 10 st (nest_if 3)) = Err e
               /\ x_value e = VStr (lit "can't set ""errorInfo"": variable is array").
Proof.
  vm_compute. split; [reflexivity|]. split; [reflexivity|].
  split; [exists 0; reflexivity|]. split; [exists 0; reflexivity|].
  split; [intros [[] _]|]. eexists. split; reflexivity.
Qed.

(* ====================================================================================== *)
(* 10. the families are the ones the checker's nest builder produces (Check/C16.v [nest])  *)
(* ====================================================================================== *)

Lemma iter_shift {A} (g : A -> A) : forall n x, Nat.iter n g (g x) = g (Nat.iter n g x).
Proof.
  induction n as [|n IH]; intros x; [reflexivity|].
  change (g (Nat.iter n g (g x)) = g (g (Nat.iter n g x))). rewrite IH. reflexivity.
Qed.

Lemma zrepeat_const (f : Z -> str -> str) (g : str -> str) :
  (forall i s, f i s = g s) ->
  forall d s, Molt.Check.C16.zrepeat d f s = Nat.iter (Z.to_nat d) g s.
Proof.
  intros Hf d s. unfold Molt.Check.C16.zrepeat.
  assert (G : forall n i x,
             fold_left (fun (acc : Z * str) (_ : unit) => let '(i, s) := acc in ((i + 1)%Z, f i s))
                       (repeat tt n) (i, x)
             = ((i + Z.of_nat n)%Z, Nat.iter n g x)).
  { induction n as [|n IH]; intros i x.
    - cbn [repeat fold_left]. change (Nat.iter 0 g x) with x. f_equal. lia.
    - cbn [repeat fold_left]. rewrite IH. rewrite Hf. rewrite iter_shift.
      change (Nat.iter (S n) g x) with (g (Nat.iter n g x)). f_equal. lia. }
  rewrite G. reflexivity.
Qed.

Lemma nest_if_iter d : nest_if d = Nat.iter d (wrap KIf) (lit "rec deep").
Proof.
  induction d as [|d IH]; [reflexivity|].
  change (Nat.iter (S d) (wrap KIf) (lit "rec deep")) with (wrap KIf (Nat.iter d (wrap KIf) (lit "rec deep"))).
  rewrite <- IH. reflexivity.
Qed.

Lemma nest_catch_iter d : nest_catch d = Nat.iter d (wrap KCatch) (lit "rec deep").
Proof.
  induction d as [|d IH]; [reflexivity|].
  change (Nat.iter (S d) (wrap KCatch) (lit "rec deep")) with (wrap KCatch (Nat.iter d (wrap KCatch) (lit "rec deep"))).
  rewrite <- IH. reflexivity.
Qed.

Lemma nestk_pairs_iter d :
  nestk (concat (repeat [KCatch; KIf] d)) = Nat.iter d (fun s => wrap KCatch (wrap KIf s)) (lit "rec deep").
Proof.
  induction d as [|d IH]; [reflexivity|].
  change (Nat.iter (S d) (fun s => wrap KCatch (wrap KIf s)) (lit "rec deep"))
    with (wrap KCatch (wrap KIf (Nat.iter d (fun s => wrap KCatch (wrap KIf s)) (lit "rec deep")))).
  rewrite <- IH. reflexivity.
Qed.

(* kind 1: `if 1 {..}` *)
Theorem checker_nest_if d : Molt.Check.C16.nest 1 d false = nest_if (Z.to_nat d).
Proof.
  unfold Molt.Check.C16.nest. rewrite (zrepeat_const _ (wrap KIf)); [|intros i s; reflexivity].
  symmetry. apply nest_if_iter.
Qed.

(* kind 0: `catch {..}` (with or without the catch-each flag) *)
Theorem checker_nest_catch d ce : Molt.Check.C16.nest 0 d ce = nest_catch (Z.to_nat d).
Proof.
  unfold Molt.Check.C16.nest. rewrite (zrepeat_const _ (wrap KCatch)).
  - symmetry. apply nest_catch_iter.
  - intros i s. destruct ce; reflexivity.
Qed.

(* kind 1 with a catch around every level: the wrappers alternate *)
Theorem checker_nest_if_catch_each d :
  Molt.Check.C16.nest 1 d true = nestk (concat (repeat [KCatch; KIf] (Z.to_nat d))).
Proof.
  unfold Molt.Check.C16.nest.
  rewrite (zrepeat_const _ (fun s => wrap KCatch (wrap KIf s))); [|intros i s; reflexivity].
  symmetry. apply nestk_pairs_iter.
Qed.

Print Assumptions checker_nest_if.
Print Assumptions checker_nest_catch.
Print Assumptions checker_nest_if_catch_each.

(* the checker's case (kind 1, target, no catch-each): its script needs [need] levels, and it
   succeeds iff need <= N *)
Theorem C16_checker_if_script : forall U (N : N) (target : Z) (fuel : nat) st,
  i_levels st = 0 -> i_limit st = N -> if_bound st -> rec_bound st ->
  let s := fst (Molt.Check.C16.script_for 1 target false) in
  let need := snd (Molt.Check.C16.script_for 1 target false) in
  (Z.to_nat need <= fuel)%nat ->
  ((need <= Z.of_N N)%Z ->
     exists st', eval U fuel st s = (st', Ok (VStr (lit "deep")))
                 /\ i_levels st' = 0 /\ i_limit st' = N /\ i_trace st' = deep_call :: i_trace st)
  /\
  ((Z.of_N N < need)%Z -> errvars_ok (i_scopes st) ->
     exists st' e, eval U fuel st s = (st', Err e)
                   /\ x_code e = CError /\ x_value e = VStr too_many_nested
                   /\ i_levels st' = 0 /\ i_limit st' = N /\ i_trace st' = i_trace st).
Proof.
  intros U N target fuel st H0 HN Hi Hr.
  unfold Molt.Check.C16.script_for. change (1 =? 6)%Z with false. change (1 <=? 3)%Z with true.
  change (false && negb (1 =? 0)%Z) with false. cbn iota. cbn [fst snd].
  set (d := Z.max ((target - 1) / 1) 0). rewrite checker_nest_if.
  intros Hf.
  assert (Hd : (0 <= d)%Z) by (unfold d; lia).
  destruct (C16_if_nest_exact U N (Z.to_nat d) fuel st H0 HN Hi Hr ltac:(lia)) as [Fit Deep]. split.
  - intros Hl. destruct (Fit ltac:(lia)) as (st' & E & L & M & K & S & T).
    exists st'. repeat split; assumption.
  - intros Hl He. destruct (Deep ltac:(lia) He) as (st' & e & E & C & X & L & M & K & T & V).
    exists st', e. repeat split; assumption.
Qed.

Print Assumptions C16_checker_if_script.
