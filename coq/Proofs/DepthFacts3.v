(* DepthFacts3.v — C16, continued: recursion through a command substitution inside an
   expression.  The checker's kind-7 script (Check/C16.v [script_for])
       proc sum {n} {if {$n <= 0} {rec deep; return 0}; expr {1 + [sum [expr {$n - 1}]]}}; sum K
   needs exactly K+3 evaluation levels: a command substitution inside `expr` is evaluated at
   the level of the body that contains the `expr`. *)
From Molt Require Import Model.Base Model.Tokenizer Model.ListSyn Model.Float Model.Value
  Model.State Model.Script Model.Parser Model.Eval Model.Expr Model.Commands Model.Unicode
  Model.Interp.
From Molt Require Import Spec.SpecCtl Spec.SpecVars.
From Molt Require Import Proofs.BaseFacts Proofs.ValueFacts Proofs.ListSynFacts
  Proofs.ListAsCommandFacts Proofs.BindFacts Proofs.NoEvalFacts Proofs.ExprFacts
  Proofs.InterpFacts Proofs.ErrFacts Proofs.ScopeFacts Proofs.CtlStructFacts Proofs.DepthFacts
  Proofs.DepthFacts2.
From Molt Require Check.ScriptObs Check.C16 Proofs.RepFacts.
From Coq Require Import Lia ZifyBool ZifyN.

Arguments N.eqb : simpl never.
Arguments N.leb : simpl never.
Arguments N.ltb : simpl never.

Local Open Scope N_scope.

(* ====================================================================================== *)
(* 1. the expression `1 + [sum [expr {$n - 1}]]`                                          *)
(* ====================================================================================== *)

Definition sum_name : str := lit "sum".
Definition sum_expr_text : str := lit "1 + [sum [expr {$n - 1}]]".

(* the script inside the brackets *)
Definition sum_inner : script :=
  [[WValue sum_name; WScript [map WValue [lit "expr"; pred_text]]]].

Section SumExpr.
Variable ia ib : char -> bool.
Variable exec : executor.

Definition i_after_plus : einfo :=
  {| e_rest := lit " [sum [expr {$n - 1}]]"; e_token := T_PLUS; e_noeval := 0 |}.
Definition i_value_end : einfo := {| e_rest := []; e_token := T_VALUE; e_noeval := 0 |}.
Definition i_end : einfo := {| e_rest := []; e_token := T_END; e_noeval := 0 |}.

Lemma parse_sum_inner :
  parse_script ia (parse_fuel (lit "sum [expr {$n - 1}]]")) true (lit "sum [expr {$n - 1}]]") []
  = POk sum_inner [c_rbracket].
Proof. vm_compute. reflexivity. Qed.

Lemma lex_bracket_ok orig f st st1 v d :
  eval_script exec st sum_inner = (st1, Ok v) -> expr_parse_value v = Ok d ->
  expr_lex ia ib exec orig (S f) st i_after_plus = (st1, Ok (d, i_value_end)).
Proof.
  intros He Hd. rewrite expr_lex_S. unfold i_after_plus at 1. cbn [e_rest].
  change (skip_while is_whitespace (lit " [sum [expr {$n - 1}]]"))
    with (c_lbracket :: lit "sum [expr {$n - 1}]]").
  cbv zeta.
  assert (L : lex_number i_after_plus (c_lbracket :: lit "sum [expr {$n - 1}]]") c_lbracket = None)
    by reflexivity.
  cbv beta iota. rewrite L. change (c_lbracket =? c_dollar) with false.
  change (c_lbracket =? c_lbracket) with true. cbn iota.
  rewrite parse_sum_inner. unfold lift_p.
  change (noeval i_after_plus) with false. cbn iota. rewrite He.
  change (c_rbracket =? c_rbracket) with true. cbn iota.
  unfold lex_value_of. change (noeval i_after_plus) with false. cbn iota. rewrite Hd. reflexivity.
Qed.

Lemma lex_bracket_err orig f st st1 e :
  eval_script exec st sum_inner = (st1, Err e) ->
  expr_lex ia ib exec orig (S f) st i_after_plus = (st1, Err e).
Proof.
  intros He. rewrite expr_lex_S. unfold i_after_plus at 1. cbn [e_rest].
  change (skip_while is_whitespace (lit " [sum [expr {$n - 1}]]"))
    with (c_lbracket :: lit "sum [expr {$n - 1}]]").
  cbv zeta.
  assert (L : lex_number i_after_plus (c_lbracket :: lit "sum [expr {$n - 1}]]") c_lbracket = None)
    by reflexivity.
  cbv beta iota. rewrite L. change (c_lbracket =? c_dollar) with false.
  change (c_lbracket =? c_lbracket) with true. cbn iota.
  rewrite parse_sum_inner. unfold lift_p.
  change (noeval i_after_plus) with false. cbn iota. rewrite He.
  unfold lex_value_of. reflexivity.
Qed.

(* up to the operand in brackets *)
Lemma sum_expr_head st :
  expr_eval ia ib exec st (VStr sum_expr_text) =
  match
    (match expr_get_value ia ib exec sum_expr_text 114 st i_after_plus (prec T_PLUS) with
     | (st2, Ok (v2, i2)) =>
         if bad_after_token i2 then (st2, syntax_error sum_expr_text)
         else if noeval i2 then expr_loop ia ib exec sum_expr_text 114 st2 i2 (-1) (DInt 1)
         else match apply_binop T_PLUS (DInt 1) v2 with
              | Ok v' => expr_loop ia ib exec sum_expr_text 114 st2 i2 (-1) v'
              | Err e => (st2, Err e)
              | Panic p => (st2, Panic p)
              | Fuel => (st2, Fuel)
              end
     | (st2, Err e) => (st2, Err e)
     | (st2, Panic p) => (st2, Panic p)
     | (st2, Fuel) => (st2, Fuel)
     end)
  with
  | (st1, Ok (v, i1)) =>
      if negb (e_token i1 =? T_END)%Z then
        (st1, err (lit "syntax error in expression """ ++ sum_expr_text ++ lit """"))
      else
        (st1, Ok (match v with DInt z => VInt z | DFlt f => VFlt f | DStr x => VStr x end))
  | (st1, Err ex) =>
      match x_code ex with
      | CBreak => (st1, err (lit "invoked ""break"" outside of a loop"))
      | CContinue => (st1, err (lit "invoked ""continue"" outside of a loop"))
      | _ => (st1, Err ex)
      end
  | (st1, Panic p) => (st1, Panic p)
  | (st1, Fuel) => (st1, Fuel)
  end.
Proof.
  unfold expr_eval. cbn [as_str].
  change (expr_fuel sum_expr_text) with (S (S 114)).
  rewrite expr_get_value_S.
  set (orig := sum_expr_text).
  set (i0 := {| e_rest := orig; e_token := -1; e_noeval := 0 |}).
  set (i1 := {| e_rest := lit " + [sum [expr {$n - 1}]]"; e_token := T_VALUE; e_noeval := 0 |}).
  assert (G0 : expr_lex ia ib exec orig (S 114) st i0 = (st, Ok (DInt 1, i1))) by (vm_compute; reflexivity).
  rewrite G0. cbv beta iota.
  assert (G1 : gv_first ia ib exec orig (S 114) st (DInt 1) i1 = (st, Ok (DInt 1, i1, false)))
    by (vm_compute; reflexivity).
  rewrite G1. cbv beta iota.
  assert (G2 : expr_lex ia ib exec orig (S 114) st i1 = (st, Ok (d_none, i_after_plus)))
    by (vm_compute; reflexivity).
  rewrite G2. cbv beta iota.
  rewrite (loop_step_ordinary ia ib exec orig 114 st i_after_plus (-1) (DInt 1));
    [|vm_compute; split; discriminate|reflexivity].
  reflexivity.
Qed.

Lemma gv_bracket_ok st st1 v d :
  eval_script exec st sum_inner = (st1, Ok v) -> expr_parse_value v = Ok d ->
  expr_get_value ia ib exec sum_expr_text 114 st i_after_plus (prec T_PLUS) = (st1, Ok (d, i_end)).
Proof.
  intros He Hd. change 114%nat with (S (S 112)).
  rewrite expr_get_value_S. rewrite (lex_bracket_ok _ _ _ _ _ _ He Hd). cbv beta iota.
  assert (G1 : gv_first ia ib exec sum_expr_text (S 112) st1 d i_value_end = (st1, Ok (d, i_value_end, false)))
    by reflexivity.
  rewrite G1. cbv beta iota.
  assert (G2 : expr_lex ia ib exec sum_expr_text (S 112) st1 i_value_end = (st1, Ok (d_none, i_end)))
    by (vm_compute; reflexivity).
  rewrite G2. cbv beta iota.
  apply loop_stops_at_end. left. reflexivity.
Qed.

Lemma gv_bracket_err st st1 e :
  eval_script exec st sum_inner = (st1, Err e) ->
  expr_get_value ia ib exec sum_expr_text 114 st i_after_plus (prec T_PLUS) = (st1, Err e).
Proof.
  intros He. change 114%nat with (S (S 112)).
  rewrite expr_get_value_S. rewrite (lex_bracket_err _ _ _ _ _ He). reflexivity.
Qed.

(* the substitution yields an integer: one more *)
Lemma expr_eval_sum_ok st st1 v z :
  eval_script exec st sum_inner = (st1, Ok v) -> int_like v z -> in_i64 (1 + z) = true ->
  expr_eval ia ib exec st (VStr sum_expr_text) = (st1, Ok (VInt (1 + z))).
Proof.
  intros He Hv Hr. rewrite sum_expr_head. rewrite (gv_bracket_ok _ _ _ _ He Hv).
  change (bad_after_token i_end) with false. change (noeval i_end) with false. cbv beta iota.
  rewrite int_plus, Hr. change 114%nat with (S 113).
  rewrite loop_stops_at_end by (left; reflexivity). reflexivity.
Qed.

(* the substitution fails: so does the expression, with the same error *)
Lemma expr_eval_sum_err st st1 e :
  eval_script exec st sum_inner = (st1, Err e) -> x_code e = CError ->
  expr_eval ia ib exec st (VStr sum_expr_text) = (st1, Err e).
Proof.
  intros He Hc. rewrite sum_expr_head. rewrite (gv_bracket_err _ _ _ He). cbv beta iota.
  rewrite Hc. reflexivity.
Qed.

End SumExpr.

(* ====================================================================================== *)
(* 2. the procedure `sum`: one frame = one level                                          *)
(* ====================================================================================== *)

Definition then0_text : str := lit "rec deep; return 0".

Definition sum_body_text : str :=
  lit "if {$n <= 0} {rec deep; return 0}; expr {1 + [sum [expr {$n - 1}]]}".

Definition sum_body_script : script :=
  [ map WValue [lit "if"; cond_text; then0_text];
    map WValue [lit "expr"; sum_expr_text] ].

(* the value `proc sum {n} {...}` creates *)
Definition sum_proc : command := CmdProc [VStr var_n] (VStr sum_body_text).

Definition zero_value : value := VStr (lit "0").
Definition return_zero : exn := molt_return_ext zero_value 1 COkay.

(* what `sum m` returns: the text 0 from `return 0`, an integer from `expr` otherwise *)
Definition sum_ret (m : nat) : value :=
  match m with O => zero_value | S _ => VInt (Z.of_nat m) end.

Lemma sum_ret_int m : int_like (sum_ret m) (Z.of_nat m).
Proof. destruct m; [vm_compute; reflexivity|apply int_like_int]. Qed.

Lemma eval_cmds_nil exec st v : eval_cmds_with exec (eval_word exec) st [] v = (st, Ok v).
Proof. reflexivity. Qed.

Section Frames3.
Variable U : uni.
Hypothesis U_n : u_alnum U 110 = true.
Hypothesis U_sp : u_alnum U 32 = false.

Variable st0 : interp.
Variables c_if c_expr c_return c_rec : N.
Hypothesis H_if : assoc_get (lit "if") (i_cmds st0) = Some (CmdNative NIf c_if).
Hypothesis H_expr : assoc_get (lit "expr") (i_cmds st0) = Some (CmdNative NExpr c_expr).
Hypothesis H_return : assoc_get (lit "return") (i_cmds st0) = Some (CmdNative NReturn c_return).
Hypothesis H_rec : assoc_get (lit "rec") (i_cmds st0) = Some (CmdNative NRecorder c_rec).

Local Notation N0 := (i_limit st0).
Local Notation MK := (mk st0).

(* [Spec] of DepthFacts2 with the returned value as a parameter *)
Definition Spec3 (C : command) (cname : str) (arg ret : value) (need fneed : nat) : Prop :=
  forall fuel l ss t, (fneed <= fuel)%nat -> 1 <= l -> ss <> [] ->
    (l + N.of_nat need <= N0 ->
       run_exec U fuel (MK l ss t) C [VStr cname; arg] = (MK l ss (deep_call :: t), Ok ret))
    /\
    (N0 < l + N.of_nat need -> errvars_ok ss ->
       exists ss' e,
         run_exec U fuel (MK l ss t) C [VStr cname; arg] = (MK l ss' t, Err e)
         /\ x_code e = CError /\ x_value e = VStr too_many_nested
         /\ length ss' = length ss /\ errvars_ok ss').

Lemma leave_frame_return0 l ss fr t :
  1 <= l ->
  (let '(st3, r) := wrap_up (MK (l + 1) (ss ++ [fr]) t, Err return_zero) in proc_boundary (pop_scope st3) r)
  = (MK l ss t, Ok zero_value).
Proof.
  intros Hl. rewrite wrap_up_passes; [|cbn [mk i_levels]; lia|discriminate].
  unfold pop_scope.
  cbn [mk set_levels set_scopes i_levels i_scopes i_cmds i_limit i_ctx i_last_ctx i_trace i_test].
  rewrite sc_pop_app. replace (l + 1 - 1) with l by lia. reflexivity.
Qed.

Lemma parse_then0 :
  parse (u_alnum U) then0_text = POk [map WValue deep_call; map WValue [lit "return"; lit "0"]] [].
Proof. vm_compute. reflexivity. Qed.

Lemma exec_return_zero f st ctx :
  run_exec U (S f) st (CmdNative NReturn ctx) (map VStr [lit "return"; lit "0"])
  = (st, Err return_zero).
Proof. reflexivity. Qed.

(* the body of the `if` at the bottom: the recorder, then `return 0` *)
Lemma then0_body f l ss t :
  1 <= l -> l < N0 ->
  eval_value_with U (run_exec U (S f)) (MK l ss t) (VStr then0_text)
  = (MK l ss (deep_call :: t), Err return_zero).
Proof.
  intros H1 Hl.
  rewrite (eval_level U _ (MK l ss t) _ _ Hl parse_then0).
  change (enter (MK l ss t)) with (MK (l + 1) ss t).
  unfold eval_script, eval_cmds. unfold deep_call at 1.
  rewrite eval_cmds_literal. cbn [mk i_cmds]. rewrite H_rec. fold deep_call. rewrite exec_rec.
  change (set_trace (MK (l + 1) ss t) (deep_call :: i_trace (MK (l + 1) ss t)))
    with (MK (l + 1) ss (deep_call :: t)).
  rewrite eval_cmds_literal. cbn [mk i_cmds]. rewrite H_return. rewrite exec_return_zero.
  change (command_outcome ?s ?c ?w ?argv return_zero) with (s, @Err value return_zero).
  rewrite wrap_up_passes; [|cbn [mk i_levels]; lia|discriminate].
  cbn [mk set_levels i_levels i_scopes i_cmds i_limit i_ctx i_last_ctx i_trace i_test].
  replace (l + 1 - 1) with l by lia. reflexivity.
Qed.

Lemma parse_sum_body : parse (u_alnum U) sum_body_text = POk sum_body_script [].
Proof. vm_compute. reflexivity. Qed.

Lemma sum_body_entry name a f l ss t :
  l < N0 ->
  run_exec U (S f) (MK l ss t) sum_proc [VStr name; a] =
  let '(st3, r) := wrap_up (eval_script (run_exec U f) (MK (l + 1) (ss ++ [frame a]) t) sum_body_script) in
  proc_boundary (pop_scope st3) r.
Proof.
  intros Hl. unfold sum_proc. rewrite proc_call_frame.
  rewrite (eval_level U _ (MK l (ss ++ [frame a]) t) _ _ Hl parse_sum_body). reflexivity.
Qed.

(* the counter has reached 0 *)
Lemma sum_bottom name a z : int_like a z -> (z <= 0)%Z -> Spec3 sum_proc name a zero_value 2 3.
Proof.
  intros Ha Hz fuel l ss t Hf H1 Hne.
  destruct fuel as [|[|[|f]]]; try lia.
  destruct (N.lt_ge_cases l N0) as [Hl|Hl].
  2:{ split; [intros; lia|]. intros _ He. unfold sum_proc. rewrite call_at_limit by exact Hl.
      exists ss, (molt_err too_many_nested). repeat split; try reflexivity; apply He. }
  rewrite sum_body_entry by exact Hl.
  unfold eval_script, eval_cmds, sum_body_script.
  rewrite eval_cmds_literal. cbn [mk i_cmds]. rewrite H_if.
  rewrite (exec_if_true U (S f) _ c_if cond_text then0_text 1); [|reflexivity| |discriminate].
  2:{ rewrite (cond_value U U_n U_sp _ _ _ _ _ _ z Ha). replace (z <=? 0)%Z with true by lia. reflexivity. }
  destruct (N.lt_ge_cases (l + 1) N0) as [Hl2|Hl2].
  - split; [|intros; lia]. intros _.
    rewrite then0_body by lia.
    change (command_outcome ?s ?c ?w ?argv return_zero) with (s, @Err value return_zero).
    apply leave_frame_return0. exact H1.
  - split; [intros; lia|]. intros _ He.
    rewrite eval_at_limit by (cbn [mk i_limit i_levels]; exact Hl2).
    destruct (command_outcome_keeps (MK (l + 1) (ss ++ [frame a]) t) (CmdNative NIf c_if) (lit "if")
                (map VStr [lit "if"; cond_text; then0_text]) (molt_err too_many_nested))
      as (e' & -> & C' & X').
    destruct (leave_frame_error U U_n U_sp st0 l ss (ss ++ [frame a]) t e' Hne) as (ss' & E' & L' & V');
      [rewrite app_length; cbn [length]; lia|apply errvars_ok_app; assumption|exact C'|].
    exists ss', e'. split; [exact E'|]. split; [exact C'|]. split; [exact X'|].
    split; [exact L'|exact V'].
Qed.

(* the counter is positive: the expression's command substitution calls `sum` with the
   predecessor AT THE LEVEL OF THIS BODY; the result is one more *)
Lemma sum_step name a z ret need fneed :
  int_like a z -> (0 < z <= i64_max)%Z ->
  assoc_get sum_name (i_cmds st0) = Some sum_proc ->
  (1 <= fneed)%nat ->
  int_like ret (z - 1) ->
  Spec3 sum_proc sum_name (VInt (z - 1)) ret need fneed ->
  Spec3 sum_proc name a (VInt z) (S need) (S (S fneed)).
Proof.
  intros Ha Hz HC Hfn Hret HS fuel l ss t Hf H1 Hne.
  destruct fuel as [|[|[|f]]]; try lia.
  destruct (N.lt_ge_cases l N0) as [Hl|Hl].
  2:{ split; [intros; lia|]. intros _ He. unfold sum_proc. rewrite call_at_limit by exact Hl.
      exists ss, (molt_err too_many_nested). repeat split; try reflexivity; apply He. }
  rewrite sum_body_entry by exact Hl.
  unfold eval_script, eval_cmds, sum_body_script.
  rewrite eval_cmds_literal. cbn [mk i_cmds]. rewrite H_if.
  rewrite (exec_if_false U (S f) _ c_if cond_text then0_text); [|reflexivity|].
  2:{ rewrite (cond_value U U_n U_sp _ _ _ _ _ _ z Ha). replace (z <=? 0)%Z with false by lia. reflexivity. }
  (* the second command: expr {1 + [sum [expr {$n - 1}]]} *)
  rewrite eval_cmds_literal. cbn [mk i_cmds]. rewrite H_expr. rewrite exec_expr.
  set (sa := ss ++ [frame a]).
  assert (Hsa : sa <> []).
  { unfold sa. intros X. apply app_eq_nil in X. destruct X; discriminate. }
  (* the script in the brackets *)
  assert (Inner : eval_script (run_exec U (S f)) (MK (l + 1) sa t) sum_inner =
                  match run_exec U (S f) (MK (l + 1) sa t) sum_proc [VStr sum_name; VInt (z - 1)] with
                  | (st2, Ok v') => (st2, Ok v')
                  | (st2, Err e) => command_outcome st2 sum_proc sum_name [VStr sum_name; VInt (z - 1)] e
                  | (st2, Panic p) => (st2, Panic p)
                  | (st2, Fuel) => (st2, Fuel)
                  end).
  { unfold eval_script, eval_cmds, sum_inner.
    rewrite (eval_cmds_bracket_call _ _ sum_name _ _ _ (MK (l + 1) sa t) (VInt (z - 1)) sum_proc);
      [reflexivity| |exact HC].
    rewrite eval_cmds_literal. cbn [mk i_cmds]. rewrite H_expr. rewrite exec_expr.
    unfold sa. rewrite (pred_value U U_n U_sp _ _ _ _ _ _ z Ha Hz). reflexivity. }
  destruct (HS (S f) (l + 1) sa t ltac:(lia) ltac:(lia) Hsa) as [Fit Deep].
  split.
  - intros Hfit. rewrite Fit in Inner by lia.
    unfold expr_with.
    rewrite (expr_eval_sum_ok _ _ _ _ _ _ (z - 1) Inner Hret).
    2:{ unfold in_i64, i64_min, i64_max in *. lia. }
    rewrite eval_cmds_nil. replace (1 + (z - 1))%Z with z by lia.
    unfold sa. apply (leave_frame_ok U U_n U_sp). exact H1.
  - intros Hdeep He.
    destruct (Deep ltac:(lia) (errvars_ok_app ss [frame a] Hne He)) as (ss1 & e & E1 & Ce & Xe & L1 & V1).
    rewrite E1 in Inner.
    destruct (command_outcome_keeps (MK (l + 1) ss1 t) sum_proc sum_name [VStr sum_name; VInt (z - 1)] e)
      as (e' & Eo & C' & X').
    rewrite Eo in Inner.
    unfold expr_with.
    rewrite (expr_eval_sum_err _ _ _ _ _ e' Inner) by congruence.
    destruct (set_global_error_data_height (MK (l + 1) ss1 t) e' V1) as (ss2 & -> & V2 & L2).
    rewrite bind_ok.
    change (set_scopes (MK (l + 1) ss1 t) ss2) with (MK (l + 1) ss2 t).
    destruct (command_outcome_keeps (MK (l + 1) ss2 t) (CmdNative NExpr c_expr) (lit "expr")
                (map VStr [lit "expr"; sum_expr_text]) e')
      as (e'' & -> & C'' & X'').
    cbn [mk i_scopes] in L2.
    destruct (leave_frame_error U U_n U_sp st0 l ss ss2 t e'' Hne) as (ss' & E' & L' & V');
      [rewrite L2, L1; unfold sa; rewrite app_length; cbn [length]; lia|exact V2|congruence|].
    exists ss', e''. split; [exact E'|]. split; [congruence|]. split; [congruence|].
    split; [exact L'|exact V'].
Qed.

(* `sum` called with the integer m needs m+1 procedure bodies and the `if` body *)
Theorem sum_spec :
  assoc_get sum_name (i_cmds st0) = Some sum_proc ->
  forall m a, int_like a (Z.of_nat m) -> (Z.of_nat m <= i64_max)%Z ->
  Spec3 sum_proc sum_name a (sum_ret m) (m + 2) (2 * m + 3).
Proof.
  intros Hd. induction m as [|m IH]; intros a Ha Hm.
  - apply (sum_bottom sum_name a 0 Ha). lia.
  - replace (S m + 2)%nat with (S (m + 2)) by lia.
    replace (2 * S m + 3)%nat with (S (S (2 * m + 3))) by lia.
    unfold sum_ret.
    apply (sum_step sum_name a (Z.of_nat (S m)) (sum_ret m)); [exact Ha|lia|exact Hd|lia| |].
    + replace (Z.of_nat (S m) - 1)%Z with (Z.of_nat m) by lia. apply sum_ret_int.
    + replace (Z.of_nat (S m) - 1)%Z with (Z.of_nat m) by lia.
      apply IH; [apply int_like_int|lia].
Qed.

End Frames3.

Print Assumptions sum_spec.

(* ====================================================================================== *)
(* 3. C16 for `sum k` from the top level                                                  *)
(* ====================================================================================== *)

Section Top3.
Variable U : uni.
Variable st : interp.
Hypothesis H_top : i_levels st = 0.
Hypothesis H_scopes : i_scopes st <> [].

(* [call_from_top] of DepthFacts2 for a command that returns [ret] *)
Lemma call_from_top3 C cname c t k ret need fneed fuel :
  cname = c :: t -> escape_chars cname = cname ->
  is_whitespace c = false -> (c =? c_hash) = false -> (c =? c_nl) = false -> (c =? c_semi) = false ->
  assoc_get cname (i_cmds st) = Some C ->
  (0 <= k)%Z ->
  Spec3 U st C cname (VStr (show_Z k)) ret need fneed -> (fneed <= fuel)%nat ->
  (1 + N.of_nat need <= i_limit st ->
     eval U fuel st (cname ++ c_space :: show_Z k)
     = (set_trace st (deep_call :: i_trace st), Ok ret))
  /\
  (i_limit st < 1 + N.of_nat need -> errvars_ok (i_scopes st) ->
     exists st' e,
       eval U fuel st (cname ++ c_space :: show_Z k) = (st', Err e)
       /\ x_code e = CError /\ x_value e = VStr too_many_nested
       /\ i_levels st' = 0 /\ i_limit st' = i_limit st /\ i_cmds st' = i_cmds st
       /\ i_trace st' = i_trace st
       /\ length (i_scopes st') = length (i_scopes st) /\ errvars_ok (i_scopes st')).
Proof.
  intros Hn He Hw Hh Hnl Hsemi HC Hk HS Hf. unfold eval, eval_value.
  destruct (show_Z_digits k Hk) as (Dne & Dd & _).
  pose proof (parse_call (u_alnum U) cname c t (show_Z k) Hn He Hw Hh Hnl Hsemi Dne Dd) as P.
  assert (Hent : enter st = mk st 1 (i_scopes st) (i_trace st)).
  { unfold enter, mk, set_levels. rewrite H_top. reflexivity. }
  destruct (HS fuel 1 (i_scopes st) (i_trace st) Hf ltac:(lia) H_scopes) as [Fit Deep].
  split.
  - intros Hl.
    rewrite (eval_level_command U _ st _ cname [show_Z k] C); [|lia|exact P|exact HC].
    unfold one_command. rewrite Hent. cbn [map]. rewrite Fit by lia.
    rewrite wrap_up_ok. f_equal.
    unfold mk, set_levels, set_trace. cbn [i_levels i_cmds i_scopes i_limit i_ctx i_last_ctx i_trace i_test].
    rewrite H_top. reflexivity.
  - intros Hl Hv.
    destruct (N.eq_dec (i_limit st) 0) as [Z0|Z0].
    { rewrite eval_at_limit by lia.
      exists st, (molt_err too_many_nested). repeat split; try reflexivity; try assumption; apply Hv. }
    rewrite (eval_level_command U _ st _ cname [show_Z k] C); [|lia|exact P|exact HC].
    unfold one_command. rewrite Hent. cbn [map].
    destruct (Deep ltac:(lia) Hv) as (ss1 & e & E1 & Ce & Xe & L1 & V1). rewrite E1.
    destruct (command_outcome_keeps (mk st 1 ss1 (i_trace st)) C cname [VStr cname; VStr (show_Z k)] e)
      as (e' & -> & C' & X').
    rewrite wrap_up_error by congruence.
    destruct (set_global_error_data_height
                (set_levels (mk st 1 ss1 (i_trace st)) (i_levels (mk st 1 ss1 (i_trace st)) - 1)) e' V1)
      as (ss2 & -> & V2 & L2).
    rewrite bind_ok. eexists. exists e'. split; [reflexivity|].
    cbn [mk set_levels set_scopes i_levels i_scopes i_cmds i_limit i_ctx i_last_ctx i_trace i_test] in *.
    split; [congruence|]. split; [congruence|]. split; [reflexivity|]. split; [reflexivity|].
    split; [reflexivity|]. split; [reflexivity|]. split; [congruence|exact V2].
Qed.

End Top3.

(* what `sum k` returns *)
Definition sum_value (k : Z) : value := if (k =? 0)%Z then VStr (lit "0") else VInt k.

Lemma sum_ret_value k : (0 <= k)%Z -> sum_ret (Z.to_nat k) = sum_value k.
Proof.
  intros Hk. unfold sum_value. destruct (Z.eqb_spec k 0) as [->|Hn]; [reflexivity|].
  destruct (Z.to_nat k) as [|m] eqn:E; [lia|]. unfold sum_ret. rewrite <- E. rewrite Z2Nat.id by lia. reflexivity.
Qed.

(* ---- recursion through a command substitution inside an expression: `sum k` needs
        exactly k + 3 levels ---- *)
Theorem C16_sum_exact : forall U (N : N) (k : Z) (fuel : nat) st,
  uni_ok U ->
  i_levels st = 0 -> i_limit st = N -> i_scopes st <> [] ->
  counting_natives st ->
  assoc_get (lit "sum") (i_cmds st) = Some sum_proc ->
  (0 <= k <= i64_max)%Z -> (2 * Z.to_nat k + 3 <= fuel)%nat ->
  (Z.to_N k + 3 <= N ->
     eval U fuel st (lit "sum " ++ show_Z k)
     = (set_trace st (deep_call :: i_trace st), Ok (sum_value k)))
  /\
  (N < Z.to_N k + 3 -> errvars_ok (i_scopes st) ->
     exists st' e,
       eval U fuel st (lit "sum " ++ show_Z k) = (st', Err e)
       /\ x_code e = CError /\ x_value e = VStr too_many_nested
       /\ i_levels st' = 0 /\ i_limit st' = N /\ i_cmds st' = i_cmds st
       /\ i_trace st' = i_trace st
       /\ length (i_scopes st') = length (i_scopes st) /\ errvars_ok (i_scopes st')).
Proof.
  intros U N k fuel st [Un Usp] H0 HN Hss ((cif & Hif) & (cex & Hex) & (cre & Hre) & (crc & Hrc)) Hd Hk Hf.
  pose proof (sum_spec U Un Usp st cif cex cre crc Hif Hex Hre Hrc Hd (Z.to_nat k) (VStr (show_Z k))) as HS.
  rewrite Z2Nat.id in HS by lia. specialize (HS (int_like_show k Hk) ltac:(lia)).
  rewrite sum_ret_value in HS by lia.
  destruct (call_from_top3 U st H0 Hss sum_proc (lit "sum") 115 (lit "um") k _ _ _ fuel
              eq_refl eq_refl eq_refl eq_refl eq_refl eq_refl Hd ltac:(lia) HS Hf) as [Fit Deep].
  change (lit "sum" ++ c_space :: show_Z k) with (lit "sum " ++ show_Z k) in Fit, Deep.
  rewrite HN in Fit, Deep. split.
  - intros Hl. apply Fit. lia.
  - intros Hl Hv. destruct (Deep ltac:(lia) Hv) as (st' & e & E & R). exists st', e. split; [exact E|exact R].
Qed.

Print Assumptions C16_sum_exact.

(* ====================================================================================== *)
(* 4. the checker                                                                         *)
(* ====================================================================================== *)

Import Check.ScriptObs.

Definition sum_def_text : str :=
  lit "proc sum {n} {if {$n <= 0} {rec deep; return 0}; expr {1 + [sum [expr {$n - 1}]]}}".

(* the checker's case of kind 7 *)
Theorem checker_script_sum target ce :
  Molt.Check.C16.script_for 7 target ce
  = (lit "proc sum {n} {if {$n <= 0} {rec deep; return 0}; expr {1 + [sum [expr {$n - 1}]]}}; sum "
       ++ show_Z (Z.max (target - 3) 0), (Z.max (target - 3) 0 + 3)%Z).
Proof. reflexivity. Qed.

Print Assumptions checker_script_sum.

(* ---- the reader on the whole kind-7 script ---- *)
Definition sum_script_text (k : Z) : str := sum_def_text ++ lit "; sum " ++ show_Z k.

Definition sum_def_words : list word :=
  map WValue [lit "proc"; sum_name; var_n; sum_body_text].

Section Reader5.
Variable isa : char -> bool.

Lemma parse_sum_script ds :
  ds <> [] -> forallb is_digit10 ds = true ->
  parse isa (sum_def_text ++ lit "; sum " ++ ds)
  = POk [sum_def_words; map WValue [sum_name; ds]] [].
Proof.
  intros Hne Hd. unfold parse.
  set (s := sum_def_text ++ lit "; sum " ++ ds).
  assert (Hfuel : exists f, parse_fuel s = S (S (S (S (S (S (S (S (S (S (S (S f)))))))))))
                            /\ (100 < f)%nat /\ (length ds < f)%nat).
  { exists (8 * length s + 4)%nat. unfold parse_fuel. split; [lia|].
    assert (L1 : Nat.leb 80 (length sum_def_text) = true) by (vm_compute; reflexivity). apply Nat.leb_le in L1. unfold s. rewrite !app_length. lia. }
  destruct Hfuel as (f & -> & Hf1 & Hf2).
  rewrite parse_script_eq. change (at_end_of_script false s) with false. cbn iota.
  rewrite parse_command_eq. cbv zeta.
  rewrite (skip_to_command_head _ s 112 (tl s)); [|reflexivity|reflexivity|reflexivity].
  unfold s, sum_def_text.
  change (lit "proc sum {n} {if {$n <= 0} {rec deep; return 0}; expr {1 + [sum [expr {$n - 1}]]}}" ++ lit "; sum " ++ ds)
    with (lit "proc" ++ c_space :: (lit "sum" ++ c_space :: (c_lbrace :: var_n ++ c_rbrace :: c_space ::
            (c_lbrace :: sum_body_text ++ c_rbrace :: (c_semi :: lit " sum " ++ ds))))).
  rewrite (parse_words_bare isa _ (lit "proc") 112 (lit "roc")); try reflexivity; [|cbn; lia].
  change (skip_while is_line_white (lit "sum" ++ ?r)) with (lit "sum" ++ r).
  rewrite (parse_words_bare isa _ (lit "sum") 115 (lit "um")); try reflexivity; [|cbn; lia].
  change (skip_while is_line_white (c_lbrace :: ?r)) with (c_lbrace :: r).
  rewrite parse_words_braced; [|reflexivity|discriminate].
  change (skip_while is_line_white (c_lbrace :: ?r)) with (c_lbrace :: r).
  (* the last word of the first command: the braced body, followed by `;` *)
  rewrite parse_words_eq.
  change (at_end_of_command false (c_lbrace :: ?r)) with false. cbn iota.
  pose proof (next_word_braced isa (S (S (S (S (S f))))) sum_body_text (c_semi :: lit " sum " ++ ds)
                eq_refl ltac:(discriminate) eq_refl) as H.
  unfold brace_item in H. cbn [app] in H. rewrite <- app_assoc in H. cbn [app] in H.
  cbn [app]. rewrite H.
  change (skip_while is_line_white (c_semi :: ?r)) with (c_semi :: r).
  rewrite parse_words_eq. change (at_end_of_command false (c_semi :: ?r)) with true. cbn iota.
  change (c_semi =? c_semi) with true. cbn iota. cbn [rev app].
  (* the second command *)
  rewrite parse_script_eq. change (at_end_of_script false (32 :: ?r)) with false. cbn iota.
  rewrite parse_command_eq. cbv zeta.
  assert (Sk : forall n, skip_to_command (S (S n)) false (32 :: 115 :: 117 :: 109 :: 32 :: ds)
               = 115 :: 117 :: 109 :: 32 :: ds) by reflexivity.
  change (lit " sum " ++ ds) with (32 :: 115 :: 117 :: 109 :: 32 :: ds). cbn [length]. rewrite Sk.
  change (115 :: 117 :: 109 :: 32 :: ds) with (lit "sum" ++ c_space :: ds).
  rewrite (parse_words_bare isa _ (lit "sum") 115 (lit "um")); try reflexivity; [|cbn; lia].
  destruct ds as [|d r] eqn:Eds; [congruence|]. rewrite <- Eds in *.
  assert (Hdc : is_digit10 d = true).
  { rewrite Eds in Hd. cbn [forallb] in Hd. apply andb_true_iff in Hd. tauto. }
  rewrite (skip_while_head_false is_line_white ds).
  2:{ rewrite Eds. unfold is_digit10, is_line_white, is_whitespace in *. lia. }
  rewrite (parse_words_last_bare isa _ ds d r [WValue (lit "sum")]);
    [|exact Eds|apply escape_chars_plain, digits_plain, Hd
     |unfold is_digit10, c_nl in *; lia|unfold is_digit10, c_semi in *; lia|lia].
  cbn [rev app]. rewrite parse_script_eq. reflexivity.
Qed.

End Reader5.

(* ---- the checker's interpreter after the definition of `sum` ---- *)
Definition sum_base : interp := fst (eval std_uni model_fuel procs_state sum_def_text).
Definition sum_state (n : N) : interp := set_limit sum_base n.

Lemma sum_state_ok n :
  i_levels (sum_state n) = 0 /\ i_limit (sum_state n) = n
  /\ i_scopes (sum_state n) <> [] /\ sc_current (i_scopes (sum_state n)) = 0%nat
  /\ i_trace (sum_state n) = []
  /\ counting_natives (sum_state n)
  /\ assoc_get sum_name (i_cmds (sum_state n)) = Some sum_proc
  /\ errvars_ok (i_scopes (sum_state n)).
Proof.
  assert (S : i_scopes (sum_state n) = i_scopes sum_base) by reflexivity.
  assert (C : i_cmds (sum_state n) = i_cmds sum_base) by reflexivity.
  split; [vm_compute; reflexivity|]. split; [reflexivity|].
  split; [rewrite S; vm_compute; discriminate|]. split; [rewrite S; vm_compute; reflexivity|].
  split; [vm_compute; reflexivity|].
  split; [unfold counting_natives, native_bound; rewrite C;
          repeat split; exists 0; vm_compute; reflexivity|].
  rewrite C, S. split; [vm_compute; reflexivity|]. split; vm_compute; exact I.
Qed.

(* the first command of the script turns the checker's state into [sum_state] *)
Lemma define_sum n f :
  exists cp,
    assoc_get (lit "proc") (i_cmds (enter (checker_state n))) = Some (CmdNative NProc cp)
    /\ run_exec std_uni (S f) (enter (checker_state n)) (CmdNative NProc cp)
         (map VStr [lit "proc"; sum_name; var_n; sum_body_text])
       = (enter (sum_state n), Ok v_empty).
Proof. exists 0. split; vm_compute; reflexivity. Qed.

(* C16 on the checker's interpreter, for the whole kind-7 script (the definition of `sum`
   followed by the call): every limit, every counter *)
Theorem C16_harness_sum : forall (N : N) (k : Z) (fuel : nat),
  (0 <= k <= i64_max)%Z -> (2 * Z.to_nat k + 4 <= fuel)%nat ->
  (Z.to_N k + 3 <= N ->
     exists st',
       eval std_uni fuel (checker_state N) (sum_script_text k) = (st', Ok (sum_value k))
       /\ i_levels st' = 0 /\ i_limit st' = N /\ i_trace st' = [deep_call]
       /\ sc_current (i_scopes st') = 0%nat
       /\ assoc_get sum_name (i_cmds st') = Some sum_proc)
  /\
  (N < Z.to_N k + 3 ->
     exists st' e,
       eval std_uni fuel (checker_state N) (sum_script_text k) = (st', Err e)
       /\ x_code e = CError /\ x_value e = VStr too_many_nested
       /\ i_levels st' = 0 /\ i_limit st' = N /\ i_trace st' = []
       /\ sc_current (i_scopes st') = 0%nat).
Proof.
  intros N k fuel Hk Hf.
  destruct (checker_state_ok N) as (L & M & Hss & Hcur & Htr & _ & _ & _ & _ & Hv).
  destruct (sum_state_ok N) as (L3 & M3 & Hss3 & Hcur3 & Htr3 & Hnat3 & Hd3 & Hv3).
  destruct (show_Z_digits k ltac:(lia)) as (Dne & Dd & _).
  pose proof (parse_sum_script (u_alnum std_uni) (show_Z k) Dne Dd) as P.
  fold (sum_script_text k) in P.
  destruct fuel as [|f]; [lia|].
  destruct (define_sum N f) as (cp & Hp & Hdef).
  destruct Hnat3 as ((cif & Hif) & (cex & Hex) & (cre & Hre) & (crc & Hrc)).
  destruct std_uni_ok as [Un Usp].
  pose proof (sum_spec std_uni Un Usp (sum_state N) cif cex cre crc Hif Hex Hre Hrc Hd3
                (Z.to_nat k) (VStr (show_Z k))) as HS.
  rewrite Z2Nat.id in HS by lia. specialize (HS (int_like_show k Hk) ltac:(lia)).
  rewrite sum_ret_value in HS by lia.
  assert (Hent : enter (sum_state N) = mk (sum_state N) 1 (i_scopes (sum_state N)) (i_trace (sum_state N))).
  { unfold enter, mk, set_levels. rewrite L3. reflexivity. }
  destruct (HS (S f) 1 (i_scopes (sum_state N)) (i_trace (sum_state N)) ltac:(lia) ltac:(lia) Hss3)
    as [Fit Deep].
  rewrite M3 in Fit, Deep.
  assert (Body : 1 <= N ->
    eval std_uni (S f) (checker_state N) (sum_script_text k) =
    wrap_up (match run_exec std_uni (S f) (enter (sum_state N)) sum_proc (map VStr [sum_name; show_Z k]) with
             | (st2, Ok v) => (st2, Ok v)
             | (st2, Err e) => command_outcome st2 sum_proc sum_name (map VStr [sum_name; show_Z k]) e
             | (st2, Panic p) => (st2, Panic p)
             | (st2, Fuel) => (st2, Fuel)
             end)).
  { intros H1. unfold eval, eval_value.
    rewrite (eval_level std_uni _ (checker_state N) _ _ ltac:(lia) P).
    unfold eval_script, eval_cmds, sum_def_words.
    rewrite eval_cmds_literal. rewrite Hp. rewrite Hdef.
    rewrite eval_cmds_literal. change (i_cmds (enter (sum_state N))) with (i_cmds (sum_state N)).
    rewrite Hd3.
    cbn [map].
    match goal with |- context [run_exec ?a ?b ?c ?d ?e] => destruct (run_exec a b c d e) as [st2 [v|e0|p|]] end;
      reflexivity. }
  split.
  - intros Hl. rewrite Body by lia. rewrite Hent. cbn [map]. rewrite Fit by lia.
    rewrite wrap_up_ok. eexists. split; [reflexivity|].
    cbn [mk set_levels i_levels i_scopes i_cmds i_limit i_ctx i_last_ctx i_trace i_test].
    rewrite Htr3. repeat split; try assumption; reflexivity.
  - intros Hl.
    destruct (N.eq_dec N 0) as [Z0|Z0].
    { unfold eval, eval_value. rewrite eval_at_limit by lia.
      exists (checker_state N), (molt_err too_many_nested). repeat split; try reflexivity; assumption. }
    rewrite Body by lia. rewrite Hent. cbn [map].
    destruct (Deep ltac:(lia) Hv3) as (ss1 & e & E1 & Ce & Xe & L1 & V1). rewrite E1.
    destruct (command_outcome_keeps (mk (sum_state N) 1 ss1 (i_trace (sum_state N))) sum_proc sum_name
                [VStr sum_name; VStr (show_Z k)] e) as (e' & -> & C' & X').
    rewrite wrap_up_error by congruence.
    destruct (set_global_error_data_height
                (set_levels (mk (sum_state N) 1 ss1 (i_trace (sum_state N)))
                   (i_levels (mk (sum_state N) 1 ss1 (i_trace (sum_state N))) - 1)) e' V1)
      as (ss2 & -> & V2 & L2).
    rewrite bind_ok. eexists. exists e'. split; [reflexivity|].
    cbn [mk set_levels set_scopes i_levels i_scopes i_cmds i_limit i_ctx i_last_ctx i_trace i_test] in *.
    split; [congruence|]. split; [congruence|]. split; [reflexivity|]. split; [exact M3|].
    split; [exact Htr3|].
    unfold sc_current in *. rewrite L2, L1. exact Hcur3.
Qed.

Print Assumptions C16_harness_sum.

(* the checker's case (kind 7, target): its script needs [need] levels and succeeds iff
   need <= N *)
Theorem C16_checker_sum_script : forall (N : N) (target : Z) (ce : bool) (fuel : nat),
  let s := fst (Molt.Check.C16.script_for 7 target ce) in
  let need := snd (Molt.Check.C16.script_for 7 target ce) in
  (need <= i64_max)%Z -> (2 * Z.to_nat need <= fuel)%nat ->
  ((need <= Z.of_N N)%Z ->
     exists st', eval std_uni fuel (checker_state N) s = (st', Ok (sum_value (need - 3)))
                 /\ i_levels st' = 0 /\ i_trace st' = [deep_call] /\ sc_current (i_scopes st') = 0%nat)
  /\
  ((Z.of_N N < need)%Z ->
     exists st' e, eval std_uni fuel (checker_state N) s = (st', Err e)
                   /\ x_code e = CError /\ x_value e = VStr too_many_nested
                   /\ i_levels st' = 0 /\ i_limit st' = N /\ i_trace st' = []
                   /\ sc_current (i_scopes st') = 0%nat).
Proof.
  intros N target ce fuel. rewrite checker_script_sum. cbn [fst snd].
  set (k := Z.max (target - 3) 0). intros Hm Hf.
  assert (Hk : (0 <= k)%Z) by (unfold k; lia).
  replace (k + 3 - 3)%Z with k by lia.
  destruct (C16_harness_sum N k fuel ltac:(lia) ltac:(lia)) as [Fit Deep]. split.
  - intros Hl. destruct (Fit ltac:(lia)) as (st' & E & A & _ & B & C & _).
    exists st'. split; [exact E|]. repeat split; assumption.
  - intros Hl. apply Deep. lia.
Qed.

Print Assumptions C16_checker_sum_script.

(* ---- instances by computation: N = 6 ---- *)
Example sum_limit6 :
  snd (eval std_uni 20 (checker_state 6) (sum_script_text 3)) = Ok (VInt 3)
  /\ i_trace (fst (eval std_uni 20 (checker_state 6) (sum_script_text 3))) = [deep_call]
  /\ (exists e, snd (eval std_uni 20 (checker_state 6) (sum_script_text 4)) = Err e
                /\ x_code e = CError /\ x_value e = VStr too_many_nested)
  /\ i_trace (fst (eval std_uni 20 (checker_state 6) (sum_script_text 4))) = []
  /\ snd (eval std_uni 20 (checker_state 3) (sum_script_text 0)) = Ok (VStr (lit "0")).
Proof.
  vm_compute. split; [reflexivity|]. split; [reflexivity|].
  split; [eexists; repeat split|]. repeat split.
Qed.
