(* CtlProgFacts.v — C09: a WHOLE-PROGRAM theorem for control structures.

   A typed statement language (expr / stmt / block), its rendering to Tcl text (the concrete
   syntax of the C09 harness, without indentation), a reference big-step semantics [exec] / [run]
   written directly on the tree over an environment of integer variables, and the theorem
   [run_agrees]: evaluating the rendered text in the model ([Interp.eval std_uni]) gives, for
   every sufficiently large interpreter fuel, the state and the result the reference semantics
   computes from the tree.

   Sub-language:
     expr  := Lit z | Var v | Bin o a b      (o: any of the 16 symbolic binary operators of
                                              ExprFacts.bop; rendered fully parenthesised "(a o b)")
     stmt  := Set v e        set v [expr {e}]
            | Incr v k       incr v k
            | If c t         if {c} {\n t}
            | IfElse c t e   if {c} {\n t} else {\n e}
            | While c b      while {c} {\n b}
            | Break | Continue
     block := BNil | BCons stmt block         (every statement followed by a newline)

   Contents: 1 the language, rendering, well-formedness; 2 the reference semantics ([xev], [exec],
   [run], fuelled); 3 the text as a tree of Spec/SpecGrammar.v and the script the model's reader
   produces from it ([parse_block], [parse_body], via GrammarFacts.parse_render_model); 4 the
   expression evaluator on expression texts with variable operands ([parsesX_all],
   [expr_eval_rexpr]); 5 the state relation [Rel] (the current scope holds exactly the environment
   as scalars, on all good names); 6 the commands set / incr / expr / if / while / break / continue;
   7 Interp::eval_value around a block; 8 the induction on the reference fuel ([all_ok]);
   9 the theorem [run_agrees] / [run_agrees_top]; 10 a fresh interpreter satisfies the hypotheses,
   a counting loop with break and continue by computation on both sides.

   Side conditions of [run_agrees]: [wf_block p] (variable names are non-empty ASCII identifiers
   other than errorInfo / errorCode, expression literals are i64 other than i64::MIN, `incr`
   amounts are i64, operators are the symbolic ones); [Rel en st]; [cmds_ok st] (the seven command
   names are bound to molt's own commands); [i_levels st + 1 + depth_block p <= i_limit st]
   (enough nesting levels left); the reference run does not end with [OFuel].  Not done: a
   translation [to_term] into the checker's encoding (Check/C09.v stmt9). *)
From Molt Require Import Model.Base Model.Tokenizer Model.ListSyn Model.Float Model.Value
  Model.State Model.Script Model.Parser Model.Eval Model.Expr Model.Commands Model.Unicode
  Model.Interp.
From Molt Require Import Spec.SpecGrammar Spec.SpecVars Spec.SpecExpr.
From Molt Require Import Proofs.BaseFacts Proofs.ValueFacts Proofs.BindFacts Proofs.NoEvalFacts
  Proofs.ExprFacts Proofs.InterpFacts Proofs.ScopeFacts Proofs.CtlFacts Proofs.GrammarFacts.
From Molt Require Import Spec.SpecCtl Proofs.CtlStructFacts.
From Molt Require Proofs.ExprFacts2 Proofs.TotalFacts.
From Coq Require Import Lia ZifyBool ZifyN.

Arguments N.eqb : simpl never.
Arguments N.leb : simpl never.
Arguments N.ltb : simpl never.
Arguments Z.eqb : simpl never.
Arguments Z.leb : simpl never.
Arguments Z.ltb : simpl never.

Local Open Scope N_scope.

(* ====================================================================================== *)
(* 1. the language                                                                         *)
(* ====================================================================================== *)

Inductive expr :=
| Lit (z : Z)
| Var (v : str)
| Bin (o : bop) (a b : expr).

Inductive stmt :=
| Set_ (v : str) (e : expr)
| Incr (v : str) (k : Z)
| If (c : expr) (t : block)
| IfElse (c : expr) (t e : block)
| While (c : expr) (b : block)
| Break
| Continue
with block :=
| BNil
| BCons (s : stmt) (r : block).

Scheme stmt_mut := Induction for stmt Sort Prop
with block_mut := Induction for block Sort Prop.
Combined Scheme stmt_block_ind from stmt_mut, block_mut.

Fixpoint block_of_list (l : list stmt) : block :=
  match l with [] => BNil | s :: r => BCons s (block_of_list r) end.

(* ---------- rendering: the concrete syntax of the harness (harness_c09.rs: rexpr, rstmt,
   rblock, braced), with indentation 0 ---------- *)
Fixpoint rexpr (e : expr) : str :=
  match e with
  | Lit z => show_Z z
  | Var v => c_dollar :: v
  | Bin o a b => 40 :: rexpr a ++ 32 :: opstr o ++ 32 :: rexpr b ++ [41]
  end.

Definition braced (s : str) : str := c_lbrace :: s ++ [c_rbrace].

Fixpoint render_stmt (s : stmt) : str :=
  match s with
  | Set_ v e => lit "set " ++ v ++ lit " [expr " ++ braced (rexpr e) ++ lit "]"
  | Incr v k => lit "incr " ++ v ++ 32 :: show_Z k
  | If c t => lit "if " ++ braced (rexpr c) ++ 32 :: braced (10 :: render_block t)
  | IfElse c t e => lit "if " ++ braced (rexpr c) ++ 32 :: braced (10 :: render_block t)
                    ++ lit " else " ++ braced (10 :: render_block e)
  | While c b => lit "while " ++ braced (rexpr c) ++ 32 :: braced (10 :: render_block b)
  | Break => lit "break"
  | Continue => lit "continue"
  end
with render_block (b : block) : str :=
  match b with
  | BNil => []
  | BCons s r => render_stmt s ++ 10 :: render_block r
  end.

(* ---------- well-formedness ---------- *)
Definition nonemptyb (s : str) : bool := match s with [] => false | _ => true end.

(* a simple identifier that is not one of the two variables the interpreter itself writes *)
Definition good_name (v : str) : bool :=
  nonemptyb v && forallb ascii_name_char v
  && negb (str_eqb v (lit "errorInfo")) && negb (str_eqb v (lit "errorCode")).

(* operators spelled with symbols *)
Definition sym_op (o : bop) : bool := negb (alpha_op o).

(* literals: i64 without i64::MIN (whose text "-9223372036854775808" is read as the negation of
   a number that does not fit) *)
Definition lit_ok (z : Z) : bool := (i64_min <? z)%Z && (z <=? i64_max)%Z.

Fixpoint wf_expr (e : expr) : bool :=
  match e with
  | Lit z => lit_ok z
  | Var v => good_name v
  | Bin o a b => sym_op o && wf_expr a && wf_expr b
  end.

Fixpoint wf_stmt (s : stmt) : bool :=
  match s with
  | Set_ v e => good_name v && wf_expr e
  | Incr v k => good_name v && in_i64 k
  | If c t => wf_expr c && wf_block t
  | IfElse c t e => wf_expr c && wf_block t && wf_block e
  | While c b => wf_expr c && wf_block b
  | Break | Continue => true
  end
with wf_block (b : block) : bool :=
  match b with
  | BNil => true
  | BCons s r => wf_stmt s && wf_block r
  end.

(* nesting depth of evaluation levels a program needs *)
Fixpoint depth_stmt (s : stmt) : N :=
  match s with
  | If _ t => 1 + depth_block t
  | IfElse _ t e => 1 + N.max (depth_block t) (depth_block e)
  | While _ b => 1 + depth_block b
  | _ => 0
  end
with depth_block (b : block) : N :=
  match b with
  | BNil => 0
  | BCons s r => N.max (depth_stmt s) (depth_block r)
  end.

(* ====================================================================================== *)
(* 2. the reference semantics                                                              *)
(* ====================================================================================== *)

Definition env := list (str * Z).

Inductive outcome :=
| ONorm (v : str)        (* normal completion with this result string *)
| OBreak
| OContinue
| OErr (msg : str)       (* an error with this message *)
| OFuel.                 (* the reference fuel ran out *)

Definition no_such_variable (v : str) : str := lit "can't read """ ++ v ++ lit """: no such variable".

(* integer-valued expressions; the arithmetic of one operator is the model's [apply_binop] *)
Fixpoint xev (en : env) (e : expr) : res Z :=
  match e with
  | Lit z => Ok z
  | Var v => match assoc_get v en with Some z => Ok z | None => err (no_such_variable v) end
  | Bin o a b =>
      match xev en a with
      | Ok x =>
          match xev en b with
          | Ok y =>
              match apply_binop (tok_of o) (DInt x) (DInt y) with
              | Ok (DInt z) => Ok z
              | Ok _ => Panic []
              | Err er => Err er
              | Panic p => Panic p
              | Fuel => Fuel
              end
          | other => other
          end
      | other => other
      end
  end.

Definition err_msg {A} (r : res A) : str :=
  match r with Err er => as_str (x_value er) | _ => [] end.

Fixpoint run_with (ex : env -> stmt -> env * outcome) (en : env) (b : block) (last : str)
  : env * outcome :=
  match b with
  | BNil => (en, ONorm last)
  | BCons s r =>
      match ex en s with
      | (en1, ONorm v) => run_with ex en1 r v
      | other => other
      end
  end.

Fixpoint exec (n : nat) (en : env) (s : stmt) {struct n} : env * outcome :=
  match n with
  | O => (en, OFuel)
  | S n' =>
      let blk := run_with (exec n') in
      match s with
      | Set_ v e =>
          match xev en e with
          | Ok z => (assoc_set v z en, ONorm (show_Z z))
          | other => (en, OErr (err_msg other))
          end
      | Incr v k =>
          let old := match assoc_get v en with Some z => z | None => 0%Z end in
          if in_i64 (k + old) then (assoc_set v (k + old)%Z en, ONorm (show_Z (k + old)))
          else (en, OErr (lit "integer overflow"))
      | If c t =>
          match xev en c with
          | Ok z => if (z =? 0)%Z then (en, ONorm []) else blk en t []
          | other => (en, OErr (err_msg other))
          end
      | IfElse c t e =>
          match xev en c with
          | Ok z => if (z =? 0)%Z then blk en e [] else blk en t []
          | other => (en, OErr (err_msg other))
          end
      | While c b =>
          match xev en c with
          | Ok z =>
              if (z =? 0)%Z then (en, ONorm [])
              else
                match blk en b [] with
                | (en1, ONorm _) | (en1, OContinue) => exec n' en1 (While c b)
                | (en1, OBreak) => (en1, ONorm [])
                | other => other
                end
          | other => (en, OErr (err_msg other))
          end
      | Break => (en, OBreak)
      | Continue => (en, OContinue)
      end
  end.

(* a block: the result is that of the last statement, the empty string for the empty block *)
Definition run (n : nat) (en : env) (b : block) : env * outcome := run_with (exec n) en b [].

(* ====================================================================================== *)
(* 3. the text as a concrete syntax tree of Spec/SpecGrammar.v; what the reader makes of it *)
(* ====================================================================================== *)

Definition bw (s : str) : wordc := CBare [SLit s].
Definition sp1 : str := [32].
Definition nl1 : str := [10].

(* brace segments of a statement / block: their rendering and their value is the text *)
Fixpoint bs_stmt (s : stmt) : list bseg :=
  match s with
  | Set_ v e => [BText (lit "set " ++ v ++ lit " [expr "); BNest [BText (rexpr e)]; BText (lit "]")]
  | Incr v k => [BText (lit "incr " ++ v ++ 32 :: show_Z k)]
  | If c t => [BText (lit "if "); BNest [BText (rexpr c)]; BText sp1; BNest (BText nl1 :: bs_block t)]
  | IfElse c t e => [BText (lit "if "); BNest [BText (rexpr c)]; BText sp1; BNest (BText nl1 :: bs_block t);
                     BText (lit " else "); BNest (BText nl1 :: bs_block e)]
  | While c b => [BText (lit "while "); BNest [BText (rexpr c)]; BText sp1; BNest (BText nl1 :: bs_block b)]
  | Break => [BText (lit "break")]
  | Continue => [BText (lit "continue")]
  end
with bs_block (b : block) : list bseg :=
  match b with
  | BNil => []
  | BCons s r => bs_stmt s ++ BText nl1 :: bs_block r
  end.

Definition body_word (b : block) : wordc := CBrace (BText nl1 :: bs_block b).
Definition cond_word (c : expr) : wordc := CBrace [BText (rexpr c)].

Definition words_of (s : stmt) : list (str * wordc) :=
  match s with
  | Set_ v e => [([], bw (lit "set")); (sp1, bw v);
                 (sp1, CBare [SCmd [ICmd [] [([], bw (lit "expr")); (sp1, cond_word e)] [] []]])]
  | Incr v k => [([], bw (lit "incr")); (sp1, bw v); (sp1, bw (show_Z k))]
  | If c t => [([], bw (lit "if")); (sp1, cond_word c); (sp1, body_word t)]
  | IfElse c t e => [([], bw (lit "if")); (sp1, cond_word c); (sp1, body_word t);
                     (sp1, bw (lit "else")); (sp1, body_word e)]
  | While c b => [([], bw (lit "while")); (sp1, cond_word c); (sp1, body_word b)]
  | Break => [([], bw (lit "break"))]
  | Continue => [([], bw (lit "continue"))]
  end.

Definition cst_stmt (s : stmt) : item := ICmd [] (words_of s) [] nl1.
Fixpoint cst_block (b : block) : list item :=
  match b with BNil => [] | BCons s r => cst_stmt s :: cst_block r end.

Lemma flat_map_app {A B} (f : A -> list B) a b : flat_map f (a ++ b) = flat_map f a ++ flat_map f b.
Proof. induction a as [|x a IH]; [reflexivity|]. cbn [app flat_map]. rewrite IH, app_assoc. reflexivity. Qed.

Lemma bs_render :
  (forall s, flat_map render_bseg (bs_stmt s) = render_stmt s) /\
  (forall b, flat_map render_bseg (bs_block b) = render_block b).
Proof.
  apply stmt_block_ind; intros; cbn [bs_stmt bs_block render_stmt render_block].
  - cbn [flat_map render_bseg app]. rewrite !app_nil_r. unfold braced.
    repeat (rewrite <- ?app_assoc; cbn [app]). reflexivity.
  - cbn [flat_map render_bseg app]. rewrite !app_nil_r. reflexivity.
  - cbn [flat_map render_bseg app]. rewrite H, !app_nil_r. unfold braced, nl1.
    repeat (rewrite <- ?app_assoc; cbn [app]). reflexivity.
  - cbn [flat_map render_bseg app]. rewrite H, H0, !app_nil_r. unfold braced, nl1.
    repeat (rewrite <- ?app_assoc; cbn [app]). reflexivity.
  - cbn [flat_map render_bseg app]. rewrite H, !app_nil_r. unfold braced, nl1.
    repeat (rewrite <- ?app_assoc; cbn [app]). reflexivity.
  - reflexivity.
  - reflexivity.
  - reflexivity.
  - rewrite flat_map_app. cbn [flat_map render_bseg]. rewrite H, H0. reflexivity.
Qed.

Lemma bs_value :
  (forall s, flat_map bseg_value (bs_stmt s) = render_stmt s) /\
  (forall b, flat_map bseg_value (bs_block b) = render_block b).
Proof.
  apply stmt_block_ind; intros; cbn [bs_stmt bs_block render_stmt render_block].
  - cbn [flat_map bseg_value app]. rewrite !app_nil_r. unfold braced.
    repeat (rewrite <- ?app_assoc; cbn [app]). reflexivity.
  - cbn [flat_map bseg_value app]. rewrite !app_nil_r. reflexivity.
  - cbn [flat_map bseg_value app]. rewrite H, !app_nil_r. unfold braced, nl1.
    repeat (rewrite <- ?app_assoc; cbn [app]). reflexivity.
  - cbn [flat_map bseg_value app]. rewrite H, H0, !app_nil_r. unfold braced, nl1.
    repeat (rewrite <- ?app_assoc; cbn [app]). reflexivity.
  - cbn [flat_map bseg_value app]. rewrite H, !app_nil_r. unfold braced, nl1.
    repeat (rewrite <- ?app_assoc; cbn [app]). reflexivity.
  - reflexivity.
  - reflexivity.
  - reflexivity.
  - rewrite flat_map_app. cbn [flat_map bseg_value]. rewrite H, H0. reflexivity.
Qed.

Lemma render_body_word b : render_word (body_word b) = braced (10 :: render_block b).
Proof.
  unfold body_word, braced. cbn [render_word flat_map render_bseg nl1 app].
  rewrite (proj2 bs_render). reflexivity.
Qed.

Lemma render_cst_stmt s : render_item (cst_stmt s) = render_stmt s ++ nl1.
Proof.
  unfold cst_stmt. cbn [render_item app]. rewrite ?app_nil_r.
  destruct s; cbn [words_of flat_map render_stmt]; rewrite ?render_body_word;
    cbn [render_word render_seg render_item flat_map bw cond_word render_bseg app sp1];
    rewrite ?app_nil_r; unfold braced, nl1;
    repeat (rewrite <- ?app_assoc; cbn [app]); reflexivity.
Qed.

Theorem render_cst_block b : SpecGrammar.render (cst_block b) = render_block b.
Proof.
  unfold SpecGrammar.render. induction b as [|s r IH].
  - reflexivity.
  - cbn [cst_block flat_map render_block]. rewrite render_cst_stmt, IH.
    rewrite <- app_assoc. reflexivity.
Qed.

(* ---------- character facts ---------- *)
Lemma forallb_imp {A} (p q : A -> bool) l :
  (forall a, p a = true -> q a = true) -> forallb p l = true -> forallb q l = true.
Proof.
  intros H. induction l as [|a l IH]; [reflexivity|]. cbn [forallb]. intros E.
  apply andb_true_iff in E. destruct E as [E1 E2]. rewrite (H a E1), (IH E2). reflexivity.
Qed.

Definition num_char (c : char) : bool := is_digit10 c || (c =? c_minus).

Lemma show_Z_chars z : show_Z z <> [] /\ forallb num_char (show_Z z) = true.
Proof.
  destruct z as [|p|p]; cbn [show_Z].
  - split; [discriminate|reflexivity].
  - destruct (show_N_spec (Npos p)) as (H1 & H2 & _). split; [exact H1|].
    apply (forallb_imp is_digit10); [|exact H2]. intros c Hc. unfold num_char. rewrite Hc. reflexivity.
  - destruct (show_N_spec (Npos p)) as (H1 & H2 & _). split; [discriminate|].
    cbn [forallb]. apply andb_true_iff. split; [reflexivity|].
    apply (forallb_imp is_digit10); [|exact H2]. intros c Hc. unfold num_char. rewrite Hc. reflexivity.
Qed.

Lemma num_char_bare c : num_char c = true -> bare_lit_char c = true.
Proof.
  unfold num_char, is_digit10, bare_lit_char, is_whitespace, c_minus, c_semi, c_dquote, c_lbrace,
    c_rbrace, c_bslash, c_dollar, c_lbracket, c_rbracket. lia.
Qed.
Lemma num_char_brace c : num_char c = true -> brace_text_char c = true.
Proof. unfold num_char, is_digit10, brace_text_char, c_minus, c_lbrace, c_rbrace, c_bslash. lia. Qed.
Lemma name_char_bare c : ascii_name_char c = true -> bare_lit_char c = true.
Proof.
  unfold ascii_name_char, bare_lit_char, is_whitespace, c_underscore, c_semi, c_dquote, c_lbrace,
    c_rbrace, c_bslash, c_dollar, c_lbracket, c_rbracket. lia.
Qed.
Lemma name_char_brace c : ascii_name_char c = true -> brace_text_char c = true.
Proof. unfold ascii_name_char, brace_text_char, c_underscore, c_lbrace, c_rbrace, c_bslash. lia. Qed.

Lemma good_name_facts v : good_name v = true ->
  v <> [] /\ forallb ascii_name_char v = true /\ v <> lit "errorInfo" /\ v <> lit "errorCode".
Proof.
  unfold good_name. intros H. apply andb_true_iff in H. destruct H as [H H4].
  apply andb_true_iff in H. destruct H as [H H3]. apply andb_true_iff in H. destruct H as [H1 H2].
  split; [destruct v; [discriminate|discriminate]|]. split; [exact H2|]. split.
  - intros ->. discriminate.
  - intros ->. discriminate.
Qed.

Lemma opstr_brace o : forallb brace_text_char (opstr o) = true.
Proof. destruct o; vm_compute; reflexivity. Qed.

Lemma rexpr_brace e : wf_expr e = true -> forallb brace_text_char (rexpr e) = true.
Proof.
  induction e as [z|v|o a IHa b IHb]; cbn [wf_expr rexpr]; intros H.
  - apply (forallb_imp num_char); [exact num_char_brace|apply show_Z_chars].
  - cbn [forallb]. apply andb_true_iff. split; [reflexivity|].
    apply (forallb_imp ascii_name_char); [exact name_char_brace|apply (good_name_facts v H)].
  - apply andb_true_iff in H. destruct H as [H Hb]. apply andb_true_iff in H. destruct H as [_ Ha].
    cbn [forallb]. rewrite !forallb_app. cbn [forallb]. rewrite !forallb_app. cbn [forallb].
    rewrite !forallb_app. cbn [forallb].
    rewrite (IHa Ha), (IHb Hb), opstr_brace. reflexivity.
Qed.

Lemma rexpr_nonempty e : nonemptyb (rexpr e) = true.
Proof.
  destruct e as [z|v|o a b]; cbn [rexpr]; try reflexivity.
  destruct (show_Z_chars z) as [H _]. destruct (show_Z z); [congruence|reflexivity].
Qed.

(* the first character of an expression text is a digit, '-', '$' or '(' *)
Lemma rexpr_not_star e : str_eqb (rexpr e) [c_star] = false.
Proof.
  destruct e as [z|v|o a b]; cbn [rexpr]; try reflexivity.
  destruct (show_Z_chars z) as [H1 H2]. destruct (show_Z z) as [|c r]; [reflexivity|].
  cbn [forallb] in H2. apply andb_true_iff in H2. destruct H2 as [H2 _].
  cbn [str_eqb]. replace (c =? c_star) with false; [reflexivity|].
  unfold num_char, is_digit10, c_minus, c_star in *. lia.
Qed.

Lemma wf_btext s : nonemptyb s = true -> forallb brace_text_char s = true -> wf_bseg (BText s) = true.
Proof. intros H1 H2. cbn [wf_bseg]. rewrite H2. destruct s; [discriminate|reflexivity]. Qed.

Lemma bs_wf :
  (forall s, wf_stmt s = true -> forallb wf_bseg (bs_stmt s) = true) /\
  (forall b, wf_block b = true -> forallb wf_bseg (bs_block b) = true).
Proof.
  apply stmt_block_ind; intros; cbn [bs_stmt bs_block wf_stmt wf_block] in *.
  - apply andb_true_iff in H. destruct H as [Hv He].
    destruct (good_name_facts v Hv) as (_ & Hn & _).
    cbn [forallb wf_bseg]. rewrite (rexpr_brace e He).
    rewrite !forallb_app, (forallb_imp _ _ v name_char_brace Hn).
    pose proof (rexpr_nonempty e) as Hne. destruct (rexpr e); [discriminate|]. reflexivity.
  - apply andb_true_iff in H. destruct H as [Hv _].
    destruct (good_name_facts v Hv) as (_ & Hn & _).
    cbn [forallb wf_bseg]. rewrite !forallb_app. cbn [forallb].
    rewrite (forallb_imp _ _ v name_char_brace Hn).
    rewrite (forallb_imp _ _ _ num_char_brace (proj2 (show_Z_chars k))). reflexivity.
  - apply andb_true_iff in H0. destruct H0 as [Hc Ht].
    cbn [forallb wf_bseg]. rewrite (rexpr_brace c Hc), (H Ht).
    pose proof (rexpr_nonempty c) as Hne. destruct (rexpr c); [discriminate|]. reflexivity.
  - apply andb_true_iff in H1. destruct H1 as [H1 He]. apply andb_true_iff in H1. destruct H1 as [Hc Ht].
    cbn [forallb wf_bseg]. rewrite (rexpr_brace c Hc), (H Ht), (H0 He).
    pose proof (rexpr_nonempty c) as Hne. destruct (rexpr c); [discriminate|]. reflexivity.
  - apply andb_true_iff in H0. destruct H0 as [Hc Ht].
    cbn [forallb wf_bseg]. rewrite (rexpr_brace c Hc), (H Ht).
    pose proof (rexpr_nonempty c) as Hne. destruct (rexpr c); [discriminate|]. reflexivity.
  - reflexivity.
  - reflexivity.
  - reflexivity.
  - apply andb_true_iff in H1. destruct H1 as [Hs Hr].
    rewrite forallb_app. cbn [forallb wf_bseg]. rewrite (H Hs), (H0 Hr). reflexivity.
Qed.

Lemma wf_bw s : nonemptyb s = true -> forallb bare_lit_char s = true -> wf_word (bw s) = true.
Proof.
  intros H1 H2. unfold bw. cbn [wf_word forallb wf_seg adjacency_ok]. rewrite H2.
  destruct s; [discriminate|reflexivity].
Qed.

Lemma wf_cond_word c : wf_expr c = true -> wf_word (cond_word c) = true.
Proof.
  intros H. unfold cond_word. cbn [wf_word forallb]. rewrite (wf_btext _ (rexpr_nonempty c) (rexpr_brace c H)).
  reflexivity.
Qed.

Lemma wf_body_word b : wf_block b = true -> wf_word (body_word b) = true.
Proof. intros H. unfold body_word. cbn [wf_word forallb wf_bseg nl1]. exact (proj2 bs_wf b H). Qed.

Lemma wf_cst_stmt s last : wf_stmt s = true -> wf_item false last (cst_stmt s) = true.
Proof.
  intros H. unfold cst_stmt. destruct s; cbn [wf_stmt] in H; cbn [words_of wf_item forallb].
  - apply andb_true_iff in H. destruct H as [Hv He].
    destruct (good_name_facts v Hv) as (Hne & Hn & _).
    rewrite (wf_bw v) by (destruct v; [congruence|reflexivity] || exact (forallb_imp _ _ v name_char_bare Hn)).
    cbn [wf_word forallb wf_seg wf_item adjacency_ok]. rewrite (wf_cond_word e He). reflexivity.
  - apply andb_true_iff in H. destruct H as [Hv _].
    destruct (good_name_facts v Hv) as (Hne & Hn & _).
    rewrite (wf_bw v) by (destruct v; [congruence|reflexivity] || exact (forallb_imp _ _ v name_char_bare Hn)).
    destruct (show_Z_chars k) as [K1 K2].
    rewrite (wf_bw (show_Z k)) by (destruct (show_Z k); [congruence|reflexivity] ||
                                    exact (forallb_imp _ _ _ num_char_bare K2)).
    reflexivity.
  - apply andb_true_iff in H. destruct H as [Hc Ht].
    rewrite (wf_cond_word c Hc), (wf_body_word t Ht). reflexivity.
  - apply andb_true_iff in H. destruct H as [H He]. apply andb_true_iff in H. destruct H as [Hc Ht].
    rewrite (wf_cond_word c Hc), (wf_body_word t Ht), (wf_body_word e He). reflexivity.
  - apply andb_true_iff in H. destruct H as [Hc Ht].
    rewrite (wf_cond_word c Hc), (wf_body_word b Ht). reflexivity.
  - reflexivity.
  - reflexivity.
Qed.

Lemma wf_cst_items b : wf_block b = true -> wf_items false (cst_block b) = true.
Proof.
  induction b as [|s r IH]; [reflexivity|]. cbn [wf_block cst_block]. intros H.
  apply andb_true_iff in H. destruct H as [Hs Hr]. cbn [wf_items].
  destruct (cst_block r) eqn:E.
  - apply wf_cst_stmt, Hs.
  - rewrite (wf_cst_stmt s false Hs), (IH Hr). reflexivity.
Qed.

(* ---------- the script the reader produces ---------- *)
Definition ast_stmt (s : stmt) : list word :=
  match s with
  | Set_ v e => [WValue (lit "set"); WValue v; WScript [[WValue (lit "expr"); WValue (rexpr e)]]]
  | Incr v k => [WValue (lit "incr"); WValue v; WValue (show_Z k)]
  | If c t => [WValue (lit "if"); WValue (rexpr c); WValue (10 :: render_block t)]
  | IfElse c t e => [WValue (lit "if"); WValue (rexpr c); WValue (10 :: render_block t);
                     WValue (lit "else"); WValue (10 :: render_block e)]
  | While c b => [WValue (lit "while"); WValue (rexpr c); WValue (10 :: render_block b)]
  | Break => [WValue (lit "break")]
  | Continue => [WValue (lit "continue")]
  end.
Fixpoint ast_block (b : block) : script :=
  match b with BNil => [] | BCons s r => ast_stmt s :: ast_block r end.

Lemma fold_push s : forall l acc,
  fold_left tk_push_char s {| tk_list := l; tk_str := Some acc |} = {| tk_list := l; tk_str := Some (rev s ++ acc) |}.
Proof.
  induction s as [|c s IH]; intros l acc; [reflexivity|].
  cbn [fold_left]. unfold tk_push_char at 2. cbn [tk_str tk_list]. rewrite IH.
  cbn [rev]. rewrite <- app_assoc. reflexivity.
Qed.

Lemma ast_bw s : ast_word (bw s) = WValue s.
Proof.
  unfold bw. cbn [ast_word fold_left tok_seg]. destruct s as [|c s]; [reflexivity|].
  cbn [fold_left]. unfold tk_push_char at 2, tk_new. cbn [tk_str tk_list]. rewrite fold_push.
  unfold tk_take. cbn [tk_str tk_list]. rewrite rev_app_distr, rev_involutive. reflexivity.
Qed.

Lemma ast_cond_word c : ast_word (cond_word c) = WValue (rexpr c).
Proof. unfold cond_word. cbn [ast_word flat_map bseg_value]. rewrite app_nil_r. reflexivity. Qed.

Lemma ast_body_word b : ast_word (body_word b) = WValue (10 :: render_block b).
Proof.
  unfold body_word. cbn [ast_word flat_map bseg_value nl1 app]. rewrite (proj2 bs_value). reflexivity.
Qed.

Lemma ast_words_of s : words_ast ast_word false (words_of s) = ast_stmt s.
Proof.
  destruct s; cbn [words_of words_ast ast_stmt]; rewrite ?andb_false_r, ?ast_bw, ?ast_cond_word, ?ast_body_word;
    try reflexivity.
  cbn [ast_word fold_left tok_seg items_with ast_item words_ast].
  unfold cond_word at 1. cbn [star_word]. rewrite rexpr_not_star. cbn [andb].
  rewrite ast_bw, ast_cond_word. reflexivity.
Qed.

Lemma ast_cst_items b : forall p,
  ast_items false p (cst_block b) =
  ast_block b ++ (if p || match b with BNil => false | _ => true end then [[]] else []).
Proof.
  unfold ast_items. induction b as [|s r IH]; intros p.
  - cbn [cst_block items_with ast_block app]. rewrite orb_false_r. reflexivity.
  - cbn [cst_block items_with ast_block app]. unfold cst_stmt at 1. cbn [ast_item].
    change (cmd_bad false [] nl1) with false. rewrite ast_words_of.
    cbn [item_pend]. change (str_eqb nl1 [c_nl]) with true. rewrite IH.
    rewrite orb_true_r. cbn [orb]. reflexivity.
Qed.

(* the top-level program text and the text of a body ("\n" followed by the block) *)
Theorem parse_block b : wf_block b = true ->
  parse (u_alnum std_uni) (render_block b) =
  POk (ast_block b ++ match b with BNil => [] | _ => [[]] end) [].
Proof.
  intros H. rewrite <- render_cst_block.
  rewrite (parse_render_model _ (cst_block b) name_ok_std (wf_cst_items b H)).
  unfold ast_of_model. rewrite ast_cst_items. destruct b; reflexivity.
Qed.

Theorem parse_body b : wf_block b = true ->
  parse (u_alnum std_uni) (10 :: render_block b) = POk (ast_block b ++ [[]]) [].
Proof.
  intros H.
  assert (E : 10 :: render_block b = SpecGrammar.render (IEmpty [] nl1 :: cst_block b)).
  { unfold SpecGrammar.render. cbn [flat_map render_item app nl1].
    change (flat_map render_item (cst_block b)) with (SpecGrammar.render (cst_block b)).
    rewrite render_cst_block. reflexivity. }
  rewrite E. rewrite (parse_render_model _ _ name_ok_std).
  - unfold ast_of_model, ast_items. cbn [items_with ast_item].
    change (str_eqb nl1 [c_semi]) with false. cbv iota.
    change (items_with (ast_item false) (cst_block b) true) with (ast_items false true (cst_block b)).
    rewrite ast_cst_items. reflexivity.
  - unfold wf. cbn [wf_items]. pose proof (wf_cst_items b H) as W.
    destruct (cst_block b) eqn:Eb; [reflexivity|].
    cbn [wf_item forallb]. change (str_eqb nl1 [c_semi] || str_eqb nl1 [c_nl]) with true.
    cbn [andb]. exact W.
Qed.

(* ====================================================================================== *)
(* 4. expressions: the evaluator on the text of an expression tree with variable operands   *)
(* ====================================================================================== *)
Local Open Scope Z_scope.

Definition xres (r : res Z) : res datum :=
  match r with Ok z => Ok (DInt z) | Err e => Err e | Panic p => Panic p | Fuel => Fuel end.

(* the variables of [en] read, in an expression, as their integers *)
Definition reads (st : interp) (en : env) : Prop :=
  forall v, good_name v = true ->
    match assoc_get v en with
    | Some z => exists a, st_scalar st v = Ok a /\ expr_parse_value a = Ok (DInt z)
    | None => st_scalar st v = err (no_such_variable v)
    end.

(* what follows a variable name: a space, a close parenthesis, or the end *)
Definition vfollow (rest : str) : Prop :=
  match rest with [] => True | c :: _ => c = 32%N \/ c = 41%N end.

Fixpoint xsz (e : expr) : nat :=
  match e with Lit _ => 2 | Var _ => 1 | Bin _ a b => xsz a + xsz b + 3 end.

Section ExprEval.
Variable ia ib : char -> bool.
Variable exec : executor.
Variable original : str.
Hypothesis Hia : name_ok ia.
Variable st : interp.
Variable en : env.
Hypothesis Hreads : reads st en.

Local Notation GV := (expr_get_value ia ib exec original).
Local Notation LOOP := (expr_loop ia ib exec original).
Local Notation LEX := (expr_lex ia ib exec original).
Local Notation follows := (follows ia ib exec original).

Lemma name_chars_varname v : forallb ascii_name_char v = true -> forallb name_char v = true.
Proof. apply forallb_imp. intros c Hc. unfold name_char. rewrite Hc. reflexivity. Qed.

Lemma vfollow_nv rest : vfollow rest -> nv_head ia rest.
Proof.
  unfold vfollow, nv_head. destruct rest as [|c r]; [auto|]. intros [->| ->].
  - apply (vn_false ia Hia); [lia|reflexivity].
  - apply (vn_false ia Hia); [lia|reflexivity].
Qed.

Lemma lex_var f info sp v rest :
  forallb is_whitespace sp = true -> good_name v = true -> vfollow rest ->
  e_rest info = sp ++ c_dollar :: v ++ rest -> e_noeval info = 0%N ->
  LEX (S f) st info =
  lift_res st (xres (xev en (Var v))) (fun d => (st, Ok (d, with_tok_rest info T_VALUE rest))).
Proof.
  intros Hsp Hv Hvf He Hn.
  destruct (good_name_facts v Hv) as (Hne & Hnc & _).
  pose proof (Hreads v Hv) as Hr.
  rewrite expr_lex_S, He, (skip_ws_app sp _ Hsp). cbv zeta.
  rewrite (skip_while_head_false is_whitespace (c_dollar :: v ++ rest)) by reflexivity.
  assert (L : lex_number info (c_dollar :: v ++ rest) c_dollar = None) by reflexivity.
  rewrite L. change (N.eqb c_dollar c_dollar) with true. cbv iota.
  destruct v as [|c t] eqn:Ev; [congruence|]. rewrite <- Ev in *.
  assert (Hc : ascii_name_char c = true).
  { rewrite Ev in Hnc. cbn [forallb] in Hnc. apply andb_true_iff in Hnc. tauto. }
  rewrite Ev at 1. cbn [app].
  rewrite (vn_true ia Hia c) by (unfold name_char; rewrite Hc; reflexivity). cbn [orb].
  assert (F : exists g, parse_fuel (v ++ rest) = S g).
  { eexists. unfold parse_fuel. rewrite Nat.add_comm. reflexivity. }
  destruct F as (g & ->). unfold parse_bt. rewrite TotalFacts.parse_varname_eq.
  assert (Hd : v ++ rest = c :: (t ++ rest)) by (rewrite Ev; reflexivity).
  rewrite Hd at 1.
  replace (c =? c_lbrace)%N with false
    by (unfold ascii_name_char, c_underscore, c_lbrace in Hc |- *; lia).
  destruct (tw_name ia Hia v rest (name_chars_varname v Hnc) (vfollow_nv rest Hvf)) as [T1 T2].
  rewrite T1, T2.
  assert (P : match rest with
              | [] => POk (WVarRef v) rest
              | d :: r' =>
                  if (d =? c_lparen)%N
                  then match parse_bare ia g false true r' tk_new with
                       | POk idx [] => PErr (lit "missing )")
                       | POk idx (e :: r'') =>
                           if (e =? c_rparen)%N then POk (WArrayRef v idx) r'' else PErr (lit "missing )")
                       | PErr m => PErr m
                       | PFuel => PFuel
                       end
                  else POk (WVarRef v) rest
              end = POk (WVarRef v) rest).
  { destruct rest as [|d r']; [reflexivity|]. cbn [vfollow] in Hvf.
    replace (d =? c_lparen)%N with false by (unfold c_lparen; lia). reflexivity. }
  rewrite P. unfold lift_p.
  replace (noeval info) with false by (unfold noeval; rewrite Hn; reflexivity).
  cbv iota. cbn [Eval.eval_word xev]. unfold lex_value_of.
  replace (noeval info) with false by (unfold noeval; rewrite Hn; reflexivity).
  destruct (assoc_get v en) as [z|].
  - destruct Hr as (a & Ha & Hp). rewrite Ha. cbv iota. rewrite Hp. reflexivity.
  - rewrite Hr. reflexivity.
Qed.

Definition parsesX (e : expr) : Prop :=
  forall pr, pr < 16 ->
  forall rest tk rest', follows rest tk rest' -> ftok tk -> vfollow rest ->
  forall fuel, (2 * xsz e <= fuel)%nat ->
  forall info sp, forallb is_whitespace sp = true ->
    e_rest info = sp ++ rexpr e ++ rest -> e_noeval info = 0%N ->
    GV fuel st info pr =
    lift_res st (xres (xev en e)) (fun v => LOOP (fuel - 1) st (with_tok_rest info tk rest') pr v).

Lemma parsesX_var v : good_name v = true -> parsesX (Var v).
Proof.
  intros Hv pr _ rest tk rest' [Hlf Hlex] _ Hvf fuel Hfuel info sp Hsp He Hn.
  cbn [xsz] in Hfuel. destruct fuel as [|[|f]]; try lia.
  cbn [rexpr app] in He.
  rewrite expr_get_value_S, (lex_var f info sp v rest Hsp Hv Hvf He Hn).
  destruct (xres (xev en (Var v))) as [d|e|p|]; cbn [lift_res]; try reflexivity.
  unfold gv_first, unary_tok. tok_red.
  rewrite (Hlex f st (with_tok_rest info T_VALUE rest) eq_refl).
  replace (S (S f) - 1)%nat with (S f) by lia. reflexivity.
Qed.

Lemma ftok_head_ok2 t tk : ExprFacts2.topr t = 16 -> ftok tk -> ExprFacts2.head_ok2 t tk.
Proof.
  intros Ht Hf. split; [exact Hf|]. intros H8. rewrite Ht.
  pose proof (ExprFacts2.ftok_prec tk Hf H8). lia.
Qed.

Lemma parsesX_lit z : lit_ok z = true -> parsesX (Lit z).
Proof.
  intros Hz pr Hpr rest tk rest' Hfol Hft _ fuel Hfuel info sp Hsp He Hn.
  cbn [xsz] in Hfuel. cbn [rexpr] in He. cbn [xev xres lift_res].
  unfold lit_ok, i64_min, i64_max in Hz.
  destruct (Z.ltb_spec z 0) as [Hneg|Hpos].
  - (* "-" followed by the digits of -z *)
    set (t := ExprFacts2.U ExprFacts2.UNeg [] (ExprFacts2.L (- z))).
    assert (Hok : ExprFacts2.ok t = true).
    { unfold t. cbn [ExprFacts2.ok ExprFacts2.ws forallb ExprFacts2.topl]. unfold i64_max. lia. }
    assert (Hr : ExprFacts2.render2 t = show_Z z).
    { unfold t. cbn [ExprFacts2.render2 app]. destruct z as [|p|p]; try lia. reflexivity. }
    destruct (ExprFacts2.parses2_all ia ib exec original t Hok ltac:(discriminate) 0%N pr ltac:(exact Hpr)
                rest tk rest' Hfol (ftok_head_ok2 t tk eq_refl Hft) fuel ltac:(cbn; lia) st info sp Hsp
                ltac:(rewrite Hr; exact He) Hn) as (r & Hv & Hgv).
    rewrite Hgv. unfold ExprFacts2.val in Hv. cbn [N.eqb] in Hv. change (0 =? 0)%N with true in Hv.
    cbv iota in Hv. subst r. unfold t. cbn [ExprFacts2.evm ExprFacts2.utok ExprFacts2.nsp2].
    unfold unary_apply. tok_tests. cbv iota.
    replace (in_i64 (- - z)) with true by (unfold in_i64, i64_min, i64_max; lia).
    rewrite Z.opp_involutive. cbn [lift_res]. rewrite Nat.sub_0_r. reflexivity.
  - set (t := ExprFacts2.L z).
    assert (Hok : ExprFacts2.ok t = true).
    { unfold t. cbn [ExprFacts2.ok]. unfold i64_max. lia. }
    destruct (ExprFacts2.parses2_all ia ib exec original t Hok ltac:(discriminate) 0%N pr ltac:(exact Hpr)
                rest tk rest' Hfol (ftok_head_ok2 t tk eq_refl Hft) fuel ltac:(cbn; lia) st info sp Hsp
                He Hn) as (r & Hv & Hgv).
    rewrite Hgv. unfold ExprFacts2.val in Hv. change (0 =? 0)%N with true in Hv.
    cbv iota in Hv. subst r. unfold t. cbn [ExprFacts2.evm ExprFacts2.nsp2 lift_res].
    rewrite Nat.sub_0_r. reflexivity.
Qed.

Lemma ftok_op o : ftok (tok_of o).
Proof.
  right; right; right. pose proof (tok_of_ordinary o) as Ho.
  unfold ordinary, T_BIT_OR, T_COLON in *. lia.
Qed.

Lemma parsesX_bin o a b : sym_op o = true -> parsesX a -> parsesX b -> parsesX (Bin o a b).
Proof.
  intros Ho IHa IHb pr Hpr rest tk rest' [Hlf Hlex] Hft Hvf fuel Hfuel info sp Hsp He Hn.
  cbn [xsz] in Hfuel. destruct fuel as [|[|f]]; try lia.
  assert (Halpha : alpha_op o = false) by (unfold sym_op in Ho; destruct (alpha_op o); [discriminate|reflexivity]).
  assert (He' : e_rest info = sp ++ 40%N :: (rexpr a ++ 32%N :: opstr o ++ 32%N :: rexpr b ++ 41%N :: rest)).
  { rewrite He. cbn [rexpr app]. repeat (rewrite <- ?app_assoc; cbn [app]). reflexivity. }
  rewrite expr_get_value_S, (lex_open_paren ia ib exec original f st info sp _ Hsp He').
  unfold gv_first. tok_red.
  (* the left operand *)
  set (i1 := with_tok_rest info T_OPEN_PAREN (rexpr a ++ 32%N :: opstr o ++ 32%N :: rexpr b ++ 41%N :: rest)).
  rewrite (IHa (-1) ltac:(lia) _ (tok_of o) _ (follows_sym_op ia ib exec original o (rexpr b ++ 41%N :: rest) Halpha)
             (ftok_op o) ltac:(left; reflexivity) (S f) ltac:(lia) i1 [] eq_refl eq_refl Hn).
  cbn [xev]. destruct (xev en a) as [x|ea|pa|]; cbn [xres lift_res]; try reflexivity.
  (* one turn of the loop at o *)
  replace (S f - 1)%nat with f by lia.
  destruct f as [|f1]; [lia|].
  set (i_o := with_tok_rest i1 (tok_of o) (32%N :: rexpr b ++ 41%N :: rest)).
  pose proof (oprec_pos o) as Hop. pose proof (ExprFacts2.oprec_bounds o) as Hob.
  rewrite (loop_step_ordinary ia ib exec original f1 st i_o (-1) (DInt x) (tok_of_ordinary o)
             ltac:(change (prec (e_token i_o)) with (oprec o); lia)).
  change (prec (e_token i_o)) with (oprec o). change (e_token i_o) with (tok_of o).
  (* the right operand *)
  rewrite (IHb (oprec o) ltac:(lia) (41%N :: rest) T_CLOSE_PAREN rest (follows_close ia ib exec original rest)
             ltac:(left; reflexivity) ltac:(right; reflexivity) f1 ltac:(lia) i_o [32%N] eq_refl eq_refl Hn).
  destruct (xev en b) as [y|eb|pb|]; cbn [xres lift_res]; try reflexivity.
  destruct (f1 - 1)%nat as [|f2] eqn:Ef2; [lia|].
  rewrite loop_stops_at_end by (info_red; tauto).
  rewrite ftok_not_bad by (info_red; left; reflexivity).
  replace (noeval (with_tok_rest i_o T_CLOSE_PAREN rest)) with false
    by (unfold noeval, i_o, i1; info_red; rewrite Hn; reflexivity).
  destruct (apply_binop (tok_of o) (DInt x) (DInt y)) as [d|e|p|] eqn:Eab; try reflexivity.
  pose proof (ExprFacts2.apply_binop_int _ _ _ _ Eab) as Hint.
  destruct d as [z|fl|s0]; try discriminate Hint.
  destruct f1 as [|f1']; [lia|].
  rewrite loop_stops_at_end by (info_red; tauto).
  tok_red.
  match goal with |- context [LEX (S ?g) st ?i] => rewrite (Hlex g st i eq_refl) end.
  cbn [lift_res]. replace (S (S (S (S f1'))) - 1)%nat with (S (S (S f1'))) by lia. reflexivity.
Qed.

Theorem parsesX_all e : wf_expr e = true -> parsesX e.
Proof.
  induction e as [z|v|o a IHa b IHb]; cbn [wf_expr]; intros H.
  - apply parsesX_lit, H.
  - apply parsesX_var, H.
  - apply andb_true_iff in H. destruct H as [H Hb]. apply andb_true_iff in H. destruct H as [Ho Ha].
    apply parsesX_bin; auto.
Qed.

End ExprEval.

Lemma apply_binop_int_err op x y e :
  apply_binop op (DInt x) (DInt y) = Err e -> exists m, e = molt_err m.
Proof.
  unfold apply_binop.
  repeat split_op op; tok_tests;
    cbn [orb andb negb is_string to_flt expr_as_str]; cbv beta iota;
    unfold i64_result, illegal_type, err, d_bool; intros H;
    repeat match type of H with
           | context [if ?c then _ else _] => destruct c
           | context [match ?c with _ => _ end] => destruct c
           end;
    try discriminate; injection H as <-; eexists; reflexivity.
Qed.

Lemma xev_err_plain en e er : xev en e = Err er -> exists m, er = molt_err m.
Proof.
  revert er. induction e as [z|v|o a IHa b IHb]; cbn [xev]; intros er H.
  - discriminate.
  - destruct (assoc_get v en); [discriminate|]. injection H as <-. eexists; reflexivity.
  - destruct (xev en a) as [x|ea|pa|]; try discriminate; [|injection H as <-; apply IHa; reflexivity].
    destruct (xev en b) as [y|eb|pb|]; try discriminate; [|injection H as <-; apply IHb; reflexivity].
    destruct (apply_binop (tok_of o) (DInt x) (DInt y)) as [d|e0|p|] eqn:Eab; try discriminate.
    + destruct d; discriminate.
    + injection H as <-. exact (apply_binop_int_err _ _ _ _ Eab).
Qed.

Lemma xsz_le_length e : (xsz e <= 2 * length (rexpr e))%nat.
Proof.
  induction e as [z|v|o a IHa b IHb]; cbn [xsz rexpr].
  - destruct (show_Z_chars z) as [H _]. destruct (show_Z z); [congruence|]. cbn [length]. lia.
  - cbn [length]. lia.
  - cbn [length]. rewrite !app_length. cbn [length]. rewrite !app_length. cbn [length].
    rewrite !app_length. cbn [length]. lia.
Qed.

Definition xval (r : res Z) : res value :=
  match r with Ok z => Ok (VInt z) | Err e => Err e | Panic p => Panic p | Fuel => Fuel end.

(* the model's expression evaluator on the text of a tree: the reference value, state unchanged *)
Theorem expr_eval_rexpr ia ib exec st en e :
  name_ok ia -> reads st en -> wf_expr e = true ->
  expr_eval ia ib exec st (VStr (rexpr e)) = (st, xval (xev en e)).
Proof.
  intros Hia Hr Hwf. unfold expr_eval. cbn [as_str].
  set (s := rexpr e).
  pose proof (parsesX_all ia ib exec s Hia st en Hr e Hwf) as PP.
  assert (Hfu : (2 * xsz e <= expr_fuel s)%nat).
  { unfold expr_fuel, s. pose proof (xsz_le_length e). lia. }
  rewrite (PP (-1) ltac:(lia) [] T_END [] (follows_end ia ib exec s) ltac:(right; right; left; reflexivity) I
              (expr_fuel s) Hfu {| e_rest := s; e_token := -1; e_noeval := 0 |} [] eq_refl
              ltac:(cbn [e_rest app]; rewrite app_nil_r; reflexivity) eq_refl).
  destruct (xev en e) as [z|er|p|] eqn:Ev; cbn [xres lift_res xval]; try reflexivity.
  - destruct (expr_fuel s - 1)%nat as [|k] eqn:Ek; [unfold expr_fuel in Ek; lia|].
    rewrite loop_stops_at_end by (info_red; tauto).
    info_red. tok_tests. reflexivity.
  - destruct (xev_err_plain en e er Ev) as [m ->]. reflexivity.
Qed.


(* ====================================================================================== *)
(* 5. the state relation                                                                   *)
(* ====================================================================================== *)

(* the stored value reads as the integer z, in an expression and as an `incr` operand *)
Definition int_val (a : value) (z : Z) : Prop :=
  expr_parse_value a = Ok (DInt z) /\ v_as_int a = inr z.

Lemma int_val_int z : int_val (VInt z) z.
Proof. split; reflexivity. Qed.

Definition holds (x : option var) (o : option Z) : Prop :=
  match o with
  | Some z => exists a, x = Some (VarScalar a) /\ int_val a z
  | None => x = None
  end.

Definition err_var (n : str) : Prop := n = lit "errorInfo" \/ n = lit "errorCode".

(* errorInfo / errorCode of the global scope can be assigned *)
Definition err_vars_ok (ss : scopes) : Prop :=
  forall n, err_var n ->
    match ent ss 0 n with Some (VarArray _) | Some (VarUpvar _) => False | _ => True end.

(* the current scope holds exactly the environment, as scalars, on all good names *)
Definition RelS (en : env) (ss : scopes) : Prop :=
  ss <> [] /\
  (forall v, good_name v = true -> holds (ent ss (sc_current ss) v) (assoc_get v en)) /\
  err_vars_ok ss.
Definition Rel (en : env) (st : interp) : Prop := RelS en (i_scopes st).

Definition same_ctl (st st' : interp) : Prop :=
  i_cmds st' = i_cmds st /\ i_levels st' = i_levels st /\ i_limit st' = i_limit st.

Lemma same_ctl_refl st : same_ctl st st.
Proof. repeat split. Qed.
Lemma same_ctl_trans a b c : same_ctl a b -> same_ctl b c -> same_ctl a c.
Proof. unfold same_ctl. intuition congruence. Qed.
Lemma same_ctl_scopes st ss : same_ctl st (set_scopes st ss).
Proof. repeat split. Qed.

Lemma good_not_err v n : good_name v = true -> err_var n -> n <> v.
Proof.
  intros Hv Hn ->. destruct (good_name_facts v Hv) as (_ & _ & H1 & H2). destruct Hn; contradiction.
Qed.

Lemma cur_lt ss : ss <> [] -> (sc_current ss < length ss)%nat.
Proof. unfold sc_current. destruct ss; [congruence|]. cbn [length]. lia. Qed.

Lemma Rel_reads en st : Rel en st -> reads st en.
Proof.
  intros (Hne & Hv & _) v Hg. specialize (Hv v Hg). unfold st_scalar, sc_get, sc_lookup.
  cbn [sc_var]. unfold ent in Hv. destruct (assoc_get v en) as [z|]; cbn [holds] in Hv.
  - destruct Hv as (a & -> & Hp & _). exists a. split; [reflexivity|exact Hp].
  - rewrite Hv. reflexivity.
Qed.

(* assigning an integer-like value to a good name *)
Lemma RelS_put en ss v a z : RelS en ss -> good_name v = true -> int_val a z ->
  RelS (assoc_set v z en) (sc_put ss (sc_current ss) v (VarScalar a)).
Proof.
  intros (Hne & Hv & He) Hg Ha. unfold sc_put. split; [apply nonempty_update, Hne|]. split.
  - intros w Hw. rewrite sc_current_update. fold (sc_put ss (sc_current ss) v (VarScalar a)).
    destruct (list_eq_dec N.eq_dec v w) as [->|Hneq].
    + rewrite ent_put_same by (apply cur_lt, Hne). rewrite assoc_get_set_same.
      exists a. split; [reflexivity|exact Ha].
    + rewrite ent_put_other_name by exact Hneq. rewrite BindFacts.assoc_get_set_other by exact Hneq.
      apply Hv, Hw.
  - intros n Hn. fold (sc_put ss (sc_current ss) v (VarScalar a)).
    rewrite ent_put_other_name by (intros ->; exact (good_not_err _ _ Hg Hn eq_refl)). apply He, Hn.
Qed.

Lemma RelS_put_err en ss n x : RelS en ss -> err_var n ->
  RelS en (sc_put ss 0 n (VarScalar x)).
Proof.
  intros (Hne & Hv & He) Hn. unfold sc_put. split; [apply nonempty_update, Hne|]. split.
  - intros w Hw. rewrite sc_current_update. fold (sc_put ss 0 n (VarScalar x)).
    rewrite ent_put_other_name by (apply good_not_err; assumption). apply Hv, Hw.
  - intros m Hm. fold (sc_put ss 0 n (VarScalar x)).
    destruct (list_eq_dec N.eq_dec n m) as [->|Hneq].
    + rewrite ent_put_same; [exact I|]. destruct ss; [congruence|cbn [length]; lia].
    + rewrite ent_put_other_name by exact Hneq. apply He, Hm.
Qed.

Lemma sc_set_global_err en ss n x : RelS en ss -> err_var n ->
  sc_set_global ss n x = (sc_put ss 0 n (VarScalar x), Ok tt).
Proof.
  intros (_ & _ & He) Hn. specialize (He n Hn). unfold sc_set_global, sc_set_at. unfold ent in He.
  destruct (assoc_get n (sc_get_scope ss 0)) as [[a|m|l|]|]; try reflexivity; contradiction.
Qed.

Lemma set_global_error_data_rel en st e : Rel en st ->
  exists st', set_global_error_data st e = (st', Ok tt) /\ Rel en st' /\ same_ctl st st'.
Proof.
  intros HR. unfold set_global_error_data. destruct (x_data e) as [d|].
  - rewrite (sc_set_global_err en _ _ _ HR (or_introl eq_refl)).
    pose proof (RelS_put_err en _ (lit "errorInfo") (VStr (ed_info d)) HR (or_introl eq_refl)) as HR1.
    rewrite (sc_set_global_err en _ _ _ HR1 (or_intror eq_refl)).
    eexists. split; [reflexivity|]. split; [|apply same_ctl_scopes].
    unfold Rel. cbn [i_scopes set_scopes]. apply RelS_put_err; [exact HR1|right; reflexivity].
  - exists st. split; [reflexivity|]. split; [exact HR|apply same_ctl_refl].
Qed.

Lemma good_name_no_paren v : good_name v = true -> has_char c_lparen v = false.
Proof.
  intros H. destruct (good_name_facts v H) as (_ & Hn & _). unfold has_char. clear H.
  induction v as [|c r IH]; [reflexivity|]. cbn [forallb existsb] in *.
  apply andb_true_iff in Hn. destruct Hn as [Hc Hr]. rewrite (IH Hr).
  unfold ascii_name_char, c_underscore, c_lparen in *. lia.
Qed.

Lemma st_set_var_rel en st v a z : Rel en st -> good_name v = true -> int_val a z ->
  exists st', st_set_var st (VStr v) a = (st', Ok tt) /\ Rel (assoc_set v z en) st' /\ same_ctl st st'.
Proof.
  intros HR Hg Ha. unfold st_set_var, as_var_name. cbn [as_str].
  rewrite (no_paren_literal v (good_name_no_paren v Hg)). unfold st_set_scalar, sc_set.
  destruct HR as (Hne & Hv & He). pose proof (Hv v Hg) as Hh.
  rewrite unlinked_target.
  2:{ intros l Hl. rewrite Hl in Hh. destruct (assoc_get v en); cbn [holds] in Hh.
      - destruct Hh as (a0 & E & _). discriminate.
      - discriminate. }
  unfold sc_set_at. unfold ent in Hh.
  assert (E : (match assoc_get v (sc_get_scope (i_scopes st) (sc_current (i_scopes st))) with
               | Some (VarArray _) => (i_scopes st, err (lit "can't set """ ++ v ++ lit """: variable is array"))
               | Some (VarUpvar _) => (i_scopes st, Panic (lit "scope.set: unreachable"))
               | _ => (sc_put (i_scopes st) (sc_current (i_scopes st)) v (VarScalar a), Ok tt)
               end) = (sc_put (i_scopes st) (sc_current (i_scopes st)) v (VarScalar a), @Ok unit tt)).
  { destruct (assoc_get v en); cbn [holds] in Hh.
    - destruct Hh as (a0 & -> & _). reflexivity.
    - rewrite Hh. reflexivity. }
  rewrite E. eexists. split; [reflexivity|]. split; [|apply same_ctl_scopes].
  unfold Rel. cbn [i_scopes set_scopes]. apply RelS_put; [split; [|split]; assumption|exact Hg|exact Ha].
Qed.

(* ====================================================================================== *)
(* 6. commands                                                                             *)
(* ====================================================================================== *)

Definition EX (f : nat) : executor := run_exec std_uni f.
Definition mkrec (f : nat) : recfns :=
  {| r_eval := eval_value_with std_uni (EX f); r_expr := expr_with std_uni (EX f); r_loop := S f |}.

Lemma EX_S f st n ctx argv :
  EX (S f) st (CmdNative n ctx) argv = run_native std_uni (mkrec f) n st argv.
Proof. reflexivity. Qed.

Definition has_native (st : interp) (name : string) (n : native) : Prop :=
  exists ctx, assoc_get (lit name) (i_cmds st) = Some (CmdNative n ctx).

(* the seven commands the sub-language uses are bound to molt's own implementations *)
Definition cmds_ok (st : interp) : Prop :=
  has_native st "set" NSet /\ has_native st "incr" NIncr /\ has_native st "expr" NExpr /\
  has_native st "if" NIf /\ has_native st "while" NWhile /\ has_native st "break" NBreak /\
  has_native st "continue" NContinue.

Lemma cmds_ok_same st st' : same_ctl st st' -> cmds_ok st -> cmds_ok st'.
Proof. intros (E & _ & _). unfold cmds_ok, has_native. rewrite E. auto. Qed.

(* result of the model against an outcome of the reference semantics *)
Definition res_ok (o : outcome) (r : res value) : Prop :=
  match o with
  | ONorm s => exists a, r = Ok a /\ as_str a = s
  | OBreak => r = Err molt_break
  | OContinue => r = Err molt_continue
  | OErr m => exists e, r = Err e /\ x_code e = CError /\ as_str (x_value e) = m
  | OFuel => False
  end.

Lemma command_outcome_ok o st cmd name argv e : res_ok o (Err e) ->
  exists r, command_outcome st cmd name argv e = (st, r) /\ res_ok o r.
Proof.
  intros H. unfold command_outcome. destruct o; cbn [res_ok] in H.
  - destruct H as (a & Ha & _). discriminate.
  - injection H as ->. cbn [x_code molt_break]. eexists. split; reflexivity.
  - injection H as ->. cbn [x_code molt_continue]. eexists. split; reflexivity.
  - destruct H as (e0 & He & Hc & Hv). injection He as <-. rewrite Hc.
    destruct (is_new_error e); [|destruct (is_proc cmd)]; eexists; (split; [reflexivity|]);
      cbn [res_ok]; eexists; (split; [reflexivity|]); cbn [add_error_info x_code x_value]; auto.
  - contradiction.
Qed.

Lemma one_cmd exec st ws res name args cmd st2 r o :
  eval_words exec st ws [] = (st, Ok (name :: args)) ->
  assoc_get (as_str name) (i_cmds st) = Some cmd ->
  exec st cmd (name :: args) = (st2, r) -> res_ok o r ->
  exists r', eval_cmds exec st [ws] res = (st2, r') /\ res_ok o r'.
Proof.
  intros Hw Hc He Ho. unfold eval_cmds. cbn [eval_cmds_with]. fold (eval_words exec).
  rewrite Hw, Hc, He. destruct r as [v|e|p|].
  - exists (Ok v). split; [reflexivity|exact Ho].
  - apply command_outcome_ok, Ho.
  - destruct o; cbn [res_ok] in Ho; try discriminate; try contradiction.
    + destruct Ho as (a & Ha & _); discriminate.
    + destruct Ho as (a & Ha & _); discriminate.
  - destruct o; cbn [res_ok] in Ho; try discriminate; try contradiction.
    + destruct Ho as (a & Ha & _); discriminate.
    + destruct Ho as (a & Ha & _); discriminate.
Qed.

(* ---- expr ---- *)
Lemma expr_with_ok exec en st e z : Rel en st -> wf_expr e = true -> xev en e = Ok z ->
  expr_with std_uni exec st (VStr (rexpr e)) = (st, Ok (VInt z)).
Proof.
  intros HR Hw Hx. unfold expr_with.
  rewrite (expr_eval_rexpr _ _ exec st en e name_ok_std (Rel_reads en st HR) Hw), Hx. reflexivity.
Qed.

Lemma expr_with_err exec en st e er : Rel en st -> wf_expr e = true -> xev en e = Err er ->
  exists st', expr_with std_uni exec st (VStr (rexpr e)) = (st', Err er) /\ Rel en st' /\ same_ctl st st'.
Proof.
  intros HR Hw Hx. unfold expr_with.
  rewrite (expr_eval_rexpr _ _ exec st en e name_ok_std (Rel_reads en st HR) Hw), Hx. cbn [xval].
  destruct (set_global_error_data_rel en st er HR) as (st' & E & HR' & Hs). rewrite E. cbn [bind].
  exists st'. auto.
Qed.

Lemma apply_binop_sym_total o x y : sym_op o = true ->
  (exists z, apply_binop (tok_of o) (DInt x) (DInt y) = Ok (DInt z)) \/
  (exists m, apply_binop (tok_of o) (DInt x) (DInt y) = Err (molt_err m)).
Proof.
  intros Ho. destruct (apply_binop (tok_of o) (DInt x) (DInt y)) as [d|e|p|] eqn:E.
  - pose proof (ExprFacts2.apply_binop_int _ _ _ _ E) as Hi. destruct d; try discriminate. left. eauto.
  - destruct (apply_binop_int_err _ _ _ _ E) as [m ->]. right. eauto.
  - exfalso. revert E. destruct o; try discriminate Ho; unfold apply_binop, tok_of; tok_tests;
      cbn [orb andb negb is_string]; cbv beta iota; unfold i64_result, d_bool; intros H;
      repeat match type of H with
             | context [if ?c then _ else _] => destruct c
             end; discriminate.
  - exfalso. revert E. destruct o; try discriminate Ho; unfold apply_binop, tok_of; tok_tests;
      cbn [orb andb negb is_string]; cbv beta iota; unfold i64_result, d_bool; intros H;
      repeat match type of H with
             | context [if ?c then _ else _] => destruct c
             end; discriminate.
Qed.

Lemma xev_total en e : wf_expr e = true ->
  (exists z, xev en e = Ok z) \/ (exists m, xev en e = Err (molt_err m)).
Proof.
  induction e as [z|v|o a IHa b IHb]; cbn [wf_expr xev]; intros H.
  - left. eauto.
  - destruct (assoc_get v en); [left; eauto|right; eexists; reflexivity].
  - apply andb_true_iff in H. destruct H as [H Hb]. apply andb_true_iff in H. destruct H as [Ho Ha].
    destruct (IHa Ha) as [[x ->]|[m ->]]; [|right; eauto].
    destruct (IHb Hb) as [[y ->]|[m ->]]; [|right; eauto].
    destruct (apply_binop_sym_total o x y Ho) as [[z ->]|[m ->]]; [left|right]; eauto.
Qed.

(* ---- set, incr, break, continue ---- *)
Lemma ca_set a b c : check_args "cmd_set" [a; b; c] = Ok tt. Proof. reflexivity. Qed.
Lemma ca_incr a b c : check_args "cmd_incr" [a; b; c] = Ok tt. Proof. reflexivity. Qed.
Lemma ca_expr a b : check_args "cmd_expr" [a; b] = Ok tt. Proof. reflexivity. Qed.
Lemma ca_while a b c : check_args "cmd_while" [a; b; c] = Ok tt. Proof. reflexivity. Qed.
Lemma ca_break a : check_args "cmd_break" [a] = Ok tt. Proof. reflexivity. Qed.
Lemma ca_continue a : check_args "cmd_continue" [a] = Ok tt. Proof. reflexivity. Qed.

Lemma run_set en st v a z : Rel en st -> good_name v = true -> int_val a z ->
  exists st', cmd_set st [VStr (lit "set"); VStr v; a] = (st', Ok a) /\
              Rel (assoc_set v z en) st' /\ same_ctl st st'.
Proof.
  intros HR Hg Ha. unfold cmd_set. rewrite ca_set. cbn [lift bind length Nat.eqb arg nth].
  unfold st_set_var_return.
  destruct (st_set_var_rel en st v a z HR Hg Ha) as (st' & E & HR' & Hs). rewrite E. cbn [bind ret].
  exists st'. auto.
Qed.

Definition incr_old (en : env) (v : str) : Z := match assoc_get v en with Some z => z | None => 0 end.

Lemma run_incr en st v k : Rel en st -> good_name v = true -> in_i64 k = true ->
  if in_i64 (k + incr_old en v)
  then exists st', cmd_incr st [VStr (lit "incr"); VStr v; VStr (show_Z k)] = (st', Ok (VInt (k + incr_old en v))) /\
                   Rel (assoc_set v (k + incr_old en v) en) st' /\ same_ctl st st'
  else cmd_incr st [VStr (lit "incr"); VStr v; VStr (show_Z k)] = (st, err (lit "integer overflow")).
Proof.
  intros HR Hg Hk.
  assert (Hold : (match st_var st (VStr v) with
                  | Ok v0 => lift_sum st (v_as_int v0)
                  | _ => ret st 0
                  end) = (st, Ok (incr_old en v))).
  { unfold st_var, as_var_name. cbn [as_str]. rewrite (no_paren_literal v (good_name_no_paren v Hg)).
    pose proof (Rel_reads en st HR v Hg) as Hr. destruct HR as (_ & Hv & _). specialize (Hv v Hg).
    unfold incr_old. unfold st_scalar, sc_get, sc_lookup in *. cbn [sc_var] in *. unfold ent in Hv.
    destruct (assoc_get v en) as [z|]; cbn [holds] in Hv.
    - destruct Hv as (a & -> & _ & Hi). unfold lift_sum. rewrite Hi. reflexivity.
    - rewrite Hv. reflexivity. }
  assert (E0 : cmd_incr st [VStr (lit "incr"); VStr v; VStr (show_Z k)] =
               if in_i64 (k + incr_old en v)
               then st_set_var_return st (VStr v) (VInt (k + incr_old en v))
               else fail st (lit "integer overflow")).
  { unfold cmd_incr. rewrite ca_incr. cbn [lift bind length Nat.eqb arg nth].
    unfold lift_sum at 1. cbn [v_as_int as_str]. rewrite (int_roundtrip k Hk). cbn [of_sum bind].
    rewrite Hold. reflexivity. }
  rewrite E0.
  destruct (in_i64 (k + incr_old en v)) eqn:Ei; [|reflexivity].
  unfold st_set_var_return.
  destruct (st_set_var_rel en st v (VInt (k + incr_old en v)) _ HR Hg (int_val_int _)) as (st' & E & HR' & Hs).
  rewrite E. cbn [bind ret]. exists st'. auto.
Qed.

(* ---- if ---- *)
Lemma not_then body : is_kw "then" (VStr (10%N :: body)) = false.
Proof. reflexivity. Qed.

Lemma cmd_if_noelse rec st C body :
  cmd_if rec st [VStr (lit "if"); VStr C; VStr (10%N :: body)] =
  do (st1, b) <- expr_bool rec st (VStr C);
  if b then r_eval rec st1 (VStr (10%N :: body)) else ok_empty st1.
Proof.
  rewrite (if_spec rec st _ [(VStr C, VStr (10%N :: body))] None).
  - cbn [spec_if]. reflexivity.
  - cbn [tl if_shape strip_then]. rewrite not_then. reflexivity.
Qed.

Lemma cmd_if_else rec st C b1 b2 :
  cmd_if rec st [VStr (lit "if"); VStr C; VStr (10%N :: b1); VStr (lit "else"); VStr (10%N :: b2)] =
  do (st1, b) <- expr_bool rec st (VStr C);
  if b then r_eval rec st1 (VStr (10%N :: b1)) else r_eval rec st1 (VStr (10%N :: b2)).
Proof.
  rewrite (if_spec rec st _ [(VStr C, VStr (10%N :: b1))] (Some (VStr (10%N :: b2)))).
  - cbn [spec_if]. reflexivity.
  - cbn [tl if_shape strip_then]. rewrite not_then.
    change (is_kw "elseif" (VStr (lit "else"))) with false.
    change (is_kw "else" (VStr (lit "else"))) with true. reflexivity.
Qed.

Lemma expr_bool_ok f en st e z : Rel en st -> wf_expr e = true -> xev en e = Ok z ->
  expr_bool (mkrec f) st (VStr (rexpr e)) = (st, Ok (negb (z =? 0))).
Proof.
  intros HR Hw Hx. unfold expr_bool. cbn [r_expr mkrec]. rewrite (expr_with_ok _ en st e z HR Hw Hx).
  reflexivity.
Qed.

Lemma expr_bool_err f en st e er : Rel en st -> wf_expr e = true -> xev en e = Err er ->
  exists st', expr_bool (mkrec f) st (VStr (rexpr e)) = (st', Err er) /\ Rel en st' /\ same_ctl st st'.
Proof.
  intros HR Hw Hx. unfold expr_bool. cbn [r_expr mkrec].
  destruct (expr_with_err (EX f) en st e er HR Hw Hx) as (st' & E & H1 & H2). rewrite E.
  exists st'. auto.
Qed.

(* ====================================================================================== *)
(* 7. evaluating a block text: Interp::eval_value around the commands                       *)
(* ====================================================================================== *)

(* at the top level (level 0) a break / continue that escapes becomes an error *)
Definition finish (top : bool) (o : outcome) : outcome :=
  if top then
    match o with
    | OBreak => OErr (lit "invoked ""break"" outside of a loop")
    | OContinue => OErr (lit "invoked ""continue"" outside of a loop")
    | _ => o
    end
  else o.

Lemma eval_value_block exec en' st text sc o :
  parse (u_alnum std_uni) text = POk sc [] ->
  (i_levels st < i_limit st)%N ->
  (exists st2 r, eval_script exec (set_levels st (i_levels st + 1)) sc = (st2, r) /\ res_ok o r /\
                 Rel en' st2 /\ same_ctl (set_levels st (i_levels st + 1)) st2) ->
  exists st' r', eval_value_with std_uni exec st (VStr text) = (st', r') /\
                 res_ok (finish (i_levels st =? 0)%N o) r' /\ Rel en' st' /\ same_ctl st st'.
Proof.
  intros Hp Hl (st2 & r & E & Ho & HR & (Hc & Hlv & Hlim)).
  unfold eval_value_with. cbn [i_limit i_levels set_levels as_str].
  destruct (N.ltb_spec (i_limit st) (i_levels st + 1)) as [C|_]; [lia|].
  rewrite Hp, E. cbv zeta. cbn [i_levels set_levels] in *.
  set (st3 := set_levels st2 (i_levels st2 - 1)).
  assert (HR3 : Rel en' st3) by exact HR.
  assert (Hs3 : same_ctl st st3).
  { unfold same_ctl, st3. cbn [i_cmds i_levels i_limit set_levels]. rewrite Hlv. cbn in Hc, Hlim.
    repeat split; try assumption. lia. }
  replace (i_levels st2 - 1)%N with (i_levels st) by lia.
  destruct o; cbn [res_ok] in Ho.
  - destruct Ho as (a & -> & Ha). exists st3, (Ok a). split.
    + destruct (i_levels st =? 0)%N; reflexivity.
    + split; [|auto]. destruct (i_levels st =? 0)%N; cbn [finish res_ok]; eauto.
  - subst r. destruct (i_levels st =? 0)%N eqn:E0; cbn [finish].
    + set (e0 := molt_err (lit "invoked ""break"" outside of a loop")).
      change (toplevel_boundary (Err molt_break)) with (@Err value e0).
      change (rcode_eqb (x_code e0) CError) with true. cbv iota.
      destruct (set_global_error_data_rel en' st3 e0 HR3) as (st4 & E4 & HR4 & Hs4).
      rewrite E4. cbn [bind].
      exists st4. eexists. split; [reflexivity|]. split; [|split; [exact HR4|exact (same_ctl_trans _ _ _ Hs3 Hs4)]].
      cbn [res_ok]. exists e0. split; [reflexivity|]. split; reflexivity.
    + cbn [molt_break x_code rcode_eqb]. exists st3. eexists. split; [reflexivity|]. cbn [res_ok]. auto.
  - subst r. destruct (i_levels st =? 0)%N eqn:E0; cbn [finish].
    + set (e0 := molt_err (lit "invoked ""continue"" outside of a loop")).
      change (toplevel_boundary (Err molt_continue)) with (@Err value e0).
      change (rcode_eqb (x_code e0) CError) with true. cbv iota.
      destruct (set_global_error_data_rel en' st3 e0 HR3) as (st4 & E4 & HR4 & Hs4).
      rewrite E4. cbn [bind].
      exists st4. eexists. split; [reflexivity|]. split; [|split; [exact HR4|exact (same_ctl_trans _ _ _ Hs3 Hs4)]].
      cbn [res_ok]. exists e0. split; [reflexivity|]. split; reflexivity.
    + cbn [molt_continue x_code rcode_eqb]. exists st3. eexists. split; [reflexivity|]. cbn [res_ok]. auto.
  - destruct Ho as (e & -> & Hce & Hve).
    assert (Et : (if (i_levels st =? 0)%N then toplevel_boundary (Err e) else Err e) = @Err value e).
    { destruct (i_levels st =? 0)%N; [|reflexivity]. cbn [toplevel_boundary]. rewrite Hce. cbv iota. rewrite Hce. reflexivity. }
    rewrite Et. rewrite Hce. cbn [rcode_eqb].
    destruct (set_global_error_data_rel en' st3 e HR3) as (st4 & E4 & HR4 & Hs4). rewrite E4. cbn [bind].
    exists st4, (Err e). split; [reflexivity|]. split; [|split; [exact HR4|exact (same_ctl_trans _ _ _ Hs3 Hs4)]].
    destruct (i_levels st =? 0)%N; cbn [finish res_ok]; eauto.
  - contradiction.
Qed.

(* ====================================================================================== *)
(* 8. the induction                                                                        *)
(* ====================================================================================== *)

Definition pre (st : interp) (d : N) : Prop :=
  cmds_ok st /\ (1 <= i_levels st)%N /\ (i_levels st + d <= i_limit st)%N.

Lemma pre_same st st' d : same_ctl st st' -> pre st d -> pre st' d.
Proof.
  intros Hs (H1 & H2 & H3). pose proof (cmds_ok_same st st' Hs H1) as Hc.
  destruct Hs as (_ & E1 & E2). unfold pre. rewrite E1, E2. auto.
Qed.
Lemma pre_le st d d' : (d' <= d)%N -> pre st d -> pre st d'.
Proof. intros Hd (H1 & H2 & H3). unfold pre. split; [exact H1|]. split; [exact H2|]. lia. Qed.

Lemma res_ok_abrupt o r : res_ok o r -> (forall v, o <> ONorm v) -> exists e, r = Err e.
Proof.
  destruct o; cbn [res_ok]; intros H Hn.
  - exfalso. exact (Hn v eq_refl).
  - eauto.
  - eauto.
  - destruct H as (e & -> & _). eauto.
  - contradiction.
Qed.

Lemma eval_cmds_trailing exec st cmds res :
  eval_cmds exec st (cmds ++ [[]]) res = eval_cmds exec st cmds res.
Proof.
  unfold eval_cmds. rewrite eval_cmds_with_app.
  destruct (eval_cmds_with exec (Eval.eval_word exec) st cmds res) as [st1 [v|e|p|]]; reflexivity.
Qed.

Definition StmtOK (n : nat) : Prop :=
  forall s en en' o, exec n en s = (en', o) -> o <> OFuel -> wf_stmt s = true ->
  exists F, forall f, (F <= f)%nat -> forall st res0, Rel en st -> pre st (depth_stmt s) ->
  exists st' r, eval_cmds (EX f) st [ast_stmt s] res0 = (st', r) /\ res_ok o r /\ Rel en' st' /\ same_ctl st st'.

Definition BlockOK (n : nat) : Prop :=
  forall b en last en' o, run_with (exec n) en b last = (en', o) -> o <> OFuel -> wf_block b = true ->
  exists F, forall f, (F <= f)%nat -> forall st res0, as_str res0 = last -> Rel en st -> pre st (depth_block b) ->
  exists st' r, eval_cmds (EX f) st (ast_block b) res0 = (st', r) /\ res_ok o r /\ Rel en' st' /\ same_ctl st st'.

Definition BodyOK (n : nat) : Prop :=
  forall b en en' o, run_with (exec n) en b [] = (en', o) -> o <> OFuel -> wf_block b = true ->
  exists F, forall f, (F <= f)%nat -> forall st, Rel en st -> cmds_ok st ->
    (i_levels st + 1 + depth_block b <= i_limit st)%N ->
  exists st' r, eval_value_with std_uni (EX f) st (VStr (10%N :: render_block b)) = (st', r) /\
                res_ok (finish (i_levels st =? 0)%N o) r /\ Rel en' st' /\ same_ctl st st'.

Definition WhileOK (n : nat) : Prop :=
  forall c b en en' o, exec n en (While c b) = (en', o) -> o <> OFuel -> wf_stmt (While c b) = true ->
  exists F, forall f k, (F <= f)%nat -> (F <= k)%nat -> forall st, Rel en st -> pre st (1 + depth_block b) ->
  exists st' r, while_loop (mkrec f) k st (VStr (rexpr c)) (VStr (10%N :: render_block b)) = (st', r) /\
                res_ok o r /\ Rel en' st' /\ same_ctl st st'.

Lemma stmt_block n : StmtOK n -> BlockOK n.
Proof.
  intros HS b. induction b as [|s r IH]; intros en last en' o H Ho Hw.
  - cbn [run_with] in H. injection H as <- <-. exists O. intros f _ st res0 Hl HR Hp.
    exists st, (Ok res0). split; [reflexivity|]. split; [cbn [res_ok]; eauto|]. split; [exact HR|apply same_ctl_refl].
  - cbn [run_with] in H. cbn [wf_block] in Hw. apply andb_true_iff in Hw. destruct Hw as [Hws Hwr].
    destruct (exec n en s) as [en1 o1] eqn:Es.
    assert (Hd1 : (depth_stmt s <= depth_block (BCons s r))%N) by (cbn [depth_block]; lia).
    assert (Hd2 : (depth_block r <= depth_block (BCons s r))%N) by (cbn [depth_block]; lia).
    destruct o1 as [v| | |m|].
    + destruct (HS s en en1 (ONorm v) Es ltac:(discriminate) Hws) as (F1 & HF1).
      destruct (IH en1 v en' o H Ho Hwr) as (F2 & HF2).
      exists (max F1 F2). intros f Hf st res0 Hl HR Hp.
      destruct (HF1 f ltac:(lia) st res0 HR (pre_le _ _ _ Hd1 Hp)) as (st1 & r1 & E1 & (a & -> & Ha) & HR1 & Hs1).
      destruct (HF2 f ltac:(lia) st1 a Ha HR1 (pre_same _ _ _ Hs1 (pre_le _ _ _ Hd2 Hp)))
        as (st2 & r2 & E2 & Hr2 & HR2 & Hs2).
      exists st2, r2. split; [|split; [exact Hr2|split; [exact HR2|exact (same_ctl_trans _ _ _ Hs1 Hs2)]]].
      cbn [ast_block]. change (ast_stmt s :: ast_block r) with ([ast_stmt s] ++ ast_block r).
      unfold eval_cmds in *. rewrite eval_cmds_with_app, E1. cbn [bind]. exact E2.
    + injection H as <- <-.
      destruct (HS s en en1 OBreak Es ltac:(discriminate) Hws) as (F1 & HF1).
      exists F1. intros f Hf st res0 Hl HR Hp.
      destruct (HF1 f Hf st res0 HR (pre_le _ _ _ Hd1 Hp)) as (st1 & r1 & E1 & Hr1 & HR1 & Hs1).
      exists st1, r1. split; [|auto].
      destruct (res_ok_abrupt _ _ Hr1 ltac:(discriminate)) as [e ->].
      cbn [ast_block]. change (ast_stmt s :: ast_block r) with ([ast_stmt s] ++ ast_block r).
      unfold eval_cmds in *. rewrite eval_cmds_with_app, E1. reflexivity.
    + injection H as <- <-.
      destruct (HS s en en1 OContinue Es ltac:(discriminate) Hws) as (F1 & HF1).
      exists F1. intros f Hf st res0 Hl HR Hp.
      destruct (HF1 f Hf st res0 HR (pre_le _ _ _ Hd1 Hp)) as (st1 & r1 & E1 & Hr1 & HR1 & Hs1).
      exists st1, r1. split; [|auto].
      destruct (res_ok_abrupt _ _ Hr1 ltac:(discriminate)) as [e ->].
      cbn [ast_block]. change (ast_stmt s :: ast_block r) with ([ast_stmt s] ++ ast_block r).
      unfold eval_cmds in *. rewrite eval_cmds_with_app, E1. reflexivity.
    + injection H as <- <-.
      destruct (HS s en en1 (OErr m) Es ltac:(discriminate) Hws) as (F1 & HF1).
      exists F1. intros f Hf st res0 Hl HR Hp.
      destruct (HF1 f Hf st res0 HR (pre_le _ _ _ Hd1 Hp)) as (st1 & r1 & E1 & Hr1 & HR1 & Hs1).
      exists st1, r1. split; [|auto].
      destruct (res_ok_abrupt _ _ Hr1 ltac:(discriminate)) as [e ->].
      cbn [ast_block]. change (ast_stmt s :: ast_block r) with ([ast_stmt s] ++ ast_block r).
      unfold eval_cmds in *. rewrite eval_cmds_with_app, E1. reflexivity.
    + injection H as <- <-. congruence.
Qed.

Lemma block_body n : BlockOK n -> BodyOK n.
Proof.
  intros HB b en en' o H Ho Hw. destruct (HB b en [] en' o H Ho Hw) as (F & HF).
  exists F. intros f Hf st HR Hc Hlim.
  apply (eval_value_block (EX f) en' st _ (ast_block b ++ [[]]) o (parse_body b Hw)); [lia|].
  unfold eval_script. rewrite eval_cmds_trailing.
  apply (HF f Hf (set_levels st (i_levels st + 1)) v_empty eq_refl); [exact HR|].
  split; [exact Hc|]. cbn [i_levels i_limit set_levels]. lia.
Qed.

Lemma levels_nonzero st : (1 <= i_levels st)%N -> (i_levels st =? 0)%N = false.
Proof. intros H. lia. Qed.

Lemma while_step n : BodyOK n -> WhileOK n -> WhileOK (S n).
Proof.
  intros HB IHw c b en en' o H Ho Hw. cbn [exec] in H. pose proof Hw as Hw0.
  cbn [wf_stmt] in Hw. apply andb_true_iff in Hw. destruct Hw as [Hc Hb].
  destruct (xev_total en c Hc) as [[z Ez]|[m Em]].
  2:{ rewrite Em in H. injection H as <- <-. exists 1%nat. intros f k Hf Hk st HR Hp.
      destruct k as [|k]; [lia|]. cbn [while_loop].
      destruct (expr_bool_err f en st c _ HR Hc Em) as (st' & E & HR' & Hs'). rewrite E. cbn [bind].
      exists st'. eexists. split; [reflexivity|]. split; [|auto].
      cbn [res_ok err_msg]. eexists. split; [reflexivity|]. split; reflexivity. }
  rewrite Ez in H. destruct (z =? 0) eqn:Ez0.
  { injection H as <- <-. exists 1%nat. intros f k Hf Hk st HR Hp.
    destruct k as [|k]; [lia|]. cbn [while_loop]. rewrite (expr_bool_ok f en st c z HR Hc Ez). cbn [bind].
    rewrite Ez0. cbn [negb]. exists st, (Ok v_empty). split; [reflexivity|].
    split; [cbn [res_ok]; exists v_empty; auto|]. split; [exact HR|apply same_ctl_refl]. }
  destruct (run_with (exec n) en b []) as [en1 o1] eqn:Eb.
  assert (Ho1 : o1 <> OFuel) by (intros ->; injection H as <- <-; congruence).
  destruct (HB b en en1 o1 Eb Ho1 Hb) as (F1 & HF1).
  assert (Hstep : forall f k st, (F1 <= f)%nat -> Rel en st -> pre st (1 + depth_block b) ->
            exists st1 r1, while_loop (mkrec f) (S k) st (VStr (rexpr c)) (VStr (10%N :: render_block b)) =
              (let '(st1, r) := (st1, r1) in
               match loop_body_outcome r with
               | Some true => while_loop (mkrec f) k st1 (VStr (rexpr c)) (VStr (10%N :: render_block b))
               | Some false => ok_empty st1
               | None => (st1, r)
               end) /\ res_ok o1 r1 /\ Rel en1 st1 /\ same_ctl st st1).
  { intros f k st Hf HR (Hcm & Hl1 & Hl2). cbn [while_loop].
    rewrite (expr_bool_ok f en st c z HR Hc Ez). cbn [bind]. rewrite Ez0. cbn [negb r_eval mkrec].
    destruct (HF1 f Hf st HR Hcm ltac:(lia)) as (st1 & r1 & E1 & Hr1 & HR1 & Hs1).
    rewrite (levels_nonzero st Hl1) in Hr1. cbn [finish] in Hr1.
    exists st1, r1. rewrite E1. auto. }
  destruct o1 as [v| | |m|].
  - destruct (IHw c b en1 en' o H Ho Hw0) as (F2 & HF2).
    exists (S (max F1 F2)). intros f k Hf Hk st HR Hp. destruct k as [|k]; [lia|].
    destruct (Hstep f k st ltac:(lia) HR Hp) as (st1 & r1 & E1 & (a & -> & _) & HR1 & Hs1).
    rewrite E1. cbn [loop_body_outcome].
    destruct (HF2 f k ltac:(lia) ltac:(lia) st1 HR1 (pre_same _ _ _ Hs1 Hp)) as (st2 & r2 & E2 & Hr2 & HR2 & Hs2).
    exists st2, r2. split; [exact E2|]. split; [exact Hr2|]. split; [exact HR2|exact (same_ctl_trans _ _ _ Hs1 Hs2)].
  - injection H as <- <-. exists (S F1). intros f k Hf Hk st HR Hp. destruct k as [|k]; [lia|].
    destruct (Hstep f k st ltac:(lia) HR Hp) as (st1 & r1 & E1 & Hr1 & HR1 & Hs1).
    cbn [res_ok] in Hr1. subst r1. rewrite E1. cbn [loop_body_outcome molt_break x_code].
    exists st1, (Ok v_empty). split; [reflexivity|]. split; [cbn [res_ok]; exists v_empty; auto|auto].
  - destruct (IHw c b en1 en' o H Ho Hw0) as (F2 & HF2).
    exists (S (max F1 F2)). intros f k Hf Hk st HR Hp. destruct k as [|k]; [lia|].
    destruct (Hstep f k st ltac:(lia) HR Hp) as (st1 & r1 & E1 & Hr1 & HR1 & Hs1).
    cbn [res_ok] in Hr1. subst r1. rewrite E1. cbn [loop_body_outcome molt_continue x_code].
    destruct (HF2 f k ltac:(lia) ltac:(lia) st1 HR1 (pre_same _ _ _ Hs1 Hp)) as (st2 & r2 & E2 & Hr2 & HR2 & Hs2).
    exists st2, r2. split; [exact E2|]. split; [exact Hr2|]. split; [exact HR2|exact (same_ctl_trans _ _ _ Hs1 Hs2)].
  - injection H as <- <-. exists (S F1). intros f k Hf Hk st HR Hp. destruct k as [|k]; [lia|].
    destruct (Hstep f k st ltac:(lia) HR Hp) as (st1 & r1 & E1 & Hr1 & HR1 & Hs1).
    pose proof Hr1 as Hr1'. cbn [res_ok] in Hr1. destruct Hr1 as (e & -> & Hce & Hve).
    rewrite E1. cbn [loop_body_outcome]. rewrite Hce.
    exists st1, (Err e). split; [reflexivity|]. auto.
  - congruence.
Qed.

Lemma words1 exec st a : eval_words exec st [WValue a] [] = (st, Ok [VStr a]).
Proof. reflexivity. Qed.
Lemma words3 exec st a b c :
  eval_words exec st [WValue a; WValue b; WValue c] [] = (st, Ok [VStr a; VStr b; VStr c]).
Proof. reflexivity. Qed.
Lemma words5 exec st a b c d e :
  eval_words exec st [WValue a; WValue b; WValue c; WValue d; WValue e] [] =
  (st, Ok [VStr a; VStr b; VStr c; VStr d; VStr e]).
Proof. reflexivity. Qed.

Lemma words_script exec st a b c :
  eval_words exec st [WValue a; WValue b; WScript c] [] =
  match Eval.eval_word exec st (WScript c) with
  | (st1, Ok v) => (st1, Ok [VStr a; VStr b; v])
  | (st1, Err e) => (st1, Err e)
  | (st1, Panic p) => (st1, Panic p)
  | (st1, Fuel) => (st1, Fuel)
  end.
Proof. reflexivity. Qed.

(* the command substitution [expr {e}] *)
Lemma expr_subst f en st e : Rel en st -> cmds_ok st -> wf_expr e = true ->
  match xev en e with
  | Ok z => Eval.eval_word (EX (S f)) st (WScript [[WValue (lit "expr"); WValue (rexpr e)]]) = (st, Ok (VInt z))
  | Err er => exists st' r, Eval.eval_word (EX (S f)) st (WScript [[WValue (lit "expr"); WValue (rexpr e)]]) = (st', r) /\
                res_ok (OErr (as_str (x_value er))) r /\ Rel en st' /\ same_ctl st st'
  | _ => True
  end.
Proof.
  intros HR Hcm Hw. destruct Hcm as (_ & _ & [c2 Hexpr] & _).
  cbn [Eval.eval_word].
  change (eval_cmds_with (EX (S f)) (Eval.eval_word (EX (S f))) st [[WValue (lit "expr"); WValue (rexpr e)]] v_empty)
    with (eval_cmds (EX (S f)) st [[WValue (lit "expr"); WValue (rexpr e)]] v_empty).
  assert (Hrun : EX (S f) st (CmdNative NExpr c2) [VStr (lit "expr"); VStr (rexpr e)] =
                 expr_with std_uni (EX f) st (VStr (rexpr e))).
  { rewrite EX_S. cbn [run_native]. unfold cmd_expr. rewrite ca_expr. reflexivity. }
  destruct (xev en e) as [z|er|p|] eqn:Ex; [| |exact I|exact I].
  - rewrite (expr_with_ok (EX f) en st e z HR Hw Ex) in Hrun.
    unfold eval_cmds. cbn [eval_cmds_with]. fold (eval_words (EX (S f))).
    change (eval_words_with (Eval.eval_word (EX (S f))) st [WValue (lit "expr"); WValue (rexpr e)] [])
      with (eval_words (EX (S f)) st [WValue (lit "expr"); WValue (rexpr e)] []).
    cbn [eval_words eval_words_with Eval.eval_word rev app as_str]. rewrite Hexpr, Hrun. reflexivity.
  - destruct (expr_with_err (EX f) en st e er HR Hw Ex) as (st' & E & HR' & Hs'). rewrite E in Hrun.
    destruct (xev_err_plain en e er Ex) as [m ->].
    destruct (one_cmd (EX (S f)) st [WValue (lit "expr"); WValue (rexpr e)] v_empty (VStr (lit "expr"))
                [VStr (rexpr e)] (CmdNative NExpr c2) st' (Err (molt_err m)) (OErr m) eq_refl Hexpr Hrun)
      as (r' & E' & Hr').
    { cbn [res_ok]. eexists. split; [reflexivity|]. split; reflexivity. }
    exists st', r'. auto.
Qed.

Lemma stmt_step n : BodyOK n -> WhileOK (S n) -> StmtOK (S n).
Proof.
  intros HB HW s en en' o H Ho Hw. destruct s as [v e|v k|c t|c t e|c b| |].
  - (* set *)
    cbn [exec] in H. cbn [wf_stmt] in Hw. apply andb_true_iff in Hw. destruct Hw as [Hv He].
    exists 1%nat. intros f Hf st res0 HR (Hcm & Hl1 & Hl2). destruct f as [|f]; [lia|].
    pose proof (expr_subst f en st e HR Hcm He) as Hsub.
    destruct (xev_total en e He) as [[z Ez]|[m Em]].
    + rewrite Ez in H, Hsub. injection H as <- <-.
      destruct Hcm as ([c1 Hset] & _).
      destruct (run_set en st v (VInt z) z HR Hv (int_val_int z)) as (st' & E & HR' & Hs').
      destruct (one_cmd (EX (S f)) st (ast_stmt (Set_ v e)) res0 (VStr (lit "set")) [VStr v; VInt z]
                  (CmdNative NSet c1) st' (Ok (VInt z)) (ONorm (show_Z z))) as (r' & E' & Hr').
      { cbn [ast_stmt]. rewrite words_script, Hsub. reflexivity. }
      { exact Hset. }
      { rewrite EX_S. cbn [run_native]. exact E. }
      { cbn [res_ok]. eexists. split; reflexivity. }
      exists st', r'. auto.
    + rewrite Em in H, Hsub. injection H as <- <-. cbn [err_msg].
      destruct Hsub as (st' & r & E & Hr & HR' & Hs').
      destruct (res_ok_abrupt _ _ Hr ltac:(discriminate)) as [e0 ->].
      exists st', (Err e0). split; [|auto].
      unfold eval_cmds. cbn [ast_stmt eval_cmds_with].
      change (eval_words_with (Eval.eval_word (EX (S f))) st
                [WValue (lit "set"); WValue v; WScript [[WValue (lit "expr"); WValue (rexpr e)]]] [])
        with (eval_words (EX (S f)) st
                [WValue (lit "set"); WValue v; WScript [[WValue (lit "expr"); WValue (rexpr e)]]] []).
      rewrite words_script, E. reflexivity.
  - (* incr *)
    cbn [exec] in H. cbn [wf_stmt] in Hw. apply andb_true_iff in Hw. destruct Hw as [Hv Hk].
    exists 1%nat. intros f Hf st res0 HR (Hcm & Hl1 & Hl2). destruct f as [|f]; [lia|].
    destruct Hcm as (_ & [c1 Hincr] & _).
    pose proof (run_incr en st v k HR Hv Hk) as Hrun. fold (incr_old en v) in H.
    destruct (in_i64 (k + incr_old en v)).
    + injection H as <- <-. destruct Hrun as (st' & E & HR' & Hs').
      destruct (one_cmd (EX (S f)) st (ast_stmt (Incr v k)) res0 (VStr (lit "incr")) [VStr v; VStr (show_Z k)]
                  (CmdNative NIncr c1) st' (Ok (VInt (k + incr_old en v))) (ONorm (show_Z (k + incr_old en v)))
                  (words3 _ _ _ _ _) Hincr) as (r' & E' & Hr').
      { rewrite EX_S. cbn [run_native]. exact E. }
      { cbn [res_ok]. eexists. split; reflexivity. }
      exists st', r'. auto.
    + injection H as <- <-.
      destruct (one_cmd (EX (S f)) st (ast_stmt (Incr v k)) res0 (VStr (lit "incr")) [VStr v; VStr (show_Z k)]
                  (CmdNative NIncr c1) st (err (lit "integer overflow")) (OErr (lit "integer overflow"))
                  (words3 _ _ _ _ _) Hincr) as (r' & E' & Hr').
      { rewrite EX_S. cbn [run_native]. exact Hrun. }
      { cbn [res_ok]. eexists. split; [reflexivity|]. split; reflexivity. }
      exists st, r'. split; [exact E'|]. split; [exact Hr'|]. split; [exact HR|apply same_ctl_refl].
  - (* if without else *)
    cbn [exec] in H. cbn [wf_stmt] in Hw. apply andb_true_iff in Hw. destruct Hw as [Hc Ht].
    destruct (xev_total en c Hc) as [[z Ez]|[m Em]].
    2:{ rewrite Em in H. injection H as <- <-. exists 1%nat.
        intros f Hf st res0 HR (Hcm & Hl1 & Hl2). destruct f as [|f]; [lia|].
        destruct Hcm as (_ & _ & _ & [c1 Hif] & _).
        destruct (expr_bool_err f en st c _ HR Hc Em) as (st' & E & HR' & Hs').
        destruct (one_cmd (EX (S f)) st (ast_stmt (If c t)) res0 (VStr (lit "if"))
                    [VStr (rexpr c); VStr (10%N :: render_block t)]
                    (CmdNative NIf c1) st' (Err (molt_err m)) (OErr m) (words3 _ _ _ _ _) Hif) as (r' & E' & Hr').
        { rewrite EX_S. cbn [run_native]. rewrite cmd_if_noelse, E. reflexivity. }
        { cbn [res_ok]. eexists. split; [reflexivity|]. split; reflexivity. }
        exists st', r'. auto. }
    rewrite Ez in H. destruct (z =? 0) eqn:Ez0.
    + injection H as <- <-. exists 1%nat.
      intros f Hf st res0 HR (Hcm & Hl1 & Hl2). destruct f as [|f]; [lia|].
      destruct Hcm as (_ & _ & _ & [c1 Hif] & _).
      destruct (one_cmd (EX (S f)) st (ast_stmt (If c t)) res0 (VStr (lit "if"))
                  [VStr (rexpr c); VStr (10%N :: render_block t)]
                  (CmdNative NIf c1) st (Ok v_empty) (ONorm []) (words3 _ _ _ _ _) Hif) as (r' & E' & Hr').
      { rewrite EX_S. cbn [run_native]. rewrite cmd_if_noelse, (expr_bool_ok f en st c z HR Hc Ez).
        cbn [bind]. rewrite Ez0. reflexivity. }
      { cbn [res_ok]. exists v_empty. auto. }
      exists st, r'. split; [exact E'|]. split; [exact Hr'|]. split; [exact HR|apply same_ctl_refl].
    + destruct (HB t en en' o H Ho Ht) as (F1 & HF1). exists (S F1).
      intros f Hf st res0 HR (Hcm & Hl1 & Hl2). destruct f as [|f]; [lia|].
      cbn [depth_stmt] in Hl2.
      destruct (HF1 f ltac:(lia) st HR Hcm ltac:(lia)) as (st1 & r1 & E1 & Hr1 & HR1 & Hs1).
      rewrite (levels_nonzero st Hl1) in Hr1. cbn [finish] in Hr1.
      destruct Hcm as (_ & _ & _ & [c1 Hif] & _).
      destruct (one_cmd (EX (S f)) st (ast_stmt (If c t)) res0 (VStr (lit "if"))
                  [VStr (rexpr c); VStr (10%N :: render_block t)]
                  (CmdNative NIf c1) st1 r1 o (words3 _ _ _ _ _) Hif) as (r' & E' & Hr').
      { rewrite EX_S. cbn [run_native]. rewrite cmd_if_noelse, (expr_bool_ok f en st c z HR Hc Ez).
        cbn [bind]. rewrite Ez0. cbn [negb r_eval mkrec]. exact E1. }
      { exact Hr1. }
      exists st1, r'. auto.
  - (* if / else *)
    cbn [exec] in H. cbn [wf_stmt] in Hw. apply andb_true_iff in Hw. destruct Hw as [Hw He].
    apply andb_true_iff in Hw. destruct Hw as [Hc Ht].
    destruct (xev_total en c Hc) as [[z Ez]|[m Em]].
    2:{ rewrite Em in H. injection H as <- <-. exists 1%nat.
        intros f Hf st res0 HR (Hcm & Hl1 & Hl2). destruct f as [|f]; [lia|].
        destruct Hcm as (_ & _ & _ & [c1 Hif] & _).
        destruct (expr_bool_err f en st c _ HR Hc Em) as (st' & E & HR' & Hs').
        destruct (one_cmd (EX (S f)) st (ast_stmt (IfElse c t e)) res0 (VStr (lit "if"))
                    [VStr (rexpr c); VStr (10%N :: render_block t); VStr (lit "else"); VStr (10%N :: render_block e)]
                    (CmdNative NIf c1) st' (Err (molt_err m)) (OErr m) (words5 _ _ _ _ _ _ _) Hif) as (r' & E' & Hr').
        { rewrite EX_S. cbn [run_native]. rewrite cmd_if_else, E. reflexivity. }
        { cbn [res_ok]. eexists. split; [reflexivity|]. split; reflexivity. }
        exists st', r'. auto. }
    rewrite Ez in H. cbn [depth_stmt].
    set (br := if z =? 0 then e else t).
    assert (Hbr : run_with (exec n) en br [] = (en', o)) by (unfold br; destruct (z =? 0); exact H).
    assert (Hwbr : wf_block br = true) by (unfold br; destruct (z =? 0); assumption).
    assert (Hdbr : (depth_block br <= N.max (depth_block t) (depth_block e))%N)
      by (unfold br; destruct (z =? 0); lia).
    destruct (HB br en en' o Hbr Ho Hwbr) as (F1 & HF1). exists (S F1).
    intros f Hf st res0 HR (Hcm & Hl1 & Hl2). destruct f as [|f]; [lia|].
    destruct (HF1 f ltac:(lia) st HR Hcm ltac:(lia)) as (st1 & r1 & E1 & Hr1 & HR1 & Hs1).
    rewrite (levels_nonzero st Hl1) in Hr1. cbn [finish] in Hr1.
    destruct Hcm as (_ & _ & _ & [c1 Hif] & _).
    destruct (one_cmd (EX (S f)) st (ast_stmt (IfElse c t e)) res0 (VStr (lit "if"))
                [VStr (rexpr c); VStr (10%N :: render_block t); VStr (lit "else"); VStr (10%N :: render_block e)]
                (CmdNative NIf c1) st1 r1 o (words5 _ _ _ _ _ _ _) Hif) as (r' & E' & Hr').
    { rewrite EX_S. cbn [run_native]. rewrite cmd_if_else, (expr_bool_ok f en st c z HR Hc Ez).
      cbn [bind r_eval mkrec]. unfold br in E1. destruct (z =? 0); exact E1. }
    { exact Hr1. }
    exists st1, r'. auto.
  - (* while *)
    destruct (HW c b en en' o H Ho Hw) as (F & HF). exists (S F).
    intros f Hf st res0 HR Hp. destruct f as [|f]; [lia|].
    destruct (HF f (S f) ltac:(lia) ltac:(lia) st HR Hp) as (st1 & r1 & E1 & Hr1 & HR1 & Hs1).
    destruct Hp as (Hcm & _). destruct Hcm as (_ & _ & _ & _ & [c1 Hwh] & _).
    destruct (one_cmd (EX (S f)) st (ast_stmt (While c b)) res0 (VStr (lit "while"))
                [VStr (rexpr c); VStr (10%N :: render_block b)]
                (CmdNative NWhile c1) st1 r1 o (words3 _ _ _ _ _) Hwh) as (r' & E' & Hr').
    { rewrite EX_S. cbn [run_native]. unfold cmd_while. rewrite ca_while. exact E1. }
    { exact Hr1. }
    exists st1, r'. auto.
  - (* break *)
    cbn [exec] in H. injection H as <- <-. exists 1%nat.
    intros f Hf st res0 HR (Hcm & _). destruct f as [|f]; [lia|].
    destruct Hcm as (_ & _ & _ & _ & _ & [c1 Hb] & _).
    destruct (one_cmd (EX (S f)) st (ast_stmt Break) res0 (VStr (lit "break")) []
                (CmdNative NBreak c1) st (Err molt_break) OBreak (words1 _ _ _) Hb) as (r' & E' & Hr').
    { rewrite EX_S. cbn [run_native]. unfold cmd_break. rewrite ca_break. reflexivity. }
    { reflexivity. }
    exists st, r'. split; [exact E'|]. split; [exact Hr'|]. split; [exact HR|apply same_ctl_refl].
  - (* continue *)
    cbn [exec] in H. injection H as <- <-. exists 1%nat.
    intros f Hf st res0 HR (Hcm & _). destruct f as [|f]; [lia|].
    destruct Hcm as (_ & _ & _ & _ & _ & _ & [c1 Hb]).
    destruct (one_cmd (EX (S f)) st (ast_stmt Continue) res0 (VStr (lit "continue")) []
                (CmdNative NContinue c1) st (Err molt_continue) OContinue (words1 _ _ _) Hb) as (r' & E' & Hr').
    { rewrite EX_S. cbn [run_native]. unfold cmd_continue. rewrite ca_continue. reflexivity. }
    { reflexivity. }
    exists st, r'. split; [exact E'|]. split; [exact Hr'|]. split; [exact HR|apply same_ctl_refl].
Qed.

Theorem all_ok n : StmtOK n /\ WhileOK n.
Proof.
  induction n as [|n [IHs IHw]].
  - split.
    + intros s en en' o H Ho _. cbn [exec] in H. injection H as <- <-. congruence.
    + intros c b en en' o H Ho _. cbn [exec] in H. injection H as <- <-. congruence.
  - pose proof (block_body n (stmt_block n IHs)) as HB.
    pose proof (while_step n HB IHw) as HW. split; [exact (stmt_step n HB HW)|exact HW].
Qed.

(* ====================================================================================== *)
(* 9. the whole-program theorem                                                            *)
(* ====================================================================================== *)

(* For every well-formed program p: if the reference semantics finishes (with reference fuel n)
   in environment en' with outcome o, then for every sufficiently large interpreter fuel the
   model, started in any state whose current scope holds exactly en (on good names), in which
   the seven commands are molt's own and which has depth_block p + 1 evaluation levels left,
   evaluates the text render_block p to a state holding exactly en' and to the result that
   corresponds to o (at level 0 an escaping break / continue is molt's error). *)
Theorem run_agrees : forall n p en en' o st,
  run n en p = (en', o) -> o <> OFuel -> wf_block p = true ->
  Rel en st -> cmds_ok st -> (i_levels st + 1 + depth_block p <= i_limit st)%N ->
  exists F, forall fuel, (F <= fuel)%nat ->
  exists st' r, eval std_uni fuel st (render_block p) = (st', r) /\
                res_ok (finish (i_levels st =? 0)%N o) r /\ Rel en' st' /\ same_ctl st st'.
Proof.
  intros n p en en' o st H Ho Hw HR Hc Hlim. unfold run in H.
  destruct (stmt_block n (proj1 (all_ok n)) p en [] en' o H Ho Hw) as (F & HF).
  exists F. intros f Hf. unfold eval, eval_value. fold (EX f).
  apply (eval_value_block (EX f) en' st _ _ o (parse_block p Hw)); [lia|].
  unfold eval_script.
  assert (E : eval_cmds (EX f) (set_levels st (i_levels st + 1))
                (ast_block p ++ match p with BNil => [] | BCons _ _ => [[]] end) v_empty =
              eval_cmds (EX f) (set_levels st (i_levels st + 1)) (ast_block p) v_empty).
  { destruct p; [rewrite app_nil_r; reflexivity|apply eval_cmds_trailing]. }
  rewrite E.
  apply (HF f Hf (set_levels st (i_levels st + 1)) v_empty eq_refl); [exact HR|].
  split; [exact Hc|]. cbn [i_levels i_limit set_levels]. lia.
Qed.
Print Assumptions run_agrees.

(* the same with the outcome spelled out at the top level of a fresh interpreter *)
Corollary run_agrees_top : forall n p en en' o st,
  run n en p = (en', o) -> o <> OFuel -> wf_block p = true ->
  Rel en st -> cmds_ok st -> i_levels st = 0%N -> (1 + depth_block p <= i_limit st)%N ->
  exists F, forall fuel, (F <= fuel)%nat ->
  exists st' r, eval std_uni fuel st (render_block p) = (st', r) /\
                res_ok (finish true o) r /\ Rel en' st' /\ same_ctl st st'.
Proof.
  intros n p en en' o st H Ho Hw HR Hc Hl Hlim.
  destruct (run_agrees n p en en' o st H Ho Hw HR Hc ltac:(lia)) as (F & HF).
  exists F. intros f Hf. destruct (HF f Hf) as (st' & r & E & Hr & HR' & Hs).
  rewrite Hl in Hr. exists st', r. auto.
Qed.
Print Assumptions run_agrees_top.

(* ====================================================================================== *)
(* 10. the hypotheses are satisfiable: a fresh interpreter; a counting loop                  *)
(* ====================================================================================== *)

Lemma cmds_ok_new : cmds_ok interp_new.
Proof. repeat split; exists 0%N; vm_compute; reflexivity. Qed.

Lemma Rel_new : Rel [] interp_new.
Proof.
  unfold Rel, RelS. cbn [i_scopes interp_new]. split; [discriminate|]. split.
  - intros v Hv. cbn [assoc_get holds]. unfold ent, sc_current, sc_get_scope. cbn [length pred nth assoc_get].
    destruct (good_name_facts v Hv) as (_ & _ & H1 & _).
    destruct (str_eqb (lit "errorInfo") v) eqn:E; [|reflexivity].
    apply str_eqb_eq in E. congruence.
  - intros n [-> | ->]; vm_compute; exact I.
Qed.

(* x counts 1..; 3 is skipped by `continue`, the loop is left by `break` when x > 6:
   s = 1 + 2 + 4 + 5 + 6 = 18, x = 7 *)
Definition vx : str := lit "x".
Definition vs : str := lit "s".
Definition ex_prog : block :=
  block_of_list
    [Set_ vx (Lit 0); Set_ vs (Lit 0);
     While (Bin OLt (Var vx) (Lit 10))
       (block_of_list
          [Incr vx 1;
           If (Bin OEq (Var vx) (Lit 3)) (block_of_list [Continue]);
           IfElse (Bin OGt (Var vx) (Lit 6)) (block_of_list [Break]) (block_of_list [Set_ vs (Bin OAdd (Var vs) (Var vx))])]);
     Set_ vx (Bin OSub (Var vx) (Lit (-1)))].

Example ex_text : render_block ex_prog =
  lit "set x [expr {0}]" ++ nl1 ++ lit "set s [expr {0}]" ++ nl1 ++
  lit "while {($x < 10)} {" ++ nl1 ++ lit "incr x 1" ++ nl1 ++
  lit "if {($x == 3)} {" ++ nl1 ++ lit "continue" ++ nl1 ++ lit "}" ++ nl1 ++
  lit "if {($x > 6)} {" ++ nl1 ++ lit "break" ++ nl1 ++ lit "} else {" ++ nl1 ++
  lit "set s [expr {($s + $x)}]" ++ nl1 ++ lit "}" ++ nl1 ++ lit "}" ++ nl1 ++
  lit "set x [expr {($x - -1)}]" ++ nl1.
Proof. vm_compute. reflexivity. Qed.

Example ex_wf : wf_block ex_prog = true.
Proof. vm_compute. reflexivity. Qed.

Example ex_ref : run 20 [] ex_prog = ([(vx, 8); (vs, 18)], ONorm (lit "8")).
Proof. vm_compute. reflexivity. Qed.

(* the model on the text: same result, same variables *)
Example ex_model :
  let '(st', r) := eval std_uni 30 interp_new (render_block ex_prog) in
  (match r with Ok a => Some (as_str a) | _ => None end,
   st_scalar st' vx, st_scalar st' vs) = (Some (lit "8"), Ok (VInt 8), Ok (VInt 18)).
Proof. vm_compute. reflexivity. Qed.

(* the theorem applies to it *)
Example ex_theorem :
  exists F, forall fuel, (F <= fuel)%nat ->
  exists st' r, eval std_uni fuel interp_new (render_block ex_prog) = (st', r) /\
                res_ok (ONorm (lit "8")) r /\ Rel [(vx, 8); (vs, 18)] st' /\ same_ctl interp_new st'.
Proof.
  exact (run_agrees_top 20 ex_prog [] _ _ interp_new ex_ref ltac:(discriminate) ex_wf Rel_new cmds_ok_new
           eq_refl ltac:(vm_compute; discriminate)).
Qed.

(* an error of the model: reading an unset variable; integer overflow in incr; a stray break *)
Example ex_err_ref :
  run 5 [] (block_of_list [Set_ vx (Var vs)]) = ([], OErr (no_such_variable vs)) /\
  run 5 [(vx, i64_max)] (block_of_list [Incr vx 1]) = ([(vx, i64_max)], OErr (lit "integer overflow")) /\
  run 5 [] (block_of_list [Break]) = ([], OBreak).
Proof. vm_compute. repeat split. Qed.
