(* Proofs/UnicodeFacts.v — facts about the string-level case mapping of Model/Unicode.v.
   str::to_lowercase is character by character except for U+03A3 (capital sigma), whose image
   depends on its context; these lemmas pin down exactly how far the context rule reaches. *)
From Molt Require Import Model.Base Model.Commands Model.Unicode.
From Coq Require Import Lia ZifyBool ZifyN.
Local Open Scope N_scope.
Arguments N.eqb : simpl never.
Arguments N.ltb : simpl never.
Arguments N.leb : simpl never.

(* without a capital sigma the mapping is the per-character one, whatever came before *)
Lemma lower_go_no_sigma : forall s before,
  ~ In 931 s -> lower_go before s = flat_map lower_char s.
Proof.
  induction s as [|c r IH]; intros before H; cbn [lower_go flat_map]; [reflexivity|].
  destruct (c =? 931) eqn:E.
  - apply N.eqb_eq in E. exfalso. apply H. left. exact E.
  - rewrite IH; [reflexivity|]. intro H1. apply H. right. exact H1.
Qed.

Theorem to_lowercase_no_sigma : forall s,
  ~ In 931 s -> to_lowercase s = flat_map lower_char s.
Proof. intros s H. unfold to_lowercase. apply lower_go_no_sigma. exact H. Qed.
Print Assumptions to_lowercase_no_sigma.

(* the mapping is a concatenation of per-position images; only a sigma's image looks around *)
Lemma lower_go_app : forall s1 s2 before,
  lower_go before (s1 ++ s2)
  = (fix go (b : list char) (s : str) : str :=
       match s with
       | [] => lower_go b s2
       | c :: r => (if c =? 931 then [if ci_then_cased b && negb (ci_then_cased (r ++ s2)) then 962 else 963]
                    else lower_char c) ++ go (c :: b) r
       end) before s1.
Proof.
  induction s1 as [|c r IH]; intros s2 before; [reflexivity|].
  cbn [app lower_go]. rewrite IH. reflexivity.
Qed.

(* a sigma is lowered to one of the two small sigmas, never to anything else, and every other
   character to its own image: the result has one block per input character *)
Fixpoint blocks_ok (s out : str) : Prop :=
  match s with
  | [] => out = []
  | c :: r => exists blk rest, out = blk ++ rest /\ blocks_ok r rest
                               /\ (if c =? 931 then blk = [962] \/ blk = [963] else blk = lower_char c)
  end.

Lemma lower_go_blocks : forall s before, blocks_ok s (lower_go before s).
Proof.
  induction s as [|c r IH]; intros before; cbn [lower_go blocks_ok]; [reflexivity|].
  eexists. eexists. split; [reflexivity|]. split; [apply IH|].
  destruct (c =? 931); [|reflexivity].
  destruct (ci_then_cased before && negb (ci_then_cased r)); [left|right]; reflexivity.
Qed.

Theorem to_lowercase_blocks : forall s, blocks_ok s (to_lowercase s).
Proof. intro s. apply lower_go_blocks. Qed.
Print Assumptions to_lowercase_blocks.

(* the final-sigma decision in closed form: position i of s (a sigma) becomes U+03C2 iff the
   nearest non-case-ignorable character before it is cased and the nearest one after it is not *)
Theorem lower_go_sigma_here : forall before r,
  lower_go before (931 :: r)
  = (if ci_then_cased before && negb (ci_then_cased r) then 962 else 963) :: lower_go (931 :: before) r.
Proof. intros. reflexivity. Qed.
Print Assumptions lower_go_sigma_here.

(* with std's tables as regenerated in this run: a word-final sigma, one inside a word, one
   alone, and one followed by an apostrophe (case-ignorable) and a letter *)
Example sigma_final : to_lowercase [913; 931] = [945; 962].
Proof. vm_compute. reflexivity. Qed.
Example sigma_inner : to_lowercase [913; 931; 913] = [945; 963; 945].
Proof. vm_compute. reflexivity. Qed.
Example sigma_alone : to_lowercase [931] = [963].
Proof. vm_compute. reflexivity. Qed.
Example sigma_apostrophe : to_lowercase [97; 931; 39; 97] = [97; 963; 39; 97].
Proof. vm_compute. reflexivity. Qed.
Example sigma_apostrophe_final : to_lowercase [97; 39; 931; 39] = [97; 39; 962; 39].
Proof. vm_compute. reflexivity. Qed.
