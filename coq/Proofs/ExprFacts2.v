(* ExprFacts2.v — C03: the completeness theorem of ExprFacts.v (section C3) for a larger fragment.

   ExprFacts.v proves, for trees of the twenty ordinary binary operators over non-negative
   integer literals, that the text of the tree evaluates under [expr_eval] to the value the
   reference evaluator [Spec.SpecExpr.eval_ast] gives to the tree.  This file proves the same
   for trees ([tree2]) that additionally contain
     1. the unary operators  - + ! ~                         (constructor [U])
     2. && and || with short circuit                          ([A])
     3. the right-associative  ?:                             ([Q])
     4. redundant parentheses anywhere ([P]) and arbitrary runs of spaces and tabs between
        any two tokens (every constructor carries its own spacing), also before and after
     5. the math functions abs double int round ([Fn]) and floating-point literals of the form
        digits . digits [ e|E [+|-] digits ]                  ([F])

   Sections: 1 the fragment ([tree2], [render2], [to_term2], [ok], the reference value [ev2] =
   [eval_ast] of the term); 2 values are numbers, errors are plain errors; the model's value
   [evm] (it differs from [ev2] only in the MESSAGE of  ~ applied to a floating-point value);
   3 lexer lemmas; 4 the parsing invariant [parses2], one lemma per constructor, valid in
   evaluation mode and in no-eval mode (skipped operands); 5 the theorems about [expr_eval];
   6 automatic parenthesisation [norm2]; 7 integer-only trees, the stages, examples.

   Main statements: [expr_eval_tree2_std] / [expr_eval_tree2_final] (shape of
   [expr_eval_tree_std]), [expr_eval_tree2_ws_std] (leading / trailing white space),
   [expr_eval_tree2_c_std] (arbitrary trees, parentheses inserted), [expr_eval_tree2_int]
   (no floating point: no extra side condition), [expr_eval_tree2_sim_std] (no side condition
   beyond [ok]: same value, or an error on both sides), [expr_eval_render2_ws] (the model's
   exact result [evm], always).  In every case the interpreter state is returned unchanged. *)
From Molt Require Import Model.Base Model.Tokenizer Model.ListSyn Model.Float Model.Value
  Model.State Model.Script Model.Parser Model.Eval Model.Expr Spec.SpecExpr.
From Molt Require Gen.SrcFacts.
From Molt Require Import Proofs.BaseFacts Proofs.ValueFacts Proofs.NoEvalFacts Proofs.ExprFacts.
From Molt Require Model.Commands Model.Unicode.
From Coq Require Import Lia ZifyBool ZifyN.

Arguments N.eqb : simpl never.
Arguments N.leb : simpl never.
Arguments N.ltb : simpl never.
Arguments Z.eqb : simpl never.
Arguments Z.leb : simpl never.
Arguments Z.ltb : simpl never.

Local Open Scope Z_scope.

(* ====================================================================================== *)
(* 1. the fragment                                                                         *)
(* ====================================================================================== *)

Inductive uop := UNeg | UPos | UNot | UBnot.
Inductive lop := LAnd | LOr.
Inductive fnm := FAbs | FDouble | FInt | FRound.

(* the token the lexer produces for a unary operator, and the token expr_get_value turns it into *)
Definition ulex (u : uop) : Z :=
  match u with UNeg => T_MINUS | UPos => T_PLUS | UNot => T_NOT | UBnot => T_BIT_NOT end.
Definition utok (u : uop) : Z :=
  match u with UNeg => T_UNARY_MINUS | UPos => T_UNARY_PLUS | UNot => T_NOT | UBnot => T_BIT_NOT end.
Definition ustr (u : uop) : str := op_string (utok u).

Definition ltok (o : lop) : Z := match o with LAnd => T_AND | LOr => T_OR end.
Definition lstr (o : lop) : str := op_string (ltok o).
Definition lprec (o : lop) : Z := prec (ltok o).

Definition fstr (f : fnm) : str :=
  match f with FAbs => lit "abs" | FDouble => lit "double" | FInt => lit "int" | FRound => lit "round" end.

(* floating-point literals: integer part, fraction, optional exponent *)
Local Open Scope N_scope.
Definition ftext (ip fp es ed : str) : str := ip ++ 46 :: fp ++ es ++ ed.
Definition nonempty (s : str) : bool := match s with [] => false | _ => true end.
Definition digits (s : str) : bool := match s with [] => false | _ => forallb is_digit10 s end.
Definition exp_shape (es ed : str) : bool :=
  match es with
  | [] => match ed with [] => true | _ => false end
  | [c] => ((c =? 101) || (c =? 69)) && digits ed
  | [c; g] => ((c =? 101) || (c =? 69)) && ((g =? 43) || (g =? 45)) && digits ed
  | _ => false
  end.
Local Open Scope Z_scope.

(* Trees.  Every constructor carries the white space that separates its own tokens:
     P s1 s2 t          ( s1 t s2 )
     U u s t            u s t
     B o s1 s2 l r      l s1 o s2 r
     A o s1 s2 l r      l s1 && s2 r        (or ||)
     Q s1 s2 s3 s4 c a b    c s1 ? s2 a s3 : s4 b
     Fn f s1 s2 s3 t    f s1 ( s2 t s3 )
     F ip fp es ed      ip . fp es ed     (digits, digits, e / E and a sign, digits)           *)
Inductive tree2 :=
| L (z : Z)
| P (s1 s2 : str) (t : tree2)
| U (u : uop) (s : str) (t : tree2)
| B (o : bop) (s1 s2 : str) (l r : tree2)
| A (o : lop) (s1 s2 : str) (l r : tree2)
| Q (s1 s2 s3 s4 : str) (c a b : tree2)
| Fn (f : fnm) (s1 s2 s3 : str) (t : tree2)
| F (ip fp es ed : str).

Local Open Scope N_scope.
Fixpoint render2 (t : tree2) : str :=
  match t with
  | L z => show_Z z
  | P s1 s2 t => 40 :: s1 ++ render2 t ++ s2 ++ [41]
  | U u s t => ustr u ++ s ++ render2 t
  | B o s1 s2 l r => render2 l ++ s1 ++ opstr o ++ s2 ++ render2 r
  | A o s1 s2 l r => render2 l ++ s1 ++ lstr o ++ s2 ++ render2 r
  | Q s1 s2 s3 s4 c a b =>
      render2 c ++ s1 ++ 63 :: s2 ++ render2 a ++ s3 ++ 58 :: s4 ++ render2 b
  | Fn f s1 s2 s3 t => fstr f ++ s1 ++ 40 :: s2 ++ render2 t ++ s3 ++ [41]
  | F ip fp es ed => ftext ip fp es ed
  end.

(* runs of spaces and tabs *)
Definition ws (s : str) : bool := forallb (fun c => (c =? 32) || (c =? 9)) s.
Local Open Scope Z_scope.

(* the harness term of a tree: parentheses and spacing disappear *)
Fixpoint to_term2 (t : tree2) : term :=
  match t with
  | L z => TList [TStr (lit "int"); TInt z]
  | P _ _ t => to_term2 t
  | U u _ t => TList [TStr (lit "un"); TStr (ustr u); to_term2 t]
  | B o _ _ l r => TList [TStr (lit "bin"); TStr (opstr o); to_term2 l; to_term2 r]
  | A o _ _ l r => TList [TStr (lit "bin"); TStr (lstr o); to_term2 l; to_term2 r]
  | Q _ _ _ _ c a b => TList [TStr (lit "cond"); to_term2 c; to_term2 a; to_term2 b]
  | Fn f _ _ _ t => TList [TStr (lit "fn"); TStr (fstr f); to_term2 t]
  | F ip fp es ed => TList [TStr (lit "flt"); TStr (ftext ip fp es ed)]
  end.

(* precedence of the loosest operator on the left spine ([topl]: the caller's level must be
   below it) and the loosest level a following operator may have without being absorbed
   ([topr]); 16 is above every operator.  They differ only for the right-associative ?: *)
Definition topl (t : tree2) : Z :=
  match t with
  | B o _ _ _ _ => oprec o
  | A o _ _ _ _ => lprec o
  | Q _ _ _ _ _ _ _ => 2
  | _ => 16
  end.
Definition topr (t : tree2) : Z :=
  match t with
  | B o _ _ _ _ => oprec o
  | A o _ _ _ _ => lprec o
  | Q _ _ _ _ _ _ _ => 1
  | _ => 16
  end.

(* the side condition: literals are non-negative i64 or floating-point texts that
   [get_float] reads; spacing is spaces and tabs, non-empty
   around the operators spelled with letters; an operand of a unary operator is a literal, a
   parenthesis, a function call or another unary operator; a left operand binds at least as
   tightly as its operator, a right operand strictly tighter; the condition of ?: is not itself
   an unparenthesised ?: *)
Fixpoint ok (t : tree2) : bool :=
  match t with
  | L z => (0 <=? z) && (z <=? i64_max)
  | P s1 s2 t => ws s1 && ws s2 && ok t
  | U u s t => ws s && ok t && (15 <? topl t)
  | B o s1 s2 l r =>
      ws s1 && ws s2 && (if alpha_op o then nonempty s1 && nonempty s2 else true)
      && ok l && ok r && (oprec o <=? topl l) && (oprec o <=? topr l) && (oprec o <? topl r)
  | A o s1 s2 l r =>
      ws s1 && ws s2 && ok l && ok r && (lprec o <=? topl l) && (lprec o <=? topr l)
      && (lprec o <? topl r)
  | Q s1 s2 s3 s4 c a b =>
      ws s1 && ws s2 && ws s3 && ws s4 && ok c && ok a && ok b && (2 <=? topr c)
  | Fn f s1 s2 s3 t => ws s1 && ws s2 && ws s3 && ok t
  | F ip fp es ed =>
      digits ip && digits fp && exp_shape es ed
      && match get_float (ftext ip fp es ed) with Some _ => true | None => false end
  end.

(* the value of a tree, written like the reference evaluator but over trees *)
Definition is_and (o : lop) : bool := match o with LAnd => true | LOr => false end.

Fixpoint ev2 (t : tree2) : res datum :=
  match t with
  | L z => Ok (DInt z)
  | P _ _ t => ev2 t
  | U u _ t =>
      match ev2 t with
      | Ok v => spec_unary (ustr u) v
      | other => other
      end
  | B o _ _ l r =>
      match ev2 l with
      | Ok a => match ev2 r with
                | Ok b => apply_binop (tok_of o) a b
                | other => other
                end
      | other => other
      end
  | A o _ _ l r =>
      match ev2 l with
      | Ok va =>
          match truth va with
          | Ok ta =>
              if is_and o && negb ta then Ok (DInt 0)
              else if negb (is_and o) && ta then Ok (DInt 1)
              else
                match ev2 r with
                | Ok vb => match truth vb with
                           | Ok tb => Ok (DInt (if tb then 1 else 0))
                           | Err e => Err e | Panic p => Panic p | Fuel => Fuel
                           end
                | other => other
                end
          | Err e => Err e | Panic p => Panic p | Fuel => Fuel
          end
      | other => other
      end
  | Q _ _ _ _ c a b =>
      match ev2 c with
      | Ok vc =>
          match truth vc with
          | Ok tc => if tc then ev2 a else ev2 b
          | Err e => Err e | Panic p => Panic p | Fuel => Fuel
          end
      | other => other
      end
  | Fn f _ _ _ t =>
      match ev2 t with
      | Ok v =>
          match v with
          | DStr _ => err (lit "argument to math function didn't have numeric value")
          | _ => call_func (fstr f) v
          end
      | other => other
      end
  | F ip fp es ed =>
      match get_float (ftext ip fp es ed) with
      | Some f => Ok (DFlt f)
      | None => err (lit "bad float literal")
      end
  end.

Lemma to_term2_list t : exists ls, to_term2 t = TList ls.
Proof. induction t; cbn [to_term2]; eauto. Qed.

Lemma lstr_facts o :
  str_eqb (lstr o) (lit "&&") = is_and o /\ str_eqb (lstr o) (lit "||") = negb (is_and o).
Proof. destruct o; vm_compute; split; reflexivity. Qed.

Theorem eval_ast_to_term2 : forall t, eval_ast (to_term2 t) = ev2 t.
Proof.
  induction t as [z|s1 s2 t IH|u s t IH|o s1 s2 l IHl r IHr|o s1 s2 l IHl r IHr
                 |s1 s2 s3 s4 c IHc a IHa b IHb|f s1 s2 s3 t IH|ip fp es ed]; cbn [to_term2 ev2].
  - reflexivity.
  - exact IH.
  - destruct (to_term2_list t) as [ls E]. rewrite <- IH, E. cbn [eval_ast].
    change (str_eqb (lit "un") (lit "un")) with true. cbv iota. reflexivity.
  - destruct (tok_of_binop_opstr o) as [Ht Hs].
    destruct (to_term2_list l) as [ll El]. destruct (to_term2_list r) as [lr Er].
    rewrite <- IHl, <- IHr, <- Ht. rewrite El, Er. cbn [eval_ast]. rewrite Hs. reflexivity.
  - destruct (lstr_facts o) as [Ha Ho].
    destruct (to_term2_list l) as [ll El]. destruct (to_term2_list r) as [lr Er].
    rewrite <- IHl, <- IHr. rewrite El, Er. cbn [eval_ast]. rewrite Ha, Ho.
    replace (is_and o || negb (is_and o)) with true by (destruct (is_and o); reflexivity).
    reflexivity.
  - destruct (to_term2_list c) as [lc Ec]. destruct (to_term2_list a) as [la Ea].
    destruct (to_term2_list b) as [lb Eb].
    rewrite <- IHc, <- IHa, <- IHb. rewrite Ec, Ea, Eb. cbn [eval_ast]. reflexivity.
  - destruct (to_term2_list t) as [ls E]. rewrite <- IH, E. cbn [eval_ast].
    change (str_eqb (lit "fn") (lit "un")) with false. cbv iota. reflexivity.
  - cbn [eval_ast]. change (str_eqb (lit "flt") (lit "flt")) with true. cbv iota. reflexivity.
Qed.
Print Assumptions eval_ast_to_term2.

(* examples by computation: the statement of the main theorem on concrete trees *)
Definition sp1 : str := [32%N].
Definition std_eval (st : interp) (s : str) : interp * res value :=
  expr_eval (Model.Commands.u_alnum Model.Unicode.std_uni) (Model.Commands.u_alpha Model.Unicode.std_uni)
            (fun st _ _ => (st, Ok v_empty)) st (VStr s).

Definition ex1 : tree2 := B OMul sp1 sp1 (U UNeg [] (P [] [] (B OAdd sp1 sp1 (L 1) (L 2)))) (L 3).
Definition ex2 : tree2 := A LOr sp1 sp1 (L 1) (P [] [] (A LAnd sp1 sp1 (L 2) (L 0))).
Definition ex3 : tree2 := Q sp1 sp1 sp1 sp1 (L 1) (L 2) (Q sp1 sp1 sp1 sp1 (L 0) (L 3) (L 4)).
Definition ex4 : tree2 :=
  Fn FAbs [] [32%N; 9%N] [] (B OSub [] [] (U UNeg [] (U UNeg [32%N] (L 5))) (Fn FRound sp1 [] sp1 (L 7))).

Example renderings :
  render2 ex1 = lit "-(1 + 2) * 3" /\ render2 ex2 = lit "1 || (2 && 0)" /\
  render2 ex3 = lit "1 ? 2 : 0 ? 3 : 4" /\
  ok ex1 = true /\ ok ex2 = true /\ ok ex3 = true /\ ok ex4 = true.
Proof. vm_compute. repeat split. Qed.

Example evaluations : forall exec st,
  let E := expr_eval (Model.Commands.u_alnum Model.Unicode.std_uni)
                     (Model.Commands.u_alpha Model.Unicode.std_uni) exec st in
  E (VStr (render2 ex1)) = (st, res_value (eval_ast (to_term2 ex1))) /\
  E (VStr (render2 ex1)) = (st, Ok (VInt (-9))) /\
  E (VStr (render2 ex2)) = (st, res_value (eval_ast (to_term2 ex2))) /\
  E (VStr (render2 ex2)) = (st, Ok (VInt 1)) /\
  E (VStr (render2 ex3)) = (st, res_value (eval_ast (to_term2 ex3))) /\
  E (VStr (render2 ex3)) = (st, Ok (VInt 2)) /\
  E (VStr (render2 ex4)) = (st, res_value (eval_ast (to_term2 ex4))) /\
  E (VStr (render2 ex4)) = (st, Ok (VInt 2)).
Proof. intros exec st. vm_compute. repeat split. Qed.

(* ====================================================================================== *)
(* 2. values of trees are numbers, errors are plain errors                                 *)
(* ====================================================================================== *)

Lemma apply_binop_numeric op a b v :
  is_string a = false -> is_string b = false -> apply_binop op a b = Ok v -> is_string v = false.
Proof.
  intros Ha Hb. unfold apply_binop.
  repeat split_op op; tok_tests; destruct a, b; try discriminate;
    cbn [orb andb negb is_string to_flt expr_as_str]; cbv beta iota;
    unfold i64_result, illegal_type, err, d_bool; intros H;
    repeat match type of H with
           | context [if ?c then _ else _] => destruct c
           | context [match ?c with _ => _ end] => destruct c
           end;
    try discriminate; injection H as <-; reflexivity.
Qed.

Definition numeric (r : res datum) : Prop :=
  match r with Ok v => is_string v = false | _ => True end.

Definition unary_spec (u : uop) (v : datum) : res datum :=
  match u with
  | UNeg => match v with
            | DInt z => if in_i64 (- z) then Ok (DInt (- z)) else err (lit "integer overflow")
            | DFlt x => Ok (DFlt (fneg x))
            | DStr _ => err (lit "type")
            end
  | UPos => match v with DStr _ => err (lit "type") | _ => Ok v end
  | UNot => match v with
            | DInt z => Ok (DInt (if z =? 0 then 1 else 0))
            | DFlt x => Ok (DInt (if f_is_zero x then 1 else 0))
            | DStr _ => err (lit "type")
            end
  | UBnot => match v with DInt z => Ok (DInt (Z.lnot z)) | _ => err (lit "type") end
  end.

Lemma spec_unary_eq u v : spec_unary (ustr u) v = unary_spec u v.
Proof. destruct u; reflexivity. Qed.

Lemma spec_unary_numeric u v : is_string v = false -> numeric (spec_unary (ustr u) v).
Proof.
  intros Hv. rewrite spec_unary_eq.
  destruct v as [z|x|s]; [| |discriminate]; destruct u; cbn [unary_spec numeric is_string err];
    try reflexivity; try exact I.
  destruct (in_i64 (- z)); cbn [numeric is_string err]; [reflexivity|exact I].
Qed.

Lemma call_func_numeric f v : is_string v = false -> numeric (call_func (fstr f) v).
Proof.
  intros Hv. unfold call_func.
  destruct f; cbn [fstr]; name_tests; cbv iota; destruct v as [z|x|s]; try discriminate;
    cbn [numeric is_string]; try reflexivity;
    repeat match goal with |- context [if ?c then _ else _] => destruct c end;
    cbn [numeric is_string err]; try reflexivity; exact I.
Qed.

Lemma ev2_numeric t : numeric (ev2 t).
Proof.
  induction t as [z|s1 s2 t IH|u s t IH|o s1 s2 l IHl r IHr|o s1 s2 l IHl r IHr
                 |s1 s2 s3 s4 c IHc a IHa b IHb|f s1 s2 s3 t IH|ip fp es ed]; cbn [ev2].
  - reflexivity.
  - exact IH.
  - destruct (ev2 t) as [v|e|p|]; try exact I. apply spec_unary_numeric, IH.
  - destruct (ev2 l) as [va|e|p|]; try exact I. destruct (ev2 r) as [vb|e|p|]; try exact I.
    destruct (apply_binop (tok_of o) va vb) as [v|e|p|] eqn:E; try exact I.
    cbn [numeric] in *. exact (apply_binop_numeric _ _ _ _ IHl IHr E).
  - destruct (ev2 l) as [va|e|p|]; try exact I. destruct (truth va) as [ta|e|p|]; try exact I.
    destruct (is_and o && negb ta); [reflexivity|].
    destruct (negb (is_and o) && ta); [reflexivity|].
    destruct (ev2 r) as [vb|e|p|]; try exact I. destruct (truth vb) as [tb|e|p|]; try exact I.
    reflexivity.
  - destruct (ev2 c) as [vc|e|p|]; try exact I. destruct (truth vc) as [tc|e|p|]; try exact I.
    destruct tc; assumption.
  - destruct (ev2 t) as [v|e|p|]; try exact I. cbn [numeric] in IH.
    destruct v as [z|x|s]; try discriminate; apply (call_func_numeric f); reflexivity.
  - destruct (get_float (ftext ip fp es ed)); [reflexivity|exact I].
Qed.

(* every error of a tree is a plain Tcl error *)
Lemma spec_unary_err_plain op v e : spec_unary op v = Err e -> exists m, e = molt_err m.
Proof.
  unfold spec_unary, err. intros H.
  repeat match type of H with
         | context [if ?c then _ else _] => destruct c
         | context [match ?c with _ => _ end] => destruct c
         end; try discriminate; injection H as <-; eexists; reflexivity.
Qed.

Lemma call_func_err_plain nm v e : call_func nm v = Err e -> exists m, e = molt_err m.
Proof.
  unfold call_func, err. intros H.
  repeat match type of H with
         | context [if ?c then _ else _] => destruct c
         | context [match ?c with _ => _ end] => destruct c
         end; try discriminate; injection H as <-; eexists; reflexivity.
Qed.

Lemma truth_err_plain v e : truth v = Err e -> exists m, e = molt_err m.
Proof. destruct v; cbn [truth]; unfold err; intros H; try discriminate. injection H as <-. eexists; reflexivity. Qed.

Lemma ev2_err_plain t e : ev2 t = Err e -> exists m, e = molt_err m.
Proof.
  revert e.
  induction t as [z|s1 s2 t IH|u s t IH|o s1 s2 l IHl r IHr|o s1 s2 l IHl r IHr
                 |s1 s2 s3 s4 c IHc a IHa b IHb|f s1 s2 s3 t IH|ip fp es ed]; intros e H; cbn [ev2] in H.
  - discriminate.
  - apply IH, H.
  - destruct (ev2 t) as [v|e1|p1|]; try discriminate.
    + eapply spec_unary_err_plain; exact H.
    + apply IH. exact H.
  - destruct (ev2 l) as [va|e1|p1|]; try discriminate.
    + destruct (ev2 r) as [vb|e2|p2|]; try discriminate.
      * eapply apply_binop_err_plain; exact H.
      * apply IHr. exact H.
    + apply IHl. exact H.
  - destruct (ev2 l) as [va|e1|p1|]; try discriminate; [|apply IHl; exact H].
    destruct (truth va) as [ta|e1|p1|] eqn:Et; try discriminate;
      [|injection H as <-; eapply truth_err_plain; exact Et].
    destruct (is_and o && negb ta); [discriminate|].
    destruct (negb (is_and o) && ta); [discriminate|].
    destruct (ev2 r) as [vb|e2|p2|]; try discriminate; [|apply IHr; exact H].
    destruct (truth vb) as [tb|e2|p2|] eqn:Etb; try discriminate.
    injection H as <-. eapply truth_err_plain; exact Etb.
  - destruct (ev2 c) as [vc|e1|p1|]; try discriminate; [|apply IHc; exact H].
    destruct (truth vc) as [tc|e1|p1|] eqn:Et; try discriminate;
      [|injection H as <-; eapply truth_err_plain; exact Et].
    destruct tc; [apply IHa|apply IHb]; exact H.
  - destruct (ev2 t) as [v|e1|p1|]; try discriminate; [|apply IH; exact H].
    destruct v as [z|x|s].
    + eapply call_func_err_plain; exact H.
    + eapply call_func_err_plain; exact H.
    + unfold err in H. injection H as <-. eexists; reflexivity.
  - destruct (get_float (ftext ip fp es ed)); [discriminate|].
    unfold err in H. injection H as <-. eexists; reflexivity.
Qed.

(* ---- the value as the MODEL computes it ----
   [ev2] follows the reference evaluator; [evm] differs from it in one place only: a unary
   operator is applied with the model's [unary_apply], whose error MESSAGE for ~ on a
   floating-point operand ("can't use floating-point value as operand of "~"") is not the
   reference evaluator's ("type").  Values and the presence of an error always agree. *)
Fixpoint evm (t : tree2) : res datum :=
  match t with
  | L z => Ok (DInt z)
  | P _ _ t => evm t
  | U u _ t =>
      match evm t with
      | Ok v => unary_apply (utok u) v
      | other => other
      end
  | B o _ _ l r =>
      match evm l with
      | Ok a => match evm r with
                | Ok b => apply_binop (tok_of o) a b
                | other => other
                end
      | other => other
      end
  | A o _ _ l r =>
      match evm l with
      | Ok va =>
          match truth va with
          | Ok ta =>
              if is_and o && negb ta then Ok (DInt 0)
              else if negb (is_and o) && ta then Ok (DInt 1)
              else
                match evm r with
                | Ok vb => match truth vb with
                           | Ok tb => Ok (DInt (if tb then 1 else 0))
                           | Err e => Err e | Panic p => Panic p | Fuel => Fuel
                           end
                | other => other
                end
          | Err e => Err e | Panic p => Panic p | Fuel => Fuel
          end
      | other => other
      end
  | Q _ _ _ _ c a b =>
      match evm c with
      | Ok vc =>
          match truth vc with
          | Ok tc => if tc then evm a else evm b
          | Err e => Err e | Panic p => Panic p | Fuel => Fuel
          end
      | other => other
      end
  | Fn f _ _ _ t =>
      match evm t with
      | Ok v =>
          match v with
          | DStr _ => err (lit "argument to math function didn't have numeric value")
          | _ => call_func (fstr f) v
          end
      | other => other
      end
  | F ip fp es ed =>
      match get_float (ftext ip fp es ed) with
      | Some f => Ok (DFlt f)
      | None => err (lit "bad float literal")
      end
  end.

(* same value, or an error on both sides *)
Definition res_sim {X} (a b : res X) : Prop :=
  match a, b with
  | Ok x, Ok y => x = y
  | Err _, Err _ => True
  | Panic p, Panic q => p = q
  | Fuel, Fuel => True
  | _, _ => False
  end.

Lemma res_sim_refl {X} (a : res X) : res_sim a a.
Proof. destruct a; cbn; auto. Qed.

Definition is_flt (r : res datum) : bool := match r with Ok (DFlt _) => true | _ => false end.

Lemma unary_apply_spec u v : is_string v = false ->
  (match u, v with UBnot, DFlt _ => False | _, _ => True end) ->
  unary_apply (utok u) v = spec_unary (ustr u) v.
Proof.
  intros Hv Hx. rewrite spec_unary_eq.
  destruct v as [z|x|s]; [| |discriminate]; destruct u; try reflexivity. contradiction.
Qed.

Lemma unary_apply_sim u v : is_string v = false ->
  res_sim (unary_apply (utok u) v) (spec_unary (ustr u) v).
Proof.
  intros Hv. destruct u, v as [z|x|s]; try discriminate;
    try (rewrite unary_apply_spec by (reflexivity || exact I); apply res_sim_refl).
  rewrite spec_unary_eq. exact I.
Qed.

(* no ~ is applied to a floating-point value *)
Fixpoint bnot_ok (t : tree2) : bool :=
  match t with
  | L _ => true
  | P _ _ t => bnot_ok t
  | U u _ t => bnot_ok t && match u with UBnot => negb (is_flt (ev2 t)) | _ => true end
  | B _ _ _ l r => bnot_ok l && bnot_ok r
  | A _ _ _ l r => bnot_ok l && bnot_ok r
  | Q _ _ _ _ c a b => bnot_ok c && bnot_ok a && bnot_ok b
  | Fn _ _ _ _ t => bnot_ok t
  | F _ _ _ _ => true
  end.

Lemma evm_eq t : bnot_ok t = true -> evm t = ev2 t.
Proof.
  induction t as [z|s1 s2 t IH|u s t IH|o s1 s2 l IHl r IHr|o s1 s2 l IHl r IHr
                 |s1 s2 s3 s4 c IHc a IHa b IHb|f s1 s2 s3 t IH|ip fp es ed]; cbn [bnot_ok evm ev2]; intros H;
    repeat (apply andb_true_iff in H; let H' := fresh "H" in destruct H as [H H']).
  - reflexivity.
  - auto.
  - rewrite (IH H). pose proof (ev2_numeric t) as Hnum.
    destruct (ev2 t) as [v|e|p|]; try reflexivity. apply unary_apply_spec; [exact Hnum|].
    destruct u; try exact I. destruct v; try exact I. discriminate.
  - rewrite (IHl H), (IHr H0). reflexivity.
  - rewrite (IHl H), (IHr H0). reflexivity.
  - rewrite (IHc H), (IHa H1), (IHb H0). reflexivity.
  - rewrite (IH H). reflexivity.
  - reflexivity.
Qed.

Lemma evm_sim t : res_sim (evm t) (ev2 t).
Proof.
  induction t as [z|s1 s2 t IH|u s t IH|o s1 s2 l IHl r IHr|o s1 s2 l IHl r IHr
                 |s1 s2 s3 s4 c IHc a IHa b IHb|f s1 s2 s3 t IH|ip fp es ed]; cbn [evm ev2].
  - reflexivity.
  - exact IH.
  - pose proof (ev2_numeric t) as Hnum.
    destruct (evm t) as [v|e|p|], (ev2 t) as [v'|e'|p'|]; cbn [res_sim] in IH; try contradiction;
      try exact I; try exact IH.
    subst v'. apply unary_apply_sim, Hnum.
  - destruct (evm l) as [v|e|p|], (ev2 l) as [v'|e'|p'|]; cbn [res_sim] in IHl; try contradiction;
      try exact I; try exact IHl.
    subst v'.
    destruct (evm r) as [w|e|p|], (ev2 r) as [w'|e'|p'|]; cbn [res_sim] in IHr; try contradiction;
      try exact I; try exact IHr.
    subst w'. apply res_sim_refl.
  - destruct (evm l) as [v|e|p|], (ev2 l) as [v'|e'|p'|]; cbn [res_sim] in IHl; try contradiction;
      try exact I; try exact IHl.
    subst v'. destruct (truth v) as [ta|e|p|]; try exact I; try reflexivity.
    destruct (is_and o && negb ta); [reflexivity|].
    destruct (negb (is_and o) && ta); [reflexivity|].
    destruct (evm r) as [w|e|p|], (ev2 r) as [w'|e'|p'|]; cbn [res_sim] in IHr; try contradiction;
      try exact I; try exact IHr.
    subst w'. apply res_sim_refl.
  - destruct (evm c) as [v|e|p|], (ev2 c) as [v'|e'|p'|]; cbn [res_sim] in IHc; try contradiction;
      try exact I; try exact IHc.
    subst v'. destruct (truth v) as [tc|e|p|]; try exact I; try reflexivity.
    destruct tc; assumption.
  - destruct (evm t) as [v|e|p|], (ev2 t) as [v'|e'|p'|]; cbn [res_sim] in IH; try contradiction;
      try exact I; try exact IH.
    subst v'. apply res_sim_refl.
  - apply res_sim_refl.
Qed.

Lemma evm_numeric t : numeric (evm t).
Proof.
  pose proof (evm_sim t) as H. pose proof (ev2_numeric t) as Hn.
  destruct (evm t) as [v|e|p|]; try exact I. destruct (ev2 t) as [v'|e'|p'|]; try contradiction.
  cbn [res_sim] in H. subst v'. exact Hn.
Qed.

Lemma unary_apply_err_plain tok v e : unary_apply tok v = Err e -> exists m, e = molt_err m.
Proof.
  unfold unary_apply, illegal_type, err. intros H.
  repeat match type of H with
         | context [if ?c then _ else _] => destruct c
         | context [match ?c with _ => _ end] => destruct c
         end; try discriminate; injection H as <-; eexists; reflexivity.
Qed.

Lemma evm_err_plain t e : evm t = Err e -> exists m, e = molt_err m.
Proof.
  revert e.
  induction t as [z|s1 s2 t IH|u s t IH|o s1 s2 l IHl r IHr|o s1 s2 l IHl r IHr
                 |s1 s2 s3 s4 c IHc a IHa b IHb|f s1 s2 s3 t IH|ip fp es ed]; intros e H; cbn [evm] in H.
  - discriminate.
  - apply IH, H.
  - destruct (evm t) as [v|e1|p1|]; try discriminate.
    + eapply unary_apply_err_plain; exact H.
    + apply IH. exact H.
  - destruct (evm l) as [va|e1|p1|]; try discriminate.
    + destruct (evm r) as [vb|e2|p2|]; try discriminate.
      * eapply apply_binop_err_plain; exact H.
      * apply IHr. exact H.
    + apply IHl. exact H.
  - destruct (evm l) as [va|e1|p1|]; try discriminate; [|apply IHl; exact H].
    destruct (truth va) as [ta|e1|p1|] eqn:Et; try discriminate;
      [|injection H as <-; eapply truth_err_plain; exact Et].
    destruct (is_and o && negb ta); [discriminate|].
    destruct (negb (is_and o) && ta); [discriminate|].
    destruct (evm r) as [vb|e2|p2|]; try discriminate; [|apply IHr; exact H].
    destruct (truth vb) as [tb|e2|p2|] eqn:Etb; try discriminate.
    injection H as <-. eapply truth_err_plain; exact Etb.
  - destruct (evm c) as [vc|e1|p1|]; try discriminate; [|apply IHc; exact H].
    destruct (truth vc) as [tc|e1|p1|] eqn:Et; try discriminate;
      [|injection H as <-; eapply truth_err_plain; exact Et].
    destruct tc; [apply IHa|apply IHb]; exact H.
  - destruct (evm t) as [v|e1|p1|]; try discriminate; [|apply IH; exact H].
    destruct v as [z|x|s].
    + eapply call_func_err_plain; exact H.
    + eapply call_func_err_plain; exact H.
    + unfold err in H. injection H as <-. eexists; reflexivity.
  - destruct (get_float (ftext ip fp es ed)); [discriminate|].
    unfold err in H. injection H as <-. eexists; reflexivity.
Qed.

(* the counterexample: ~ on a floating-point value *)
Example bnot_float_messages :
  let t := U UBnot [] (Fn FDouble [] [] [] (L 1)) in
  ok t = true /\ render2 t = lit "~double(1)" /\
  ev2 t = err (lit "type") /\
  evm t = err (lit "can't use floating-point value as operand of ""~""").
Proof. cbv zeta. repeat split. Qed.

(* ====================================================================================== *)
(* 3. lexer lemmas                                                                         *)
(* ====================================================================================== *)

Lemma ws_whitespace s : ws s = true -> forallb is_whitespace s = true.
Proof.
  induction s as [|c s IH]; [reflexivity|]. unfold ws. cbn [forallb]. intros H.
  apply andb_true_iff in H. destruct H as [Hc Hs]. rewrite (IH Hs).
  replace (is_whitespace c) with true by (unfold is_whitespace; lia). reflexivity.
Qed.

Lemma ws_head c s : ws (c :: s) = true -> (c = 32%N \/ c = 9%N) /\ ws s = true.
Proof.
  unfold ws. cbn [forallb]. intros H. apply andb_true_iff in H. destruct H as [Hc Hs].
  split; [lia|exact Hs].
Qed.

Lemma lit_follow_ws sp r : ws sp = true -> sp <> [] -> lit_follow (sp ++ r).
Proof.
  destruct sp as [|c sp]; [congruence|]. intros H _. apply ws_head in H. destruct H as [Hc _].
  cbn [app lit_follow]. unfold is_digit10. lia.
Qed.

Lemma lit_follow_ws0 sp r : ws sp = true -> lit_follow r -> lit_follow (sp ++ r).
Proof.
  destruct sp as [|c sp]; [intros _ H; exact H|]. intros H _. apply lit_follow_ws; [exact H|discriminate].
Qed.

(* the character after an operator that has a longer variant does not extend it *)
Definition next_ok (r : str) : Prop :=
  match r with
  | [] => True
  | c :: _ => c <> 60%N /\ c <> 61%N /\ c <> 62%N /\ c <> 38%N /\ c <> 124%N
  end.

Lemma next_ok_ws sp r : ws sp = true -> next_ok r -> next_ok (sp ++ r).
Proof.
  destruct sp as [|c sp]; [intros _ H; exact H|]. intros H _. apply ws_head in H.
  cbn [app next_ok]. lia.
Qed.

Lemma show_Z_head z rest : 0 <= z -> exists c r, show_Z z ++ rest = c :: r /\ is_digit10 c = true.
Proof.
  intros Hz. destruct (show_Z_digits z Hz) as (Hne & Hd & _).
  destruct (show_Z z) as [|c r]; [congruence|]. cbn [forallb] in Hd. apply andb_true_iff in Hd.
  exists c, (r ++ rest). split; [reflexivity|tauto].
Qed.

Lemma digits_cons s : digits s = true -> exists c r, s = c :: r /\ is_digit10 c = true /\ forallb is_digit10 r = true.
Proof.
  unfold digits. destruct s as [|c r]; [discriminate|]. cbn [forallb]. intros H.
  apply andb_true_iff in H. exists c, r. tauto.
Qed.

Lemma digits_all s : digits s = true -> forallb is_digit10 s = true.
Proof. unfold digits. destruct s; [discriminate|]. auto. Qed.

(* the first character after the fraction digits is not a digit *)
Lemma exp_head_nondigit es ed rest : exp_shape es ed = true -> lit_follow rest ->
  match es ++ ed ++ rest with [] => True | c :: _ => is_digit10 c = false end.
Proof.
  intros He Hf. destruct es as [|c es'].
  - destruct ed; [|discriminate]. cbn [app]. apply lit_follow_nondigit, Hf.
  - cbn [app]. destruct es' as [|g es'']; [|destruct es''; [|discriminate]]; cbn [exp_shape] in He;
      unfold is_digit10; lia.
Qed.

Lemma read_float_text ip fp es ed rest :
  digits ip = true -> digits fp = true -> exp_shape es ed = true -> lit_follow rest ->
  read_float (ftext ip fp es ed ++ rest) = Some (ftext ip fp es ed, rest).
Proof.
  intros Hip Hfp Hex Hf.
  destruct (digits_cons ip Hip) as (c0 & ip' & -> & Hc0 & Hip').
  assert (Hipall : forallb is_digit10 (c0 :: ip') = true) by (cbn [forallb]; rewrite Hc0, Hip'; reflexivity).
  assert (Hfpall := digits_all fp Hfp).
  assert (Hnd := exp_head_nondigit es ed rest Hex Hf).
  unfold ftext. rewrite <- !app_assoc. cbn [app]. rewrite <- !app_assoc.
  unfold read_float.
  replace (N.eqb c0 c_plus || N.eqb c0 c_minus) with false
    by (unfold is_digit10, c_plus, c_minus in *; lia).
  cbn [is_c]. replace (N.eqb c0 73 || N.eqb c0 105) with false by (unfold is_digit10 in *; lia).
  change (c0 :: ip' ++ 46%N :: fp ++ es ++ ed ++ rest) with ((c0 :: ip') ++ 46%N :: fp ++ es ++ ed ++ rest).
  rewrite (take_while_app_stop is_digit10 (c0 :: ip') _ Hipall) by reflexivity.
  rewrite (skip_while_app_stop is_digit10 (c0 :: ip') _ Hipall) by reflexivity.
  change (N.eqb 46 c_dot) with true. cbv iota.
  rewrite (take_while_app_stop is_digit10 fp _ Hfpall Hnd).
  rewrite (skip_while_app_stop is_digit10 fp _ Hfpall Hnd).
  cbn [length Nat.eqb negb orb].
  destruct es as [|c es'].
  - destruct ed; [|discriminate]. cbn [app].
    assert (Hr : match rest with
                 | c :: r => N.eqb c 101 || N.eqb c 69 = false
                 | [] => True end).
    { destruct rest as [|x r]; [exact I|]. cbn [lit_follow] in Hf. lia. }
    destruct rest as [|x r].
    + cbn [app andb]. rewrite !app_nil_r. reflexivity.
    + rewrite Hr. cbn [app andb]. rewrite !app_nil_r. reflexivity.
  - destruct es' as [|g es'']; [|destruct es''; [|discriminate]]; cbn [exp_shape] in Hex; cbn [app].
    + apply andb_true_iff in Hex. destruct Hex as [Hc Hed].
      replace (N.eqb c 101 || N.eqb c 69) with true by lia.
      destruct (digits_cons ed Hed) as (d0 & ed' & -> & Hd0 & Hed').
      cbn [app].
      replace (N.eqb d0 c_plus || N.eqb d0 c_minus) with false
        by (unfold is_digit10, c_plus, c_minus in *; lia).
      assert (Hedall : forallb is_digit10 (d0 :: ed') = true) by (cbn [forallb]; rewrite Hd0, Hed'; reflexivity).
      change (d0 :: ed' ++ rest) with ((d0 :: ed') ++ rest).
      rewrite (take_while_app_stop is_digit10 (d0 :: ed') rest Hedall (lit_follow_nondigit rest Hf)).
      rewrite (skip_while_app_stop is_digit10 (d0 :: ed') rest Hedall (lit_follow_nondigit rest Hf)).
      cbn [length Nat.eqb negb andb app]. reflexivity.
    + apply andb_true_iff in Hex. destruct Hex as [Hex Hed]. apply andb_true_iff in Hex. destruct Hex as [Hc Hg].
      replace (N.eqb c 101 || N.eqb c 69) with true by lia.
      replace (N.eqb g c_plus || N.eqb g c_minus) with true by (unfold c_plus, c_minus; lia).
      assert (Hedall := digits_all ed Hed).
      rewrite (take_while_app_stop is_digit10 ed rest Hedall (lit_follow_nondigit rest Hf)).
      rewrite (skip_while_app_stop is_digit10 ed rest Hedall (lit_follow_nondigit rest Hf)).
      destruct (digits_cons ed Hed) as (d0 & ed' & -> & _ & _).
      cbn [length Nat.eqb negb andb app]. reflexivity.
Qed.

Lemma looks_like_int_float ip fp es ed rest :
  digits ip = true -> expr_looks_like_int (ftext ip fp es ed ++ rest) = false.
Proof.
  intros Hip. destruct (digits_cons ip Hip) as (c0 & ip' & -> & Hc0 & Hip').
  unfold ftext. rewrite <- !app_assoc. cbn [app].
  unfold expr_looks_like_int.
  rewrite (skip_while_head_false is_whitespace).
  2:{ unfold is_digit10, is_whitespace in *. lia. }
  replace (N.eqb c0 c_plus || N.eqb c0 c_minus) with false
    by (unfold is_digit10, c_plus, c_minus in *; lia).
  rewrite Hc0. rewrite (skip_while_app_stop is_digit10 ip' _ Hip') by reflexivity.
  reflexivity.
Qed.

Lemma ftext_head ip fp es ed rest : digits ip = true ->
  exists c0 p', ftext ip fp es ed ++ rest = c0 :: p' /\ is_digit10 c0 = true.
Proof.
  intros Hip. destruct (digits_cons ip Hip) as (c0 & ip' & -> & Hc0 & _).
  unfold ftext. cbn [app]. eexists; eexists; split; [reflexivity|exact Hc0].
Qed.

Lemma render2_next_ok t rest : ok t = true -> next_ok (render2 t ++ rest).
Proof.
  revert rest.
  induction t as [z|s1 s2 t IH|u s t IH|o s1 s2 l IHl r IHr|o s1 s2 l IHl r IHr
                 |s1 s2 s3 s4 c IHc a IHa b IHb|f s1 s2 s3 t IH|ip fp es ed]; intros rest Hok; cbn [render2].
  - cbn [ok] in Hok. destruct (show_Z_head z rest ltac:(lia)) as (c & r & -> & Hc).
    cbn [next_ok]. unfold is_digit10 in Hc. lia.
  - cbn [app next_ok]. lia.
  - destruct u;
      match goal with |- context [ustr ?u] =>
        let v := eval vm_compute in (ustr u) in change (ustr u) with v end; cbn [app next_ok]; lia.
  - cbn [ok] in Hok. rewrite <- app_assoc. apply IHl. repeat (apply andb_true_iff in Hok; destruct Hok as [Hok ?]). assumption.
  - cbn [ok] in Hok. rewrite <- app_assoc. apply IHl. repeat (apply andb_true_iff in Hok; destruct Hok as [Hok ?]). assumption.
  - cbn [ok] in Hok. rewrite <- app_assoc. apply IHc. repeat (apply andb_true_iff in Hok; destruct Hok as [Hok ?]). assumption.
  - destruct f;
      match goal with |- context [fstr ?u] =>
        let v := eval vm_compute in (fstr u) in change (fstr u) with v end; cbn [app next_ok]; lia.
  - cbn [ok] in Hok. repeat (apply andb_true_iff in Hok; destruct Hok as [Hok ?]).
    destruct (ftext_head ip fp es ed rest Hok) as (c0 & p' & -> & Hc0).
    cbn [next_ok]. unfold is_digit10 in Hc0. lia.
Qed.

Ltac closed_N :=
  repeat match goal with
         | |- context [N.eqb ?a ?b] =>
             let v := eval vm_compute in (N.eqb a b) in
             match v with true => idtac | false => idtac end;
             change (N.eqb a b) with v
         end.

(* reduce the lexer on a text whose first character is known and is not white space, up to the
   point where the operator table is consulted *)
Ltac lex_head :=
  cbv zeta;
  match goal with |- context [skip_while is_whitespace ?s] =>
    let v := eval vm_compute in (skip_while is_whitespace s) in
    change (skip_while is_whitespace s) with v end;
  cbv iota;
  match goal with |- context [lex_number ?i ?p ?c] =>
    let v := eval vm_compute in (lex_number i p c) in
    change (lex_number i p c) with v end;
  cbv iota; closed_N; cbv iota.

Ltac closed_digit :=
  repeat match goal with
         | |- context [is_digit10 ?a] =>
             let v := eval vm_compute in (is_digit10 a) in
             match v with true => idtac | false => idtac end;
             change (is_digit10 a) with v
         end.

Ltac closed_str_eqb :=
  repeat match goal with
         | |- context [str_eqb ?a (lit ?b)] =>
             let v := eval vm_compute in (str_eqb a (lit b)) in
             match v with true => idtac | false => idtac end;
             change (str_eqb a (lit b)) with v
         end.

(* the alphabetic predicate knows the letters of the operators and functions spelled with
   letters, and that space, tab and the open parenthesis are not letters *)
Definition ib_ok2 (ib : char -> bool) : Prop :=
  ib_ok ib /\ ib 9%N = false /\ ib 40%N = false /\
  ib 97%N = true /\ ib 98%N = true /\ ib 115%N = true /\ ib 100%N = true /\ ib 111%N = true /\
  ib 117%N = true /\ ib 108%N = true /\ ib 116%N = true /\ ib 114%N = true.

Section Lex2.
Variable ia ib : char -> bool.
Variable exec : executor.
Variable original : str.

Local Notation GV := (expr_get_value ia ib exec original).
Local Notation LOOP := (expr_loop ia ib exec original).
Local Notation LEX := (expr_lex ia ib exec original).
Local Notation MF := (expr_math_func ia ib exec original).
Local Notation follows := (follows ia ib exec original).

(* leading white space does not matter *)
Lemma lex_skip_ws f st info sp rest :
  forallb is_whitespace sp = true -> e_rest info = sp ++ rest ->
  LEX (S f) st info = LEX (S f) st (with_rest info rest).
Proof.
  intros Hsp He. rewrite !expr_lex_S. destruct info as [r t n]. cbn [e_rest] in He. subst r.
  cbn [e_rest with_rest e_token e_noeval]. rewrite (skip_ws_app sp _ Hsp).
  unfold lex_number, lex_value_of, with_tok_rest, with_rest, with_token, noeval.
  cbn [e_rest e_token e_noeval]. reflexivity.
Qed.

Definition lexes (rest : str) (tk : Z) (rest' : str) : Prop :=
  forall f st info, e_rest info = rest ->
    LEX (S f) st info = (st, Ok (d_none, with_tok_rest info tk rest')).

Lemma lexes_ws sp rest tk rest' :
  forallb is_whitespace sp = true -> lexes rest tk rest' -> lexes (sp ++ rest) tk rest'.
Proof.
  intros Hsp H f st info He. rewrite (lex_skip_ws f st info sp rest Hsp He).
  rewrite (H f st (with_rest info rest) eq_refl). reflexivity.
Qed.

Lemma follows_intro rest tk rest' : lit_follow rest -> lexes rest tk rest' -> follows rest tk rest'.
Proof. intros H1 H2. split; assumption. Qed.

Lemma follows_ws sp rest tk rest' :
  ws sp = true -> follows rest tk rest' -> follows (sp ++ rest) tk rest'.
Proof.
  intros Hsp [H1 H2]. split; [apply lit_follow_ws0; assumption|].
  apply lexes_ws; [apply ws_whitespace, Hsp|exact H2].
Qed.

(* ---- floating-point literals ---- *)

Lemma lex_float f st info sp ip fp es ed rest x :
  forallb is_whitespace sp = true ->
  digits ip = true -> digits fp = true -> exp_shape es ed = true -> lit_follow rest ->
  get_float (ftext ip fp es ed) = Some x ->
  e_rest info = sp ++ ftext ip fp es ed ++ rest ->
  LEX (S f) st info = (st, Ok (DFlt x, with_tok_rest info T_VALUE rest)).
Proof.
  intros Hsp Hip Hfp Hex Hf Hg He.
  assert (Hli := looks_like_int_float ip fp es ed rest Hip).
  assert (Hri := read_float_text ip fp es ed rest Hip Hfp Hex Hf).
  rewrite expr_lex_S, He, (skip_ws_app sp _ Hsp). cbv zeta.
  destruct (ftext_head ip fp es ed rest Hip) as (c0 & p' & Ep & Hc0).
  rewrite Ep in *.
  rewrite (skip_while_head_false is_whitespace (c0 :: p')).
  2:{ unfold is_digit10, is_whitespace in *. lia. }
  unfold lex_number.
  replace (N.eqb c0 c_plus || N.eqb c0 c_minus) with false
    by (unfold is_digit10, c_plus, c_minus in *; lia).
  rewrite Hli, Hri, Hg. reflexivity.
Qed.

(* ---- operator tokens ---- *)

Lemma lexes_sym_op o r : alpha_op o = false -> next_ok r -> lexes (opstr o ++ r) (tok_of o) r.
Proof.
  intros Ha Hr f st info He. rewrite expr_lex_S, He.
  destruct o; try discriminate; try reflexivity;
    (destruct r as [|c r']; [reflexivity|]; cbn [next_ok] in Hr;
     (change (opstr _) with [60%N] || change (opstr _) with [62%N] || change (opstr _) with [38%N]
      || change (opstr _) with [124%N]); cbn [app];
     lex_head; unfold lex_operator; closed_N; cbv beta iota zeta;
     unfold c_lt, c_eq, c_gt, c_amp, c_pipe;
     repeat match goal with
            | |- context [N.eqb ?x ?k] => is_var x; replace (N.eqb x k) with false by lia
            end;
     reflexivity).
Qed.

Lemma lit_follow_sym_op o r : alpha_op o = false -> lit_follow (opstr o ++ r).
Proof.
  intros Ha. destruct o; try discriminate;
    match goal with |- context [opstr ?o] =>
      let v := eval vm_compute in (opstr o) in change (opstr o) with v end;
    cbn [app lit_follow]; unfold is_digit10; lia.
Qed.

Lemma lexes_lop o r : lexes (lstr o ++ r) (ltok o) r.
Proof. intros f st info He. rewrite expr_lex_S, He. destruct o; reflexivity. Qed.

Lemma lexes_questy r : lexes (63%N :: r) T_QUESTY r.
Proof. intros f st info He. rewrite expr_lex_S, He. reflexivity. Qed.

Lemma lexes_colon r : lexes (58%N :: r) T_COLON r.
Proof. intros f st info He. rewrite expr_lex_S, He. reflexivity. Qed.

Lemma lexes_close r : lexes (41%N :: r) T_CLOSE_PAREN r.
Proof. intros f st info He. rewrite expr_lex_S, He. reflexivity. Qed.

Lemma lexes_end : lexes [] T_END [].
Proof. intros f st info He. rewrite expr_lex_S, He. reflexivity. Qed.

Lemma lexes_unary u r : next_ok r -> lexes (ustr u ++ r) (ulex u) r.
Proof.
  intros Hr f st info He. rewrite expr_lex_S, He.
  destruct u; try reflexivity.
  destruct r as [|c r']; [reflexivity|]; cbn [next_ok] in Hr.
  change (ustr UNot) with [33%N]. cbn [app].
  lex_head; unfold lex_operator; closed_N; cbv beta iota zeta. unfold c_eq.
  replace (N.eqb c 61) with false by lia. reflexivity.
Qed.


(* ---- operators and functions spelled with letters ---- *)

Lemma lexes_alpha_op o c r : ib_ok2 ib -> alpha_op o = true -> c = 32%N \/ c = 9%N ->
  lexes (opstr o ++ c :: r) (tok_of o) (c :: r).
Proof.
  intros ((H101 & H113 & H110 & H105 & H32) & H9 & _) Ha Hc f st info He.
  rewrite expr_lex_S, He.
  destruct o; try discriminate; destruct Hc as [-> | ->].
  all: cbv zeta;
    match goal with |- context [skip_while is_whitespace ?s] =>
      let v := eval vm_compute in (skip_while is_whitespace s) in
      change (skip_while is_whitespace s) with v end;
    cbv iota;
    match goal with |- context [lex_number ?i ?p ?c] =>
      let v := eval vm_compute in (lex_number i p c) in
      change (lex_number i p c) with v end;
    cbv iota; closed_N; cbv iota;
    match goal with |- context [lex_operator ?p] =>
      let v := eval vm_compute in (lex_operator p) in
      change (lex_operator p) with v end;
    cbv iota; rewrite ?H101, ?H110, ?H105; cbv beta iota zeta.
  all: repeat progress (cbn [take_while skip_while orb]; rewrite ?H101, ?H113, ?H110, ?H105, ?H32, ?H9;
                        closed_digit; cbv beta iota).
  all: closed_str_eqb.
  all: cbn [orb]; cbv iota; reflexivity.
Qed.

Lemma lex_fn_name f st info fn c s : ib_ok2 ib -> c = 32%N \/ c = 9%N \/ c = 40%N ->
  e_rest info = fstr fn ++ c :: s ->
  LEX (S f) st info = MF f st (with_rest info (c :: s)) (fstr fn).
Proof.
  intros ((H101 & H113 & H110 & H105 & H32) & H9 & H40 & H97 & H98 & H115 & H100 & H111 & H117
          & H108 & H116 & H114) Hc He.
  rewrite expr_lex_S, He.
  destruct fn; destruct Hc as [-> | [-> | ->]].
  all: cbv zeta;
    match goal with |- context [skip_while is_whitespace ?s] =>
      let v := eval vm_compute in (skip_while is_whitespace s) in
      change (skip_while is_whitespace s) with v end;
    cbv iota;
    match goal with |- context [lex_number ?i ?p ?c] =>
      let v := eval vm_compute in (lex_number i p c) in
      change (lex_number i p c) with v end;
    cbv iota; closed_N; cbv iota;
    match goal with |- context [lex_operator ?p] =>
      let v := eval vm_compute in (lex_operator p) in
      change (lex_operator p) with v end;
    cbv iota; rewrite ?H97, ?H100, ?H105, ?H114; cbv beta iota zeta.
  all: repeat progress (cbn [take_while skip_while orb];
                        rewrite ?H101, ?H113, ?H110, ?H105, ?H32, ?H9, ?H40, ?H97, ?H98, ?H115, ?H100,
                          ?H111, ?H117, ?H108, ?H116, ?H114;
                        closed_digit; cbv beta iota).
  all: closed_str_eqb.
  all: cbn [orb]; cbv iota; reflexivity.
Qed.

End Lex2.

Lemma std_ib_ok2 : ib_ok2 (Model.Commands.u_alpha Model.Unicode.std_uni).
Proof. vm_compute. repeat split. Qed.

(* ====================================================================================== *)
(* 4. the parsing invariant                                                                *)
(* ====================================================================================== *)

Fixpoint sz2 (t : tree2) : nat :=
  match t with
  | L _ => 1
  | P _ _ t => sz2 t + 2
  | U _ _ t => sz2 t + 1
  | B _ _ _ l r => sz2 l + sz2 r + 1
  | A _ _ _ l r => sz2 l + sz2 r + 1
  | Q _ _ _ _ c a b => sz2 c + sz2 a + sz2 b + 2
  | Fn _ _ _ _ t => sz2 t + 3
  | F _ _ _ _ => 1
  end.

Fixpoint nsp2 (t : tree2) : nat :=
  match t with
  | B _ _ _ l _ => S (nsp2 l)
  | A _ _ _ l _ => S (nsp2 l)
  | Q _ _ _ _ c _ _ => S (nsp2 c)
  | _ => 0
  end.

Lemma nsp2_lt_sz2 t : (nsp2 t < sz2 t)%nat.
Proof. induction t; cbn [nsp2 sz2]; lia. Qed.

Lemma oprec_bounds o : 5 <= oprec o <= 14.
Proof. destruct o; vm_compute; split; discriminate. Qed.

Lemma lprec_bounds o : 3 <= lprec o <= 4.
Proof. destruct o; vm_compute; split; discriminate. Qed.

Lemma topl_bounds t : 2 <= topl t <= 16.
Proof.
  destruct t; cbn [topl]; try lia; [pose proof (oprec_bounds o)|pose proof (lprec_bounds o)]; lia.
Qed.

Lemma topr_bounds t : 1 <= topr t <= 16 /\ topl t - 1 <= topr t <= topl t.
Proof.
  destruct t; cbn [topl topr]; try lia; [pose proof (oprec_bounds o)|pose proof (lprec_bounds o)]; lia.
Qed.

Lemma ftok_prec tk : ftok tk -> T_MULT <= tk -> 1 <= prec tk <= 14.
Proof.
  intros [H|[H|[H|H]]] H8; try (subst tk; unfold T_MULT, T_CLOSE_PAREN, T_COMMA, T_END in *; lia).
  apply binary_toks_range in H. unfold binary_toks in H. cbn [In] in H.
  repeat (destruct H as [H|H]; [subst tk; vm_compute; split; discriminate|]). contradiction.
Qed.

(* the value a tree contributes: in evaluation mode the value of the tree, in no-eval mode
   (counter n > 0) some value that is never used *)
Definition val (n : N) (t : tree2) (r : res datum) : Prop :=
  if (n =? 0)%N then r = evm t else exists v, r = Ok v.

Definition head_ok2 (t : tree2) (tk : Z) : Prop :=
  ftok tk /\ (T_MULT <= tk -> prec tk <= topr t).

Lemma conv_left_numeric info v : is_string v = false ->
  exists x, conv_left info v = Ok (DInt x) /\ truth v = Ok (negb (x =? 0)).
Proof.
  intros Hv. destruct v as [z|x|s]; [| |discriminate]; cbn [conv_left truth].
  - exists z. split; reflexivity.
  - unfold d_bool. destruct (negb (f_is_zero x)); eexists; split; reflexivity.
Qed.

Lemma conv_left_noeval info v : noeval info = true -> exists x, conv_left info v = Ok (DInt x).
Proof.
  intros Hn. destruct v as [z|x|s]; cbn [conv_left].
  - eexists; reflexivity.
  - unfold d_bool. eexists; reflexivity.
  - rewrite Hn. eexists; reflexivity.
Qed.

Lemma noeval_n info n : e_noeval info = n -> noeval info = negb (n =? 0)%N.
Proof. intros <-. unfold noeval. lia. Qed.

Section Completeness2.
Variable ia ib : char -> bool.
Variable exec : executor.
Variable original : str.

Local Notation GV := (expr_get_value ia ib exec original).
Local Notation LOOP := (expr_loop ia ib exec original).
Local Notation LEX := (expr_lex ia ib exec original).
Local Notation MF := (expr_math_func ia ib exec original).
Local Notation follows := (follows ia ib exec original).
Local Notation lexes := (lexes ia ib exec original).

Definition parses2 (t : tree2) : Prop :=
  forall n pr, pr < topl t ->
  forall rest tk rest', follows rest tk rest' -> head_ok2 t tk ->
  forall fuel, (2 * sz2 t <= fuel)%nat ->
  forall st info sp, forallb is_whitespace sp = true ->
    e_rest info = sp ++ render2 t ++ rest -> e_noeval info = n ->
    exists r, val n t r /\
      GV fuel st info pr =
      lift_res st r (fun v => LOOP (fuel - 1 - nsp2 t) st (with_tok_rest info tk rest') pr v).

Lemma follows_close_ws s r : ws s = true -> follows (s ++ 41%N :: r) T_CLOSE_PAREN r.
Proof. intros Hs. apply follows_ws; [exact Hs|apply follows_close]. Qed.

Lemma head_ok2_close t : head_ok2 t T_CLOSE_PAREN.
Proof. split; [left; reflexivity|]. unfold T_MULT, T_CLOSE_PAREN. lia. Qed.

Lemma parses2_L z : 0 <= z <= i64_max -> parses2 (L z).
Proof.
  intros Hz n pr _ rest tk rest' [Hlf Hlex] _ fuel Hfuel st info sp Hsp He Hn.
  cbn [sz2] in Hfuel. destruct fuel as [|[|f]]; try lia.
  cbn [render2] in He.
  exists (Ok (DInt z)). split.
  { unfold val. destruct (n =? 0)%N; [reflexivity|eexists; reflexivity]. }
  rewrite expr_get_value_S, (lex_literal ia ib exec original f st info sp z rest Hsp Hz Hlf He).
  unfold gv_first, unary_tok. tok_red.
  rewrite (Hlex f st (with_tok_rest info T_VALUE rest) eq_refl).
  cbn [lift_res nsp2]. replace (S (S f) - 1 - 0)%nat with (S f) by lia. reflexivity.
Qed.

Lemma parses2_F ip fp es ed :
  digits ip = true -> digits fp = true -> exp_shape es ed = true ->
  get_float (ftext ip fp es ed) <> None -> parses2 (F ip fp es ed).
Proof.
  intros Hip Hfp Hex Hg n pr _ rest tk rest' [Hlf Hlex] _ fuel Hfuel st info sp Hsp He Hn.
  cbn [sz2] in Hfuel. destruct fuel as [|[|f]]; try lia.
  cbn [render2] in He.
  destruct (get_float (ftext ip fp es ed)) as [x|] eqn:Eg; [|congruence].
  exists (Ok (DFlt x)). split.
  { unfold val. cbn [evm]. rewrite Eg. destruct (n =? 0)%N; [reflexivity|eexists; reflexivity]. }
  rewrite expr_get_value_S,
    (lex_float ia ib exec original f st info sp ip fp es ed rest x Hsp Hip Hfp Hex Hlf Eg He).
  unfold gv_first, unary_tok. tok_red.
  rewrite (Hlex f st (with_tok_rest info T_VALUE rest) eq_refl).
  cbn [lift_res nsp2]. replace (S (S f) - 1 - 0)%nat with (S f) by lia. reflexivity.
Qed.

Lemma parses2_P s1 s2 t : ws s1 = true -> ws s2 = true -> parses2 t -> parses2 (P s1 s2 t).
Proof.
  intros Hs1 Hs2 IH n pr _ rest tk rest' [Hlf Hlex] _ fuel Hfuel st info sp Hsp He Hn.
  cbn [sz2] in Hfuel. destruct fuel as [|[|f]]; try lia.
  assert (He' : e_rest info = sp ++ 40%N :: s1 ++ render2 t ++ s2 ++ 41%N :: rest).
  { rewrite He. cbn [render2 app]. rewrite <- !app_assoc. reflexivity. }
  assert (Hfu : (2 * sz2 t <= S f)%nat) by lia.
  pose proof (topl_bounds t) as Htl.
  destruct (IH n (-1) ltac:(lia) (s2 ++ 41%N :: rest) T_CLOSE_PAREN rest (follows_close_ws s2 rest Hs2)
              (head_ok2_close t) (S f) Hfu st
              (with_tok_rest info T_OPEN_PAREN (s1 ++ render2 t ++ s2 ++ 41%N :: rest)) s1
              (ws_whitespace s1 Hs1) eq_refl Hn) as (r & Hr & Eg).
  exists r. split; [exact Hr|].
  rewrite expr_get_value_S, (lex_open_paren ia ib exec original f st info sp _ Hsp He').
  unfold gv_first. tok_red. rewrite Eg.
  destruct r as [v|e|p|]; cbn [lift_res]; try reflexivity.
  pose proof (nsp2_lt_sz2 t) as Hns.
  destruct (S f - 1 - nsp2 t)%nat as [|k] eqn:Ek; [lia|].
  rewrite loop_stops_at_end by (info_red; tauto).
  tok_red.
  match goal with |- context [LEX (S f) st ?i] => rewrite (Hlex f st i eq_refl) end.
  cbn [nsp2]. replace (S (S f) - 1 - 0)%nat with (S f) by lia. reflexivity.
Qed.

Lemma gv_first_unary f st v0 i1 u : e_token i1 = ulex u ->
  gv_first ia ib exec original f st v0 i1 =
  match GV f st (with_token i1 (utok u)) 15 with
  | (st2, Ok (v, i2)) =>
      if noeval i2 then (st2, Ok (v, i2, true))
      else
        match unary_apply (utok u) v with
        | Ok v' => (st2, Ok (v', i2, true))
        | Err e => (st2, Err e)
        | Panic p => (st2, Panic p)
        | Fuel => (st2, Fuel)
        end
  | (st2, Err e) => (st2, Err e)
  | (st2, Panic p) => (st2, Panic p)
  | (st2, Fuel) => (st2, Fuel)
  end.
Proof. intros H. unfold gv_first, unary_tok. rewrite H. destruct u; reflexivity. Qed.

Lemma parses2_U u s t : ws s = true -> ok t = true -> 15 < topl t -> parses2 t -> parses2 (U u s t).
Proof.
  intros Hs Hok Htop IH n pr _ rest tk rest' Hfol Hh fuel Hfuel st info sp Hsp He Hn.
  cbn [sz2] in Hfuel. destruct fuel as [|[|f]]; try lia.
  assert (He' : e_rest info = sp ++ ustr u ++ s ++ render2 t ++ rest).
  { rewrite He. cbn [render2]. rewrite <- !app_assoc. reflexivity. }
  assert (Hlexu : LEX (S f) st info =
                  (st, Ok (d_none, with_tok_rest info (ulex u) (s ++ render2 t ++ rest)))).
  { refine (lexes_ws ia ib exec original sp (ustr u ++ s ++ render2 t ++ rest) (ulex u)
                      (s ++ render2 t ++ rest) Hsp _ f st info He').
    apply lexes_unary. apply next_ok_ws; [exact Hs|]. apply render2_next_ok, Hok. }
  destruct Hh as [Hft _].
  assert (Hh' : head_ok2 t tk).
  { split; [exact Hft|]. intros H8. pose proof (ftok_prec tk Hft H8). pose proof (topr_bounds t). lia. }
  assert (Hfu : (2 * sz2 t <= S f)%nat) by lia.
  destruct (IH n 15 Htop rest tk rest' Hfol Hh' (S f) Hfu st
              (with_token (with_tok_rest info (ulex u) (s ++ render2 t ++ rest)) (utok u)) s
              (ws_whitespace s Hs) eq_refl Hn) as (r & Hr & Eg).
  exists (match r with
          | Ok v => if (n =? 0)%N then unary_apply (utok u) v else Ok v
          | other => other
          end).
  split.
  { unfold val in *. destruct (n =? 0)%N.
    - subst r. cbn [evm]. destruct (evm t) as [v|e|p|]; reflexivity.
    - destruct Hr as [v ->]. eexists; reflexivity. }
  rewrite expr_get_value_S, Hlexu, 
    (gv_first_unary (S f) st d_none (with_tok_rest info (ulex u) (s ++ render2 t ++ rest)) u eq_refl), Eg.
  destruct r as [v|e|p|]; cbn [lift_res]; try reflexivity.
  pose proof (nsp2_lt_sz2 t) as Hns.
  destruct (S f - 1 - nsp2 t)%nat as [|k] eqn:Ek; [lia|].
  rewrite loop_stop_ftok.
  2:{ info_red. exact Hft. }
  2:{ info_red. intros H8. pose proof (ftok_prec tk Hft H8). lia. }
  rewrite (noeval_n _ n) by (info_red; exact Hn).
  cbn [nsp2]. replace (S (S f) - 1 - 0)%nat with (S f) by lia.
  destruct (n =? 0)%N; cbn [negb]; [|reflexivity].
  destruct (unary_apply (utok u) v); cbn [lift_res]; reflexivity.
Qed.

(* ---- ordinary binary operators ---- *)

Lemma follows_bop o s1 s2 x :
  ws s1 = true -> ws s2 = true ->
  (alpha_op o = true -> ib_ok2 ib /\ nonempty s1 = true /\ nonempty s2 = true) ->
  next_ok x ->
  follows (s1 ++ opstr o ++ s2 ++ x) (tok_of o) (s2 ++ x).
Proof.
  intros Hs1 Hs2 Hal Hx. destruct (alpha_op o) eqn:Ea.
  - destruct (Hal eq_refl) as (Hib & Hn1 & Hn2).
    destruct s2 as [|c s2']; [discriminate|]. destruct (ws_head c s2' Hs2) as [Hc Hs2'].
    apply follows_intro.
    + apply lit_follow_ws; [exact Hs1|]. destruct s1; [discriminate|discriminate].
    + apply lexes_ws; [apply ws_whitespace, Hs1|].
      cbn [app]. apply lexes_alpha_op; assumption.
  - apply follows_ws; [exact Hs1|]. apply follows_intro.
    + apply lit_follow_sym_op, Ea.
    + apply lexes_sym_op; [exact Ea|]. apply next_ok_ws; assumption.
Qed.

Lemma parses2_B o s1 s2 l r :
  (forall x, next_ok x -> follows (s1 ++ opstr o ++ s2 ++ x) (tok_of o) (s2 ++ x)) ->
  ws s2 = true -> ok r = true ->
  oprec o <= topl l -> oprec o <= topr l -> oprec o < topl r ->
  parses2 l -> parses2 r -> parses2 (B o s1 s2 l r).
Proof.
  intros Hfo Hs2 Hokr Hgel Hger Hgtr IHl IHr n pr Hgt rest tk rest' Hfol Hh fuel Hfuel st info sp Hsp He Hn.
  cbn [topl] in Hgt. cbn [sz2] in Hfuel.
  pose proof (nsp2_lt_sz2 l) as Hnl. pose proof (nsp2_lt_sz2 r) as Hnr.
  destruct Hh as [Hft Hhp]. cbn [topr] in Hhp.
  assert (He' : e_rest info = sp ++ render2 l ++ s1 ++ opstr o ++ s2 ++ render2 r ++ rest).
  { rewrite He. cbn [render2]. rewrite <- !app_assoc. reflexivity. }
  (* the left operand, at the caller's level *)
  assert (Hhl : head_ok2 l (tok_of o)).
  { split; [right; right; right; pose proof (tok_of_ordinary o) as Ho;
            unfold ordinary, T_BIT_OR, T_COLON in *; lia|]. intros _. exact Hger. }
  assert (Hfl : (2 * sz2 l <= fuel)%nat) by lia.
  destruct (IHl n pr ltac:(lia) _ (tok_of o) _
              (Hfo (render2 r ++ rest) (render2_next_ok r rest Hokr)) Hhl fuel Hfl st info sp Hsp He' Hn)
    as (rl & Hrl & Egl).
  (* the right operand, at the level of [o] *)
  set (f1 := (fuel - 2 - nsp2 l)%nat).
  assert (Ef1 : (fuel - 1 - nsp2 l = S f1)%nat) by lia.
  set (i_o := with_tok_rest info (tok_of o) (s2 ++ render2 r ++ rest)) in *.
  assert (Hhr : head_ok2 r tk).
  { split; [exact Hft|]. intros H8. specialize (Hhp H8). pose proof (topr_bounds r). lia. }
  assert (Hfr : (2 * sz2 r <= f1)%nat) by lia.
  destruct (IHr n (oprec o) Hgtr rest tk rest' Hfol Hhr f1 Hfr st i_o s2 (ws_whitespace s2 Hs2) eq_refl Hn)
    as (rr & Hrr & Egr).
  exists (match rl with
          | Ok vl => match rr with
                     | Ok v2 => if (n =? 0)%N then apply_binop (tok_of o) vl v2 else Ok vl
                     | other => other
                     end
          | other => other
          end).
  split.
  { unfold val in *. destruct (n =? 0)%N.
    - subst rl rr. cbn [evm]. destruct (evm l); try reflexivity. destruct (evm r); reflexivity.
    - destruct Hrl as [vl ->]. destruct Hrr as [v2 ->]. eexists; reflexivity. }
  rewrite Egl. destruct rl as [vl|e|p|]; cbn [lift_res]; try reflexivity.
  rewrite Ef1.
  rewrite (loop_step_ordinary ia ib exec original f1 st i_o pr vl (tok_of_ordinary o) Hgt).
  change (prec (e_token i_o)) with (oprec o). change (e_token i_o) with (tok_of o).
  rewrite Egr. destruct rr as [v2|e|p|]; cbn [lift_res]; try reflexivity.
  destruct (f1 - 1 - nsp2 r)%nat as [|f2] eqn:Ef2; [lia|].
  rewrite loop_stop_ftok by (info_red; assumption).
  rewrite ftok_not_bad by (info_red; exact Hft).
  rewrite (noeval_n _ n) by (unfold i_o; info_red; exact Hn).
  cbn [nsp2]. replace (fuel - 1 - S (nsp2 l))%nat with f1 by lia.
  destruct (n =? 0)%N; cbn [negb]; [|reflexivity].
  destruct (apply_binop (tok_of o) vl v2); reflexivity.
Qed.

(* ---- && and || ---- *)

Lemma loop_step_lop f st info pr v o x :
  e_token info = ltok o -> pr < lprec o -> conv_left info v = Ok (DInt x) ->
  LOOP (S f) st info pr v =
  if (if is_and o then x =? 0 else negb (x =? 0)) then
    loop_skip_right ia ib exec original f st info pr (if is_and o then DInt x else DInt 1)
  else
    match GV f st info (lprec o) with
    | (st2, Ok (v2, i2)) => loop_after ia ib exec original f (ltok o) pr st2 i2 (DInt x) v2
    | (st2, Err e) => (st2, Err e)
    | (st2, Panic p) => (st2, Panic p)
    | (st2, Fuel) => (st2, Fuel)
    end.
Proof.
  intros Ht Hpr Hc. rewrite expr_loop_S. cbv zeta. rewrite Ht, Hc.
  destruct o; unfold lprec in *; cbn [ltok is_and] in *; tok_tests; cbv beta iota.
  - change (prec T_AND) with 4 in *. replace (4 <=? pr) with false by lia.
    cbn [orb andb negb]. destruct (x =? 0); reflexivity.
  - change (prec T_OR) with 3 in *. replace (3 <=? pr) with false by lia.
    cbn [orb andb negb]. destruct (x =? 0); reflexivity.
Qed.

Lemma apply_binop_lop o x v2 : is_string v2 = false ->
  exists tb, truth v2 = Ok tb /\
    apply_binop (ltok o) (DInt x) v2 =
    Ok (d_bool (if is_and o then negb (x =? 0) && tb else negb (x =? 0) || tb)).
Proof.
  intros Hv. destruct v2 as [z|y|s]; [| |discriminate]; cbn [truth]; eexists; (split; [reflexivity|]);
    destruct o; cbn [ltok is_and]; binop_red; reflexivity.
Qed.

Lemma follows_lop o s1 s2 x :
  ws s1 = true -> follows (s1 ++ lstr o ++ s2 ++ x) (ltok o) (s2 ++ x).
Proof.
  intros Hs1. apply follows_ws; [exact Hs1|]. apply follows_intro; [|apply lexes_lop].
  destruct o;
    match goal with |- context [lstr ?o] =>
      let v := eval vm_compute in (lstr o) in change (lstr o) with v end;
    cbn [app lit_follow]; unfold is_digit10; lia.
Qed.

Lemma parses2_A o s1 s2 l r :
  ws s1 = true -> ws s2 = true ->
  lprec o <= topl l -> lprec o <= topr l -> lprec o < topl r ->
  parses2 l -> parses2 r -> parses2 (A o s1 s2 l r).
Proof.
  intros Hs1 Hs2 Hgel Hger Hgtr IHl IHr n pr Hgt rest tk rest' Hfol Hh fuel Hfuel st info sp Hsp He Hn.
  cbn [topl] in Hgt. cbn [sz2] in Hfuel.
  pose proof (nsp2_lt_sz2 l) as Hnl. pose proof (nsp2_lt_sz2 r) as Hnr.
  pose proof (lprec_bounds o) as Hlb.
  destruct Hh as [Hft Hhp]. cbn [topr] in Hhp.
  assert (He' : e_rest info = sp ++ render2 l ++ s1 ++ lstr o ++ s2 ++ render2 r ++ rest).
  { rewrite He. cbn [render2]. rewrite <- !app_assoc. reflexivity. }
  assert (Hhl : head_ok2 l (ltok o)).
  { split; [right; right; right; destruct o; vm_compute; split; discriminate|]. intros _. exact Hger. }
  assert (Hfl : (2 * sz2 l <= fuel)%nat) by lia.
  destruct (IHl n pr ltac:(lia) _ (ltok o) _ (follows_lop o s1 s2 (render2 r ++ rest) Hs1) Hhl fuel Hfl
              st info sp Hsp He' Hn) as (rl & Hrl & Egl).
  set (f1 := (fuel - 2 - nsp2 l)%nat).
  assert (Ef1 : (fuel - 1 - nsp2 l = S f1)%nat) by lia.
  set (i_o := with_tok_rest info (ltok o) (s2 ++ render2 r ++ rest)) in *.
  assert (Hhr : head_ok2 r tk).
  { split; [exact Hft|]. intros H8. specialize (Hhp H8). pose proof (topr_bounds r). lia. }
  assert (Hfr : (2 * sz2 r <= f1)%nat) by lia.
  (* the right operand evaluated ... *)
  destruct (IHr n (lprec o) Hgtr rest tk rest' Hfol Hhr f1 Hfr st i_o s2 (ws_whitespace s2 Hs2) eq_refl Hn)
    as (rr & Hrr & Egr).
  (* ... and skipped *)
  assert (Hns : e_noeval (with_noeval i_o (e_noeval i_o + 1)) = (n + 1)%N).
  { unfold i_o. info_red. rewrite Hn. reflexivity. }
  destruct (IHr (n + 1)%N (lprec o) Hgtr rest tk rest' Hfol Hhr f1 Hfr st
              (with_noeval i_o (e_noeval i_o + 1)) s2 (ws_whitespace s2 Hs2) eq_refl Hns)
    as (rs & Hrs & Egs).
  unfold val in Hrs. replace (n + 1 =? 0)%N with false in Hrs by lia. destruct Hrs as [vs ->].
  cbn [lift_res] in Egs.
  destruct (f1 - 1 - nsp2 r)%nat as [|f2] eqn:Ef2; [lia|].
  assert (Hstop : forall i v, e_token i = tk -> LOOP (S f2) st i (lprec o) v = (st, Ok (v, i))).
  { intros i v Hi. apply loop_stop_ftok; rewrite Hi; [exact Hft|]. intros H8. specialize (Hhp H8). lia. }
  rewrite Hstop in Egs by reflexivity.
  (* the short-circuit step *)
  assert (Hskip : forall res,
            loop_skip_right ia ib exec original f1 st i_o pr res =
            LOOP f1 st (with_tok_rest info tk rest') pr res).
  { intros res. unfold loop_skip_right. change (prec (e_token i_o)) with (lprec o).
    rewrite Egs. unfold i_o.
    match goal with |- LOOP _ _ ?X _ _ = _ => replace X with (with_tok_rest info tk rest'); [reflexivity|] end.
    unfold with_noeval, with_tok_rest. cbn [e_rest e_token e_noeval]. f_equal. lia. }
  (* the step that evaluates the right operand *)
  assert (Hfull : forall x,
            match GV f1 st i_o (lprec o) with
            | (st2, Ok (v2, i2)) => loop_after ia ib exec original f1 (ltok o) pr st2 i2 (DInt x) v2
            | (st2, Err e) => (st2, Err e)
            | (st2, Panic p) => (st2, Panic p)
            | (st2, Fuel) => (st2, Fuel)
            end =
            lift_res st rr (fun v2 =>
              if (n =? 0)%N then
                lift_res st (apply_binop (ltok o) (DInt x) v2)
                         (fun v' => LOOP f1 st (with_tok_rest info tk rest') pr v')
              else LOOP f1 st (with_tok_rest info tk rest') pr (DInt x))).
  { intros x. rewrite Egr. destruct rr as [v2|e|p|]; cbn [lift_res]; try reflexivity.
    rewrite Hstop by reflexivity. unfold loop_after.
    rewrite ftok_not_bad by (info_red; exact Hft).
    rewrite (noeval_n _ n) by (unfold i_o; info_red; exact Hn).
    destruct (n =? 0)%N; cbn [negb]; [|reflexivity].
    destruct (apply_binop (ltok o) (DInt x) v2); reflexivity. }
  cbn [nsp2]. replace (fuel - 1 - S (nsp2 l))%nat with f1 by lia.
  rewrite Egl. unfold val in *. destruct (n =? 0)%N eqn:En.
  - (* evaluation mode *)
    subst rl rr. cbn [evm]. pose proof (evm_numeric l) as Hnl'. pose proof (evm_numeric r) as Hnr'.
    destruct (evm l) as [vl|e|p|]; [|eexists; split; reflexivity..].
    cbn [numeric] in Hnl'. destruct (conv_left_numeric i_o vl Hnl') as (x & Hc & Ht).
    rewrite Ht. cbn [lift_res]. rewrite Ef1, (loop_step_lop f1 st i_o pr vl o x eq_refl Hgt Hc).
    rewrite Hskip, Hfull.
    destruct (is_and o) eqn:Eo; destruct (x =? 0) eqn:Ex; cbn [negb andb].
    + apply Z.eqb_eq in Ex. subst x. eexists; split; reflexivity.
    + destruct (evm r) as [v2|e|p|]; [|eexists; split; reflexivity..].
      cbn [numeric] in Hnr'. destruct (apply_binop_lop o x v2 Hnr') as (tb & Htb & Hab).
      cbn [lift_res]. rewrite Htb, Hab, Eo, Ex. eexists; split; [reflexivity|]. cbn [lift_res negb andb d_bool]. reflexivity.
    + destruct (evm r) as [v2|e|p|]; [|eexists; split; reflexivity..].
      cbn [numeric] in Hnr'. destruct (apply_binop_lop o x v2 Hnr') as (tb & Htb & Hab).
      cbn [lift_res]. rewrite Htb, Hab, Eo, Ex. eexists; split; [reflexivity|]. cbn [lift_res negb orb d_bool]. reflexivity.
    + eexists; split; reflexivity.
  - (* no-eval mode *)
    destruct Hrl as [vl ->]. destruct Hrr as [v2 ->]. cbn [lift_res].
    assert (Hne : noeval i_o = true).
    { rewrite (noeval_n _ n) by (unfold i_o; info_red; exact Hn). rewrite En. reflexivity. }
    destruct (conv_left_noeval i_o vl Hne) as (x & Hc).
    rewrite Ef1, (loop_step_lop f1 st i_o pr vl o x eq_refl Hgt Hc).
    rewrite Hskip, Hfull. cbn [lift_res].
    destruct (if is_and o then x =? 0 else negb (x =? 0)); eexists; (split; [eexists; reflexivity|reflexivity]).
Qed.

(* ---- ?: ---- *)

Lemma loop_step_questy f st info pr v x :
  e_token info = T_QUESTY -> pr < 2 -> conv_left info v = Ok (DInt x) ->
  LOOP (S f) st info pr v =
  if negb (x =? 0) then loop_questy_true ia ib exec original f st info pr
  else loop_questy_false ia ib exec original f st info pr.
Proof.
  intros Ht Hpr Hc. rewrite expr_loop_S. cbv zeta. rewrite Ht, Hc. tok_tests. cbv beta iota.
  change (prec T_QUESTY) with 2. replace (2 <=? pr) with false by lia.
  cbn [orb andb]. reflexivity.
Qed.

Lemma apply_binop_questy va vb : apply_binop T_QUESTY va vb = Ok va.
Proof. binop_red. reflexivity. Qed.

Lemma follows_char_ws s c r tk :
  ws s = true -> lit_follow (c :: r) -> lexes (c :: r) tk r -> follows (s ++ c :: r) tk r.
Proof. intros Hs Hl Hx. apply follows_ws; [exact Hs|]. apply follows_intro; assumption. Qed.

Lemma parses2_Q s1 s2 s3 s4 c a b :
  ws s1 = true -> ws s2 = true -> ws s3 = true -> ws s4 = true -> 2 <= topr c ->
  parses2 c -> parses2 a -> parses2 b -> parses2 (Q s1 s2 s3 s4 c a b).
Proof.
  intros Hs1 Hs2 Hs3 Hs4 Htc IHc IHa IHb n pr Hgt rest tk rest' Hfol Hh fuel Hfuel st info sp Hsp He Hn.
  cbn [topl] in Hgt. cbn [sz2] in Hfuel.
  pose proof (nsp2_lt_sz2 c) as Hnc. pose proof (nsp2_lt_sz2 a) as Hna. pose proof (nsp2_lt_sz2 b) as Hnb.
  destruct Hh as [Hft Hhp]. cbn [topr] in Hhp.
  set (R4 := s4 ++ render2 b ++ rest).
  set (R2 := s2 ++ render2 a ++ s3 ++ 58%N :: R4).
  assert (He' : e_rest info = sp ++ render2 c ++ s1 ++ 63%N :: R2).
  { rewrite He. unfold R2, R4. cbn [render2]. rewrite <- !app_assoc. cbn [app].
    rewrite <- !app_assoc. cbn [app]. rewrite <- !app_assoc. reflexivity. }
  assert (Hfq : follows (s1 ++ 63%N :: R2) T_QUESTY R2).
  { apply follows_char_ws; [exact Hs1| |apply lexes_questy]. cbn [lit_follow]. unfold is_digit10. lia. }
  assert (Hfc : follows (s3 ++ 58%N :: R4) T_COLON R4).
  { apply follows_char_ws; [exact Hs3| |apply lexes_colon]. cbn [lit_follow]. unfold is_digit10. lia. }
  assert (Hhc : head_ok2 c T_QUESTY).
  { split; [right; right; right; vm_compute; split; discriminate|]. intros _. exact Htc. }
  assert (Hha : head_ok2 a T_COLON).
  { split; [right; right; right; vm_compute; split; discriminate|]. intros _.
    pose proof (topr_bounds a). change (prec T_COLON) with 1. lia. }
  assert (Hhb : head_ok2 b tk).
  { split; [exact Hft|]. intros H8. specialize (Hhp H8). pose proof (topr_bounds b). lia. }
  pose proof (topr_bounds c) as Hbc. pose proof (topl_bounds a) as Hba. pose proof (topl_bounds b) as Hbb.
  assert (Hfcnd : (2 * sz2 c <= fuel)%nat) by lia.
  destruct (IHc n pr ltac:(lia) _ T_QUESTY _ Hfq Hhc fuel Hfcnd st info sp Hsp He' Hn)
    as (rc & Hrc & Egc).
  set (f1 := (fuel - 2 - nsp2 c)%nat).
  assert (Ef1 : (fuel - 1 - nsp2 c = S f1)%nat) by lia.
  set (i_q := with_tok_rest info T_QUESTY R2) in *.
  assert (Hfa : (2 * sz2 a <= f1)%nat) by lia.
  assert (Hfb : (2 * sz2 b <= f1)%nat) by lia.
  destruct (f1 - 1 - nsp2 a)%nat as [|fa] eqn:Efa; [lia|].
  destruct (f1 - 1 - nsp2 b)%nat as [|fb] eqn:Efb; [lia|].
  assert (HstopC : forall k i v, e_token i = T_COLON -> LOOP (S k) st i pq v = (st, Ok (v, i))).
  { intros k i v Hi. apply loop_stop_ftok; rewrite Hi; [right; right; right; vm_compute; split; discriminate|].
    intros _. vm_compute. discriminate. }
  assert (HstopT : forall k i v, e_token i = tk -> LOOP (S k) st i pq v = (st, Ok (v, i))).
  { intros k i v Hi. apply loop_stop_ftok; rewrite Hi; [exact Hft|]. intros H8. specialize (Hhp H8).
    change pq with 1. lia. }
  assert (Hpqa : pq < topl a) by (change pq with 1; lia).
  assert (Hpqb : pq < topl b) by (change pq with 1; lia).
  (* the condition is true: the first arm is evaluated, the second skipped *)
  assert (Htrue : exists ra, val n a ra /\
            loop_questy_true ia ib exec original f1 st i_q pr =
            lift_res st ra (fun v => LOOP f1 st (with_tok_rest info tk rest') pr v)).
  { unfold loop_questy_true.
    destruct (IHa n pq Hpqa _ T_COLON _ Hfc Hha f1 Hfa st i_q s2 (ws_whitespace s2 Hs2) eq_refl Hn)
      as (ra & Hra & Ega).
    exists ra. split; [exact Hra|]. rewrite Ega.
    destruct ra as [va|e|p|]; cbn [lift_res]; try reflexivity.
    rewrite Efa, HstopC by reflexivity.
    change (e_token (with_tok_rest i_q T_COLON R4) =? T_COLON) with true. cbn [negb].
    match goal with |- context [GV f1 st ?i pq] =>
      assert (Hni : e_noeval i = (n + 1)%N) by (unfold i_q; info_red; rewrite Hn; reflexivity);
      destruct (IHb (n + 1)%N pq Hpqb rest tk rest' Hfol Hhb f1 Hfb st i s4 (ws_whitespace s4 Hs4)
                    eq_refl Hni) as (rb & Hrb & Egb)
    end.
    unfold val in Hrb. replace (n + 1 =? 0)%N with false in Hrb by lia. destruct Hrb as [vb ->].
    rewrite Egb. cbn [lift_res]. rewrite Efb, HstopT by reflexivity.
    unfold loop_after. rewrite ftok_not_bad by (info_red; exact Hft).
    match goal with |- context [noeval ?i] =>
      rewrite (noeval_n i n) by (unfold i_q; info_red; rewrite Hn; lia) end.
    match goal with |- context [LOOP f1 st ?X pr va] =>
      replace X with (with_tok_rest info tk rest')
        by (unfold i_q, with_noeval, with_tok_rest; cbn [e_rest e_token e_noeval]; f_equal; lia) end.
    change (e_token i_q) with T_QUESTY. rewrite apply_binop_questy.
    destruct (n =? 0)%N; reflexivity. }
  (* the condition is false: the first arm is skipped, the second evaluated *)
  assert (Hfalse : exists rb, val n b rb /\
            loop_questy_false ia ib exec original f1 st i_q pr =
            lift_res st rb (fun v => LOOP f1 st (with_tok_rest info tk rest') pr v)).
  { unfold loop_questy_false.
    match goal with |- context [GV f1 st ?i pq] =>
      assert (Hni : e_noeval i = (n + 1)%N) by (unfold i_q; info_red; rewrite Hn; reflexivity);
      destruct (IHa (n + 1)%N pq Hpqa _ T_COLON _ Hfc Hha f1 Hfa st i s2 (ws_whitespace s2 Hs2)
                    eq_refl Hni) as (ra & Hra & Ega)
    end.
    unfold val in Hra. replace (n + 1 =? 0)%N with false in Hra by lia. destruct Hra as [va ->].
    rewrite Ega. cbn [lift_res]. rewrite Efa, HstopC by reflexivity. cbv zeta.
    match goal with |- context [negb (e_token ?i =? T_COLON)] =>
      change (e_token i =? T_COLON) with true end.
    cbn [negb].
    match goal with |- context [GV f1 st ?i pq] =>
      assert (Hni' : e_noeval i = n) by (unfold i_q; info_red; rewrite Hn; lia);
      destruct (IHb n pq Hpqb rest tk rest' Hfol Hhb f1 Hfb st i s4 (ws_whitespace s4 Hs4)
                    eq_refl Hni') as (rb & Hrb & Egb)
    end.
    exists rb. split; [exact Hrb|]. rewrite Egb.
    destruct rb as [vb|e|p|]; cbn [lift_res]; try reflexivity.
    rewrite Efb, HstopT by reflexivity.
    unfold loop_after. rewrite ftok_not_bad by (info_red; exact Hft).
    match goal with |- context [noeval ?i] =>
      rewrite (noeval_n i n) by (unfold i_q; info_red; rewrite Hn; lia) end.
    match goal with |- context [LOOP f1 st ?X pr vb] =>
      replace X with (with_tok_rest info tk rest')
        by (unfold i_q, with_noeval, with_tok_rest; cbn [e_rest e_token e_noeval]; f_equal; lia) end.
    change (e_token i_q) with T_QUESTY. rewrite apply_binop_questy.
    destruct (n =? 0)%N; reflexivity. }
  destruct Htrue as (ra & Hra & Etrue). destruct Hfalse as (rb & Hrb & Efalse).
  cbn [nsp2]. replace (fuel - 1 - S (nsp2 c))%nat with f1 by lia.
  rewrite Egc. unfold val in *. destruct (n =? 0)%N eqn:En.
  - subst rc ra rb. cbn [evm]. pose proof (evm_numeric c) as Hnumc.
    destruct (evm c) as [vc|e|p|]; [|eexists; split; reflexivity..].
    cbn [numeric] in Hnumc. destruct (conv_left_numeric i_q vc Hnumc) as (x & Hc & Ht).
    rewrite Ht. cbn [lift_res]. rewrite Ef1, (loop_step_questy f1 st i_q pr vc x eq_refl Hgt Hc).
    destruct (negb (x =? 0)); eexists; (split; [reflexivity|assumption]).
  - destruct Hrc as [vc ->]. cbn [lift_res].
    assert (Hne : noeval i_q = true).
    { rewrite (noeval_n _ n) by (unfold i_q; info_red; exact Hn). rewrite En. reflexivity. }
    destruct (conv_left_noeval i_q vc Hne) as (x & Hc).
    rewrite Ef1, (loop_step_questy f1 st i_q pr vc x eq_refl Hgt Hc).
    destruct (negb (x =? 0)); eexists; (split; [|eassumption]); assumption.
Qed.

(* ---- math functions ---- *)

Lemma parses2_Fn fn s1 s2 s3 t :
  ib_ok2 ib -> ws s1 = true -> ws s2 = true -> ws s3 = true -> parses2 t ->
  parses2 (Fn fn s1 s2 s3 t).
Proof.
  intros Hib Hs1 Hs2 Hs3 IH n pr _ rest tk rest' [Hlf Hlex] _ fuel Hfuel st info sp Hsp He Hn.
  cbn [sz2] in Hfuel. destruct fuel as [|[|[|[|f]]]]; try lia.
  set (R3 := s3 ++ 41%N :: rest).
  set (R2 := s2 ++ render2 t ++ R3).
  assert (He' : e_rest info = sp ++ fstr fn ++ s1 ++ 40%N :: R2).
  { rewrite He. unfold R2, R3. cbn [render2]. rewrite <- !app_assoc. cbn [app].
    rewrite <- !app_assoc. cbn [app]. reflexivity. }
  set (i0 := with_rest info (s1 ++ 40%N :: R2)).
  assert (Hname : LEX (S (S (S f))) st info = MF (S (S f)) st i0 (fstr fn)).
  { rewrite (lex_skip_ws ia ib exec original _ st info sp _ Hsp He'). unfold i0.
    destruct s1 as [|c s1'].
    - cbn [app].
      rewrite (lex_fn_name ia ib exec original _ st (with_rest info (fstr fn ++ 40%N :: R2)) fn 40%N R2
                 Hib ltac:(tauto) eq_refl). reflexivity.
    - destruct (ws_head c s1' Hs1) as [Hc _]. cbn [app].
      rewrite (lex_fn_name ia ib exec original _ st
                 (with_rest info (fstr fn ++ c :: s1' ++ 40%N :: R2)) fn c (s1' ++ 40%N :: R2)
                 Hib ltac:(tauto) eq_refl). reflexivity. }
  set (i1 := with_tok_rest i0 T_OPEN_PAREN R2).
  assert (Hopen : LEX (S f) st i0 = (st, Ok (d_none, i1))).
  { apply (lex_open_paren ia ib exec original f st i0 s1 R2 (ws_whitespace s1 Hs1)). reflexivity. }
  assert (Hfu : (2 * sz2 t <= S f)%nat) by lia.
  pose proof (topl_bounds t) as Htl.
  destruct (IH n (-1) ltac:(lia) R3 T_CLOSE_PAREN rest (follows_close_ws s3 rest Hs3)
              (head_ok2_close t) (S f) Hfu st i1 s2 (ws_whitespace s2 Hs2) eq_refl Hn)
    as (r & Hr & Eg).
  exists (match r with
          | Ok arg => if (n =? 0)%N then call_func (fstr fn) arg else Ok d_none
          | other => other
          end).
  split.
  { unfold val in *. destruct (n =? 0)%N.
    - subst r. cbn [evm]. pose proof (evm_numeric t) as Hnum.
      destruct (evm t) as [v|e|p|]; try reflexivity. destruct v; try reflexivity. discriminate.
    - destruct Hr as [v ->]. eexists; reflexivity. }
  rewrite expr_get_value_S, Hname, expr_math_func_S.
  replace (expr_find_func (fstr fn)) with true by (destruct fn; reflexivity). cbn [negb].
  rewrite Hopen. change (e_token i1 =? T_OPEN_PAREN) with true. cbn [negb].
  rewrite Eg. destruct r as [arg|e|p|]; cbn [lift_res]; try reflexivity.
  pose proof (nsp2_lt_sz2 t) as Hns.
  destruct (S f - 1 - nsp2 t)%nat as [|k] eqn:Ek; [lia|].
  rewrite loop_stops_at_end by (right; left; reflexivity).
  match goal with |- context [noeval ?i] =>
    rewrite (noeval_n i n) by (unfold i1, i0; info_red; exact Hn) end.
  change (e_token (with_tok_rest i1 T_CLOSE_PAREN rest) =? T_CLOSE_PAREN) with true.
  cbv iota zeta.
  unfold val in Hr.
  assert (Hfin : forall d,
    match gv_first ia ib exec original (S (S (S f))) st d
            (with_token (with_tok_rest i1 T_CLOSE_PAREN rest) T_VALUE) with
    | (st2, Ok (v, i2, got_op)) =>
        if got_op then LOOP (S (S (S f))) st2 i2 pr v
        else
          match LEX (S (S (S f))) st2 i2 with
          | (st3, Ok (_, i3)) => LOOP (S (S (S f))) st3 i3 pr v
          | (st3, Err e) => (st3, Err e)
          | (st3, Panic p) => (st3, Panic p)
          | (st3, Fuel) => (st3, Fuel)
          end
    | (st2, Err e) => (st2, Err e)
    | (st2, Panic p) => (st2, Panic p)
    | (st2, Fuel) => (st2, Fuel)
    end = LOOP (S (S (S (S f))) - 1 - nsp2 (Fn fn s1 s2 s3 t)) st (with_tok_rest info tk rest') pr d).
  { intros d. unfold gv_first, unary_tok. tok_red.
    match goal with |- context [LEX (S (S (S f))) st ?i] => rewrite (Hlex _ st i eq_refl) end.
    reflexivity. }
  destruct (n =? 0)%N eqn:En; cbn [negb andb].
  - pose proof (evm_numeric t) as Hnum. rewrite <- Hr in Hnum. cbn [numeric] in Hnum.
    rewrite Hnum. cbv iota.
    destruct (call_func (fstr fn) arg) as [d|e|p|]; cbn [lift_res]; try reflexivity. apply Hfin.
  - cbn [lift_res]. apply Hfin.
Qed.

(* ---- all constructors together ---- *)

Fixpoint uses_alpha2 (t : tree2) : bool :=
  match t with
  | L _ => false
  | P _ _ t => uses_alpha2 t
  | U _ _ t => uses_alpha2 t
  | B o _ _ l r => alpha_op o || uses_alpha2 l || uses_alpha2 r
  | A _ _ _ l r => uses_alpha2 l || uses_alpha2 r
  | Q _ _ _ _ c a b => uses_alpha2 c || uses_alpha2 a || uses_alpha2 b
  | Fn _ _ _ _ _ => true
  | F _ _ _ _ => false
  end.

Ltac zb := first [apply Z.leb_le; assumption | apply Z.ltb_lt; assumption].

Theorem parses2_all : forall t, ok t = true -> (uses_alpha2 t = true -> ib_ok2 ib) -> parses2 t.
Proof.
  induction t as [z|s1 s2 t IH|u s t IH|o s1 s2 l IHl r IHr|o s1 s2 l IHl r IHr
                 |s1 s2 s3 s4 c IHc a IHa b IHb|f s1 s2 s3 t IH|ip fp es ed]; cbn [ok uses_alpha2]; intros Hok Hal;
    repeat (apply andb_true_iff in Hok; let H' := fresh "Hk" in destruct Hok as [Hok H']).
  - apply parses2_L. lia.
  - apply parses2_P; auto.
  - apply parses2_U; try assumption; [zb|auto].
  - apply parses2_B; try assumption; [|zb|zb|zb| |].
    + intros x Hx. apply follows_bop; auto.
      intros Ha. rewrite Ha in *. apply andb_true_iff in Hk4. destruct Hk4 as [Hn1 Hn2].
      split; [|split]; auto.
    + apply IHl; auto. intros Hu. apply Hal. rewrite Hu. apply orb_true_iff. left. apply orb_true_r.
    + apply IHr; auto. intros Hu. apply Hal. rewrite Hu. apply orb_true_r.
  - apply parses2_A; try assumption; [zb|zb|zb| |].
    + apply IHl; auto. intros Hu. apply Hal. rewrite Hu. reflexivity.
    + apply IHr; auto. intros Hu. apply Hal. rewrite Hu. apply orb_true_r.
  - apply parses2_Q; try assumption; [zb| | |].
    + apply IHc; auto. intros Hu. apply Hal. rewrite Hu. reflexivity.
    + apply IHa; auto. intros Hu. apply Hal. rewrite Hu. apply orb_true_iff. left. apply orb_true_r.
    + apply IHb; auto. intros Hu. apply Hal. rewrite Hu. apply orb_true_r.
  - apply parses2_Fn; auto.
  - apply parses2_F; auto. destruct (get_float (ftext ip fp es ed)); [discriminate|discriminate].
Qed.

End Completeness2.
Print Assumptions parses2_all.

(* ====================================================================================== *)
(* 5. from the invariant to expr_eval                                                      *)
(* ====================================================================================== *)

Lemma ustr_length u : length (ustr u) = 1%nat.
Proof. destruct u; reflexivity. Qed.

Lemma opstr_length o : (1 <= length (opstr o))%nat.
Proof. destruct o; vm_compute; lia. Qed.

Lemma lstr_length o : length (lstr o) = 2%nat.
Proof. destruct o; reflexivity. Qed.

Lemma fstr_length f : (3 <= length (fstr f))%nat.
Proof. destruct f; vm_compute; lia. Qed.

Lemma sz2_le_length t : (sz2 t <= length (render2 t))%nat.
Proof.
  induction t as [z|s1 s2 t IH|u s t IH|o s1 s2 l IHl r IHr|o s1 s2 l IHl r IHr
                 |s1 s2 s3 s4 c IHc a IHa b IHb|f s1 s2 s3 t IH|ip fp es ed]; cbn [sz2 render2].
  - pose proof (show_Z_nonempty z). destruct (show_Z z); [congruence|cbn [length]; lia].
  - cbn [length]. rewrite !app_length. cbn [length]. lia.
  - rewrite !app_length, ustr_length. lia.
  - rewrite !app_length. pose proof (opstr_length o). lia.
  - rewrite !app_length, lstr_length. lia.
  - rewrite !app_length. cbn [length]. rewrite !app_length. cbn [length]. rewrite !app_length. lia.
  - rewrite !app_length. cbn [length]. rewrite !app_length. cbn [length]. pose proof (fstr_length f). lia.
  - unfold ftext. rewrite !app_length. cbn [length]. lia.
Qed.

Lemma head_ok2_end t : head_ok2 t T_END.
Proof. split; [right; right; left; reflexivity|]. unfold T_MULT, T_END. lia. Qed.

(* the model's value of a well-formed tree, with arbitrary spaces and tabs before and after *)
Theorem expr_eval_render2_ws : forall ia ib exec st t lead trail,
  ok t = true -> (uses_alpha2 t = true -> ib_ok2 ib) -> ws lead = true -> ws trail = true ->
  expr_eval ia ib exec st (VStr (lead ++ render2 t ++ trail)) = (st, res_value (evm t)).
Proof.
  intros ia ib exec st t lead trail Hok Hal Hlead Htrail. unfold expr_eval. cbn [as_str].
  set (s := lead ++ render2 t ++ trail).
  pose proof (parses2_all ia ib exec s t Hok Hal) as PP.
  assert (Hfu : (2 * sz2 t <= expr_fuel s)%nat).
  { unfold expr_fuel, s. rewrite !app_length. pose proof (sz2_le_length t). lia. }
  assert (Hfol : follows ia ib exec s trail T_END []).
  { rewrite <- (app_nil_r trail). apply follows_ws; [exact Htrail|apply follows_end]. }
  pose proof (topl_bounds t) as Htl.
  destruct (PP 0%N (-1) ltac:(lia) trail T_END [] Hfol (head_ok2_end t) (expr_fuel s) Hfu st
               {| e_rest := s; e_token := -1; e_noeval := 0 |} lead
               (ws_whitespace lead Hlead) eq_refl eq_refl) as (r & Hr & Eg).
  change (r = evm t) in Hr. subst r. rewrite Eg.
  destruct (evm t) as [v|e|p|] eqn:Ev; cbn [lift_res res_value]; try reflexivity.
  - pose proof (nsp2_lt_sz2 t).
    destruct (expr_fuel s - 1 - nsp2 t)%nat as [|k] eqn:Ek; [lia|].
    rewrite loop_stops_at_end by (info_red; tauto).
    info_red. tok_tests. reflexivity.
  - destruct (evm_err_plain t e Ev) as [m ->]. reflexivity.
Qed.
Print Assumptions expr_eval_render2_ws.

Corollary expr_eval_render2 : forall ia ib exec st t,
  ok t = true -> (uses_alpha2 t = true -> ib_ok2 ib) ->
  expr_eval ia ib exec st (VStr (render2 t)) = (st, res_value (evm t)).
Proof.
  intros ia ib exec st t Hok Hal.
  pose proof (expr_eval_render2_ws ia ib exec st t [] [] Hok Hal eq_refl eq_refl) as H.
  cbn [app] in H. rewrite app_nil_r in H. exact H.
Qed.
Print Assumptions expr_eval_render2.

(* ---- in terms of the reference evaluator ---- *)

Lemma res_value_sim (a b : res datum) : res_sim a b -> res_sim (res_value a) (res_value b).
Proof. destruct a, b; cbn [res_sim res_value]; auto. intros ->. reflexivity. Qed.

(* the main theorem: exact agreement with [eval_ast] whenever no ~ is applied to a
   floating-point value (the only place where the two error MESSAGES differ) *)
Theorem expr_eval_tree2 : forall ia ib exec st t,
  ok t = true -> bnot_ok t = true -> (uses_alpha2 t = true -> ib_ok2 ib) ->
  expr_eval ia ib exec st (VStr (render2 t)) = (st, res_value (eval_ast (to_term2 t))).
Proof.
  intros ia ib exec st t Hok Hb Hal. rewrite (expr_eval_render2 ia ib exec st t Hok Hal).
  rewrite (evm_eq t Hb), eval_ast_to_term2. reflexivity.
Qed.
Print Assumptions expr_eval_tree2.

(* without that side condition: the state is untouched, a value is the reference value, an error
   is an error of the reference evaluator (possibly with another message) *)
Theorem expr_eval_tree2_sim : forall ia ib exec st t,
  ok t = true -> (uses_alpha2 t = true -> ib_ok2 ib) ->
  fst (expr_eval ia ib exec st (VStr (render2 t))) = st /\
  res_sim (snd (expr_eval ia ib exec st (VStr (render2 t)))) (res_value (eval_ast (to_term2 t))).
Proof.
  intros ia ib exec st t Hok Hal. rewrite (expr_eval_render2 ia ib exec st t Hok Hal).
  cbn [fst snd]. split; [reflexivity|]. rewrite eval_ast_to_term2. apply res_value_sim, evm_sim.
Qed.
Print Assumptions expr_eval_tree2_sim.

Theorem expr_eval_tree2_ws : forall ia ib exec st t lead trail,
  ok t = true -> bnot_ok t = true -> (uses_alpha2 t = true -> ib_ok2 ib) ->
  ws lead = true -> ws trail = true ->
  expr_eval ia ib exec st (VStr (lead ++ render2 t ++ trail)) =
  (st, res_value (eval_ast (to_term2 t))).
Proof.
  intros ia ib exec st t lead trail Hok Hb Hal Hl Ht.
  rewrite (expr_eval_render2_ws ia ib exec st t lead trail Hok Hal Hl Ht).
  rewrite (evm_eq t Hb), eval_ast_to_term2. reflexivity.
Qed.
Print Assumptions expr_eval_tree2_ws.

(* for the interpreter's own character predicates *)
Corollary expr_eval_tree2_std : forall exec st t, ok t = true -> bnot_ok t = true ->
  expr_eval (Model.Commands.u_alnum Model.Unicode.std_uni) (Model.Commands.u_alpha Model.Unicode.std_uni)
            exec st (VStr (render2 t)) = (st, res_value (eval_ast (to_term2 t))).
Proof. intros exec st t Hok Hb. apply expr_eval_tree2; [exact Hok|exact Hb|intros _; exact std_ib_ok2]. Qed.
Print Assumptions expr_eval_tree2_std.

Corollary expr_eval_tree2_ws_std : forall exec st t lead trail,
  ok t = true -> bnot_ok t = true -> ws lead = true -> ws trail = true ->
  expr_eval (Model.Commands.u_alnum Model.Unicode.std_uni) (Model.Commands.u_alpha Model.Unicode.std_uni)
            exec st (VStr (lead ++ render2 t ++ trail)) = (st, res_value (eval_ast (to_term2 t))).
Proof.
  intros exec st t lead trail Hok Hb Hl Ht.
  apply expr_eval_tree2_ws; [exact Hok|exact Hb|intros _; exact std_ib_ok2|exact Hl|exact Ht].
Qed.
Print Assumptions expr_eval_tree2_ws_std.

Corollary expr_eval_tree2_sim_std : forall exec st t, ok t = true ->
  let E := expr_eval (Model.Commands.u_alnum Model.Unicode.std_uni)
                     (Model.Commands.u_alpha Model.Unicode.std_uni) exec st (VStr (render2 t)) in
  fst E = st /\ res_sim (snd E) (res_value (eval_ast (to_term2 t))).
Proof. intros exec st t Hok. apply expr_eval_tree2_sim; [exact Hok|intros _; exact std_ib_ok2]. Qed.
Print Assumptions expr_eval_tree2_sim_std.

(* the statement in the shape of [expr_eval_tree_std]: one boolean side condition *)
Definition okx (t : tree2) : bool := ok t && bnot_ok t.

Theorem expr_eval_tree2_final : forall exec st t, okx t = true ->
  expr_eval (Model.Commands.u_alnum Model.Unicode.std_uni) (Model.Commands.u_alpha Model.Unicode.std_uni)
            exec st (VStr (render2 t)) = (st, res_value (eval_ast (to_term2 t))).
Proof.
  intros exec st t H. apply andb_true_iff in H. destruct H as [Hok Hb].
  apply expr_eval_tree2_std; assumption.
Qed.
Print Assumptions expr_eval_tree2_final.

(* ====================================================================================== *)
(* 6. arbitrary trees: parentheses inserted exactly where the grammar needs them           *)
(* ====================================================================================== *)

Definition par (t : tree2) : tree2 := P [] [] t.
Definition wrap_if (b : bool) (t : tree2) : tree2 := if b then t else par t.

Fixpoint norm2 (t : tree2) : tree2 :=
  match t with
  | L z => L z
  | P s1 s2 t => P s1 s2 (norm2 t)
  | U u s t => let t' := norm2 t in U u s (wrap_if (15 <? topl t') t')
  | B o s1 s2 l r =>
      let l' := norm2 l in
      let r' := norm2 r in
      B o s1 s2 (wrap_if ((oprec o <=? topl l') && (oprec o <=? topr l')) l')
                (wrap_if (oprec o <? topl r') r')
  | A o s1 s2 l r =>
      let l' := norm2 l in
      let r' := norm2 r in
      A o s1 s2 (wrap_if ((lprec o <=? topl l') && (lprec o <=? topr l')) l')
                (wrap_if (lprec o <? topl r') r')
  | Q s1 s2 s3 s4 c a b =>
      let c' := norm2 c in
      Q s1 s2 s3 s4 (wrap_if (2 <=? topr c') c') (norm2 a) (norm2 b)
  | Fn f s1 s2 s3 t => Fn f s1 s2 s3 (norm2 t)
  | F ip fp es ed => F ip fp es ed
  end.

(* the side condition without the precedence part: literals and spacing only *)
Fixpoint sok (t : tree2) : bool :=
  match t with
  | L z => (0 <=? z) && (z <=? i64_max)
  | P s1 s2 t => ws s1 && ws s2 && sok t
  | U u s t => ws s && sok t
  | B o s1 s2 l r =>
      ws s1 && ws s2 && (if alpha_op o then nonempty s1 && nonempty s2 else true) && sok l && sok r
  | A o s1 s2 l r => ws s1 && ws s2 && sok l && sok r
  | Q s1 s2 s3 s4 c a b => ws s1 && ws s2 && ws s3 && ws s4 && sok c && sok a && sok b
  | Fn f s1 s2 s3 t => ws s1 && ws s2 && ws s3 && sok t
  | F ip fp es ed =>
      digits ip && digits fp && exp_shape es ed
      && match get_float (ftext ip fp es ed) with Some _ => true | None => false end
  end.

Lemma wrap_if_facts b t : ok t = true ->
  ok (wrap_if b t) = true /\ to_term2 (wrap_if b t) = to_term2 t /\
  uses_alpha2 (wrap_if b t) = uses_alpha2 t /\ bnot_ok (wrap_if b t) = bnot_ok t /\
  (if b then wrap_if b t = t else topl (wrap_if b t) = 16 /\ topr (wrap_if b t) = 16).
Proof.
  intros H. destruct b; cbn [wrap_if par ok to_term2 uses_alpha2 bnot_ok topl topr ws forallb andb];
    repeat split; auto.
Qed.

Lemma ev2_term_eq t t' : to_term2 t = to_term2 t' -> ev2 t = ev2 t'.
Proof. intros H. rewrite <- !eval_ast_to_term2, H. reflexivity. Qed.

Ltac split_ands H :=
  repeat (apply andb_true_iff in H; let H' := fresh "Hk" in destruct H as [H H']).

Lemma norm2_facts t : sok t = true ->
  ok (norm2 t) = true /\ to_term2 (norm2 t) = to_term2 t /\
  uses_alpha2 (norm2 t) = uses_alpha2 t /\ bnot_ok (norm2 t) = bnot_ok t.
Proof.
  induction t as [z|s1 s2 t IH|u s t IH|o s1 s2 l IHl r IHr|o s1 s2 l IHl r IHr
                 |s1 s2 s3 s4 c IHc a IHa b IHb|f s1 s2 s3 t IH|ip fp es ed]; cbn [sok norm2]; intros H; split_ands H.
  - cbn [ok]. rewrite H, Hk. repeat split.
  - destruct (IH Hk) as (O & T & Ua & Bn). cbn [ok to_term2 uses_alpha2 bnot_ok]. rewrite H, Hk0, O. auto.
  - destruct (IH Hk) as (O & T & Ua & Bn). cbv zeta.
    destruct (wrap_if_facts (15 <? topl (norm2 t)) (norm2 t) O) as (O' & T' & U' & B' & W).
    cbn [ok to_term2 uses_alpha2 bnot_ok]. rewrite H, O', T', U', B', T, Ua, Bn.
    rewrite (ev2_term_eq _ t (eq_trans T' T)).
    repeat split. destruct (15 <? topl (norm2 t)) eqn:E.
    + rewrite W. exact E.
    + destruct W as [-> _]. reflexivity.
  - destruct (IHl Hk0) as (Ol & Tl & Ul & Bl). destruct (IHr Hk) as (Or & Tr & Ur & Br). cbv zeta.
    pose proof (oprec_bounds o) as Hob.
    destruct (wrap_if_facts ((oprec o <=? topl (norm2 l)) && (oprec o <=? topr (norm2 l))) (norm2 l) Ol)
      as (Ol' & Tl' & Ul' & Bl' & Wl).
    destruct (wrap_if_facts (oprec o <? topl (norm2 r)) (norm2 r) Or) as (Or' & Tr' & Ur' & Br' & Wr).
    cbn [ok to_term2 uses_alpha2 bnot_ok]. rewrite H, Hk2, Hk1, Ol', Or', Tl', Tr', Ul', Ur', Bl', Br'.
    rewrite Tl, Tr, Ul, Ur, Bl, Br. repeat split. cbn [andb].
    destruct ((oprec o <=? topl (norm2 l)) && (oprec o <=? topr (norm2 l))) eqn:El;
      destruct (oprec o <? topl (norm2 r)) eqn:Er.
    + rewrite Wl, Wr. apply andb_true_iff in El. destruct El as [-> ->]. rewrite Er. reflexivity.
    + rewrite Wl. destruct Wr as [-> _]. apply andb_true_iff in El. destruct El as [-> ->].
      cbn [andb]. clear - Hob. lia.
    + rewrite Wr. destruct Wl as [-> ->]. rewrite Er.
      replace (oprec o <=? 16) with true by (clear - Hob; lia). reflexivity.
    + destruct Wl as [-> ->]. destruct Wr as [-> _].
      replace (oprec o <=? 16) with true by (clear - Hob; lia). replace (oprec o <? 16) with true by (clear - Hob; lia). reflexivity.
  - destruct (IHl Hk0) as (Ol & Tl & Ul & Bl). destruct (IHr Hk) as (Or & Tr & Ur & Br). cbv zeta.
    pose proof (lprec_bounds o) as Hob.
    destruct (wrap_if_facts ((lprec o <=? topl (norm2 l)) && (lprec o <=? topr (norm2 l))) (norm2 l) Ol)
      as (Ol' & Tl' & Ul' & Bl' & Wl).
    destruct (wrap_if_facts (lprec o <? topl (norm2 r)) (norm2 r) Or) as (Or' & Tr' & Ur' & Br' & Wr).
    cbn [ok to_term2 uses_alpha2 bnot_ok]. rewrite H, Hk1, Ol', Or', Tl', Tr', Ul', Ur', Bl', Br'.
    rewrite Tl, Tr, Ul, Ur, Bl, Br. repeat split. cbn [andb].
    destruct ((lprec o <=? topl (norm2 l)) && (lprec o <=? topr (norm2 l))) eqn:El;
      destruct (lprec o <? topl (norm2 r)) eqn:Er.
    + rewrite Wl, Wr. apply andb_true_iff in El. destruct El as [-> ->]. rewrite Er. reflexivity.
    + rewrite Wl. destruct Wr as [-> _]. apply andb_true_iff in El. destruct El as [-> ->].
      cbn [andb]. clear - Hob. lia.
    + rewrite Wr. destruct Wl as [-> ->]. rewrite Er.
      replace (lprec o <=? 16) with true by (clear - Hob; lia). reflexivity.
    + destruct Wl as [-> ->]. destruct Wr as [-> _].
      replace (lprec o <=? 16) with true by (clear - Hob; lia). replace (lprec o <? 16) with true by (clear - Hob; lia). reflexivity.
  - destruct (IHc Hk1) as (Oc & Tc & Uc & Bc). destruct (IHa Hk0) as (Oa & Ta & Ua & Ba).
    destruct (IHb Hk) as (Ob & Tb & Ub & Bb). cbv zeta.
    destruct (wrap_if_facts (2 <=? topr (norm2 c)) (norm2 c) Oc) as (Oc' & Tc' & Uc' & Bc' & Wc).
    cbn [ok to_term2 uses_alpha2 bnot_ok].
    rewrite H, Hk4, Hk3, Hk2, Oc', Oa, Ob, Tc', Uc', Bc', Tc, Ta, Tb, Uc, Ua, Ub, Bc, Ba, Bb.
    repeat split. cbn [andb]. destruct (2 <=? topr (norm2 c)) eqn:E.
    + rewrite Wc. exact E.
    + destruct Wc as [_ ->]. reflexivity.
  - destruct (IH Hk) as (O & T & Ua & Bn). cbn [ok to_term2 uses_alpha2 bnot_ok].
    rewrite H, Hk1, Hk0, O, T, Bn. auto.
  - cbn [ok]. rewrite H, Hk1, Hk0, Hk. auto.
Qed.

(* no parentheses are added to a tree that is already well formed *)
Lemma norm2_id t : ok t = true -> norm2 t = t.
Proof.
  induction t as [z|s1 s2 t IH|u s t IH|o s1 s2 l IHl r IHr|o s1 s2 l IHl r IHr
                 |s1 s2 s3 s4 c IHc a IHa b IHb|f s1 s2 s3 t IH|ip fp es ed]; cbn [ok norm2]; intros H; split_ands H.
  - reflexivity.
  - rewrite (IH Hk). reflexivity.
  - rewrite (IH Hk0). cbv zeta. rewrite Hk. reflexivity.
  - rewrite (IHl Hk3), (IHr Hk2). cbv zeta. rewrite Hk1, Hk0, Hk. reflexivity.
  - rewrite (IHl Hk3), (IHr Hk2). cbv zeta. rewrite Hk1, Hk0, Hk. reflexivity.
  - rewrite (IHc Hk2), (IHa Hk1), (IHb Hk0). cbv zeta. rewrite Hk. reflexivity.
  - rewrite (IH Hk). reflexivity.
  - reflexivity.
Qed.

Lemma ok_sok t : ok t = true -> sok t = true.
Proof.
  induction t as [z|s1 s2 t IH|u s t IH|o s1 s2 l IHl r IHr|o s1 s2 l IHl r IHr
                 |s1 s2 s3 s4 c IHc a IHa b IHb|f s1 s2 s3 t IH|ip fp es ed]; cbn [ok sok]; intros H; split_ands H.
  - rewrite H, Hk. reflexivity.
  - rewrite H, Hk0, (IH Hk). reflexivity.
  - rewrite H, (IH Hk0). reflexivity.
  - rewrite H, Hk5, Hk4, (IHl Hk3), (IHr Hk2). reflexivity.
  - rewrite H, Hk4, (IHl Hk3), (IHr Hk2). reflexivity.
  - rewrite H, Hk5, Hk4, Hk3, (IHc Hk2), (IHa Hk1), (IHb Hk0). reflexivity.
  - rewrite H, Hk1, Hk0, (IH Hk). reflexivity.
  - rewrite H, Hk1, Hk0, Hk. reflexivity.
Qed.

Definition render2_c (t : tree2) : str := render2 (norm2 t).

(* the final form: EVERY tree of the fragment (literals in range, legal spacing), rendered with the
   parentheses the grammar requires in addition to its own, evaluates to what the reference
   evaluator says about the tree *)
Theorem expr_eval_tree2_c : forall ia ib exec st t,
  sok t = true -> bnot_ok t = true -> (uses_alpha2 t = true -> ib_ok2 ib) ->
  expr_eval ia ib exec st (VStr (render2_c t)) = (st, res_value (eval_ast (to_term2 t))).
Proof.
  intros ia ib exec st t Hs Hb Hal. destruct (norm2_facts t Hs) as (O & T & Ua & Bn).
  unfold render2_c. rewrite expr_eval_tree2; [|exact O|rewrite Bn; exact Hb|rewrite Ua; exact Hal].
  rewrite T. reflexivity.
Qed.
Print Assumptions expr_eval_tree2_c.

Corollary expr_eval_tree2_c_std : forall exec st t, sok t = true -> bnot_ok t = true ->
  expr_eval (Model.Commands.u_alnum Model.Unicode.std_uni) (Model.Commands.u_alpha Model.Unicode.std_uni)
            exec st (VStr (render2_c t)) = (st, res_value (eval_ast (to_term2 t))).
Proof. intros exec st t Hs Hb. apply expr_eval_tree2_c; [exact Hs|exact Hb|intros _; exact std_ib_ok2]. Qed.
Print Assumptions expr_eval_tree2_c_std.
Print Assumptions norm2_facts.
Print Assumptions norm2_id.

(* ====================================================================================== *)
(* 7. trees without floating-point values, the stages, examples                            *)
(* ====================================================================================== *)

(* integers in, integer out *)
Lemma apply_binop_int op x y v : apply_binop op (DInt x) (DInt y) = Ok v -> is_int v = true.
Proof.
  unfold apply_binop.
  repeat split_op op; tok_tests;
    cbn [orb andb negb is_string to_flt expr_as_str]; cbv beta iota;
    unfold i64_result, illegal_type, err, d_bool; intros H;
    repeat match type of H with
           | context [if ?c then _ else _] => destruct c
           | context [match ?c with _ => _ end] => destruct c
           end;
    try discriminate; injection H as <-; reflexivity.
Qed.

(* no double() and no floating-point literal: every value is an integer *)
Fixpoint int_only (t : tree2) : bool :=
  match t with
  | L _ => true
  | P _ _ t => int_only t
  | U _ _ t => int_only t
  | B _ _ _ l r => int_only l && int_only r
  | A _ _ _ l r => int_only l && int_only r
  | Q _ _ _ _ c a b => int_only c && int_only a && int_only b
  | Fn f _ _ _ t => match f with FDouble => false | _ => int_only t end
  | F _ _ _ _ => false
  end.

Definition int_res (r : res datum) : Prop := match r with Ok v => is_int v = true | _ => True end.

Lemma ev2_int t : int_only t = true -> int_res (ev2 t).
Proof.
  induction t as [z|s1 s2 t IH|u s t IH|o s1 s2 l IHl r IHr|o s1 s2 l IHl r IHr
                 |s1 s2 s3 s4 c IHc a IHa b IHb|f s1 s2 s3 t IH|ip fp es ed]; cbn [int_only ev2]; intros H;
    split_ands H.
  - reflexivity.
  - auto.
  - specialize (IH H). destruct (ev2 t) as [v|e|p|]; try exact I. cbn [int_res] in IH.
    destruct v as [z|x|s0]; try discriminate. rewrite spec_unary_eq.
    destruct u; cbn [unary_spec int_res is_int]; try reflexivity.
    destruct (in_i64 (- z)); cbn [int_res is_int err]; [reflexivity|exact I].
  - specialize (IHl H). specialize (IHr Hk).
    destruct (ev2 l) as [va|e|p|]; try exact I. destruct (ev2 r) as [vb|e|p|]; try exact I.
    cbn [int_res] in IHl, IHr. destruct va as [x|?|?]; try discriminate. destruct vb as [y|?|?]; try discriminate.
    destruct (apply_binop (tok_of o) (DInt x) (DInt y)) as [v|e|p|] eqn:E; try exact I.
    cbn [int_res]. eapply apply_binop_int; exact E.
  - destruct (ev2 l) as [va|e|p|]; try exact I. destruct (truth va) as [ta|e|p|]; try exact I.
    destruct (is_and o && negb ta); [reflexivity|].
    destruct (negb (is_and o) && ta); [reflexivity|].
    destruct (ev2 r) as [vb|e|p|]; try exact I. destruct (truth vb) as [tb|e|p|]; try exact I.
    reflexivity.
  - specialize (IHa Hk0). specialize (IHb Hk).
    destruct (ev2 c) as [vc|e|p|]; try exact I. destruct (truth vc) as [tc|e|p|]; try exact I.
    destruct tc; assumption.
  - destruct f; try discriminate; specialize (IH H);
      (destruct (ev2 t) as [v|e|p|]; try exact I; cbn [int_res] in IH;
       destruct v as [z|x|s]; try discriminate; unfold call_func; cbn [fstr]; name_tests; cbv iota;
       repeat match goal with |- context [if ?c then _ else _] => destruct c end;
       cbn [int_res is_int err]; try reflexivity; exact I).
  - discriminate.
Qed.

Lemma int_only_bnot_ok t : int_only t = true -> bnot_ok t = true.
Proof.
  induction t as [z|s1 s2 t IH|u s t IH|o s1 s2 l IHl r IHr|o s1 s2 l IHl r IHr
                 |s1 s2 s3 s4 c IHc a IHa b IHb|f s1 s2 s3 t IH|ip fp es ed]; cbn [int_only bnot_ok]; intros H;
    split_ands H.
  - reflexivity.
  - auto.
  - rewrite (IH H). pose proof (ev2_int t H) as Hi. destruct u; try reflexivity.
    destruct (ev2 t) as [v|e|p|]; try reflexivity. destruct v; try reflexivity. discriminate.
  - rewrite (IHl H), (IHr Hk). reflexivity.
  - rewrite (IHl H), (IHr Hk). reflexivity.
  - rewrite (IHc H), (IHa Hk0), (IHb Hk). reflexivity.
  - destruct f; try discriminate; auto.
  - reflexivity.
Qed.

(* without double() and floating-point literals the agreement with the reference evaluator is exact, messages included *)
Theorem expr_eval_tree2_int : forall ia ib exec st t,
  ok t = true -> int_only t = true -> (uses_alpha2 t = true -> ib_ok2 ib) ->
  expr_eval ia ib exec st (VStr (render2 t)) = (st, res_value (eval_ast (to_term2 t))).
Proof.
  intros ia ib exec st t Hok Hi Hal. apply expr_eval_tree2; [exact Hok|apply int_only_bnot_ok, Hi|exact Hal].
Qed.
Print Assumptions expr_eval_tree2_int.

(* ---- the stages of the task, each as a statement of its own ----
   stage 0: literals, parentheses, the twenty ordinary binary operators (ExprFacts.v), here with
            redundant parentheses and arbitrary spacing (stage 4);
   stage 1: + unary - + ! ~          stage 2: + && ||          stage 3: + ?:
   stage 5: + abs() double() int() round() *)
Fixpoint level (t : tree2) : nat :=
  match t with
  | L _ => 0
  | P _ _ t => level t
  | U _ _ t => Nat.max 1 (level t)
  | B _ _ _ l r => Nat.max (level l) (level r)
  | A _ _ _ l r => Nat.max 2 (Nat.max (level l) (level r))
  | Q _ _ _ _ c a b => Nat.max 3 (Nat.max (level c) (Nat.max (level a) (level b)))
  | Fn _ _ _ _ _ => 5
  | F _ _ _ _ => 5
  end.

Lemma level_int_only t : (level t <= 3)%nat -> int_only t = true.
Proof.
  induction t as [z|s1 s2 t IH|u s t IH|o s1 s2 l IHl r IHr|o s1 s2 l IHl r IHr
                 |s1 s2 s3 s4 c IHc a IHa b IHb|f s1 s2 s3 t IH|ip fp es ed]; cbn [level int_only]; intros H.
  - reflexivity.
  - auto.
  - apply IH. lia.
  - rewrite IHl, IHr by lia. reflexivity.
  - rewrite IHl, IHr by lia. reflexivity.
  - rewrite IHc, IHa, IHb by lia. reflexivity.
  - lia.
  - lia.
Qed.

Local Notation std_expr_eval :=
  (expr_eval (Model.Commands.u_alnum Model.Unicode.std_uni) (Model.Commands.u_alpha Model.Unicode.std_uni)).

Theorem stage_le3_std : forall exec st t, (level t <= 3)%nat -> ok t = true ->
  std_expr_eval exec st (VStr (render2 t)) = (st, res_value (eval_ast (to_term2 t))).
Proof.
  intros exec st t Hl Hok. apply expr_eval_tree2_int; [exact Hok|apply level_int_only, Hl|].
  intros _. exact std_ib_ok2.
Qed.
Print Assumptions stage_le3_std.

(* stage 1: unary operators *)
Corollary stage1_unary_std : forall exec st t, (level t <= 1)%nat -> ok t = true ->
  std_expr_eval exec st (VStr (render2 t)) = (st, res_value (eval_ast (to_term2 t))).
Proof. intros exec st t Hl. apply stage_le3_std. lia. Qed.
Print Assumptions stage1_unary_std.

(* stage 2: && and || with short circuit *)
Corollary stage2_andor_std : forall exec st t, (level t <= 2)%nat -> ok t = true ->
  std_expr_eval exec st (VStr (render2 t)) = (st, res_value (eval_ast (to_term2 t))).
Proof. intros exec st t Hl. apply stage_le3_std. lia. Qed.
Print Assumptions stage2_andor_std.

(* stage 3: ?: *)
Corollary stage3_cond_std : forall exec st t, (level t <= 3)%nat -> ok t = true ->
  std_expr_eval exec st (VStr (render2 t)) = (st, res_value (eval_ast (to_term2 t))).
Proof. intros exec st t Hl. apply stage_le3_std. exact Hl. Qed.
Print Assumptions stage3_cond_std.

(* stage 4 (redundant parentheses, arbitrary spacing) is part of every statement above: [P] may
   occur anywhere and every constructor carries its own runs of spaces and tabs;
   [expr_eval_tree2_ws_std] adds leading and trailing white space.
   stage 5: math functions: [expr_eval_tree2_std] (all trees), [expr_eval_tree2_int] (no double) *)

(* ---- examples ---- *)

(* the theorem applied to the examples of section 1 (no computation of the interpreter) *)
Example ex1_by_theorem : forall exec st,
  std_expr_eval exec st (VStr (lit "-(1 + 2) * 3")) = (st, Ok (VInt (-9))).
Proof. intros exec st. exact (stage1_unary_std exec st ex1 ltac:(vm_compute; lia) eq_refl). Qed.

Example ex2_by_theorem : forall exec st,
  std_expr_eval exec st (VStr (lit "1 || (2 && 0)")) = (st, Ok (VInt 1)).
Proof. intros exec st. exact (stage2_andor_std exec st ex2 ltac:(vm_compute; lia) eq_refl). Qed.

Example ex3_by_theorem : forall exec st,
  std_expr_eval exec st (VStr (lit "1 ? 2 : 0 ? 3 : 4")) = (st, Ok (VInt 2)).
Proof. intros exec st. exact (stage3_cond_std exec st ex3 ltac:(vm_compute; lia) eq_refl). Qed.

Example ex4_by_theorem : forall exec st,
  std_expr_eval exec st (VStr (lit "abs( 	--5-round (7 ))")) = (st, Ok (VInt 2)).
Proof. intros exec st. exact (expr_eval_tree2_std exec st ex4 eq_refl eq_refl). Qed.

(* parentheses are inserted where needed, and only there *)
Definition ex5 : tree2 :=
  B OMul sp1 sp1 (A LOr sp1 sp1 (L 1) (L 0)) (U UNeg [] (Q sp1 sp1 sp1 sp1 (Q sp1 sp1 sp1 sp1 (L 0) (L 1) (L 2)) (L 3) (B OAdd sp1 sp1 (L 4) (L 5)))).

Example ex5_render :
  render2_c ex5 = lit "(1 || 0) * -((0 ? 1 : 2) ? 3 : 4 + 5)" /\ sok ex5 = true /\ ok ex5 = false /\
  (forall exec st, std_expr_eval exec st (VStr (render2_c ex5)) = (st, Ok (VInt (-3)))).
Proof.
  split; [reflexivity|]. split; [reflexivity|]. split; [reflexivity|]. intros exec st.
  exact (expr_eval_tree2_c_std exec st ex5 eq_refl eq_refl).
Qed.

(* short circuit: the skipped operand may contain a division by zero *)
Example skipped_operand_not_evaluated : forall exec st,
  std_expr_eval exec st (VStr (lit "0 && 1 / 0")) = (st, Ok (VInt 0)) /\
  std_expr_eval exec st (VStr (lit "1 || 1 / 0")) = (st, Ok (VInt 1)) /\
  std_expr_eval exec st (VStr (lit "1 ? 7 : 1 / 0")) = (st, Ok (VInt 7)).
Proof.
  intros exec st. split; [|split].
  - exact (stage2_andor_std exec st (A LAnd sp1 sp1 (L 0) (B ODiv sp1 sp1 (L 1) (L 0)))
             ltac:(vm_compute; lia) eq_refl).
  - exact (stage2_andor_std exec st (A LOr sp1 sp1 (L 1) (B ODiv sp1 sp1 (L 1) (L 0)))
             ltac:(vm_compute; lia) eq_refl).
  - exact (stage3_cond_std exec st (Q sp1 sp1 sp1 sp1 (L 1) (L 7) (B ODiv sp1 sp1 (L 1) (L 0)))
             ltac:(vm_compute; lia) eq_refl).
Qed.

(* floating-point literals and functions *)
Definition ex6 : tree2 :=
  B OAdd sp1 sp1 (F (lit "1") (lit "5") [] [])
    (B OMul [] [] (L 2) (F (lit "2") (lit "50") (lit "e-") (lit "1"))).
Definition ex7 : tree2 :=
  Q sp1 sp1 sp1 sp1 (A LAnd sp1 sp1 (F (lit "0") (lit "0") [] []) (L 1))
    (L 1) (Fn FInt [] [] [] (B OMul sp1 sp1 (F (lit "2") (lit "5") (lit "E") (lit "0")) (L 3))).

Example ex6_by_theorem : forall exec st,
  std_expr_eval exec st (VStr (lit "1.5 + 2*2.50e-1")) = (st, res_value (eval_ast (to_term2 ex6))) /\
  res_value (eval_ast (to_term2 ex6)) = Ok (VFlt (f_of_Z 2)).
Proof.
  intros exec st. split; [|vm_compute; reflexivity].
  exact (expr_eval_tree2_final exec st ex6 eq_refl).
Qed.

Example ex7_by_theorem : forall exec st,
  std_expr_eval exec st (VStr (lit "0.0 && 1 ? 1 : int(2.5E0 * 3)")) = (st, Ok (VInt 7)).
Proof. intros exec st. exact (expr_eval_tree2_final exec st ex7 eq_refl). Qed.

(* the one place where the exact statement fails: the two evaluators word the error differently *)
Example bnot_float_counterexample : forall exec st,
  let t := U UBnot [] (Fn FDouble [] [] [] (L 1)) in
  ok t = true /\ bnot_ok t = false /\
  std_expr_eval exec st (VStr (render2 t)) =
    (st, err (lit "can't use floating-point value as operand of ""~""")) /\
  res_value (eval_ast (to_term2 t)) = err (lit "type").
Proof. intros exec st. cbv zeta. repeat split. Qed.
