(* ValueFacts.v — C04: a value built from typed data produces a string that converts back to
   equal data; typed views are functions of the string.

   NOTE on [Print Assumptions]: the model constant [as_str] (Model/Value.v) calls [fmt_float]
   (Model/Float.v, built on Flocq), and [Print Assumptions as_str] already lists the four
   standard-library axioms of Coq's Reals / Flocq (sig_not_dec, sig_forall_dec,
   functional_extensionality_dep, classic).  Hence every statement that mentions [as_str],
   [v_eqb], [v_as_bool], [v_as_dict] ... lists exactly those four, inherited from the MODEL
   definitions, not from the proofs below (no proof here uses a float fact).  The statements
   that do not mention [as_str] ([int_roundtrip], [str_as_list_roundtrip], [get_bool_01],
   [show_N_spec]) are "Closed under the global context". *)
From Molt Require Import Model.Base Model.Tokenizer Model.ListSyn Model.Float Model.Value.
From Molt Require Import Proofs.BaseFacts Proofs.ListSynFacts.
From Coq Require Import Lia ZifyBool ZifyN.

Arguments N.eqb : simpl never.
Arguments N.leb : simpl never.
Arguments N.ltb : simpl never.

Local Open Scope N_scope.

(* ---------- trim ---------- *)

Definition not_white (c : char) : bool := negb (is_whitespace c).

Lemma skip_while_head_false (p : char -> bool) s :
  match s with [] => True | c :: _ => p c = false end -> skip_while p s = s.
Proof. destruct s as [|c r]; intros H; [reflexivity|]. cbn [skip_while]. rewrite H. reflexivity. Qed.

Lemma trim_no_white s : forallb not_white s = true -> trim s = s.
Proof.
  intros H. unfold trim, trim_start, trim_end.
  assert (Hin : forall c, In c s -> is_whitespace c = false).
  { intros c Hc. rewrite forallb_forall in H. specialize (H c Hc). unfold not_white in H.
    destruct (is_whitespace c); [discriminate|reflexivity]. }
  rewrite (skip_while_head_false is_whitespace s).
  2:{ destruct s as [|c r]; [exact I|]. apply Hin. left. reflexivity. }
  rewrite (skip_while_head_false is_whitespace (rev s)).
  2:{ destruct (rev s) as [|c r] eqn:E; [exact I|]. apply Hin. apply in_rev. rewrite E. left. reflexivity. }
  apply rev_involutive.
Qed.

Lemma digit_not_white c : is_digit10 c = true -> not_white c = true.
Proof. unfold not_white, is_digit10, is_whitespace. lia. Qed.

Lemma digits_not_white s : forallb is_digit10 s = true -> forallb not_white s = true.
Proof.
  induction s as [|c r IH]; [reflexivity|]. cbn [forallb]. intros H.
  apply andb_true_iff in H. destruct H as [H1 H2].
  rewrite (digit_not_white c H1), (IH H2). reflexivity.
Qed.

(* ---------- show_N ---------- *)

Lemma digits_val_snoc ds d : digits_val 10 (ds ++ [d]) = digits_val 10 ds * 10 + digit_val d.
Proof. unfold digits_val. rewrite fold_left_app. reflexivity. Qed.

Lemma digit_char_facts m : m < 10 -> is_digit10 (48 + m) = true /\ digit_val (48 + m) = m.
Proof.
  intros H. assert (Hd : is_digit10 (48 + m) = true) by (unfold is_digit10; lia).
  split; [exact Hd|]. unfold digit_val. rewrite Hd. lia.
Qed.

(* with enough fuel, show_pos_fuel pushes a non-empty block of decimal digits of value n *)
Lemma show_pos_fuel_spec : forall f n acc, n < 2 ^ N.of_nat (S f) ->
  exists ds, show_pos_fuel (S f) n acc = ds ++ acc /\ ds <> [] /\
             forallb is_digit10 ds = true /\ digits_val 10 ds = n.
Proof.
  induction f as [|f IH]; intros n acc Hn.
  - cbn [show_pos_fuel].
    assert (Hq : n / 10 = 0).
    { apply N.div_small. change (2 ^ N.of_nat 1) with 2 in Hn. lia. }
    rewrite Hq. change (0 =? 0) with true. cbn iota.
    assert (Hm : n mod 10 < 10) by (apply N.mod_lt; lia).
    destruct (digit_char_facts _ Hm) as [Hd Hv].
    exists [48 + n mod 10]. split; [reflexivity|]. split; [discriminate|].
    split; [cbn [forallb]; rewrite Hd; reflexivity|].
    unfold digits_val. cbn [fold_left]. rewrite Hv.
    pose proof (N.div_mod' n 10) as E. rewrite Hq in E. lia.
  - remember (S f) as f' eqn:Ef. cbn [show_pos_fuel].
    assert (Hm : n mod 10 < 10) by (apply N.mod_lt; lia).
    destruct (digit_char_facts _ Hm) as [Hd Hv].
    pose proof (N.div_mod' n 10) as E.
    destruct (n / 10 =? 0) eqn:Hq.
    + apply N.eqb_eq in Hq.
      exists [48 + n mod 10]. split; [reflexivity|]. split; [discriminate|].
      split; [cbn [forallb]; rewrite Hd; reflexivity|].
      unfold digits_val. cbn [fold_left]. rewrite Hv. rewrite Hq in E. lia.
    + subst f'.
      assert (Hlt : n / 10 < 2 ^ N.of_nat (S f)).
      { replace (N.of_nat (S (S f))) with (N.succ (N.of_nat (S f))) in Hn by lia.
        rewrite N.pow_succ_r' in Hn.
        apply N.div_lt_upper_bound; [lia|]. lia. }
      destruct (IH (n / 10) ((48 + n mod 10) :: acc) Hlt) as [ds [E1 [E2 [E3 E4]]]].
      exists (ds ++ [48 + n mod 10]). split.
      { rewrite E1. rewrite <- app_assoc. reflexivity. }
      split. { destruct ds; discriminate. }
      split. { rewrite forallb_app, E3. cbn [forallb]. rewrite Hd. reflexivity. }
      rewrite digits_val_snoc, E4, Hv. lia.
Qed.

Lemma show_N_spec n :
  show_N n <> [] /\ forallb is_digit10 (show_N n) = true /\ digits_val 10 (show_N n) = n.
Proof.
  unfold show_N.
  assert (Hn : n < 2 ^ N.of_nat (S (N.to_nat (N.log2 n)))).
  { replace (N.of_nat (S (N.to_nat (N.log2 n)))) with (N.succ (N.log2 n)) by lia.
    destruct (N.eq_dec n 0) as [->|Hz]; [reflexivity|].
    apply N.log2_spec. lia. }
  destruct (show_pos_fuel_spec _ n [] Hn) as [ds [E1 [E2 [E3 E4]]]].
  rewrite E1, app_nil_r. auto.
Qed.

Print Assumptions show_N_spec.

(* ---------- get_int ---------- *)

Lemma digits_no_hex_prefix s : forallb is_digit10 s = true -> starts_with [48; 120] s = false.
Proof.
  destruct s as [|a [|b r]]; intros H; cbn [starts_with]; try reflexivity.
  - apply andb_false_r.
  - cbn [forallb] in H. apply andb_true_iff in H. destruct H as [_ H].
    apply andb_true_iff in H. destruct H as [H _].
    assert (Hb : (120 =? b) = false) by (unfold is_digit10 in H; lia).
    rewrite Hb. cbn [andb]. apply andb_false_r.
Qed.

Lemma get_int_digits ds :
  ds <> [] -> forallb is_digit10 ds = true ->
  get_int ds = (let z := Z.of_N (digits_val 10 ds) in if in_i64 z then Some z else None).
Proof.
  intros Hne Hd. unfold get_int. rewrite (trim_no_white ds (digits_not_white ds Hd)).
  destruct ds as [|c r] eqn:Eds; [congruence|]. rewrite <- Eds in *.
  assert (Hc : is_digit10 c = true).
  { rewrite Eds in Hd. cbn [forallb] in Hd. apply andb_true_iff in Hd. tauto. }
  assert (H1 : (c =? c_plus) = false) by (unfold is_digit10, c_plus in *; lia).
  assert (H2 : (c =? c_minus) = false) by (unfold is_digit10, c_minus in *; lia).
  rewrite H1, H2. rewrite (digits_no_hex_prefix ds Hd).
  unfold all_digits. rewrite Hd. rewrite Eds at 1. reflexivity.
Qed.

Lemma get_int_minus_digits ds :
  ds <> [] -> forallb is_digit10 ds = true ->
  get_int (c_minus :: ds) =
  (let z := Z.opp (Z.of_N (digits_val 10 ds)) in if in_i64 z then Some z else None).
Proof.
  intros Hne Hd. unfold get_int.
  rewrite (trim_no_white (c_minus :: ds)).
  2:{ cbn [forallb]. rewrite (digits_not_white ds Hd). reflexivity. }
  change (c_minus =? c_plus) with false. change (c_minus =? c_minus) with true. cbn iota.
  rewrite (digits_no_hex_prefix ds Hd).
  unfold all_digits. rewrite Hd. destruct ds as [|c r]; [congruence|]. reflexivity.
Qed.

(* every i64, including i64::MIN, survives printing and re-reading *)
Theorem int_roundtrip : forall z : Z, in_i64 z = true -> get_int (show_Z z) = Some z.
Proof.
  intros z Hz. destruct z as [|p|p]; cbn [show_Z].
  - vm_compute. reflexivity.
  - destruct (show_N_spec (Npos p)) as [H1 [H2 H3]].
    rewrite (get_int_digits _ H1 H2), H3. cbn zeta.
    change (Z.of_N (N.pos p)) with (Z.pos p). rewrite Hz. reflexivity.
  - destruct (show_N_spec (Npos p)) as [H1 [H2 H3]].
    rewrite (get_int_minus_digits _ H1 H2), H3. cbn zeta.
    change (Z.opp (Z.of_N (N.pos p))) with (Z.neg p). rewrite Hz. reflexivity.
Qed.
Print Assumptions int_roundtrip.

Theorem int_value_roundtrip : forall z, in_i64 z = true -> v_as_int (VStr (as_str (VInt z))) = inr z.
Proof.
  intros z Hz. cbn [v_as_int as_str]. rewrite (int_roundtrip z Hz). reflexivity.
Qed.
Print Assumptions int_value_roundtrip.

Lemma get_bool_01 : get_bool [49] = Some true /\ get_bool [48] = Some false.
Proof. split; vm_compute; reflexivity. Qed.
Print Assumptions get_bool_01.

Theorem bool_value_roundtrip : forall b, v_as_bool (VStr (as_str (VBool b))) = inr b.
Proof. intros [|]; vm_compute; reflexivity. Qed.
Print Assumptions bool_value_roundtrip.

(* axioms of the model definition itself, for comparison with the theorems below *)
Print Assumptions as_str.

(* ---------- lists ---------- *)

Lemma str_as_list_roundtrip l : str_as_list (list_to_string l) = inr (map VStr l).
Proof. unfold str_as_list. rewrite list_roundtrip. reflexivity. Qed.
Print Assumptions str_as_list_roundtrip.

(* a list value of arbitrary element values: its string parses back to the elements' strings *)
Theorem list_value_roundtrip : forall l : list value,
  v_as_list (VStr (as_str (VList l))) = inr (map (fun v => VStr (as_str v)) l).
Proof.
  intros l. cbn [v_as_list as_str]. rewrite str_as_list_roundtrip, map_map. reflexivity.
Qed.
Print Assumptions list_value_roundtrip.

(* ---------- dictionaries ---------- *)

Fixpoint flat_strs (d : list (value * value)) : list str :=
  match d with
  | [] => []
  | (k, v) :: r => as_str k :: as_str v :: flat_strs r
  end.

Lemma as_str_dict d : as_str (VDict d) = list_to_string (flat_strs d).
Proof.
  reflexivity.
Qed.

Lemma flat_strs_even d : Nat.even (length (flat_strs d)) = true.
Proof. induction d as [|[k v] r IH]; [reflexivity|]. cbn [flat_strs length Nat.even]. exact IH. Qed.

(* the string form of a dictionary is an even-length list *)
Theorem dict_string_even : forall d,
  exists l, get_list (as_str (VDict d)) = Some (inr l) /\ Nat.even (length l) = true.
Proof.
  intros d. exists (flat_strs d). rewrite as_str_dict, list_roundtrip.
  split; [reflexivity|apply flat_strs_even].
Qed.
Print Assumptions dict_string_even.

Definition key_str (kv : value * value) : str := as_str (fst kv).

Lemma dict_insert_fresh : forall d k v,
  ~ In (as_str k) (map key_str d) -> dict_insert d k v = d ++ [(k, v)].
Proof.
  induction d as [|[k' v'] r IH]; intros k v Hn; [reflexivity|].
  cbn [dict_insert]. cbn [map In] in Hn. unfold key_str at 1 in Hn. cbn [fst] in Hn.
  destruct (v_eqb k' k) eqn:E.
  - unfold v_eqb in E. apply str_eqb_eq in E. exfalso. apply Hn. left. exact E.
  - rewrite IH; [reflexivity|]. intros Hin. apply Hn. right. exact Hin.
Qed.

Definition str_pair (kv : value * value) : value * value :=
  (VStr (as_str (fst kv)), VStr (as_str (snd kv))).

Lemma list_to_dict_acc_nodup : forall d acc,
  NoDup (map key_str acc ++ map key_str d) ->
  list_to_dict_acc (map VStr (flat_strs d)) acc = acc ++ map str_pair d.
Proof.
  induction d as [|[k v] r IH]; intros acc Hnd.
  - cbn [flat_strs map list_to_dict_acc]. rewrite app_nil_r. reflexivity.
  - cbn [flat_strs map list_to_dict_acc].
    assert (Hfresh : ~ In (as_str (VStr (as_str k))) (map key_str acc)).
    { cbn [as_str]. intros Hin. cbn [map] in Hnd. apply NoDup_remove_2 in Hnd.
      apply Hnd. apply in_or_app. left. exact Hin. }
    rewrite (dict_insert_fresh acc _ (VStr (as_str v)) Hfresh).
    rewrite IH.
    + rewrite <- app_assoc. reflexivity.
    + rewrite map_app. cbn [map]. rewrite <- app_assoc. exact Hnd.
Qed.

(* a dictionary with pairwise distinct keys (distinct as strings) *)
Theorem dict_value_roundtrip : forall d : list (value * value),
  NoDup (map (fun kv => as_str (fst kv)) d) ->
  v_as_dict (VStr (as_str (VDict d))) =
  inr (map (fun kv => (VStr (as_str (fst kv)), VStr (as_str (snd kv)))) d).
Proof.
  intros d Hnd. unfold v_as_dict. change (as_str (VStr ?s)) with s.
  rewrite as_str_dict, str_as_list_roundtrip. rewrite map_length, flat_strs_even.
  unfold list_to_dict. rewrite list_to_dict_acc_nodup; [reflexivity|exact Hnd].
Qed.
Print Assumptions dict_value_roundtrip.

(* ---------- typed views are functions of the string ---------- *)

Definition map_as_str_sum (r : str + list value) : str + list str :=
  match r with inl m => inl m | inr l => inr (map as_str l) end.

Theorem int_view_of_string : forall v,
  (forall f, v <> VFlt f) -> (forall z, v = VInt z -> in_i64 z = true) ->
  v_as_int v = v_as_int (VStr (as_str v)).
Proof.
  intros v Hf Hi. destruct v as [s|z|f|b|l|d].
  - reflexivity.
  - symmetry. apply int_value_roundtrip. apply Hi. reflexivity.
  - exfalso. apply (Hf f). reflexivity.
  - reflexivity.
  - reflexivity.
  - reflexivity.
Qed.
Print Assumptions int_view_of_string.

(* the documented shortcut (a numeric value used as a boolean is [<> 0]) is excluded *)
Theorem bool_view_of_string : forall v,
  (forall z, v <> VInt z) -> (forall f, v <> VFlt f) ->
  v_as_bool v = v_as_bool (VStr (as_str v)).
Proof.
  intros v Hi Hf. destruct v as [s|z|f|b|l|d].
  - reflexivity.
  - exfalso. apply (Hi z). reflexivity.
  - exfalso. apply (Hf f). reflexivity.
  - symmetry. apply bool_value_roundtrip.
  - reflexivity.
  - reflexivity.
Qed.
Print Assumptions bool_view_of_string.

Theorem list_view_of_string : forall v,
  map_as_str_sum (v_as_list v) = map_as_str_sum (v_as_list (VStr (as_str v))).
Proof.
  intros v. destruct v as [s|z|f|b|l|d]; [reflexivity .. | | reflexivity].
  rewrite list_value_roundtrip. cbn [v_as_list map_as_str_sum]. rewrite map_map. reflexivity.
Qed.
Print Assumptions list_view_of_string.

(* equality (and hashing) follow the string form *)
Theorem v_eqb_eq : forall a b, v_eqb a b = true <-> as_str a = as_str b.
Proof. intros a b. unfold v_eqb. apply str_eqb_eq. Qed.
Print Assumptions v_eqb_eq.
